// c15: drives fox's Recovery middleware (CustomRecoveryWithLogHandler with a capturing
// slog.Handler and DefaultHandleRecovery — the code path of Recovery()) over panic values x
// response progress x handler kinds/scopes x request headers, and managed transactions /
// write helpers whose function panics after every step; writes Coq case files comparing the
// observations with the model (FoxC15.Recovery/Redact/Lifecycle) and the specification
// (FoxC15.Spec).
package main

import (
	"context"
	"errors"
	"fmt"
	"io"
	"log"
	"log/slog"
	"net"
	"net/http"
	"net/http/httputil"
	"net/url"
	"os"
	"reflect"
	"runtime"
	"sort"
	"strings"
	"syscall"
	"time"

	"foxverif/hx"

	"github.com/tigerwill90/fox"
)

// ---------- Coq emitters ----------

// cb renders bytes as (S2B "...") also when they contain CR / LF / TAB (Coq string
// literals may contain them verbatim), which keeps log messages readable and small.
func cb(s string) string {
	ok := true
	for i := 0; i < len(s); i++ {
		c := s[i]
		if !(c >= 0x20 && c <= 0x7e || c == '\r' || c == '\n' || c == '\t') {
			ok = false
			break
		}
	}
	if ok {
		return "(S2B \"" + strings.ReplaceAll(s, "\"", "\"\"") + "\")"
	}
	return hx.Bytes(s)
}

func kvList(kvs [][2]string) string {
	return hx.ListOf(kvs, func(kv [2]string) string { return "(" + cb(kv[0]) + ", " + cb(kv[1]) + ")" })
}

// ---------- capturing slog.Handler ----------

type rec struct {
	level slog.Level
	msg   string
	attrs []slog.Attr
}

type world struct{ recs []rec }

type capture struct{ w *world }

func (h capture) Enabled(context.Context, slog.Level) bool { return true }
func (h capture) Handle(_ context.Context, r slog.Record) error {
	x := rec{level: r.Level, msg: r.Message}
	r.Attrs(func(a slog.Attr) bool { x.attrs = append(x.attrs, a); return true })
	h.w.recs = append(h.w.recs, x)
	return nil
}
func (h capture) WithAttrs([]slog.Attr) slog.Handler { return h }
func (h capture) WithGroup(string) slog.Handler      { return h }

// ---------- underlying writer ----------

type uw struct {
	hdr     http.Header
	wrote   bool
	status  int
	info    []int
	body    []byte
	flushes int
}

func newUW() *uw { return &uw{hdr: http.Header{}} }

func (u *uw) Header() http.Header { return u.hdr }
func (u *uw) WriteHeader(code int) {
	if u.wrote {
		return
	}
	if code >= 100 && code <= 199 && code != 101 {
		u.info = append(u.info, code)
		return
	}
	u.wrote = true
	u.status = code
}
func (u *uw) Write(b []byte) (int, error) {
	if !u.wrote {
		u.WriteHeader(200)
	}
	u.body = append(u.body, b...)
	return len(b), nil
}
func (u *uw) flush() {
	if !u.wrote {
		u.WriteHeader(200) // net/http sends the pending header when flushing
	}
	u.flushes++
}

// uwF offers http.Flusher only, uwFE offers FlushError() error (what a real net/http connection has)
type uwF struct{ *uw }

func (u uwF) Flush() { u.flush() }

type uwFE struct{ *uw }

func (u uwFE) FlushError() error { u.flush(); return nil }

var flushKinds = []string{"FNone", "FFlusher", "FFlushError"}

func (u *uw) as(kind int) http.ResponseWriter {
	switch kind {
	case 1:
		return uwF{u}
	case 2:
		return uwFE{u}
	}
	return u
}

func (u *uw) digest() string {
	ks := make([]string, 0, len(u.hdr))
	for k := range u.hdr {
		ks = append(ks, k)
	}
	sort.Strings(ks)
	var sb strings.Builder
	for _, k := range ks {
		fmt.Fprintf(&sb, "%q=%q;", k, u.hdr[k])
	}
	return fmt.Sprintf("wrote=%v status=%d info=%v hdr={%s} body=%q flushes=%d", u.wrote, u.status, u.info, sb.String(), u.body, u.flushes)
}

// ---------- panic values ----------

type etree struct {
	err error
	coq string
}

type wrapErr struct {
	msg   string
	inner error
}

func (w *wrapErr) Error() string { return w.msg }
func (w *wrapErr) Unwrap() error { return w.inner }

func leaf(msg string) etree { return etree{errors.New(msg), "ELeaf " + cb(msg)} }
func errnoLeaf(e syscall.Errno) etree {
	return etree{e, "ELeaf " + cb(e.Error())}
}
func abortLeaf() etree { return etree{http.ErrAbortHandler, "EAbort"} }
func wrap(msg string, in etree) etree {
	return etree{&wrapErr{msg, in.err}, "EWrap " + cb(msg) + " (" + in.coq + ")"}
}
func fmtWrap(ctx string, in etree) etree {
	e := fmt.Errorf(ctx+": %w", in.err)
	return etree{e, "EWrap " + cb(e.Error()) + " (" + in.coq + ")"}
}
func join(l ...etree) etree {
	es := make([]error, len(l))
	cs := make([]string, len(l))
	for i, x := range l {
		es[i], cs[i] = x.err, "("+x.coq+")"
	}
	return etree{errors.Join(es...), "EJoin " + hx.List(cs)}
}
func opErr(op string, in etree) etree {
	return etree{&net.OpError{Op: op, Err: in.err}, "EOp " + cb(op) + " (" + in.coq + ")"}
}
func opErrFull(in etree) etree {
	e := &net.OpError{Op: "write", Net: "tcp", Source: &net.TCPAddr{IP: net.IPv4(192, 0, 2, 1), Port: 8080},
		Addr: &net.TCPAddr{IP: net.IPv4(198, 51, 100, 7), Port: 51000}, Err: in.err}
	prefix := strings.TrimSuffix(e.Error(), ": "+in.err.Error())
	return etree{e, "EOp " + cb(prefix) + " (" + in.coq + ")"}
}
func sysErr(call string, in etree) etree {
	return etree{&os.SyscallError{Syscall: call, Err: in.err}, "ESys " + cb(call) + " (" + in.coq + ")"}
}

var leafMsgs = []string{"boom", "broken pipe", "Broken Pipe", "connection reset by peer", "EOF", "write: BROKEN PIPE", "i/o timeout", "connection reset"}

func genTree(r *hx.Rand, depth int) etree {
	k := r.Intn(10)
	if depth == 0 {
		k = r.Intn(3)
	}
	switch k {
	case 0:
		if r.Pct(25) {
			return abortLeaf()
		}
		return leaf(hx.Pick(r, leafMsgs))
	case 1:
		return errnoLeaf(hx.Pick(r, []syscall.Errno{syscall.EPIPE, syscall.ECONNRESET, syscall.ECONNREFUSED, syscall.ETIMEDOUT}))
	case 2:
		return leaf(hx.Pick(r, leafMsgs))
	case 3:
		return wrap(hx.Pick(r, []string{"ctx", "handler failed", "broken pipe (not really)"}), genTree(r, depth-1))
	case 4:
		return fmtWrap("wrapped", genTree(r, depth-1))
	case 5:
		n := r.Range(1, 3)
		var l []etree
		for i := 0; i < n; i++ {
			l = append(l, genTree(r, depth-1))
		}
		return join(l...)
	case 6, 7:
		return opErr(hx.Pick(r, []string{"write", "read", "dial"}), genTree(r, depth-1))
	default:
		return sysErr(hx.Pick(r, []string{"write", "read", "Write", "sendfile"}), genTree(r, depth-1))
	}
}

type customVal struct{ A, B int }
type customPtr struct{ s string }

type pv struct {
	val   any
	coq   string // Coq term of type pval
	class string
	human string
}

func errPV(t etree, class string) pv {
	return pv{t.err, "PErr (" + t.coq + ")", class, fmt.Sprintf("%T(%q)", t.err, t.err.Error())}
}

func runtimeErr() error {
	var e error
	func() {
		defer func() { e = recover().(error) }()
		var m map[string]int
		m["x"] = 1
	}()
	return e
}

var nilPanicText = (&runtime.PanicNilError{}).Error()
var customPtrs = []*customPtr{{"p0"}, {"p1"}}

func curatedPVs() []pv {
	epipe := sysErr("write", errnoLeaf(syscall.EPIPE))
	ereset := sysErr("read", errnoLeaf(syscall.ECONNRESET))
	rt := runtimeErr()
	return []pv{
		errPV(leaf("boom"), "error"),
		errPV(fmtWrap("ctx", leaf("boom")), "wrapped-error"),
		errPV(wrap("outer", wrap("inner", leaf("boom"))), "wrapped-error"),
		errPV(join(leaf("a"), leaf("b")), "joined-error"),
		{"a string panic", "PStr " + cb("a string panic"), "string", `string("a string panic")`},
		{nil, "PErr (ELeaf " + cb(nilPanicText) + ")", "nil", "panic(nil)"},
		{customVal{1, 2}, "PCustom " + hx.N(0), "custom", "customVal{1,2}"},
		{customPtrs[1], "PCustom " + hx.N(1), "custom", "*customPtr"},
		{42, "PInt " + hx.Z(42), "int", "int(42)"},
		{rt, "PErr (ELeaf " + cb(rt.Error()) + ")", "runtime-error", "runtime.Error(nil map write)"},
		errPV(abortLeaf(), "abort"),
		errPV(fmtWrap("wrapped", abortLeaf()), "abort-wrapped"),
		errPV(join(leaf("boom"), abortLeaf()), "abort-wrapped"),
		errPV(opErr("write", abortLeaf()), "abort-wrapped"),
		errPV(opErr("write", epipe), "operror-broken-pipe"),
		errPV(opErr("read", ereset), "operror-conn-reset"),
		errPV(opErrFull(epipe), "operror-broken-pipe"),
		errPV(opErr("write", sysErr("write", errnoLeaf(syscall.ECONNREFUSED))), "operror-other"),
		errPV(opErr("write", errnoLeaf(syscall.EPIPE)), "operror-no-syscallerror"),
		errPV(fmtWrap("handler", opErr("write", epipe)), "wrapped-operror-broken-pipe"),
		errPV(opErr("write", fmtWrap("ctx", epipe)), "operror-broken-pipe"),
		errPV(opErr("write", join(leaf("boom"), epipe)), "operror-broken-pipe"),
		errPV(opErr("write", join(sysErr("write", errnoLeaf(syscall.ETIMEDOUT)), epipe)), "operror-other"),
		errPV(opErr("write", sysErr("Write", leaf("BROKEN PIPE"))), "operror-broken-pipe"),
		errPV(opErr("write", sysErr("broken pipe", errnoLeaf(syscall.EINVAL))), "operror-broken-pipe"),
		errPV(opErr("write", leaf("broken pipe")), "operror-no-syscallerror"),
		errPV(epipe, "syscallerror-alone"),
	}
}

func customID(v any) (uint64, bool) {
	switch x := v.(type) {
	case customVal:
		return 0, true
	case *customPtr:
		for i, p := range customPtrs {
			if p == x {
				return uint64(i), true
			}
		}
	}
	return 0, false
}

func same(a, b any) (eq bool) {
	defer func() {
		if recover() != nil {
			eq = false
		}
	}()
	return reflect.TypeOf(a) == reflect.TypeOf(b) && a == b
}

// ---------- scripts and plans ----------

type act struct {
	header bool
	code   int
	body   string
	flush  bool
	fkind  int // filled when served: what the underlying writer offers
}

func (a act) coq() string {
	if a.flush {
		return "AFlush " + flushKinds[a.fkind]
	}
	if a.header {
		return "AWriteHeader " + hx.Z(int64(a.code))
	}
	return "AWrite " + cb(a.body)
}
func (a act) String() string {
	if a.flush {
		return "Flush[underlying:" + flushKinds[a.fkind] + "]"
	}
	if a.header {
		return fmt.Sprintf("WriteHeader(%d)", a.code)
	}
	return fmt.Sprintf("Write(%q)", a.body)
}

const (
	inHandler = iota
	inMWBefore
	inMWAfter
	inHandlerUpdates
	inHandlerView
)

var whereNames = []string{"handler", "inner-middleware-before-next", "inner-middleware-after-next", "handler-inside-Updates", "handler-inside-View"}

type plan struct {
	where  int
	acts   []act
	panics bool
	val    any
	// filled while serving
	u        *uw
	snapshot string
	preWrote bool
	atActs   []act // for fox-supplied handlers: actions read off the underlying writer at panic time
	ctxMode  int   // state of the request context, see ctxModes
	subst    int   // which context an OUTER middleware (outside Recovery) hands down the chain, see substNames
}

var cur *plan

func noop(fox.Context) {}

func (p *plan) raise() {
	p.snapshot = p.u.digest()
	p.preWrote = p.u.wrote
	if p.u.wrote {
		p.atActs = []act{{header: true, code: p.u.status}}
		if len(p.u.body) > 0 {
			p.atActs = append(p.atActs, act{body: string(p.u.body)})
		}
	}
	if p.panics {
		panic(p.val)
	}
}

func runActs(c fox.Context, acts []act) {
	for i, a := range acts {
		if a.flush {
			if i%2 == 0 {
				_ = c.Writer().FlushError()
			} else {
				_ = http.NewResponseController(c.Writer()).Flush()
			}
		} else if a.header {
			c.Writer().WriteHeader(a.code)
		} else if i%2 == 0 {
			_, _ = c.Writer().Write([]byte(a.body))
		} else {
			_, _ = io.WriteString(c.Writer(), a.body)
		}
	}
}

func scripted(c fox.Context) {
	p := cur
	switch p.where {
	case inHandler:
		runActs(c, p.acts)
		p.raise()
	case inMWAfter:
		runActs(c, p.acts) // the inner middleware raises after we return
	case inHandlerUpdates:
		runActs(c, p.acts)
		_ = c.Fox().Updates(func(txn *fox.Txn) error {
			_, _ = txn.Handle("GET", "/tmp-in-txn", noop)
			p.raise()
			return nil
		})
	case inHandlerView:
		runActs(c, p.acts)
		_ = c.Fox().View(func(txn *fox.Txn) error {
			_ = txn.Has("GET", "/ctl")
			p.raise()
			return nil
		})
	}
}

// state of the request context when the panic is recovered: none of them is a broken connection
const (
	ctxLive            = iota
	ctxCancelledBefore // the request arrives with a cancelled context
	ctxDeadlineBefore  // the request arrives with an expired deadline
	ctxInnerCancel     // an inner middleware installs a derived context (SetRequest) and `defer cancel()`s it
	ctxInnerDeadline   // an inner middleware installs a derived context whose deadline has expired
	nCtxModes
)

var ctxModes = []string{"live", "cancelled before serving", "deadline exceeded before serving",
	"replaced by inner middleware, cancelled while unwinding (defer cancel())", "replaced by inner middleware, deadline exceeded"}

func inner(next fox.HandlerFunc) fox.HandlerFunc {
	return func(c fox.Context) {
		p := cur
		if p == nil {
			next(c)
			return
		}
		switch p.ctxMode {
		case ctxInnerCancel:
			ctx, cancel := context.WithCancel(c.Request().Context())
			defer cancel()
			c.SetRequest(c.Request().WithContext(ctx))
		case ctxInnerDeadline:
			ctx, cancel := context.WithDeadline(c.Request().Context(), time.Now().Add(-time.Second))
			defer cancel()
			c.SetRequest(c.Request().WithContext(ctx))
		}
		switch p.where {
		case inMWBefore:
			runActs(c, p.acts)
			p.raise()
		case inMWAfter:
			next(c)
			p.raise()
		default:
			next(c)
		}
	}
}

// which context Recovery (and everything below it) works on: a middleware placed OUTSIDE Recovery may hand a copy
// of the context down the chain (the documented way to wrap the ResponseWriter). CloneWith copies come from the
// router's context pool and go back to it, so whatever an earlier request left there must not show.
// (c.Clone() is not a context to hand down: its writer panics on every write by design.)
const (
	substNone             = iota
	substCloneWith        // next(c.CloneWith(c.Writer(), c.Request())); Close() deferred
	substCloneWithWrapped // next(c.CloneWith(<user type embedding c.Writer()>, c.Request())); Close() deferred
	nSubst
)

var substNames = []string{"the router's own context", "c.CloneWith(c.Writer(), c.Request()) made by a middleware outside Recovery",
	"c.CloneWith(wrapper{c.Writer()}, c.Request()) made by a middleware outside Recovery"}

type wrapW struct{ fox.ResponseWriter }

func outer(next fox.HandlerFunc) fox.HandlerFunc {
	return func(c fox.Context) {
		p := cur
		if p == nil {
			next(c)
			return
		}
		switch p.subst {
		case substCloneWith:
			cc := c.CloneWith(c.Writer(), c.Request())
			defer cc.Close()
			next(cc)
		case substCloneWithWrapped:
			cc := c.CloneWith(wrapW{c.Writer()}, c.Request())
			defer cc.Close()
			next(cc)
		default:
			next(c)
		}
	}
}

// earlier requests served by the same router just before the observed one (what they leave in pooled contexts
// must not show in the observed request): route templates instantiated with fresh values
type primerTmpl struct {
	format string // request target
	nvals  int
	names  []string
	how    string
}

var primerTmpls = []primerTmpl{
	{"/ign/%s", 1, []string{"x"}, "ignored trailing slash (route /ign/{x}/)"},
	{"/ig/%s/%s/", 2, []string{"u", "v"}, "ignored trailing slash (route /ig/{u}/{v})"},
	{"/r/%s", 1, []string{"id"}, "direct match (route /r/{id})"},
	{"/u/%s/p/%s", 2, []string{"a", "b"}, "direct match (route /u/{a}/p/{b})"},
	{"/files/%s/f.txt", 1, []string{"path"}, "direct match (route /files/*{path})"},
	{"/static", 0, nil, "direct match (route /static)"},
}

type primer struct {
	tmpl   int
	subst  int
	panics bool
}

// ---------- router under test ----------

type routeDef struct {
	method, pattern string
	ignoreTS        bool
}

var routeDefs = []routeDef{
	{"GET", "/r/{id}", false},
	{"GET", "/files/*{path}", false},
	{"GET", "/static", false},
	{"GET", "/u/{a}/p/{b}", false},
	{"GET", "/ign/{x}/", true},
	{"GET", "/ig/{u}/{v}", true},
	{"POST", "/only", false},
	{"GET", "/dir/", false},
	{"POST", "/dir/", false},
}

// how the recovery middleware is constructed, and with which log handler
const (
	rvCapture    = iota // CustomRecoveryWithLogHandler(handler enabled at every level)
	rvDiscard           // CustomRecoveryWithLogHandler(slog.DiscardHandler)
	rvAboveError        // CustomRecoveryWithLogHandler(handler enabled above Error only)
	rvFailing           // CustomRecoveryWithLogHandler(handler whose Handle returns an error)
	rvRecovery          // Recovery()  (fox's own handler: records not observable here)
	rvCustom            // CustomRecovery(func calling DefaultHandleRecovery)  (idem)
	nRecoveryVariants
)

var rvNames = []string{"CustomRecoveryWithLogHandler(capture)", "CustomRecoveryWithLogHandler(slog.DiscardHandler)",
	"CustomRecoveryWithLogHandler(level>Error)", "CustomRecoveryWithLogHandler(Handle returns error)", "Recovery()", "CustomRecovery(default)"}

func rvEnabled(v int) bool { return v != rvDiscard && v != rvAboveError }
func rvVisible(v int) bool { return v != rvRecovery && v != rvCustom }

// captureOpt: capture with a minimum level and an optional error returned by Handle
type captureOpt struct {
	w    *world
	min  slog.Level
	fail bool
}

func (h captureOpt) Enabled(_ context.Context, l slog.Level) bool { return l >= h.min }
func (h captureOpt) Handle(ctx context.Context, r slog.Record) error {
	_ = capture{h.w}.Handle(ctx, r)
	if h.fail {
		return errors.New("log sink unavailable")
	}
	return nil
}
func (h captureOpt) WithAttrs([]slog.Attr) slog.Handler { return h }
func (h captureOpt) WithGroup(string) slog.Handler      { return h }

func recoveryMW(w *world, variant int) fox.MiddlewareFunc {
	switch variant {
	case rvDiscard:
		return fox.CustomRecoveryWithLogHandler(slog.DiscardHandler, fox.DefaultHandleRecovery)
	case rvAboveError:
		return fox.CustomRecoveryWithLogHandler(captureOpt{w: w, min: slog.LevelError + 4}, fox.DefaultHandleRecovery)
	case rvFailing:
		return fox.CustomRecoveryWithLogHandler(captureOpt{w: w, min: slog.LevelDebug, fail: true}, fox.DefaultHandleRecovery)
	case rvRecovery:
		return fox.Recovery()
	case rvCustom:
		return fox.CustomRecovery(func(c fox.Context, err any) { fox.DefaultHandleRecovery(c, err) })
	}
	return fox.CustomRecoveryWithLogHandler(capture{w}, fox.DefaultHandleRecovery)
}

func build(w *world, special bool, variant int) *fox.Router {
	opts := []fox.GlobalOption{
		fox.WithMiddleware(outer),
		fox.WithMiddleware(recoveryMW(w, variant)),
		fox.WithMiddleware(inner),
		fox.WithRedirectTrailingSlash(true),
	}
	if special {
		opts = append(opts, fox.WithNoRouteHandler(scripted), fox.WithNoMethodHandler(scripted), fox.WithOptionsHandler(scripted))
	} else {
		opts = append(opts, fox.WithNoMethod(true), fox.WithAutoOptions(true))
	}
	f, err := fox.New(opts...)
	hx.Fatal(err)
	for _, rd := range routeDefs {
		var ro []fox.RouteOption
		if rd.ignoreTS {
			ro = append(ro, fox.WithIgnoreTrailingSlash(true))
		}
		_, err := f.Handle(rd.method, rd.pattern, scripted, ro...)
		hx.Fatal(err)
	}
	_, err = f.Handle("GET", "/ctl", func(c fox.Context) { _, _ = io.WriteString(c.Writer(), "ctl") })
	hx.Fatal(err)
	return f
}

func routesOf(f *fox.Router) string {
	var l []string
	for m, r := range f.Iter().All() {
		l = append(l, fmt.Sprintf("%s %s has=%v", m, r.Pattern(), f.Has(m, r.Pattern())))
	}
	sort.Strings(l)
	return strings.Join(l, "|")
}

// a later write completes: Handle + Delete of a probe route (bounded wait: a held lock blocks for ever)
func writeProbe(f *fox.Router) bool {
	done := make(chan bool, 1)
	go func() {
		_, e1 := f.Handle("GET", "/probe", noop)
		_, e2 := f.Delete("GET", "/probe")
		done <- e1 == nil && e2 == nil
	}()
	select {
	case ok := <-done:
		return ok
	case <-time.After(400 * time.Millisecond):
		return false
	}
}

func followup(f *fox.Router) bool {
	saved := cur
	cur = nil
	defer func() { cur = saved }()
	ok := false
	func() {
		defer func() { _ = recover() }()
		u := newUW()
		req := &http.Request{Method: "GET", URL: &url.URL{Path: "/ctl"}, Proto: "HTTP/1.1", ProtoMajor: 1, ProtoMinor: 1,
			Header: http.Header{}, Host: "h", RemoteAddr: "192.0.2.9:1", RequestURI: "/ctl", Body: http.NoBody}
		f.ServeHTTP(u, req.WithContext(context.Background()))
		ok = u.wrote && u.status == 200 && string(u.body) == "ctl"
	}()
	return ok
}

type reqSpec struct {
	scope   string
	method  string
	target  string
	pattern string
	params  [][2]string
	fox     bool // handled by a handler fox supplies unless `special` (404/405/OPTIONS), or always (redirect)
}

var requests = []reqSpec{
	{"RouteHandler", "GET", "/r/123", "/r/{id}", [][2]string{{"id", "123"}}, false},
	{"RouteHandler", "GET", "/files/a/b/c.txt?x=1", "/files/*{path}", [][2]string{{"path", "a/b/c.txt"}}, false},
	{"RouteHandler", "GET", "/static", "/static", nil, false},
	{"RouteHandler", "GET", "/u/alice/p/77", "/u/{a}/p/{b}", [][2]string{{"a", "alice"}, {"b", "77"}}, false},
	{"RouteHandler", "GET", "/ign/val", "/ign/{x}/", [][2]string{{"x", "val"}}, false},
	{"NoRouteHandler", "GET", "/nothing/here", "", nil, true},
	{"NoMethodHandler", "GET", "/only", "", nil, true},
	{"OptionsHandler", "OPTIONS", "/r/1", "", nil, true},
	{"RedirectHandler", "GET", "/dir", "", nil, true},
	{"RedirectHandler", "POST", "/dir", "", nil, true},
	{"RouteHandler", "GET", "/ig/k1/k2/", "/ig/{u}/{v}", [][2]string{{"u", "k1"}, {"v", "k2"}}, false},
}

// ---------- request headers ----------

var credNames = []string{"Authorization", "Proxy-Authorization", "Cookie", "Set-Cookie", "X-CSRF-Token", "X-Vault-Token"}
var plainNames = []string{"Accept", "User-Agent", "X-Request-Id", "Content-Type", "Cookie2", "Authorization-Info", "X-Auth",
	"Set-Cookie2", "X-Csrf-Token-Hint", "x-vault-tokens", "Proxy-Authorizatio", "Cooki", "X-Forwarded-For"}
var invalidNames = []string{"Autho rization", "Cookie:", "CooKie", "Set-Cookie\t", ""}

func recase(r *hx.Rand, s string, mode int) string {
	switch mode {
	case 0:
		return http.CanonicalHeaderKey(s)
	case 1:
		return strings.ToLower(s)
	case 2:
		return strings.ToUpper(s)
	case 3:
		return s // as written in the property text / source
	default:
		b := []byte(s)
		for i := range b {
			if r.Bool() {
				b[i] = strings.ToUpper(string(b[i]))[0]
			} else {
				b[i] = strings.ToLower(string(b[i]))[0]
			}
		}
		return string(b)
	}
}

type hdrs struct {
	h    http.Header
	spec [][2]string // (name as in the map, secret token for credential names / full value otherwise)
	desc []string
}

func token(r *hx.Rand, pfx string) string { return fmt.Sprintf("%s-%016x", pfx, r.U64()) }

func genHeaders(r *hx.Rand, st *hx.Stats) hdrs {
	out := hdrs{h: http.Header{}}
	add := func(name string, vals []string, cores []string) {
		out.h[name] = append(out.h[name], vals...)
		for _, c := range cores {
			out.spec = append(out.spec, [2]string{name, c})
		}
		out.desc = append(out.desc, fmt.Sprintf("%s: %s", name, strings.Join(vals, " | ")))
	}
	ncred := r.Range(1, 4)
	for i := 0; i < ncred; i++ {
		name := hx.Pick(r, credNames)
		mode := r.Intn(5)
		key := recase(r, name, mode)
		st.Count("header-capitalisation:" + []string{"canonical", "lower", "upper", "as-written", "mixed"}[mode])
		nv := 1
		if r.Pct(20) {
			nv = 2
		}
		var vals, cores []string
		for j := 0; j < nv; j++ {
			core := token(r, "sek")
			cores = append(cores, core)
			switch r.Intn(4) {
			case 0:
				vals = append(vals, "Bearer "+core)
			case 1:
				vals = append(vals, "session="+core+"; Path=/")
			default:
				vals = append(vals, core)
			}
		}
		add(key, vals, cores)
	}
	nplain := r.Range(0, 3)
	for i := 0; i < nplain; i++ {
		v := token(r, "val")
		add(recase(r, hx.Pick(r, plainNames), r.Intn(5)), []string{v}, []string{v})
	}
	if r.Pct(10) {
		v := token(r, "sek")
		add(hx.Pick(r, invalidNames), []string{v}, []string{v})
		st.Count("header:invalid-name-present")
	}
	return out
}

// ---------- one panic case ----------

func genActs(r *hx.Rand) ([]act, string) {
	if r.Pct(22) {
		switch r.Intn(4) {
		case 0, 1:
			return []act{{flush: true}}, "flush-only"
		case 2:
			return []act{{header: true, code: 103}, {flush: true}}, "flush-only"
		default:
			return []act{{flush: true}, {body: "after flush"}, {flush: true}}, "flush-then-body"
		}
	}
	switch r.Intn(7) {
	case 0, 1:
		return nil, "nothing"
	case 2:
		return []act{{header: true, code: hx.Pick(r, []int{200, 201, 204, 302, 404, 500, 101})}}, "header-only"
	case 3:
		return []act{{header: true, code: hx.Pick(r, []int{200, 206, 400, 503})}, {body: "partial body "}}, "partial-body"
	case 4:
		return []act{{body: "implicit 200 partial"}}, "partial-body"
	case 5:
		return []act{{header: true, code: hx.Pick(r, []int{100, 103})}}, "informational-only"
	default:
		return []act{{header: true, code: 202}, {body: "a"}, {body: "b"}, {header: true, code: 500}}, "partial-body"
	}
}

func levelOK(l slog.Level) bool { return l == slog.LevelError }

func attrCoq(a slog.Attr, val any) string {
	var v string
	switch a.Value.Kind() {
	case slog.KindString:
		v = "VStr " + cb(a.Value.String())
	case slog.KindInt64:
		v = "VInt " + hx.Z(a.Value.Int64())
	case slog.KindGroup:
		var kvs [][2]string
		for _, g := range a.Value.Group() {
			kvs = append(kvs, [2]string{g.Key, g.Value.String()})
		}
		v = "VGroup " + kvList(kvs)
	case slog.KindAny:
		id := uint64(999)
		if same(a.Value.Any(), val) {
			if i, ok := customID(val); ok {
				id = i
			}
		}
		v = "VAny " + hx.N(id)
	default:
		v = "VStr " + cb("<kind "+a.Value.Kind().String()+"> "+a.Value.String())
	}
	return "(" + cb(a.Key) + ", " + v + ")"
}

type tcase struct {
	term, human string
}

func main() {
	log.SetOutput(io.Discard)
	args := hx.Args()
	out := args["out"]
	tier := args["tier"]
	shards := hx.Atoi(args["shards"], 8)
	rnd := hx.NewRand(hx.Seed())

	cs := &hx.Cases{
		Header: "From FoxBase Require Import Bytes.\nFrom FoxC15 Require Import Types Spec Redact Recovery Lifecycle Corr.\n",
		Type:   "case",
		Footer: "Definition mism := Eval vm_compute in mismatches cases.\nPrint mism.\n" +
			"Definition viol := Eval vm_compute in spec_violations cases.\nPrint viol.\n" +
			"Definition oof := Eval vm_compute in fuel_outs cases.\nPrint oof.\n",
	}
	st := &hx.Stats{Rule: "panic cases: every curated panic value (27: errors, wrapped/joined errors, string, panic(nil), custom struct/pointer, int, runtime error, ErrAbortHandler plain/wrapped/joined/inside OpError, net.OpError over os.SyscallError with EPIPE/ECONNRESET/other errno, without SyscallError, wrapped from outside, nested, upper-case text) x every request kind (5 route shapes incl. catch-all, two params, ignore-trailing-slash; 404; 405; OPTIONS; redirect GET/POST) x panic site (handler, inner middleware before/after next, handler inside Updates/View) with a seeded random response progress (nothing, header only, partial body, informational only, started ONLY by a flush — FlushError / ResponseController.Flush — on an underlying writer that offers nothing / http.Flusher / FlushError() error; flush-only x every curated value x each of the three writers is enumerated) and seeded random request headers (1-4 credential names in canonical/lower/upper/as-written/mixed capitalisation set directly in the map, 0-3 look-alike ordinary names, sometimes an invalid name), plus seeded random error trees (depth <= 3) and no-panic controls; the context Recovery works on is the router's own or a copy made by a middleware placed outside Recovery (CloneWith with the same writer / with a wrapping writer, pooled and closed; a Clone cannot be handed down: its writer panics on a write by design), and the observed request is preceded by 0-3 earlier requests on the same router (ignored-trailing-slash matches with one / two parameters, direct matches, some panicking, through the same or another kind of context) whose values are fresh — substitution x route request x six histories is enumerated; the logged route and params attributes are compared with the pattern registered and the values put into the target; every case is followed by a control request, a Handle+Delete and a route listing. txn cases: Updates, unmanaged Txn(true) (panic under a deferred Abort / explicit Abort / Commit) and View over routes of common (GET, POST, DELETE) and non-common (TRACE, custom PURGE) verbs; operation alphabet = Handle/Update/Delete of 5 routes, Has, and Truncate with 12 method lists (none, single common, single non-common, common-before-non-common, non-common-before-common, absent verb); every single operation x every ending x every initial set, every ordered pair (quick: seeded kind/ending/initial per pair, Truncate pairs always), random longer lists; afterwards the live route set is read three ways (Iter().All, Has, one request per route whose body tells the handler version) and compared with the model and, for every non-committed ending, with the initial set; write helper Handle with a panicking middleware. non-trivial = the case panics (panic cases) or performs at least one operation or ends abnormally (txn cases); distinct = distinct Coq case terms"}
	seen := map[string]bool{}
	nontrivial := 0
	var pending []tcase
	emitTag := "" // distinguishes cases whose Coq term is the same but that exercise different API entry points
	emit := func(term, human string, nontriv bool) bool {
		if seen[term+emitTag] {
			return false
		}
		seen[term+emitTag] = true
		pending = append(pending, tcase{term, human})
		if nontriv {
			nontrivial++
		}
		return true
	}

	// ================= panic cases =================
	w := [2]*world{{}, {}}
	routers := [2]*fox.Router{build(w[0], false, rvCapture), build(w[1], true, rvCapture)}
	// the other recovery variants: one router pair each, built on first use
	var vw [nRecoveryVariants][2]*world
	var vrouters [nRecoveryVariants][2]*fox.Router
	rvForce := -1
	rebuild := func(i int) { w[i] = &world{}; routers[i] = build(w[i], i == 1, rvCapture) }

	fkForce := -1
	ctxForce := -1
	// the dimensions added in round 7 draw from their own generator (derived from the same seed), so the streams
	// of the older dimensions stay what they were
	rnd2 := hx.NewRand(hx.Seed() + 15)
	substForce := -1
	var histForce []primer
	histForced := false
	onePanic := func(special int, rq reqSpec, where int, acts []act, progress string, val *pv, hd hdrs) {
		variant := rvCapture
		if rvForce >= 0 {
			variant = rvForce
		} else if k := rnd.Intn(100); k < 40 {
			variant = []int{rvDiscard, rvAboveError, rvFailing, rvFailing, rvDiscard, rvAboveError, rvRecovery, rvCustom}[k%8]
		}
		f, wd := routers[special], w[special]
		if variant != rvCapture {
			if vrouters[variant][special] == nil {
				vw[variant][special] = &world{}
				vrouters[variant][special] = build(vw[variant][special], special == 1, variant)
			}
			f, wd = vrouters[variant][special], vw[variant][special]
		}
		foxHandler := rq.scope == "RedirectHandler" || (rq.fox && special == 0)
		if foxHandler && (where == inHandler || where == inHandlerUpdates || where == inHandlerView) {
			return // nothing of ours runs inside a handler fox supplies
		}
		if where == inMWAfter && foxHandler {
			acts = nil // the handler fox supplies does the writing; the inner middleware raises after it
		}
		subst := substNone
		if substForce >= 0 {
			subst = substForce
		} else if rnd2.Pct(35) {
			subst = 1 + rnd2.Intn(nSubst-1)
		}
		var hist []primer
		if histForced {
			hist = histForce
		} else if rnd2.Pct(45) {
			for i, n := 0, 1+rnd2.Intn(3); i < n; i++ {
				m := subst
				if rnd2.Pct(30) {
					m = rnd2.Intn(nSubst)
				}
				hist = append(hist, primer{rnd2.Intn(len(primerTmpls)), m, rvVisible(variant) && rnd2.Pct(20)})
			}
		}
		p := &plan{where: where, acts: acts, panics: val != nil, subst: subst}
		if val != nil {
			p.val = val.val
		}
		pu, err := url.ParseRequestURI(rq.target)
		hx.Fatal(err)
		req := &http.Request{Method: rq.method, URL: pu, Proto: "HTTP/1.1", ProtoMajor: 1, ProtoMinor: 1,
			Header: hd.h, Host: "example.com", RemoteAddr: "192.0.2.1:4242", RequestURI: rq.target, Body: http.NoBody}
		ctxMode := ctxLive
		if ctxForce >= 0 {
			ctxMode = ctxForce
		} else if rnd.Pct(30) {
			ctxMode = 1 + rnd.Intn(nCtxModes-1)
		}
		p.ctxMode = ctxMode
		switch ctxMode {
		case ctxCancelledBefore:
			cctx, cancel := context.WithCancel(context.Background())
			cancel()
			req = req.WithContext(cctx)
		case ctxDeadlineBefore:
			dctx, cancel := context.WithDeadline(context.Background(), time.Now().Add(-time.Second))
			defer cancel()
			req = req.WithContext(dctx)
		default:
			req = req.WithContext(context.Background())
		}
		dump, _ := httputil.DumpRequest(req, false)
		before := routesOf(f)
		u := newUW()
		fk := rnd.Intn(3)
		if fkForce >= 0 {
			fk = fkForce
		}
		acts = append([]act{}, acts...)
		for i := range acts {
			acts[i].fkind = fk
		}
		p.acts = acts
		p.u = u
		// the history: earlier requests on the same router (same context pool), served just before
		var histH []string
		for _, pr := range hist {
			t := primerTmpls[pr.tmpl]
			vals := make([]any, t.nvals)
			for i := range vals {
				vals[i] = fmt.Sprintf("h%04x", rnd2.Intn(1<<16))
			}
			target := fmt.Sprintf(t.format, vals...)
			pp := &plan{where: inHandler, panics: pr.panics, val: errors.New("earlier panic"), u: newUW(), subst: pr.subst}
			cur = pp
			func() {
				defer func() { _ = recover() }()
				preq := &http.Request{Method: "GET", URL: &url.URL{Path: target}, Proto: "HTTP/1.1", ProtoMajor: 1, ProtoMinor: 1,
					Header: http.Header{}, Host: "example.com", RemoteAddr: "192.0.2.7:999", RequestURI: target, Body: http.NoBody}
				f.ServeHTTP(pp.u, preq.WithContext(context.Background()))
			}()
			cur = nil
			histH = append(histH, fmt.Sprintf("GET %s [%s; handler %s; context: %s]", target, t.how,
				map[bool]string{true: "panics (recovered)", false: "returns"}[pr.panics], substNames[pr.subst]))
		}
		wd.recs = nil
		cur = p
		var escaped any
		didEscape := false
		func() {
			defer func() {
				if x := recover(); x != nil {
					escaped, didEscape = x, true
				}
			}()
			f.ServeHTTP(u.as(fk), req)
		}()
		cur = nil
		fu := followup(f)
		wr := writeProbe(f)
		rs := routesOf(f) == before
		if !wr { // the lock is stuck: do not let it poison the following cases
			if variant == rvCapture {
				rebuild(special)
			} else {
				vrouters[variant][special] = nil
			}
		}

		// the actions the model is given
		macts := acts
		if where == inMWAfter {
			if foxHandler {
				macts = p.atActs
			}
		}
		vid := uint64(7)
		fin := "None"
		if val != nil {
			fin = "(Some (" + val.coq + ", " + hx.N(vid) + "))"
		}
		esc := "None"
		if didEscape {
			id := uint64(999)
			if val != nil && same(escaped, val.val) {
				id = vid
			}
			esc = "(Some " + hx.N(id) + ")"
		}
		var recs []string
		var recHuman []string
		for _, r := range wd.recs {
			msg := r.msg
			if !levelOK(r.level) {
				msg = fmt.Sprintf("<unexpected level %s> %s", r.level, r.msg)
			}
			var as []string
			for _, a := range r.attrs {
				var v any
				if val != nil {
					v = val.val
				}
				as = append(as, attrCoq(a, v))
			}
			recs = append(recs, "(Rc "+cb(msg)+" "+hx.List(as)+")")
			head := msg
			if i := strings.Index(head, "Stack:\n"); i >= 0 {
				head = head[:i] + "Stack: ..."
			}
			recHuman = append(recHuman, fmt.Sprintf("%q attrs=%v", head, r.attrs))
		}
		hasRoute := rq.scope == "RouteHandler"
		q := fmt.Sprintf("(Q %s %s %s %s %s %s)", rq.scope, cb(rq.pattern), hx.Bool(hasRoute), kvList(rq.params), cb(string(dump)), hx.Bool(rvEnabled(variant)))
		reqline := rq.method + " " + rq.target + " HTTP/1.1"
		status := 0
		if u.wrote {
			status = u.status
		}
		obs := fmt.Sprintf("(PO %s %s %s %s %s %s %s %s %s %s %s)", esc, hx.Bool(p.preWrote), hx.Bool(u.digest() == p.snapshot), hx.Bool(u.wrote),
			hx.Z(int64(status)), cb(string(u.body)), hx.List(recs), hx.Bool(rvVisible(variant)), hx.Bool(fu), hx.Bool(wr), hx.Bool(rs))
		term := fmt.Sprintf("(CPanic %s %s %s %s %s %s)", q, cb(reqline), kvList(hd.spec),
			hx.ListOf(macts, func(a act) string { return a.coq() }), fin, obs)
		var ah []string
		for _, a := range macts {
			ah = append(ah, a.String())
		}
		vh := "no panic"
		class := "none"
		if val != nil {
			vh, class = "panic("+val.human+")", val.class
		}
		human := fmt.Sprintf("%s %s (%s, custom-special-handlers=%v, "+rvNames[variant]+", request context "+ctxModes[ctxMode]+", Recovery and the chain below it work on "+substNames[subst]+") earlier requests on this router, in order: ["+strings.Join(histH, "; ")+"] headers {%s} | site=%s before-panic=[%s] %s => escaped=%s wrote=%v status=%d body=%q untouched-since-panic=%v records=%s followup-ok=%v write-ok=%v routes-same=%v",
			rq.method, rq.target, rq.scope, special == 1, strings.Join(hd.desc, "; "), whereNames[where], strings.Join(ah, "; "), vh, esc, u.wrote, status, u.body, u.digest() == p.snapshot, strings.Join(recHuman, " || "), fu, wr, rs)
		histTag := ""
		for _, pr := range hist {
			histTag += fmt.Sprintf("|%d.%d.%v", pr.tmpl, pr.subst, pr.panics)
		}
		emitTag = ctxModes[ctxMode] + "#" + substNames[subst] + "#" + histTag
		emitted := emit(term, human, val != nil)
		emitTag = ""
		if emitted {
			st.Count("panic-value:" + class)
			st.Count("scope:" + rq.scope)
			st.Count("recovery:" + rvNames[variant])
			st.Count("request-context:" + ctxModes[ctxMode])
			st.Count("context-given-to-recovery:" + substNames[subst])
			st.Count(fmt.Sprintf("earlier-requests-on-the-router:%d", len(hist)))
			for _, pr := range hist {
				st.Count("earlier-request:" + primerTmpls[pr.tmpl].how)
			}
			st.Count("site:" + whereNames[where])
			st.Count("progress:" + map[bool]string{true: "started", false: "not-started"}[p.preWrote])
			if where != inMWAfter || !foxHandler {
				st.Count("progress-script:" + progress)
			}
			if didEscape {
				st.Count("outcome:escaped")
			} else if u.wrote && u.status == 500 && !p.preWrote {
				st.Count("outcome:500-written")
			} else if !u.wrote {
				st.Count("outcome:nothing-written")
			} else {
				st.Count("outcome:started-response-kept")
			}
			if len(st.Samples) < 8 && rnd.Pct(1) {
				st.Samples = append(st.Samples, human)
			}
		}
	}

	curated := curatedPVs()
	sites := []int{inHandler, inMWBefore, inMWAfter, inHandlerUpdates, inHandlerView}
	rounds := 1
	nrandom := 120
	if tier == "thorough" {
		rounds = 6
		nrandom = 3000
	}
	for round := 0; round < rounds; round++ {
		for vi := range curated {
			for ri, rq := range requests {
				for _, where := range sites {
					// quick tier: every value x site, on a seeded sample of the request kinds (each kind
					// is hit by many values); thorough tier: the full product, several rounds
					if tier != "thorough" && (ri+vi+rnd.Intn(3))%3 != 0 {
						continue
					}
					acts, progress := genActs(rnd)
					onePanic(rnd.Intn(2), rq, where, acts, progress, &curated[vi], genHeaders(rnd, st))
				}
			}
		}
	}
	// the three progress classes x every curated value on one route, exhaustively
	for vi := range curated {
		for _, acts := range [][]act{nil, {{header: true, code: 204}}, {{header: true, code: 200}, {body: "partial"}}, {{body: "partial"}}, {{header: true, code: 103}}} {
			onePanic(1, requests[0], inHandler, acts, "enumerated", &curated[vi], genHeaders(rnd, st))
		}
		// response started ONLY by a flush, on each kind of underlying writer, for every panic value
		for fk := 0; fk < 3; fk++ {
			fkForce = fk
			onePanic(vi%2, requests[vi%5], hx.Pick(rnd, []int{inHandler, inMWBefore}), []act{{flush: true}}, "flush-only", &curated[vi], genHeaders(rnd, st))
		}
		fkForce = -1
		// nothing written x every curated value x every way of building the middleware / every log handler
		for rv := 1; rv < nRecoveryVariants; rv++ {
			if rv >= rvRecovery && vi%4 != 0 && tier != "thorough" {
				continue // fox's own handler prints to stderr: a sample is enough in the quick tier
			}
			rvForce = rv
			onePanic(vi%2, requests[(vi+rv)%len(requests)], hx.Pick(rnd, []int{inHandler, inMWBefore}), nil, "nothing", &curated[vi], genHeaders(rnd, st))
		}
		rvForce = -1
		// nothing written x every curated value x every state of the request context
		for cm := 1; cm < nCtxModes; cm++ {
			ctxForce = cm
			onePanic(vi%2, requests[(vi+cm)%len(requests)], hx.Pick(rnd, []int{inHandler, inMWBefore}), nil, "nothing", &curated[vi], genHeaders(rnd, st))
		}
		ctxForce = -1
	}
	// context substituted by a middleware outside Recovery x what earlier requests left in the router's context pool:
	// every substitution x every route request x six histories (an ignored-trailing-slash request with one / two
	// parameters through the same kind of copy, a direct one, one through the router's own context, two in a row, none)
	{
		vals := []int{0, 4, 5, 7, 8, 9, 14, 19, 1, 3}
		k := 0
		for sm := 1; sm < nSubst; sm++ {
			pm := sm
			hists := [][]primer{
				{{0, pm, false}}, {{1, pm, false}}, {{3, pm, false}}, {{0, substNone, false}, {1, substNone, false}},
				{{1, pm, false}, {2, pm, true}}, {},
			}
			for _, rq := range requests {
				if rq.scope != "RouteHandler" {
					continue
				}
				for _, h := range hists {
					substForce, histForce, histForced = sm, h, true
					var acts []act
					progress := "nothing"
					if k%3 == 2 {
						acts, progress = genActs(rnd2)
					}
					onePanic(k%2, rq, []int{inHandler, inMWBefore, inMWAfter}[k%3], acts, progress, &curated[vals[k%len(vals)]], genHeaders(rnd2, st))
					k++
				}
			}
		}
		substForce, histForce, histForced = -1, nil, false
	}
	for i := 0; i < nrandom; i++ {
		t := genTree(rnd, 3)
		v := errPV(t, "random-error-tree")
		acts, progress := genActs(rnd)
		onePanic(rnd.Intn(2), hx.Pick(rnd, requests), hx.Pick(rnd, sites), acts, progress, &v, genHeaders(rnd, st))
	}
	for i := 0; i < 40; i++ { // controls: no panic
		acts, progress := genActs(rnd)
		onePanic(rnd.Intn(2), hx.Pick(rnd, requests), hx.Pick(rnd, []int{inHandler, inMWBefore, inMWAfter}), acts, progress, nil, genHeaders(rnd, st))
	}

	// ================= transaction cases =================
	// routes are (method, static pattern); the handler registered at step i answers "v<i>"
	type op struct {
		kind    int // 0 handle 1 update 2 delete 3 truncate 4 lookup
		method  string
		pattern string
		methods []string
	}
	key := func(m, p string) string { return m + " " + p }
	opCoq := func(o op, ver int) string {
		switch o.kind {
		case 0:
			return "OpHandle " + cb(key(o.method, o.pattern)) + " " + hx.N(uint64(ver))
		case 1:
			return "OpUpdate " + cb(key(o.method, o.pattern)) + " " + hx.N(uint64(ver))
		case 2:
			return "OpDelete " + cb(key(o.method, o.pattern))
		case 3:
			return "OpTruncate " + hx.ListOf(o.methods, cb)
		}
		return "OpLookup " + cb(key(o.method, o.pattern))
	}
	opHuman := func(o op) string {
		if o.kind == 3 {
			return "Truncate(" + strings.Join(o.methods, ",") + ")"
		}
		return []string{"Handle ", "Update ", "Delete ", "", "Has "}[o.kind] + key(o.method, o.pattern)
	}
	versioned := func(v int) fox.HandlerFunc {
		return func(c fox.Context) { _, _ = io.WriteString(c.Writer(), fmt.Sprintf("v%d", v)) }
	}
	txnPanicVals := []any{errors.New("txn boom"), "txn string", customPtrs[0], http.ErrAbortHandler}
	errFn := errors.New("fn failed")
	universe := [][2]string{{"GET", "/a"}, {"GET", "/b"}, {"POST", "/a"}, {"TRACE", "/a"}, {"PURGE", "/b"}, {"DELETE", "/b"}}
	serveOne := func(f *fox.Router, m, p string) (int, string, bool) {
		u := newUW()
		panicked := false
		func() {
			defer func() {
				if recover() != nil {
					panicked = true
				}
			}()
			req := &http.Request{Method: m, URL: &url.URL{Path: p}, Proto: "HTTP/1.1", ProtoMajor: 1, ProtoMinor: 1,
				Header: http.Header{}, Host: "h", RemoteAddr: "192.0.2.9:1", RequestURI: p, Body: http.NoBody}
			f.ServeHTTP(u, req.WithContext(context.Background()))
		}()
		return u.status, string(u.body), panicked
	}
	// write helpers: which entry point, where the panic comes from (0 none, 1 a middleware constructor that
	// panics while the route is built, 2 a nil RouteOption), and whether the helper is called directly or
	// from a request handler under Recovery
	type helperVariant struct {
		api string
		src int
		ctx int
	}
	var hv helperVariant
	const nilOptionPanic = 998
	oneTxn := func(kind string, initial [][2]string, ops []op, ending int, pid int) {
		var gopts []fox.GlobalOption
		if kind == "THelper" && hv.ctx == 1 {
			gopts = append(gopts, fox.WithMiddleware(fox.CustomRecoveryWithLogHandler(capture{&world{}}, fox.DefaultHandleRecovery)))
		}
		f, err := fox.New(gopts...)
		hx.Fatal(err)
		for _, r := range initial {
			_, err := f.Handle(r[0], r[1], versioned(0))
			hx.Fatal(err)
		}
		apply := func(txn *fox.Txn) {
			for i, o := range ops {
				switch o.kind {
				case 0:
					_, _ = txn.Handle(o.method, o.pattern, versioned(i+1))
				case 1:
					_, _ = txn.Update(o.method, o.pattern, versioned(i+1))
				case 2:
					_, _ = txn.Delete(o.method, o.pattern)
				case 3:
					_ = txn.Truncate(o.methods...)
				default:
					_ = txn.Has(o.method, o.pattern)
				}
			}
		}
		fn := func(txn *fox.Txn) error {
			apply(txn)
			switch ending {
			case 0:
				panic(txnPanicVals[pid])
			case 1:
				return errFn
			}
			return nil
		}
		outc := "TOk"
		func() {
			defer func() {
				if x := recover(); x != nil {
					id := uint64(999)
					for i, v := range txnPanicVals {
						if same(x, v) {
							id = uint64(i)
						}
					}
					if _, ok := x.(runtime.Error); ok && kind == "THelper" && hv.src == 2 {
						id = nilOptionPanic
					}
					outc = "(TPanic " + hx.N(id) + ")"
				}
			}()
			var err error
			switch kind {
			case "TUpdates":
				err = f.Updates(fn)
			case "TView":
				err = f.View(fn)
			case "TManual":
				txn := f.Txn(true)
				defer txn.Abort()
				apply(txn)
				switch ending {
				case 0:
					panic(txnPanicVals[pid])
				case 1:
					txn.Abort() // explicit abort
					err = errFn
				default:
					txn.Commit()
				}
			default:
				o := ops[0]
				call := func(rt *fox.Router) error {
					var opts []fox.RouteOption
					switch hv.src {
					case 1:
						opts = append(opts, fox.WithMiddleware(func(next fox.HandlerFunc) fox.HandlerFunc { panic(txnPanicVals[pid]) }))
					case 2:
						opts = append(opts, nil)
					}
					var e error
					switch hv.api {
					case "Handle":
						_, e = rt.Handle(o.method, o.pattern, versioned(1), opts...)
					case "Update":
						_, e = rt.Update(o.method, o.pattern, versioned(1), opts...)
					case "Delete":
						_, e = rt.Delete(o.method, o.pattern)
					case "HandleRoute", "UpdateRoute":
						route, e2 := rt.NewRoute(o.pattern, versioned(1), opts...)
						if e2 != nil {
							return e2
						}
						if hv.api == "HandleRoute" {
							e = rt.HandleRoute(o.method, route)
						} else {
							e = rt.UpdateRoute(o.method, route)
						}
					}
					return e
				}
				if hv.ctx == 0 {
					err = call(f)
				} else {
					// from a request handler under Recovery: the panic is contained there; we note its value on the way
					var seenPanic any
					var callErr error
					_, herr := f.Handle("HEAD", "/admin", func(c fox.Context) {
						defer func() {
							if x := recover(); x != nil {
								seenPanic = x
								panic(x)
							}
						}()
						callErr = call(c.Fox())
					})
					hx.Fatal(herr)
					code, _, pan := serveOne(f, "HEAD", "/admin")
					_, derr := func() (r *fox.Route, e error) {
						done := make(chan error, 1)
						go func() { _, e := f.Delete("HEAD", "/admin"); done <- e }()
						select {
						case e = <-done:
						case <-time.After(400 * time.Millisecond):
							e = errors.New("delete of the admin route blocked")
						}
						return nil, e
					}()
					_ = derr
					if seenPanic != nil {
						isAbort := same(seenPanic, any(http.ErrAbortHandler)) // re-raised by Recovery by design
						if pan != isAbort {
							panic(fmt.Sprintf("Recovery: escaped=%v for panic value %v", pan, seenPanic))
						}
						if !pan && code != 500 {
							panic(fmt.Sprintf("recovered panic but status %d", code))
						}
						panic(seenPanic) // classified by the deferred function below
					}
					if pan {
						panic("ServeHTTP panicked although the helper did not")
					}
					err = callErr
				}
			}
			if err != nil {
				outc = "TErr"
			}
		}()
		// three views of the live route set: Iter().All, Has over the universe, one request per universe route
		viaAll := map[string]bool{}
		for m, r := range f.Iter().All() {
			viaAll[key(m, r.Pattern())] = true
		}
		delete(viaAll, "HEAD /admin") // only present if its removal blocked: reported through write-ok
		agree := true
		var routes []string
		var routesH []string
		for _, r := range universe {
			k := key(r[0], r[1])
			has := f.Has(r[0], r[1])
			code, body, pan := serveOne(f, r[0], r[1])
			served := !pan && code == 200 && strings.HasPrefix(body, "v")
			if has != viaAll[k] || has != served {
				agree = false
			}
			delete(viaAll, k)
			if has || served {
				ver := uint64(999)
				if served {
					fmt.Sscanf(body, "v%d", &ver)
				}
				routes = append(routes, "("+cb(k)+", "+hx.N(ver)+")")
				routesH = append(routesH, fmt.Sprintf("%s=%s", k, body))
			}
		}
		if len(viaAll) != 0 {
			agree = false
		}
		code, _, pan := serveOne(f, "GET", "/never/registered")
		fu := !pan && code == 404
		wr := writeProbe(f)
		end := []string{"EndPanic " + hx.N(uint64(pid)), "EndErr", "EndOk"}[ending]
		init := hx.ListOf(initial, func(r [2]string) string { return "(" + cb(key(r[0], r[1])) + ", " + hx.N(0) + ")" })
		var ocs, oh []string
		for i, o := range ops {
			ocs = append(ocs, opCoq(o, i+1))
			oh = append(oh, opHuman(o))
		}
		term := fmt.Sprintf("(CTxn %s %s %s (%s) (TO %s %s %s %s %s))", kind, init, hx.List(ocs), end,
			outc, hx.List(routes), hx.Bool(agree), hx.Bool(fu), hx.Bool(wr))
		var ih []string
		for _, r := range initial {
			ih = append(ih, key(r[0], r[1]))
		}
		label := kind
		if kind == "THelper" {
			label = fmt.Sprintf("THelper[Router.%s, %s, %s]", hv.api, []string{"no panic", "middleware constructor panics", "nil RouteOption"}[hv.src], []string{"called directly", "called from a handler under Recovery"}[hv.ctx])
		}
		human := fmt.Sprintf("%s initial=[%s] fn=[%s] then %s => outcome=%s live-routes=[%s] All/Has/requests-agree=%v followup-ok=%v write-ok=%v", kind, strings.Join(ih, ", "), strings.Join(oh, "; "),
			[]string{fmt.Sprintf("panic(value#%d)", pid), "return error / Abort()", "return nil / Commit()"}[ending], outc, strings.Join(routesH, ", "), agree, fu, wr)
		human = label + human[len(kind):]
		if kind == "THelper" {
			emitTag = label
			st.Count("helper:" + hv.api + []string{"", "+panicking-middleware", "+nil-option"}[hv.src] + []string{"", " (in handler)"}[hv.ctx])
		} else {
			emitTag = ""
		}
		if emit(term, human, len(ops) > 0 || ending != 2) {
			st.Count("txn:" + kind)
			st.Count("txn-ending:" + []string{"panic", "error-or-abort", "commit"}[ending])
			st.Count(fmt.Sprintf("txn-steps-before-end:%d", len(ops)))
			for _, o := range ops {
				st.Count("txn-op:" + []string{"Handle", "Update", "Delete", "Truncate", "Has"}[o.kind])
			}
			if len(st.Samples) < 14 && rnd.Pct(2) {
				st.Samples = append(st.Samples, human)
			}
		}
	}
	// operation alphabet (sorted initial sets keep the universe order)
	var alphabet []op
	for _, r := range [][2]string{{"GET", "/a"}, {"GET", "/b"}, {"POST", "/a"}, {"TRACE", "/a"}, {"PURGE", "/b"}} {
		alphabet = append(alphabet, op{kind: 0, method: r[0], pattern: r[1]}, op{kind: 1, method: r[0], pattern: r[1]}, op{kind: 2, method: r[0], pattern: r[1]})
	}
	alphabet = append(alphabet, op{kind: 4, method: "GET", pattern: "/a"})
	for _, ms := range [][]string{{}, {"GET"}, {"POST"}, {"TRACE"}, {"PURGE"}, {"GET", "TRACE"}, {"TRACE", "GET"}, {"GET", "POST"},
		{"PURGE", "GET"}, {"GET", "PURGE", "POST"}, {"DELETE", "TRACE", "PURGE"}, {"HEAD"}} {
		alphabet = append(alphabet, op{kind: 3, methods: ms})
	}
	initials := [][][2]string{
		{},
		{{"GET", "/a"}, {"GET", "/b"}, {"POST", "/a"}, {"TRACE", "/a"}},
		{{"GET", "/a"}, {"POST", "/a"}, {"TRACE", "/a"}, {"PURGE", "/b"}, {"DELETE", "/b"}},
	}
	wkinds := []string{"TUpdates", "TManual"}
	// length 0 and 1: every operation x every ending x both write kinds x every initial set; View too
	for _, in := range initials {
		for ending := 0; ending < 3; ending++ {
			for _, k := range []string{"TUpdates", "TManual", "TView"} {
				oneTxn(k, in, nil, ending, rnd.Intn(len(txnPanicVals)))
			}
		}
	}
	for _, o := range alphabet {
		for _, in := range initials[1:] {
			for ending := 0; ending < 3; ending++ {
				for _, k := range wkinds {
					oneTxn(k, in, []op{o}, ending, rnd.Intn(len(txnPanicVals)))
				}
			}
		}
		oneTxn("TView", initials[1], []op{o}, rnd.Intn(3), rnd.Intn(len(txnPanicVals)))
		oneTxn("TUpdates", initials[0], []op{o}, rnd.Intn(3), rnd.Intn(len(txnPanicVals)))
	}
	// length 2: every ordered pair; quick: one seeded (kind, ending, initial) each, biased to non-commit endings
	for _, o1 := range alphabet {
		for _, o2 := range alphabet {
			if tier == "thorough" {
				for _, in := range initials[1:] {
					for ending := 0; ending < 3; ending++ {
						oneTxn(hx.Pick(rnd, wkinds), in, []op{o1, o2}, ending, rnd.Intn(len(txnPanicVals)))
					}
				}
			} else {
				if o1.kind != 3 && o2.kind != 3 && rnd.Pct(50) {
					continue
				}
				oneTxn(hx.Pick(rnd, wkinds), initials[1+rnd.Intn(2)], []op{o1, o2}, hx.Pick(rnd, []int{0, 0, 1, 2}), rnd.Intn(len(txnPanicVals)))
			}
		}
	}
	nlong := 80
	if tier == "thorough" {
		nlong = 4000
	}
	for i := 0; i < nlong; i++ { // longer random transaction functions
		n := rnd.Range(3, 6)
		var ops []op
		for j := 0; j < n; j++ {
			ops = append(ops, hx.Pick(rnd, alphabet))
		}
		oneTxn(hx.Pick(rnd, []string{"TUpdates", "TManual", "TUpdates", "TView"}), initials[rnd.Intn(3)], ops, rnd.Intn(3), rnd.Intn(len(txnPanicVals)))
	}
	for ii, in := range initials { // write helpers: every entry point x panic source x calling context
		for ri, r := range [][2]string{{"GET", "/a"}, {"PURGE", "/b"}, {"GET", "/b"}} {
			for ai, api := range []string{"Handle", "Update", "Delete", "HandleRoute", "UpdateRoute"} {
				for ctx := 0; ctx < 2; ctx++ {
					for src := 0; src < 3; src++ {
						if api == "Delete" && src != 0 {
							continue // Delete runs no user code
						}
						hv = helperVariant{api, src, ctx}
						k := map[string]int{"Handle": 0, "HandleRoute": 0, "Update": 1, "UpdateRoute": 1, "Delete": 2}[api]
						o := op{kind: k, method: r[0], pattern: r[1]}
						switch src {
						case 0:
							oneTxn("THelper", in, []op{o}, 2, 0)
						case 1:
							oneTxn("THelper", in, []op{o}, 0, (ii+ri+ai+ctx)%len(txnPanicVals))
						default:
							oneTxn("THelper", in, []op{o}, 0, nilOptionPanic)
						}
					}
				}
			}
		}
	}
	emitTag = ""

	if len(st.Samples) == 0 {
		st.Samples = append(st.Samples, "(no sample drawn)")
	}
	// deterministic shuffle: the (large) panic cases and the (small) txn cases spread evenly over the shards
	sh := hx.NewRand(hx.Seed() + 99)
	for i := len(pending) - 1; i > 0; i-- {
		j := sh.Intn(i + 1)
		pending[i], pending[j] = pending[j], pending[i]
	}
	for _, c := range pending {
		cs.Add(c.term, c.human)
	}
	st.Evaluations = cs.Len()
	st.DistinctNontrivial = nontrivial
	st.Exhaustive = false
	st.Extra = map[string]any{"curated_panic_values": len(curated), "txn_operation_alphabet": len(alphabet)}
	hx.Fatal(cs.Write(out, shards))
	hx.Fatal(st.Write(out))
	fmt.Printf("c15: %d cases written to %s\n", cs.Len(), out)
}
