// c05: concurrent stress of the real router (built with -race, run with
// GORACE=halt_on_error=1): N writers (single-operation helpers on keys they own,
// and multi-route transactions that bump a version route from the value they
// read inside the transaction, committed / aborted / panicking) against M
// readers (ServeHTTP, Lookup, Reverse, Route/Has, Iter, View). Every operation
// is stamped with a global atomic clock at call and at return; the merged
// call/return history of each round is written as a Coq term and checked by the
// verified checker Protocol.history_ok (HistCorr.v).
//
// What is SAMPLED here and not proved: data-race freedom under the Go memory
// model and the schedules the runtime happens to produce. What is proved (of
// the protocol model that tie A binds to the source): every history the protocol
// can produce is accepted by history_ok, so a rejected history is a real defect.
package main

import (
	"context"
	"errors"
	"fmt"
	"net/http"
	"net/http/httptest"
	"os"
	"runtime"
	"sort"
	"strconv"
	"strings"
	"sync"
	"sync/atomic"
	"time"

	"foxverif/hx"

	"github.com/tigerwill90/fox"
)

type vkey struct{}

type ov struct {
	o int
	v uint64
}

type rec struct {
	tid       int
	call, ret int64
	kind      byte // 'W' committed write, 'A' aborted, 'R' read
	vs        []ov
	ok        bool // committed write: every operation returned the sequentially expected result
	what      string
}

var clock atomic.Int64

func handler(v uint64) fox.HandlerFunc {
	s := strconv.FormatUint(v, 10)
	return func(c fox.Context) {
		c.Writer().Header().Set("X-V", s)
		c.Writer().WriteHeader(http.StatusOK)
	}
}

func ann(v uint64) fox.RouteOption { return fox.WithAnnotation(vkey{}, v) }

func verOf(r *fox.Route) (uint64, bool) {
	if r == nil {
		return 0, false
	}
	v, ok := r.Annotation(vkey{}).(uint64)
	return v, ok
}

type round struct {
	f        *fox.Router
	K        int // data routes written together with /ver
	nA, nB   int // multi-route writers, single-op writers
	nE       int // verb writers: each commit adds the first route of a new custom method and removes the last of the old one
	opsE     int
	nD       int // 0 or 1 truncate writer (owns the TRACE and PURGE method roots)
	opsD     int
	nC       int // family writers: Update(parent) then writes below it, in one cached transaction
	opsC     int
	nF       int           // scenario writers: scripted snapshot / read-transaction scenarios on routes they own (see writerF)
	opsF     int
	waitF    time.Duration // how long a second writer is watched while the first write transaction is still open
	scripted bool          // scenario kinds are taken in turn instead of drawn
	nR       int
	procs    int
	opsA     int
	opsB     int
	opsR     int
	recEvery int // readers record one read out of recEvery
	seed     uint64
	bad      atomic.Bool
	badMsg   atomic.Value
	lockBroken atomic.Bool // a scenario established that the writer mutex no longer serialises write transactions
	msgMu    sync.Mutex
	msgs     []string // the first few failures of the round, for the replay
}

func (r *round) G() int { return r.K + 2 }

func (r *round) fail(format string, a ...any) {
	r.bad.Store(true)
	msg := fmt.Sprintf(format, a...)
	r.badMsg.CompareAndSwap(nil, msg)
	r.msgMu.Lock()
	if len(r.msgs) < 6 {
		r.msgs = append(r.msgs, msg)
	}
	r.msgMu.Unlock()
}

const (
	objS = 10 // single-writer keys: object 10+i
	objC = 30 // churn keys (Handle/Delete alternately): object 30+i
	// family i (owner: family writer i): objects 100*(i+1)+j for /p/i, /p/i/a, /p/i/b, /p/i/a/deep
	famSize = 4
	// version tags of transactions that will be ABORTED: must never be observed by anybody
	poison = uint64(1) << 40
)

// truncate families: routes /t/0../t/2 under the common verb TRACE (objects 900+j) and under the custom verb
// PURGE (objects 1000+j); only the truncate writer touches these two method roots
const truncN = 3

var truncMethods = [2]string{"TRACE", "PURGE"}

func tpath(j int) string   { return "/t/" + strconv.Itoa(j) }
func tobj(mi, j int) int    { return 900 + 100*mi + j }

// verb family i (owner: verb writer i): at every published state exactly ONE custom method VB<I><k> has the route
// /m/i; version k is spelled in the method name, so every answer computed from the set of method roots
// (OPTIONS *, OPTIONS /m/i, the Allow header of a 405) identifies the tree version it was computed from.
func encK(k uint64) string {
	s := ""
	for {
		s = string(rune('A'+k%26)) + s
		k /= 26
		if k == 0 {
			return s
		}
	}
}
func verbName(i int, k uint64) string   { return "VB" + string(rune('A'+i)) + encK(k) }
func poisonVerb(i int, n uint64) string { return "VX" + string(rune('A'+i)) + encK(n) }
func mpath(i int) string                { return "/m/" + strconv.Itoa(i) }
func vobj(i int) int                    { return 1100 + 100*i }

// decodes the methods of an Allow header / a snapshot: family -> versions seen
func (r *round) verbsIn(methods []string, how string) []ov {
	var vs []ov
	cnt := make([]int, r.nE)
	for _, m := range methods {
		if strings.HasPrefix(m, "VX") {
			r.fail("%s shows the method %s of a transaction that was ABORTED", how, m)
		}
		if len(m) > 3 && strings.HasPrefix(m, "VB") {
			i := int(m[2] - 'A')
			if i < 0 || i >= r.nE {
				continue
			}
			k := uint64(0)
			for _, c := range m[3:] {
				k = k*26 + uint64(c-'A')
			}
			cnt[i]++
			vs = append(vs, ov{vobj(i), k})
		}
	}
	return vs
}

var famSuffix = [famSize]string{"", "/a", "/b", "/a/deep"}

func fpath(i, j int) string { return "/p/" + strconv.Itoa(i) + famSuffix[j] }
func fobj(i, j int) int     { return 100*(i+1) + j }

// parameter routes (never written during a round): infix catch-alls followed by parameters, mid-segment parameters
var paramRoutes = []string{"/files/*{path}/meta/{id}", "/api/v{ver}/users/{uid}/x", "/dl/*{rest}/f/{name}/{id}", "/img/pre{name}/{size}"}

func paramReq(k int, id string) (path string, want []string) {
	switch k {
	case 0:
		return "/files/d" + id + "/e/f" + id + "/meta/" + id, []string{"path=d" + id + "/e/f" + id, "id=" + id}
	case 1:
		return "/api/v" + id + "/users/u" + id + "/x", []string{"ver=" + id, "uid=u" + id}
	case 2:
		return "/dl/x/" + id + "/y/f/n" + id + "/" + id, []string{"rest=x/" + id + "/y", "name=n" + id, "id=" + id}
	}
	return "/img/prei" + id + "/" + id, []string{"name=i" + id, "size=" + id}
}

// what one request saw, on the original context and on its copy (Clone / CloneWith), before and after next
type probe struct {
	mode                                                string
	origBefore, copyBefore, handler, origAfter, copyAfter []string
	sawCopy                                             bool
}

type probeKey struct{}

func paramsOf(c fox.Context) []string {
	var ps []string
	for p := range c.Params() {
		ps = append(ps, p.Key+"="+p.Value)
	}
	return ps
}

func echoParams(c fox.Context) {
	ps := paramsOf(c)
	if pr, ok := c.Request().Context().Value(probeKey{}).(*probe); ok {
		pr.handler = ps
	}
	for _, p := range ps {
		c.Writer().Header().Add("X-P", p)
	}
	c.Writer().WriteHeader(http.StatusOK)
}

// middleware of the PUT variants of the parameter routes: copies the context the way real middleware does
// (Clone for use after the request, CloneWith + Close to run something with another writer/request)
func cloneMiddleware(next fox.HandlerFunc) fox.HandlerFunc {
	return func(c fox.Context) {
		pr, _ := c.Request().Context().Value(probeKey{}).(*probe)
		if pr == nil {
			next(c)
			return
		}
		pr.origBefore = paramsOf(c)
		var cp fox.Context
		var closer fox.ContextCloser
		switch pr.mode {
		case "Clone":
			cp = c.Clone()
		default:
			closer = c.CloneWith(c.Writer(), c.Request())
			cp = closer
		}
		pr.sawCopy = true
		pr.copyBefore = paramsOf(cp)
		next(c)
		pr.origAfter = paramsOf(c)
		pr.copyAfter = paramsOf(cp)
		if closer != nil {
			closer.Close()
		}
	}
}

func same(a, b any) bool { return a == b }

func joined(ps []string) string { return strings.Join(ps, "&") }

// handler of GET /nest/{id}: while its own context is alive it performs a Lookup of another parameter route
// (a second context alive at the same time), checks that the two are distinct objects and that each shows its own
// request, before and after closing the inner one
func (r *round) nestedLookup(c fox.Context) {
	id := c.Param("id")
	path, want := paramReq(0, "9"+id)
	inner := httptest.NewRequest("GET", path, nil)
	rte, cc, _ := r.f.Lookup(c.Writer(), inner)
	if cc == nil || rte == nil {
		r.fail("nested Lookup GET %s inside the handler of /nest/%s found nothing", path, id)
	} else {
		if same(cc, c) {
			r.fail("pool discipline: the context of the nested Lookup GET %s IS the context of the request /nest/%s being served (one pooled object handed out twice)", path, id)
		}
		if got := joined(paramsOf(cc)); got != joined(want) {
			r.fail("nested Lookup GET %s shows the parameters [%s]", path, got)
		}
		if got := c.Param("id"); got != id {
			r.fail("the request /nest/%s sees id=%q after a nested Lookup", id, got)
		}
		cc.Close()
	}
	echoParams(c)
}

// scenario family i (owner: scenario writer i): /q/i/a and /q/i/b are written TOGETHER by every transaction of the
// scenario writer (objects 2000+100i+{0,1}); /q/i/c is written only by its SECOND writer (object 3000+100i);
// /q/i/t exists exactly when the version of a and b is odd (so every commit changes the number of routes).
var qSuffix = [4]string{"a", "b", "c", "t"}

func qpath(i, j int) string { return "/q/" + strconv.Itoa(i) + "/" + qSuffix[j] }
func qobj(i, j int) int {
	if j == 2 {
		return 3000 + 100*i
	}
	return 2000 + 100*i + j
}

func dpath(j int) string { return "/d/" + strconv.Itoa(j) }
func xpath(j uint64) string { return "/x/" + strconv.FormatUint(j%3, 10) }
func spat(i int) string  { return "/s/" + strconv.Itoa(i) + "/{id}" }
func sreq(i int) string  { return "/s/" + strconv.Itoa(i) + "/77" }
func cpat(i int) string  { return "/c/" + strconv.Itoa(i) + "/z" }

func (r *round) setup() {
	f, err := fox.New(fox.WithAutoOptions(true), fox.WithNoMethod(true))
	hx.Fatal(err)
	r.f = f
	must := func(_ *fox.Route, err error) { hx.Fatal(err) }
	must(f.Handle("GET", "/ver", handler(0), ann(0)))
	for j := 1; j <= r.K; j++ {
		must(f.Handle("GET", dpath(j), handler(0), ann(0)))
	}
	must(f.Handle("GET", xpath(0), handler(0), ann(0)))
	for i := 0; i < r.nB; i++ {
		must(f.Handle("POST", spat(i), handler(0), ann(0)))
	}
	for i := 0; i < r.nC; i++ {
		for j := 0; j < famSize; j++ {
			must(f.Handle("GET", fpath(i, j), handler(0), ann(0)))
		}
	}
	for _, p := range paramRoutes {
		must(f.Handle("GET", p, echoParams))
		must(f.Handle("PUT", p, echoParams, fox.WithMiddleware(cloneMiddleware)))
	}
	// routes for the other exits of ServeHTTP (never written during a round)
	must(f.Handle("GET", "/r/{id}", echoParams, fox.WithRedirectTrailingSlash(true)))
	must(f.Handle("POST", "/r/{id}", echoParams, fox.WithRedirectTrailingSlash(true)))
	must(f.Handle("GET", "/i/{id}", echoParams, fox.WithIgnoreTrailingSlash(true)))
	must(f.Handle("GET", "/nest/{id}", r.nestedLookup))
	if r.nD > 0 {
		for _, m := range truncMethods {
			for j := 0; j < truncN; j++ {
				must(f.Handle(m, tpath(j), handler(0), ann(0)))
			}
		}
	}
	for i := 0; i < r.nE; i++ {
		must(f.Handle(verbName(i, 0), mpath(i), handler(0), ann(0)))
	}
	for i := 0; i < r.nF; i++ {
		for j := 0; j < 3; j++ {
			must(f.Handle("GET", qpath(i, j), handler(0), ann(0)))
		}
	}
}

// a version a reader observed: tags of aborted transactions must never show up
func (r *round) seen(o int, v uint64, how string) ov {
	if v >= poison {
		r.fail("%s observed, on object %d, the tag %d of a transaction that was ABORTED", how, o, v)
	}
	return ov{o, v}
}

var errAbort = errors.New("c05: abort")

type boom struct{}

// the body of a multi-route transaction: reads the version inside the transaction, bumps everything
func (r *round) txnBody(txn *fox.Txn, rnd *hx.Rand, stopAfter int) (nv uint64, ok bool) {
	v, found := verOf(txn.Route("GET", "/ver"))
	if !found {
		return 0, false
	}
	nv = v + 1
	ok = true
	step := 0
	do := func(err error) {
		if err != nil {
			ok = false
		}
		step++
		if step == stopAfter {
			panic(boom{})
		}
	}
	_, err := txn.Update("GET", "/ver", handler(nv), ann(nv))
	do(err)
	for j := 1; j <= r.K; j++ {
		_, err = txn.Update("GET", dpath(j), handler(nv), ann(nv))
		do(err)
		if j == 1 && rnd.Pct(20) { // nested reads of the transaction's own state
			if x, _ := verOf(txn.Route("GET", "/ver")); x != nv {
				ok = false
			}
			for range txn.Iter().All() {
			}
		}
	}
	_, err = txn.Delete("GET", xpath(v))
	do(err)
	_, err = txn.Handle("GET", xpath(nv), handler(nv), ann(nv))
	do(err)
	return nv, ok
}

func (r *round) group(nv uint64) []ov {
	vs := make([]ov, 0, r.G())
	for o := 0; o < r.G(); o++ {
		vs = append(vs, ov{o, nv})
	}
	return vs
}

func (r *round) writerA(tid int, rnd *hx.Rand, out *[]rec) {
	for n := 0; n < r.opsA; n++ {
		mode := rnd.Intn(100)
		e := rec{tid: tid, kind: 'A'}
		var nv uint64
		var ok bool
		e.call = clock.Add(1)
		switch {
		case mode < 45: // managed, committed
			e.what = "Updates/commit"
			err := r.f.Updates(func(txn *fox.Txn) error { nv, ok = r.txnBody(txn, rnd, 0); return nil })
			if err != nil {
				ok = false
			}
			e.kind = 'W'
		case mode < 55: // managed, fn returns an error after all its writes
			e.what = "Updates/error"
			err := r.f.Updates(func(txn *fox.Txn) error { r.txnBody(txn, rnd, 0); return errAbort })
			if !errors.Is(err, errAbort) {
				r.fail("Updates did not return fn's error: %v", err)
			}
		case mode < 65: // managed, fn panics after a prefix of its writes
			e.what = "Updates/panic"
			func() {
				defer func() {
					if p := recover(); p != nil {
						if _, mine := p.(boom); !mine {
							r.fail("unexpected panic in Updates: %v", p)
						}
					}
				}()
				_ = r.f.Updates(func(txn *fox.Txn) error { r.txnBody(txn, rnd, 1+rnd.Intn(r.K+3)); return nil })
			}()
		case mode < 88: // unmanaged, committed
			e.what = "Txn/Commit"
			txn := r.f.Txn(true)
			nv, ok = r.txnBody(txn, rnd, 0)
			txn.Commit()
			if rnd.Pct(30) {
				txn.Abort() // no-op after Commit
			}
			e.kind = 'W'
		default: // unmanaged, aborted
			e.what = "Txn/Abort"
			txn := r.f.Txn(true)
			r.txnBody(txn, rnd, 0)
			txn.Abort()
			if rnd.Pct(30) {
				txn.Commit() // no-op after Abort
			}
		}
		e.ret = clock.Add(1)
		if e.kind == 'W' {
			e.vs = r.group(nv)
			e.ok = ok
		}
		*out = append(*out, e)
	}
}

// single-operation helpers on keys only this goroutine writes
func (r *round) writerB(tid, i int, rnd *hx.Rand, out *[]rec) {
	sv, cv := uint64(0), uint64(0) // version of /s/i (tag), of /c/i (operation count; odd = present)
	for n := 0; n < r.opsB; n++ {
		e := rec{tid: tid, kind: 'W', ok: true}
		switch x := rnd.Intn(100); {
		case x < 45:
			sv++
			e.what = "Update"
			e.call = clock.Add(1)
			var err error
			if rnd.Bool() {
				_, err = r.f.Update("POST", spat(i), handler(sv), ann(sv))
			} else {
				var rte *fox.Route
				rte, err = r.f.NewRoute(spat(i), handler(sv), ann(sv))
				if err == nil {
					err = r.f.UpdateRoute("POST", rte)
				}
			}
			e.ret = clock.Add(1)
			e.ok = err == nil
			e.vs = []ov{{objS + i, sv}}
		case x < 85:
			cv++
			e.call = clock.Add(1)
			var err error
			if cv%2 == 1 {
				e.what = "Handle"
				if rnd.Bool() {
					_, err = r.f.Handle("GET", cpat(i), handler(cv), ann(cv))
				} else {
					var rte *fox.Route
					rte, err = r.f.NewRoute(cpat(i), handler(cv), ann(cv))
					if err == nil {
						err = r.f.HandleRoute("GET", rte)
					}
				}
			} else {
				e.what = "Delete"
				_, err = r.f.Delete("GET", cpat(i))
			}
			e.ret = clock.Add(1)
			e.ok = err == nil
			e.vs = []ov{{objC + i, cv}}
		default:
			// an operation that must fail and leave no trace: the helper's deferred Abort path
			e.kind = 'A'
			e.what = "Handle(existing)"
			e.call = clock.Add(1)
			_, err := r.f.Handle("POST", spat(i), handler(999999), ann(999999))
			e.ret = clock.Add(1)
			if !errors.Is(err, fox.ErrRouteExist) {
				r.fail("Handle of an existing route returned %v", err)
			}
		}
		*out = append(*out, e)
	}
}

// family writer i: every transaction first Updates the parent route /p/i (a node WITH children) and then rewrites
// every route below it (Update, or Delete + Handle) inside ONE cached transaction (Txn(true) / Updates), ended by
// Commit or Abort / error. Committed transactions carry the next version on all four routes; transactions that
// will be aborted carry a poisoned, unique tag.
func (r *round) writerC(tid, i int, rnd *hx.Rand, out *[]rec) {
	ver := uint64(0)
	for n := 0; n < r.opsC; n++ {
		commit := rnd.Pct(60)
		tag := ver + 1
		if !commit {
			tag = poison + uint64(tid)<<20 + uint64(n)
		}
		body := func(txn *fox.Txn) bool {
			ok := true
			_, err := txn.Update("GET", fpath(i, 0), handler(tag), ann(tag))
			ok = ok && err == nil
			order := []int{1, 2, 3}
			if rnd.Bool() {
				order = []int{3, 2, 1}
			} else if rnd.Bool() {
				order = []int{2, 1, 3}
			}
			for _, j := range order {
				if rnd.Pct(55) {
					_, err = txn.Update("GET", fpath(i, j), handler(tag), ann(tag))
					ok = ok && err == nil
				} else {
					_, err = txn.Delete("GET", fpath(i, j))
					ok = ok && err == nil
					_, err = txn.Handle("GET", fpath(i, j), handler(tag), ann(tag))
					ok = ok && err == nil
				}
				if j == 2 && rnd.Pct(15) { // the transaction reads its own writes
					if x, _ := verOf(txn.Route("GET", fpath(i, 0))); x != tag {
						ok = false
					}
				}
			}
			return ok
		}
		e := rec{tid: tid, kind: 'A'}
		ok := false
		e.call = clock.Add(1)
		switch {
		case commit && rnd.Bool():
			e.what = "family Txn/Commit"
			txn := r.f.Txn(true)
			ok = body(txn)
			txn.Commit()
		case commit:
			e.what = "family Updates/commit"
			if err := r.f.Updates(func(txn *fox.Txn) error { ok = body(txn); return nil }); err != nil {
				ok = false
			}
		case rnd.Bool():
			e.what = "family Txn/Abort"
			txn := r.f.Txn(true)
			body(txn)
			txn.Abort()
		default:
			e.what = "family Updates/error"
			if err := r.f.Updates(func(txn *fox.Txn) error { body(txn); return errAbort }); !errors.Is(err, errAbort) {
				r.fail("Updates did not return fn's error: %v", err)
			}
		}
		e.ret = clock.Add(1)
		if commit {
			ver++
			e.kind = 'W'
			e.ok = ok
			for j := 0; j < famSize; j++ {
				e.vs = append(e.vs, ov{fobj(i, j), ver})
			}
		}
		*out = append(*out, e)
	}
}

// verb writer i: each transaction registers /m/i under a NEW custom method (the first route of that method: a method
// root is added) and deletes it under the previous one (its last route: the root is removed), in either order, in
// one transaction; committed, or aborted with a poisoned method name.
func (r *round) writerE(tid, i int, rnd *hx.Rand, out *[]rec) {
	k := uint64(0)
	for n := 0; n < r.opsE; n++ {
		commit := rnd.Pct(65)
		newM := verbName(i, k+1)
		if !commit {
			newM = poisonVerb(i, uint64(n))
		}
		oldM := verbName(i, k)
		body := func(txn *fox.Txn) bool {
			ok := true
			add := func() {
				_, err := txn.Handle(newM, mpath(i), handler(k+1), ann(k+1))
				ok = ok && err == nil
			}
			del := func() {
				_, err := txn.Delete(oldM, mpath(i))
				ok = ok && err == nil
			}
			if rnd.Bool() {
				add()
				del()
			} else {
				del()
				add()
			}
			return ok
		}
		e := rec{tid: tid, kind: 'A'}
		ok := false
		e.call = clock.Add(1)
		switch {
		case commit && rnd.Bool():
			e.what = "verb Txn/Commit"
			txn := r.f.Txn(true)
			ok = body(txn)
			txn.Commit()
		case commit:
			e.what = "verb Updates/commit"
			if err := r.f.Updates(func(txn *fox.Txn) error { ok = body(txn); return nil }); err != nil {
				ok = false
			}
		case rnd.Bool():
			e.what = "verb Txn/Abort"
			txn := r.f.Txn(true)
			body(txn)
			txn.Abort()
		default:
			e.what = "verb Updates/error"
			if err := r.f.Updates(func(txn *fox.Txn) error { body(txn); return errAbort }); !errors.Is(err, errAbort) {
				r.fail("Updates did not return fn's error: %v", err)
			}
		}
		e.ret = clock.Add(1)
		if commit {
			k++
			e.kind = 'W'
			e.ok = ok
			e.vs = []ov{{vobj(i), k}}
		}
		*out = append(*out, e)
	}
}

// truncate writer: every transaction's FIRST mutation is Truncate(methods...) on method roots nobody else writes
// (common verb TRACE, custom verb PURGE, one or both, in both orders), followed by the re-registration of every
// route of the truncated methods; ended by Commit, or by Abort / error (then with poisoned tags, or with no
// re-registration at all). In every published state all routes exist: readers must never miss one.
func (r *round) writerD(tid int, rnd *hx.Rand, out *[]rec) {
	var ver [2]uint64
	for n := 0; n < r.opsD; n++ {
		commit := rnd.Pct(55)
		var which []int
		switch rnd.Intn(4) {
		case 0:
			which = []int{0}
		case 1:
			which = []int{1}
		case 2:
			which = []int{0, 1}
		default:
			which = []int{1, 0}
		}
		reRegister := commit || rnd.Bool()
		body := func(txn *fox.Txn) bool {
			ms := make([]string, len(which))
			for i, mi := range which {
				ms[i] = truncMethods[mi]
			}
			ok := txn.Truncate(ms...) == nil
			if !reRegister {
				return ok
			}
			for _, mi := range which {
				tag := ver[mi] + 1
				if !commit {
					tag = poison + uint64(tid)<<20 + uint64(n)
				}
				for j := 0; j < truncN; j++ {
					_, err := txn.Handle(truncMethods[mi], tpath(j), handler(tag), ann(tag))
					ok = ok && err == nil
				}
			}
			return ok
		}
		e := rec{tid: tid, kind: 'A'}
		ok := false
		e.call = clock.Add(1)
		switch {
		case commit && rnd.Bool():
			e.what = "truncate Txn/Commit"
			txn := r.f.Txn(true)
			ok = body(txn)
			txn.Commit()
		case commit:
			e.what = "truncate Updates/commit"
			if err := r.f.Updates(func(txn *fox.Txn) error { ok = body(txn); return nil }); err != nil {
				ok = false
			}
		case rnd.Bool():
			e.what = "truncate Txn/Abort"
			txn := r.f.Txn(true)
			body(txn)
			if rnd.Pct(30) {
				time.Sleep(time.Duration(rnd.Intn(200)) * time.Microsecond) // keep the uncommitted truncate open a little
			}
			txn.Abort()
		default:
			e.what = "truncate Updates/error"
			if err := r.f.Updates(func(txn *fox.Txn) error { body(txn); return errAbort }); !errors.Is(err, errAbort) {
				r.fail("Updates did not return fn's error: %v", err)
			}
		}
		e.ret = clock.Add(1)
		if commit {
			e.kind = 'W'
			e.ok = ok
			for _, mi := range which {
				ver[mi]++
				for j := 0; j < truncN; j++ {
					e.vs = append(e.vs, ov{tobj(mi, j), ver[mi]})
				}
			}
		}
		*out = append(*out, e)
	}
}

// ---------- scenario writer: scripted snapshot / read-transaction scenarios inside the concurrent round ----------
//
// Scenario writer i owns /q/i/a, /q/i/b (written together: one version) and /q/i/t; its SECOND writer owns /q/i/c.
// Because it owns them, it knows the exact version every tree must show; expectations come from that bookkeeping,
// never from the router. Two scenarios, taken in turn:
//
//   snapshot-of-a-write-transaction: Txn(true) / Updates; write a; Snapshot() — every read entry point of the
//     snapshot must show the captured UNCOMMITTED write, a write through it must answer ErrReadOnlyTxn; finalise the
//     snapshot (Abort / Commit / both / not at all) while the parent is still OPEN; then (b) a read of the published
//     state must show none of the parent's writes, (a) a second writer started now must NOT complete before the parent
//     ends (watched for waitF), the parent writes b and ends (Commit / Abort), the second writer completes, and
//     (c) a last read must show every committed write of both writers (no lost update). All of it is recorded as
//     ordinary operations of three threads (parent, second writer, reader) in the round's history.
//
//   read-transaction-across-a-commit: View / Txn(false) (/ its Snapshot()); every entry point answers; a transaction
//     of this writer COMMITS the next version (same or another goroutine); every entry point of the still open read
//     transaction answers again. The protocol's reader performs ONE load: the whole read transaction is ONE read of
//     the history whose result lists every answer (single_load_ok, atomic_ok), and each answer must be the version the
//     transaction started on; Len and Has(/q/i/t) must not move either.
type view struct {
	entry string
	j     int
	v     uint64
	found bool
}

const scenarioFile = "c05_current_scenario.txt"

// what EVERY read entry point of one transaction answers about /q/i/a and /q/i/b (read transactions and snapshots
// only: Iter() on a write transaction would reset its copy-on-write cache)
func txnViews(txn *fox.Txn, i int, rw fox.ResponseWriter) (vs []view, length int, toggle bool) {
	for j := 0; j < 2; j++ {
		p := qpath(i, j)
		add := func(entry string, rte *fox.Route) {
			v, ok := verOf(rte)
			vs = append(vs, view{entry, j, v, ok && rte.Pattern() == p})
		}
		if !txn.Has("GET", p) {
			vs = append(vs, view{"Has", j, 0, false})
		}
		add("Route", txn.Route("GET", p))
		rte, _ := txn.Reverse("GET", "", p)
		add("Reverse", rte)
		rte, cc, _ := txn.Lookup(rw, httptest.NewRequest("GET", p, nil))
		add("Lookup", rte)
		if cc != nil {
			cc.Close()
		}
		it := txn.Iter()
		for _, sq := range []struct {
			name string
			seq  func(func(string, *fox.Route) bool)
		}{
			{"Iter.All", it.All()},
			{"Iter.Reverse", it.Reverse(it.Methods(), "", p)},
			{"Iter.Routes", it.Routes(it.Methods(), p)},
			{"Iter.Prefix", it.Prefix(it.Methods(), "/q/"+strconv.Itoa(i)+"/")},
		} {
			n := 0
			sq.seq(func(m string, rte *fox.Route) bool {
				if m == "GET" && rte.Pattern() == p {
					n++
					add(sq.name, rte)
				}
				return true
			})
			if n == 0 {
				vs = append(vs, view{sq.name, j, 0, false})
			}
		}
	}
	return vs, txn.Len(), txn.Has("GET", qpath(i, 3))
}

type fscen struct {
	r                 *round
	i                 int
	tid, tidW2, tidRd int
	out, outW2, outRd *[]rec
	rnd               *hx.Rand
	rw                fox.ResponseWriter
	ver, cv           uint64 // committed version of a and b; of c
	script            []string
	failed            bool
}

func (s *fscen) step(format string, a ...any) { s.script = append(s.script, fmt.Sprintf(format, a...)) }

func (s *fscen) fail(format string, a ...any) {
	msg := fmt.Sprintf("scenario [%s] => %s", strings.Join(s.script, "; "), fmt.Sprintf(format, a...))
	if !s.failed {
		fmt.Fprintln(os.Stderr, "c05: FAILURE "+msg) // a later fatal runtime error cannot take this away
	}
	s.failed = true
	s.r.fail("%s", msg)
}

// compares the answers with what this writer itself wrote; returns them as observations for the history
func (s *fscen) judge(what string, vs []view, want [2]uint64, why string) []ov {
	var out []ov
	for _, x := range vs {
		if !x.found {
			s.fail("%s: %s(GET %s) found nothing", what, x.entry, qpath(s.i, x.j))
			continue
		}
		if x.v != want[x.j] {
			s.fail("%s: %s(GET %s) answered version %d, not version %d (%s)", what, x.entry, qpath(s.i, x.j), x.v, want[x.j], why)
		}
		out = append(out, ov{qobj(s.i, x.j), x.v})
	}
	return out
}

// one read of the PUBLISHED state by the scenario's reader thread, through a different entry point per route;
// wantC < 0: the second writer is in flight, the version of c is not determined
func (s *fscen) publishedRead(what string, wantAB uint64, wantC int64, why string) {
	r := s.r
	e := rec{tid: s.tidRd, kind: 'R', what: what}
	e.call = clock.Add(1)
	for j := 0; j < 3; j++ {
		p := qpath(s.i, j)
		var rte *fox.Route
		entry := ""
		var v uint64
		found := false
		switch s.rnd.Intn(4) {
		case 0:
			entry = "Router.Route"
			rte = r.f.Route("GET", p)
			v, found = verOf(rte)
		case 1:
			entry = "Router.Reverse"
			rte, _ = r.f.Reverse("GET", "", p)
			v, found = verOf(rte)
		case 2:
			entry = "Router.Lookup"
			var cc fox.ContextCloser
			rte, cc, _ = r.f.Lookup(s.rw, httptest.NewRequest("GET", p, nil))
			v, found = verOf(rte)
			if cc != nil {
				cc.Close()
			}
		default:
			entry = "ServeHTTP"
			w := httptest.NewRecorder()
			r.f.ServeHTTP(w, httptest.NewRequest("GET", p, nil))
			if w.Code == 200 {
				v, _ = strconv.ParseUint(w.Header().Get("X-V"), 10, 64)
				found = true
			}
		}
		if !found {
			s.fail("%s: %s GET %s found nothing", what, entry, p)
			continue
		}
		e.vs = append(e.vs, r.seen(qobj(s.i, j), v, what))
		switch {
		case j < 2 && v != wantAB:
			s.fail("%s: %s GET %s shows version %d, not version %d (%s)", what, entry, p, v, wantAB, why)
		case j == 2 && wantC >= 0 && v != uint64(wantC):
			s.fail("%s: %s GET %s shows version %d, not version %d: the second writer's committed write is not what the published tree shows (lost update)", what, entry, p, v, wantC)
		}
	}
	e.ret = clock.Add(1)
	*s.outRd = append(*s.outRd, e)
}

// the ordinary committed transaction of the scenario writer: a and b to the next version, /q/i/t toggled
func (s *fscen) commitAB() {
	r := s.r
	nv := s.ver + 1
	e := rec{tid: s.tid, kind: 'W', what: "scenario writer commit"}
	ok := true
	body := func(txn *fox.Txn) {
		chk := func(_ *fox.Route, err error) { ok = ok && err == nil }
		if s.rnd.Bool() {
			chk(txn.Update("GET", qpath(s.i, 0), handler(nv), ann(nv)))
		} else {
			chk(txn.Delete("GET", qpath(s.i, 0)))
			chk(txn.Handle("GET", qpath(s.i, 0), handler(nv), ann(nv)))
		}
		chk(txn.Update("GET", qpath(s.i, 1), handler(nv), ann(nv)))
		if nv%2 == 1 {
			chk(txn.Handle("GET", qpath(s.i, 3), handler(nv), ann(nv)))
		} else {
			chk(txn.Delete("GET", qpath(s.i, 3)))
		}
	}
	e.call = clock.Add(1)
	if s.rnd.Bool() {
		txn := r.f.Txn(true)
		body(txn)
		txn.Commit()
	} else if err := r.f.Updates(func(txn *fox.Txn) error { body(txn); return nil }); err != nil {
		ok = false
	}
	e.ret = clock.Add(1)
	e.ok = ok
	e.vs = []ov{{qobj(s.i, 0), nv}, {qobj(s.i, 1), nv}}
	s.ver = nv
	*s.out = append(*s.out, e)
}

func (s *fscen) readTxnAcrossCommit(idx int) {
	r := s.r
	mode := idx % 3
	other := s.rnd.Bool()
	names := [3]string{"View", "Txn(false)", "Txn(false) and its Snapshot()"}
	s.script = s.script[:0]
	e := rec{tid: s.tidRd, kind: 'R', what: "read transaction " + names[mode] + " across a commit: Has Route Reverse Lookup Iter.All Iter.Reverse Iter.Routes Iter.Prefix Len"}
	inner := func(rt *fox.Txn) {
		k := s.ver
		why := "the version published when the read transaction started; a read transaction works on the ONE tree it loaded"
		s.step("thread %d: %s opened while /q/%d/a and /q/%d/b are at version %d", s.tidRd, names[mode], s.i, s.i, k)
		vs0, len0, tog0 := txnViews(rt, s.i, s.rw)
		e.vs = append(e.vs, s.judge("before the commit", vs0, [2]uint64{k, k}, why)...)
		if other {
			ch := make(chan struct{})
			go func() { defer close(ch); s.commitAB() }()
			<-ch
		} else {
			s.commitAB()
		}
		s.step("thread %d (%s): a write transaction committed version %d of both routes and returned", s.tid, map[bool]string{true: "another goroutine", false: "same goroutine"}[other], s.ver)
		views := []*fox.Txn{rt}
		if mode == 2 {
			views = append(views, rt.Snapshot())
		}
		for vi, t := range views {
			what := "the still open read transaction, after the commit"
			if vi == 1 {
				what = "Snapshot() of the still open read transaction, after the commit"
			}
			vs1, len1, tog1 := txnViews(t, s.i, s.rw)
			e.vs = append(e.vs, s.judge(what, vs1, [2]uint64{k, k}, why)...)
			if len1 != len0 || tog1 != tog0 {
				s.fail("%s: Len() = %d and Has(GET %s) = %v, before the commit %d and %v", what, len1, qpath(s.i, 3), tog1, len0, tog0)
			}
		}
	}
	e.call = clock.Add(1)
	if mode == 0 {
		_ = r.f.View(func(rt *fox.Txn) error { inner(rt); return nil })
	} else {
		rt := r.f.Txn(false)
		inner(rt)
		if s.rnd.Bool() {
			rt.Abort()
		} else {
			rt.Commit()
		}
	}
	e.ret = clock.Add(1)
	*s.outRd = append(*s.outRd, e)
	s.publishedRead("read of the published state after the read transaction ended", s.ver, int64(s.cv), "the last committed version")
}

var finaliseNames = [4]string{"Abort()", "Commit()", "Commit() then Abort()", "nothing (left open)"}

// returns true when the round must not be continued by this writer (a violation is established)
func (s *fscen) snapshotOfWriteTxn(idx int) (stop bool) {
	r := s.r
	fin := idx % 4
	commit := (idx%4+idx/4)%2 == 0
	managed := s.rnd.Bool()
	w2managed := s.rnd.Bool()
	n := len(*s.out)
	tag := s.ver + 1
	if !commit {
		tag = poison + uint64(s.tid)<<20 + uint64(n)
	}
	s.script = s.script[:0]
	open := "Txn(true)"
	if managed {
		open = "Updates(fn)"
	}
	s.step("thread %d: %s while a, b are at version %d and c at version %d", s.tid, open, s.ver, s.cv)
	_ = os.WriteFile(scenarioFile, []byte(fmt.Sprintf("round seed=%d, scenario writer thread %d (second writer: thread %d, reader: thread %d), routes /q/%d/{a,b,c}: %s; Update a -> tag %d; Snapshot(); reads and a refused write through the snapshot; snapshot.%s; read of the published state; a second writer (Update c) is started and watched for %s; Update b; %s; ...",
		r.seed, s.tid, s.tidW2, s.tidRd, s.i, open, tag, finaliseNames[fin], r.waitF, map[bool]string{true: "Commit", false: "Abort"}[commit])), 0o644)
	e := rec{tid: s.tid, kind: 'A', what: "write transaction with a finalised Snapshot()"}
	ok := true
	done := make(chan rec, 1)
	var w2 *rec
	leak, lockBroken := false, false
	body := func(txn *fox.Txn) {
		_, err := txn.Update("GET", qpath(s.i, 0), handler(tag), ann(tag))
		ok = ok && err == nil
		s.step("Update GET %s -> version tag %d (uncommitted)", qpath(s.i, 0), tag)
		snap := txn.Snapshot()
		s.step("snap := Snapshot()")
		if snap == nil {
			s.fail("Snapshot() of an open write transaction returned nil")
			return
		}
		vs, _, _ := txnViews(snap, s.i, s.rw)
		s.judge("the snapshot of the open write transaction", vs, [2]uint64{tag, s.ver}, "a snapshot shows the state of the transaction at the time it was taken, uncommitted writes included")
		// the snapshot is a read-only transaction
		bogus := poison + uint64(s.tid)<<20 + 1<<19 + uint64(n)
		if _, err := snap.Update("GET", qpath(s.i, 1), handler(bogus), ann(bogus)); !errors.Is(err, fox.ErrReadOnlyTxn) {
			s.fail("snap.Update(GET %s) returned %v, not ErrReadOnlyTxn: the snapshot of a write transaction accepts writes", qpath(s.i, 1), err)
		}
		switch fin {
		case 0:
			snap.Abort()
		case 1:
			snap.Commit()
		case 2:
			snap.Commit()
			snap.Abort()
		}
		s.step("snap: %s, the write transaction of thread %d is still OPEN", finaliseNames[fin], s.tid)
		// (b) nothing of the open transaction is published
		s.publishedRead("read of the published state while the write transaction is open", s.ver, int64(s.cv),
			"the last COMMITTED version; the open transaction's write of "+strconv.FormatUint(tag, 10)+" is not committed")
		// (a) a second writer must wait for the open transaction
		cn := s.cv + 1
		go func() {
			w := rec{tid: s.tidW2, kind: 'W', what: "second writer Update c"}
			defer func() {
				if p := recover(); p != nil {
					r.fail("second writer (thread %d) panicked: %v", s.tidW2, p)
					w.ret = clock.Add(1)
					done <- w
				}
			}()
			var err error
			w.call = clock.Add(1)
			if w2managed {
				err = r.f.Updates(func(t2 *fox.Txn) error {
					_, err := t2.Update("GET", qpath(s.i, 2), handler(cn), ann(cn))
					return err
				})
			} else {
				_, err = r.f.Update("GET", qpath(s.i, 2), handler(cn), ann(cn))
			}
			w.ret = clock.Add(1)
			w.ok = err == nil
			w.vs = []ov{{qobj(s.i, 2), cn}}
			done <- w
		}()
		s.step("thread %d: second writer started: Update GET %s -> version %d", s.tidW2, qpath(s.i, 2), cn)
		select {
		case w := <-done:
			w2 = &w
			lockBroken = true
			r.lockBroken.Store(true)
			s.fail("the second writer (thread %d) COMPLETED its Update (ok=%v) while the write transaction of thread %d was still open (watched for %s): write transactions are no longer serialised from lock acquisition to Commit/Abort", s.tidW2, w.ok, s.tid, r.waitF)
		case <-time.After(r.waitF):
		}
		_, err = txn.Update("GET", qpath(s.i, 1), handler(tag), ann(tag))
		ok = ok && err == nil
		s.step("thread %d: Update GET %s -> version tag %d", s.tid, qpath(s.i, 1), tag)
		if commit { // /q/i/t exists exactly when the version is odd
			if tag%2 == 1 {
				_, err = txn.Handle("GET", qpath(s.i, 3), handler(tag), ann(tag))
			} else {
				_, err = txn.Delete("GET", qpath(s.i, 3))
			}
			ok = ok && err == nil
		}
		if w2 != nil {
			// The writer mutex was released under the open transaction, so ending the transaction would unlock an
			// unlocked mutex (fatal runtime error, the history would be lost). A sacrificial write transaction,
			// never ended, takes the mutex first: the parent can then end and the consequence becomes observable.
			acq := make(chan struct{})
			go func() { r.f.Txn(true); close(acq) }()
			select {
			case <-acq:
			case <-time.After(2 * time.Second):
				leak = true
			}
		}
	}
	e.call = clock.Add(1)
	if managed {
		err := r.f.Updates(func(txn *fox.Txn) error {
			body(txn)
			if commit {
				return nil
			}
			return errAbort
		})
		if commit != (err == nil) {
			ok = false
		}
	} else {
		txn := r.f.Txn(true)
		body(txn)
		switch {
		case leak: // never ended: its Unlock would be fatal
		case commit:
			txn.Commit()
		default:
			txn.Abort()
		}
	}
	e.ret = clock.Add(1)
	s.step("thread %d: the write transaction ended by %s", s.tid, map[bool]string{true: "Commit", false: "Abort"}[commit])
	if commit && !leak {
		s.ver = tag
		e.kind, e.ok = 'W', ok
		e.vs = []ov{{qobj(s.i, 0), tag}, {qobj(s.i, 1), tag}}
	}
	*s.out = append(*s.out, e)
	if w2 == nil {
		select {
		case w := <-done:
			w2 = &w
		case <-time.After(20 * time.Second):
			s.fail("the second writer (thread %d) is still blocked 20 s after the write transaction ended (writer mutex never released)", s.tidW2)
			return true
		}
	}
	*s.outW2 = append(*s.outW2, *w2)
	if w2.ok {
		s.cv++
	} else {
		s.fail("the second writer's Update of a registered route failed")
	}
	s.step("thread %d: second writer returned (version %d of c committed)", s.tidW2, s.cv)
	// (c) every committed write of both writers is there
	s.publishedRead("read of the published state after both writers returned", s.ver, int64(s.cv), "the version the last COMMITTED transaction of the scenario writer wrote (an aborted one leaves no trace)")
	os.Remove(scenarioFile)
	return lockBroken
}

func (r *round) writerF(tid, i, tidW2, tidRd int, rnd *hx.Rand, out, outW2, outRd *[]rec) {
	req0 := httptest.NewRequest("GET", "/ver", nil)
	s := &fscen{r: r, i: i, tid: tid, tidW2: tidW2, tidRd: tidRd, out: out, outW2: outW2, outRd: outRd, rnd: rnd,
		rw: fox.NewTestContextOnly(httptest.NewRecorder(), req0).Writer()}
	for n := 0; n < r.opsF; n++ {
		idx := n / 2
		if !r.scripted {
			idx = rnd.Intn(24)
		}
		if n%2 == 0 {
			if s.snapshotOfWriteTxn(idx) {
				return
			}
		} else {
			s.readTxnAcrossCommit(idx)
		}
	}
}

type target struct {
	method, pattern, path string
	obj                   int
	always                bool // registered in every published state: a reader must never miss it
}

func (r *round) targets() []target {
	ts := []target{{"GET", "/ver", "/ver", 0, true}}
	for j := 1; j <= r.K; j++ {
		ts = append(ts, target{"GET", dpath(j), dpath(j), j, true})
	}
	for i := 0; i < r.nB; i++ {
		ts = append(ts, target{"POST", spat(i), sreq(i), objS + i, true}, target{"GET", cpat(i), cpat(i), objC + i, false})
	}
	for i := 0; i < r.nC; i++ {
		for j := 0; j < famSize; j++ {
			ts = append(ts, target{"GET", fpath(i, j), fpath(i, j), fobj(i, j), true})
		}
	}
	for i := 0; i < r.nF; i++ {
		for j := 0; j < 3; j++ {
			ts = append(ts, target{"GET", qpath(i, j), qpath(i, j), qobj(i, j), true})
		}
	}
	if r.nD > 0 {
		for mi, m := range truncMethods {
			for j := 0; j < truncN; j++ { // listed twice: these are the routes a misplaced truncate hides
				ts = append(ts, target{m, tpath(j), tpath(j), tobj(mi, j), true}, target{m, tpath(j), tpath(j), tobj(mi, j), true})
			}
		}
	}
	return ts
}

// everything one loaded tree shows
func (r *round) snapshotOf(all func(func(string, *fox.Route) bool)) []ov {
	var vs []ov
	nx, nf, nt, nq := 0, 0, 0, 0
	var verbs []string
	all(func(m string, rte *fox.Route) bool {
		v, _ := verOf(rte)
		p := rte.Pattern()
		switch {
		case p == "/ver":
			vs = append(vs, ov{0, v})
		case strings.HasPrefix(p, "/d/"):
			j, _ := strconv.Atoi(p[3:])
			vs = append(vs, ov{j, v})
		case strings.HasPrefix(p, "/x/"):
			nx++
			if p != xpath(v) {
				r.fail("snapshot shows %s with version %d", p, v)
			}
			vs = append(vs, ov{r.K + 1, v})
		case strings.HasPrefix(p, "/s/"):
			i, _ := strconv.Atoi(p[3:strings.LastIndex(p, "/")])
			vs = append(vs, ov{objS + i, v})
		case strings.HasPrefix(p, "/c/"):
			i, _ := strconv.Atoi(p[3:strings.LastIndex(p, "/")])
			vs = append(vs, ov{objC + i, v})
		case strings.HasPrefix(p, "/m/"):
			verbs = append(verbs, m)
		case strings.HasPrefix(p, "/q/"):
			i, _ := strconv.Atoi(p[3:strings.LastIndex(p, "/")])
			for j := 0; j < 3; j++ {
				if p == qpath(i, j) {
					nq++
					vs = append(vs, ov{qobj(i, j), v})
				}
			}
		case strings.HasPrefix(p, "/t/"):
			j, _ := strconv.Atoi(p[3:])
			for mi := range truncMethods {
				if truncMethods[mi] == m {
					nt++
					vs = append(vs, ov{tobj(mi, j), v})
				}
			}
		case strings.HasPrefix(p, "/p/"):
			rest := p[3:]
			suffix := ""
			if k := strings.IndexByte(rest, '/'); k >= 0 {
				rest, suffix = rest[:k], rest[k:]
			}
			i, _ := strconv.Atoi(rest)
			nf++
			for j := range famSuffix {
				if famSuffix[j] == suffix {
					vs = append(vs, ov{fobj(i, j), v})
				}
			}
		}
		if v >= poison {
			r.fail("a snapshot shows %s with the tag %d of a transaction that was ABORTED", p, v)
		}
		return true
	})
	if nx != 1 {
		r.fail("snapshot shows %d /x routes (a partially applied transaction)", nx)
	}
	mv := r.verbsIn(verbs, "a snapshot")
	if len(mv) != r.nE || len(verbs) != r.nE {
		r.fail("snapshot shows the routes /m/* under the methods %v: not exactly one per verb family (a partially applied transaction)", verbs)
	}
	vs = append(vs, mv...)
	if nt != 2*truncN*r.nD {
		r.fail("snapshot shows %d TRACE/PURGE routes instead of %d (an uncommitted, aborted or partial Truncate is visible)", nt, 2*truncN*r.nD)
	}
	if nq != 3*r.nF {
		r.fail("snapshot shows %d of the routes /q/*/{a,b,c} instead of %d", nq, 3*r.nF)
	}
	if nf != famSize*r.nC {
		r.fail("snapshot shows %d family routes instead of %d (a partially applied transaction)", nf, famSize*r.nC)
	}
	return vs
}

func (r *round) reader(tid int, rnd *hx.Rand, out *[]rec, stop *atomic.Bool) {
	ts := r.targets()
	req0 := httptest.NewRequest("GET", "/ver", nil)
	rw := fox.NewTestContextOnly(httptest.NewRecorder(), req0).Writer()
	rw2 := fox.NewTestContextOnly(httptest.NewRecorder(), req0).Writer()
	reqs := make([]*http.Request, len(ts))
	for i, t := range ts {
		reqs[i] = httptest.NewRequest(t.method, t.path, nil)
	}
	nreq := 0
	for n := 0; n < r.opsR && !stop.Load(); n++ {
		e := rec{tid: tid, kind: 'R'}
		ti := rnd.Intn(len(ts))
		t := ts[ti]
		record := n%r.recEvery == 0
		kind := rnd.Intn(230)
		if record {
			e.call = clock.Add(1)
		}
		switch {
		case kind >= 215:
			// iterator Seqs are values: ranged twice, and from two goroutines at once, they must give the same answer and
			// must not disturb a context that is alive in between (a Seq that keeps a pooled context across ranges would)
			e.what = "iter-seqs"
			nreq++
			id := strconv.Itoa(tid) + "000" + strconv.Itoa(nreq)
			it := r.f.Iter()
			collect := func(seq func(func(string, *fox.Route) bool)) string {
				var xs []string
				seq(func(m string, rte *fox.Route) bool {
					v, _ := verOf(rte)
					xs = append(xs, m+" "+rte.Pattern()+"="+strconv.FormatUint(v, 10))
					return true
				})
				sort.Strings(xs)
				return strings.Join(xs, ",")
			}
			var seq func(func(string, *fox.Route) bool)
			name := ""
			switch rnd.Intn(4) {
			case 0:
				name, seq = "Routes(/ver)", it.Routes(it.Methods(), "/ver")
			case 1:
				name, seq = "Reverse(/d/1)", it.Reverse(it.Methods(), "", dpath(1))
			case 2:
				name, seq = "Prefix(/d/)", it.Prefix(it.Methods(), "/d/")
			default:
				name, seq = "All", it.All()
			}
			first := collect(seq)
			// a context that stays alive across the second range
			path, want := paramReq(rnd.Intn(len(paramRoutes)), id)
			_, held, _ := r.f.Lookup(rw, httptest.NewRequest("GET", path, nil))
			second := collect(seq)
			var third string
			wg := make(chan struct{})
			go func() { defer close(wg); third = collect(seq) }()
			fourth := collect(seq)
			<-wg
			if first == "" || second != first || third != first || fourth != first {
				r.fail("Iter.%s by goroutine %d: ranging the same Seq again gave different answers: %q / %q / (other goroutine) %q / %q", name, tid, first, second, third, fourth)
			}
			if held != nil {
				if got := joined(paramsOf(held)); got != joined(want) {
					r.fail("pool discipline: the context of Lookup GET %s, alive while Iter.%s was ranged a second time, now shows the parameters [%s], not [%s]", path, name, got, joined(want))
				}
				held.Close()
			}
		case kind >= 200:
			// several contexts alive at once: two Lookups that are not closed, a CloneWith of the first, a request whose
			// handler performs a nested Lookup; preceded by a request that leaves ServeHTTP through the redirect exit.
			// Contexts alive at the same time must be DISTINCT objects and each must keep showing its own request.
			e.what = "contexts-alive"
			nreq++
			id := strconv.Itoa(tid) + "000" + strconv.Itoa(nreq)
			if rnd.Bool() {
				w := httptest.NewRecorder()
				r.f.ServeHTTP(w, httptest.NewRequest("GET", "/r/"+id+"/", nil))
				if w.Code != http.StatusMovedPermanently {
					r.fail("GET /r/%s/ answered %d, not the trailing-slash redirect", id, w.Code)
				}
			}
			p1, want1 := paramReq(rnd.Intn(len(paramRoutes)), "1"+id)
			p2, want2 := paramReq(rnd.Intn(len(paramRoutes)), "2"+id)
			req1, req2 := httptest.NewRequest("GET", p1, nil), httptest.NewRequest("GET", p2, nil)
			_, c1, _ := r.f.Lookup(rw, req1)
			_, c2, _ := r.f.Lookup(rw2, req2)
			if c1 == nil || c2 == nil {
				r.fail("Lookup GET %s / %s found nothing", p1, p2)
			} else {
				c3 := c1.CloneWith(rw, req1)
				if same(c1, c2) || same(c1, c3) || same(c2, c3) {
					r.fail("pool discipline: goroutine %d holds contexts for GET %s, GET %s and a CloneWith of the first at the same time, and two of them are the SAME object", tid, p1, p2)
				}
				w := httptest.NewRecorder()
				r.f.ServeHTTP(w, httptest.NewRequest("GET", "/nest/"+id, nil))
				if w.Code != 200 || joined(w.Header().Values("X-P")) != "id="+id {
					r.fail("GET /nest/%s: status %d, params %v", id, w.Code, w.Header().Values("X-P"))
				}
				for _, x := range []struct {
					what string
					c    fox.Context
					want []string
					path string
				}{{"first Lookup context", c1, want1, p1}, {"second Lookup context", c2, want2, p2}, {"CloneWith of the first", c3, want1, p1}} {
					if got := joined(paramsOf(x.c)); got != joined(x.want) || x.c.Request().URL.Path != x.path {
						r.fail("pool discipline: the %s (GET %s), still alive, shows the parameters [%s] and the request %s", x.what, x.path, got, x.c.Request().URL.Path)
					}
				}
				c3.Close()
				c2.Close()
				c1.Close()
			}
		case kind >= 185:
			// the remaining exits of ServeHTTP, with an id unique to the request: trailing-slash redirect (301 / 308),
			// ignored trailing slash (200, parameters from the tsr lookup), 404
			e.what = "exits"
			nreq++
			id := strconv.Itoa(tid) + "000" + strconv.Itoa(nreq)
			w := httptest.NewRecorder()
			switch rnd.Intn(4) {
			case 0:
				r.f.ServeHTTP(w, httptest.NewRequest("GET", "/r/"+id+"/", nil))
				if w.Code != http.StatusMovedPermanently || !strings.HasSuffix(w.Header().Get("Location"), "/r/"+id) && !strings.HasSuffix(w.Header().Get("Location"), id) {
					r.fail("GET /r/%s/: status %d Location %q", id, w.Code, w.Header().Get("Location"))
				}
			case 1:
				r.f.ServeHTTP(w, httptest.NewRequest("POST", "/r/"+id+"/", nil))
				if w.Code != http.StatusPermanentRedirect || !strings.HasSuffix(w.Header().Get("Location"), id) {
					r.fail("POST /r/%s/: status %d Location %q", id, w.Code, w.Header().Get("Location"))
				}
			case 2:
				r.f.ServeHTTP(w, httptest.NewRequest("GET", "/i/"+id+"/", nil))
				if w.Code != 200 || joined(w.Header().Values("X-P")) != "id="+id {
					r.fail("GET /i/%s/ (ignored trailing slash): status %d, params %v", id, w.Code, w.Header().Values("X-P"))
				}
			default:
				r.f.ServeHTTP(w, httptest.NewRequest("GET", "/nope/"+id, nil))
				if w.Code != http.StatusNotFound {
					r.fail("GET /nope/%s: status %d", id, w.Code)
				}
			}
		case kind >= 150:
			// answers computed from the SET OF METHOD ROOTS of the tree the request loaded: the Allow header of
			// OPTIONS *, of OPTIONS <path> and of a 405. The verb families spell their version in the method name, so
			// each answer is an observation of a tree version like any other read.
			var req *http.Request
			wantStatus := http.StatusOK
			fam := -1
			switch {
			case kind < 165 || r.nE == 0:
				e.what = "OPTIONS *"
				req = httptest.NewRequest(http.MethodOptions, "*", nil)
			case kind < 175:
				fam = rnd.Intn(r.nE)
				e.what = "OPTIONS " + mpath(fam)
				req = httptest.NewRequest(http.MethodOptions, mpath(fam), nil)
			default:
				fam = rnd.Intn(r.nE)
				e.what = "405 on GET " + mpath(fam)
				req = httptest.NewRequest(http.MethodGet, mpath(fam), nil)
				wantStatus = http.StatusMethodNotAllowed
			}
			w := httptest.NewRecorder()
			r.f.ServeHTTP(w, req)
			allow := strings.Split(w.Header().Get("Allow"), ", ")
			if w.Code != wantStatus {
				r.fail("%s by goroutine %d: status %d, Allow %q", e.what, tid, w.Code, w.Header().Get("Allow"))
			}
			e.vs = r.verbsIn(allow, e.what)
			has := func(m string) bool {
				for _, a := range allow {
					if a == m {
						return true
					}
				}
				return false
			}
			if fam >= 0 {
				if len(e.vs) != 1 || e.vs[0].o != vobj(fam) {
					r.fail("%s by goroutine %d: Allow %q does not name exactly one method of verb family %d", e.what, tid, w.Header().Get("Allow"), fam)
				}
			} else {
				if len(e.vs) != r.nE {
					r.fail("OPTIONS * by goroutine %d: Allow %q does not name exactly one method per verb family (%d families)", tid, w.Header().Get("Allow"), r.nE)
				}
				if !has("GET") || (r.nB > 0 && !has("POST")) || (r.nD > 0 && (!has("TRACE") || !has("PURGE"))) {
					r.fail("OPTIONS * by goroutine %d: Allow %q lacks a method that has routes in every published state", tid, w.Header().Get("Allow"))
				}
			}
		case kind >= 125:
			// the same, through code that COPIES the context: a middleware calling Clone or CloneWith (+ Close), or
			// Lookup followed by CloneWith; the original and the copy, before and after the handler ran, must all show
			// this request's own parameters
			e.what = "params+clone"
			nreq++
			id := strconv.Itoa(tid) + "000" + strconv.Itoa(nreq)
			pk := rnd.Intn(len(paramRoutes))
			path, want := paramReq(pk, id)
			pr := &probe{mode: "Clone"}
			if kind >= 133 {
				pr.mode = "CloneWith"
			}
			req := httptest.NewRequest("PUT", path, nil)
			req = req.WithContext(context.WithValue(req.Context(), probeKey{}, pr))
			views := map[string][]string{}
			if kind < 142 {
				w := httptest.NewRecorder()
				r.f.ServeHTTP(w, req)
				if w.Code != 200 || !pr.sawCopy {
					r.fail("ServeHTTP PUT %s: status %d, middleware ran: %v", path, w.Code, pr.sawCopy)
				}
				views = map[string][]string{"original before next": pr.origBefore, "copy before next": pr.copyBefore,
					"handler": pr.handler, "original after next": pr.origAfter, "copy after next": pr.copyAfter}
			} else {
				pr.mode = "Lookup+CloneWith"
				rte, cc, _ := r.f.Lookup(rw, req)
				if cc == nil || rte == nil || rte.Pattern() != paramRoutes[pk] {
					r.fail("Lookup PUT %s found no or a wrong route", path)
				} else {
					views["lookup context"] = paramsOf(cc)
					cp := cc.CloneWith(rw, req)
					views["copy"] = paramsOf(cp)
					views["lookup context after CloneWith"] = paramsOf(cc)
					cl := cc.Clone()
					cp.Close()
					cc.Close()
					views["Clone after Close"] = paramsOf(cl)
				}
			}
			for where, got := range views {
				if strings.Join(got, "&") != strings.Join(want, "&") {
					r.fail("%s PUT %s (route %s) by goroutine %d: the %s shows the parameters [%s], not the request's own [%s]",
						pr.mode, path, paramRoutes[pk], tid, where, strings.Join(got, " "), strings.Join(want, " "))
				}
			}
		case kind >= 100:
			// a request with parameters carrying an id unique to THIS request: whatever the router hands back
			// (to the handler through c.Params(), or to the caller of Lookup) must reproduce this request
			e.what = "params"
			nreq++
			id := strconv.Itoa(tid) + "000" + strconv.Itoa(nreq)
			pk := rnd.Intn(len(paramRoutes))
			path, want := paramReq(pk, id)
			req := httptest.NewRequest("GET", path, nil)
			var got []string
			how := "ServeHTTP"
			if kind < 115 {
				w := httptest.NewRecorder()
				r.f.ServeHTTP(w, req)
				got = w.Header().Values("X-P")
				if w.Code != 200 {
					got = append(got, "status="+strconv.Itoa(w.Code))
				}
			} else {
				how = "Lookup"
				rte, cc, _ := r.f.Lookup(rw, req)
				if cc != nil {
					for p := range cc.Params() {
						got = append(got, p.Key+"="+p.Value)
					}
					cc.Close()
				}
				if rte == nil || rte.Pattern() != paramRoutes[pk] {
					got = append(got, "route=nil-or-wrong")
				}
			}
			if strings.Join(got, "&") != strings.Join(want, "&") {
				r.fail("%s GET %s (route %s) by goroutine %d was given the parameters [%s], not its own [%s]",
					how, path, paramRoutes[pk], tid, strings.Join(got, " "), strings.Join(want, " "))
			}
		case kind < 30:
			e.what = "ServeHTTP"
			w := httptest.NewRecorder()
			r.f.ServeHTTP(w, reqs[ti])
			if w.Code == 200 {
				v, _ := strconv.ParseUint(w.Header().Get("X-V"), 10, 64)
				e.vs = []ov{r.seen(t.obj, v, e.what)}
			}
		case kind < 45:
			e.what = "Lookup"
			rte, cc, _ := r.f.Lookup(rw, reqs[ti])
			if v, ok := verOf(rte); ok {
				e.vs = []ov{r.seen(t.obj, v, e.what)}
			}
			if cc != nil {
				cc.Close()
			}
		case kind < 58:
			e.what = "Reverse"
			rte, _ := r.f.Reverse(t.method, "", t.path)
			if v, ok := verOf(rte); ok {
				e.vs = []ov{r.seen(t.obj, v, e.what)}
			}
		case kind < 72:
			e.what = "Route/Has"
			if rnd.Bool() {
				_ = r.f.Has(t.method, t.pattern)
			}
			if v, ok := verOf(r.f.Route(t.method, t.pattern)); ok {
				e.vs = []ov{r.seen(t.obj, v, e.what)}
			}
		case kind < 86:
			e.what = "Iter"
			it := r.f.Iter()
			e.vs = r.snapshotOf(it.All())
			if l := r.f.Len(); l < r.K+2+r.nB+famSize*r.nC+2*len(paramRoutes)+4+2*truncN*r.nD+r.nE+3*r.nF {
				r.fail("Len() = %d", l)
			}
		default:
			e.what = "View"
			_ = r.f.View(func(txn *fox.Txn) error {
				// several lookups on the one tree the transaction loaded
				for o := 0; o <= r.K; o++ {
					p := "/ver"
					if o > 0 {
						p = dpath(o)
					}
					// every lookup entry point of the read transaction answers from the ONE tree it loaded
					var rte *fox.Route
					how := "Route"
					switch rnd.Intn(3) {
					case 0:
						rte = txn.Route("GET", p)
					case 1:
						how = "Reverse"
						rte, _ = txn.Reverse("GET", "", p)
					default:
						how = "Lookup"
						var cc fox.ContextCloser
						rte, cc, _ = txn.Lookup(rw, httptest.NewRequest("GET", p, nil))
						if cc != nil {
							cc.Close()
						}
					}
					if v, ok := verOf(rte); ok {
						e.vs = append(e.vs, ov{o, v})
					} else {
						r.fail("View: Txn.%s GET %s found nothing", how, p)
					}
				}
				if rnd.Bool() {
					e.vs = r.snapshotOf(txn.Iter().All())
				}
				return nil
			})
		}
		if kind < 72 && t.always && len(e.vs) == 0 {
			r.fail("%s by goroutine %d: %s %s not found, although it is registered in every published state (an uncommitted or aborted write is visible)", e.what, tid, t.method, t.path)
		}
		if record {
			e.ret = clock.Add(1)
			*out = append(*out, e)
		}
	}
}

type event struct {
	ts  int64
	ret bool
	r   *rec
}

func (r *round) run(rnd *hx.Rand) (events []event, dur time.Duration) {
	r.setup()
	old := runtime.GOMAXPROCS(r.procs)
	defer runtime.GOMAXPROCS(old)
	nth0 := r.nA + r.nB + r.nC + r.nD + r.nE + r.nR
	nth := nth0 + 3*r.nF // scenario writer i: its own thread, its second writer, its reader
	recs := make([][]rec, nth)
	rnds := make([]*hx.Rand, nth)
	for i := range rnds {
		rnds[i] = rnd.Fork()
	}
	var wgW, wgR sync.WaitGroup
	var stop atomic.Bool
	start := make(chan struct{})
	guard := func(tid int, wg *sync.WaitGroup, fn func()) {
		wg.Add(1)
		go func() {
			defer wg.Done()
			defer func() {
				if p := recover(); p != nil {
					r.fail("goroutine %d panicked: %v", tid, p)
				}
			}()
			<-start
			fn()
		}()
	}
	for i := 0; i < r.nA; i++ {
		tid := i
		guard(tid, &wgW, func() { r.writerA(tid, rnds[tid], &recs[tid]) })
	}
	for i := 0; i < r.nB; i++ {
		tid, k := r.nA+i, i
		guard(tid, &wgW, func() { r.writerB(tid, k, rnds[tid], &recs[tid]) })
	}
	for i := 0; i < r.nC; i++ {
		tid, k := r.nA+r.nB+i, i
		guard(tid, &wgW, func() { r.writerC(tid, k, rnds[tid], &recs[tid]) })
	}
	if r.nD > 0 {
		tid := r.nA + r.nB + r.nC
		guard(tid, &wgW, func() { r.writerD(tid, rnds[tid], &recs[tid]) })
	}
	for i := 0; i < r.nE; i++ {
		tid, k := r.nA+r.nB+r.nC+r.nD+i, i
		guard(tid, &wgW, func() { r.writerE(tid, k, rnds[tid], &recs[tid]) })
	}
	for i := 0; i < r.nR; i++ {
		tid := r.nA + r.nB + r.nC + r.nD + r.nE + i
		guard(tid, &wgR, func() { r.reader(tid, rnds[tid], &recs[tid], &stop) })
	}
	for i := 0; i < r.nF; i++ {
		tid, k := nth0+3*i, i
		guard(tid, &wgW, func() { r.writerF(tid, k, tid+1, tid+2, rnds[tid], &recs[tid], &recs[tid+1], &recs[tid+2]) })
	}
	t0 := time.Now()
	close(start)
	done := make(chan struct{})
	go func() { wgW.Wait(); stop.Store(true); wgR.Wait(); close(done) }()
	select {
	case <-done:
	case <-time.After(60 * time.Second):
		r.fail("round did not finish within 60s (deadlock?)")
		return nil, time.Since(t0)
	}
	dur = time.Since(t0)
	for t := range recs {
		for i := range recs[t] {
			e := &recs[t][i]
			events = append(events, event{e.call, false, e}, event{e.ret, true, e})
		}
	}
	sort.Slice(events, func(i, j int) bool { return events[i].ts < events[j].ts })
	return events, dur
}

func coqVs(vs []ov) string {
	return hx.ListOf(vs, func(p ov) string { return "(" + strconv.Itoa(p.o) + "," + hx.N(p.v) + ")" })
}

func coqEvent(e event) string {
	if !e.ret {
		return "HCall " + strconv.Itoa(e.r.tid)
	}
	switch e.r.kind {
	case 'W':
		return fmt.Sprintf("HRet %d (ResW %s [%s])", e.r.tid, coqVs(e.r.vs), hx.Bool(e.r.ok))
	case 'A':
		return fmt.Sprintf("HRet %d ResA", e.r.tid)
	}
	return fmt.Sprintf("HRet %d (ResR %s tt)", e.r.tid, coqVs(e.r.vs))
}

// informal pre-check, only to give the replay file a readable first symptom; the verdict is Coq's
func symptom(events []event, G int) string {
	maxret := map[int]uint64{}
	floor := map[*rec]map[int]uint64{}
	seen := map[ov]string{}
	for _, e := range events {
		if !e.ret {
			fl := map[int]uint64{}
			for k, v := range maxret {
				fl[k] = v
			}
			floor[e.r] = fl
			continue
		}
		fl := floor[e.r]
		for _, p := range e.r.vs {
			if e.r.kind == 'W' {
				if p.v <= fl[p.o] {
					return fmt.Sprintf("thread %d %s wrote version %d of object %d although version %d had already been returned before it was called", e.r.tid, e.r.what, p.v, p.o, fl[p.o])
				}
				if prev, dup := seen[p]; dup {
					return fmt.Sprintf("version %d of object %d was produced twice (%s and thread %d %s): lost update", p.v, p.o, prev, e.r.tid, e.r.what)
				}
				seen[p] = fmt.Sprintf("thread %d %s", e.r.tid, e.r.what)
			} else if p.v < fl[p.o] {
				return fmt.Sprintf("stale read: thread %d %s saw version %d of object %d, but version %d had been returned before the read was called", e.r.tid, e.r.what, p.v, p.o, fl[p.o])
			}
			if p.v > maxret[p.o] {
				maxret[p.o] = p.v
			}
		}
		if e.r.kind == 'W' && !e.r.ok {
			return fmt.Sprintf("thread %d %s: an operation of a committed write returned an unexpected result", e.r.tid, e.r.what)
		}
		one := map[int]uint64{}
		for _, p := range e.r.vs {
			if v, ok := one[p.o]; ok && v != p.v {
				return fmt.Sprintf("thread %d %s: ONE operation (one loaded tree) reported versions %d and %d of object %d: one of its entry points loaded the tree again", e.r.tid, e.r.what, v, p.v, p.o)
			}
			one[p.o] = p.v
		}
		gv := map[int]uint64{}
		for _, p := range e.r.vs {
			g := -1
			if p.o < G {
				g = 0
			} else if p.o >= 100 {
				g = p.o / 100
			}
			if g >= 0 {
				if v, ok := gv[g]; ok && v != p.v {
					return fmt.Sprintf("thread %d %s saw a partially applied transaction: versions %d and %d on routes written together", e.r.tid, e.r.what, v, p.v)
				}
				gv[g] = p.v
			}
		}
	}
	cnt := map[int]uint64{}
	for p := range seen {
		cnt[p.o]++
	}
	for _, e := range events {
		if e.ret && e.r.kind == 'R' {
			for _, p := range e.r.vs {
				if p.v > cnt[p.o] {
					return fmt.Sprintf("thread %d %s saw version %d of object %d, which no committed write produced (%d committed)", e.r.tid, e.r.what, p.v, p.o, cnt[p.o])
				}
			}
		}
	}
	for p := range seen {
		if p.v > cnt[p.o] {
			return fmt.Sprintf("object %d reached version %d with only %d committed writes (a write that was not committed became visible)", p.o, p.v, cnt[p.o])
		}
	}
	return ""
}

func main() {
	args := hx.Args()
	out := args["out"]
	tier := args["tier"]
	shards := hx.Atoi(args["shards"], 8)
	rnd := hx.NewRand(hx.Seed())
	budget := time.Duration(hx.Atoi(args["seconds"], 25)) * time.Second
	if tier == "thorough" && args["seconds"] == "" {
		budget = 300 * time.Second
	}

	cs := &hx.Cases{
		Header: "From FoxBase Require Import Bytes.\nFrom FoxTxn Require Import Protocol HistCorr.\n",
		Type:   "hcase",
		Footer: "Definition mism := Eval vm_compute in mismatches cases.\nPrint mism.\n" +
			"Definition viol := Eval vm_compute in spec_violations cases.\nPrint viol.\n" +
			"Definition oof := Eval vm_compute in fuel_outs cases.\nPrint oof.\n",
	}
	st := &hx.Stats{Rule: "a case is the complete call/return history (global atomic clock) of one stress round on a fresh router: nA multi-route transaction writers (Updates commit / error / panic after a prefix, Txn Commit / Abort), nB single-operation writers (Update/UpdateRoute, Handle/HandleRoute/Delete on keys they own, failing Handle), nR readers (ServeHTTP, Lookup, Reverse, Route/Has, Iter+Len, View with Route/Reverse/Lookup), nF scenario writers (a write transaction whose Snapshot() is read through every entry point and finalised while the transaction is open, a second writer that must wait, reads of the published state; a read transaction View / Txn(false) / its Snapshot() read through every entry point before and after another transaction commits, recorded as ONE read) under a varied GOMAXPROCS; binary built with -race and run with GORACE=halt_on_error=1; non-trivial = the round has >= 2 writers and at least one read overlapped a committed write in real time; distinct = distinct rounds (each has its own schedule)"}
	t0 := time.Now()
	nontrivial := 0
	totalOps, totalOverlap, totalRun := 0, 0, 0
	rounds, emitted := 0, 0
	scen, scenOps := 0, 0
	suspEmitted := 0
	eventBudget := hx.Atoi(args["events"], 40000)
	if tier == "thorough" && args["events"] == "" {
		eventBudget = 900000
	}
	procsChoices := []int{1, 2, 3, 4, 8, runtime.NumCPU()}
	for k := 0; time.Since(t0) < budget; k++ {
		r := &round{seed: rnd.U64()}
		rr := hx.NewRand(r.seed)
		r.K = rr.Range(1, 5)
		r.nA = rr.Range(1, 4)
		r.nB = rr.Range(0, 4)
		r.nE = rr.Range(0, 2)
		r.opsE = rr.Range(15, 60)
		r.nD = rr.Intn(2)
		r.opsD = rr.Range(10, 40)
		r.nC = rr.Range(0, 3)
		r.opsC = rr.Range(10, 50)
		r.nR = rr.Range(2, 8)
		r.procs = hx.Pick(rr, procsChoices)
		r.opsA = rr.Range(10, 60)
		r.opsB = rr.Range(20, 120)
		r.opsR = rr.Range(200, 1500)
		if tier == "thorough" {
			r.opsA, r.opsB, r.opsC, r.opsD, r.opsE, r.opsR = r.opsA*2, r.opsB*2, r.opsC*2, r.opsD*2, r.opsE*2, r.opsR*4
		}
		if k%7 == 6 { // reader-heavy / writer-heavy extremes
			r.nR, r.nA = 12, 1
		}
		if k%7 == 3 {
			r.nR, r.nA, r.nB = 2, 4, 4
		}
		if k%3 == 1 && r.nC == 0 {
			r.nC = 2
		}
		// scenario writers: scripted snapshot / read-transaction scenarios (writerF). The first two rounds take every
		// scenario kind in turn (round 0 with no other writer, round 1 among other writers); afterwards one round
		// in eight has a scenario writer drawing its scenarios, with a short watch so that the stress keeps its pace.
		r.opsF, r.waitF = rr.Range(2, 4), 15*time.Millisecond
		switch {
		case k == 0:
			r.scripted, r.nF, r.opsF, r.waitF = true, 1, 16, 80*time.Millisecond
			r.K, r.nA, r.nB, r.nC, r.nD, r.nE, r.nR, r.procs, r.opsR = 1, 0, 0, 0, 0, 0, 2, 4, 400000
		case k == 1:
			r.scripted, r.nF, r.opsF, r.waitF = true, 1, 16, 80*time.Millisecond
			r.nA, r.nB, r.nR, r.procs, r.opsR = 1, 1, 3, 8, 400000
		case k%8 == 5:
			r.nF = 1
		}
		if tier == "thorough" {
			r.opsF *= 2
		}
		// every read runs (under the race detector); at most ~readBudget of them are recorded in the
		// history given to Coq (dropping reads from a history keeps it a valid history); writes always are
		readBudget := 400
		r.recEvery = (r.opsR*r.nR + readBudget - 1) / readBudget
		if r.recEvery < 1 {
			r.recEvery = 1
		}
		if r.scripted {
			r.recEvery = 400
		}
		events, dur := r.run(rr)
		// overlap: a read whose [call, ret] contains the return of a committed write
		overlap := 0
		open := map[*rec]bool{}
		hit := map[*rec]bool{}
		for _, e := range events {
			if !e.ret {
				if e.r.kind == 'R' {
					open[e.r] = true
				}
				continue
			}
			if e.r.kind == 'R' {
				delete(open, e.r)
			} else if e.r.kind == 'W' {
				for x := range open {
					hit[x] = true
				}
			}
		}
		overlap = len(hit)
		totalOverlap += overlap
		totalOps += len(events) / 2
		totalRun += r.nA*r.opsA + r.nB*r.opsB + r.nC*r.opsC + r.nD*r.opsD + r.nE*r.opsE + r.nR*r.opsR + 4*r.nF*r.opsF
		nontriv := r.nA+r.nB+r.nC+r.nD+r.nE+2*r.nF >= 2 && overlap > 0
		cfg := fmt.Sprintf("round %d seed=%d K=%d writersA=%d writersB=%d writersC=%d truncateWriter=%d verbWriters=%d scenarioWriters=%d readers=%d GOMAXPROCS=%d ops=%d reads-overlapping-a-commit=%d dur=%s",
			k, r.seed, r.K, r.nA, r.nB, r.nC, r.nD, r.nE, r.nF, r.nR, r.procs, len(events)/2, overlap, dur.Round(time.Millisecond))
		human := cfg
		if msg, _ := r.badMsg.Load().(string); msg != "" {
			r.msgMu.Lock()
			human += " FAILURE: " + msg
			for _, m := range r.msgs {
				if m != msg {
					human += " | ALSO: " + m
				}
			}
			r.msgMu.Unlock()
		}
		if s := symptom(events, r.G()); s != "" {
			human += " SYMPTOM: " + s
		}
		rounds++
		if r.nF > 0 {
			scen++
			scenOps += 4 * r.nF * r.opsF
		}
		// Every round runs under the race detector and gets the informal pre-check; the histories handed to
		// the verified checker are budgeted (coqc elaborates ~1500 events/s): rounds with any symptom always,
		// the others evenly over the run until the event budget is used.
		suspicious := r.bad.Load() || strings.Contains(human, "SYMPTOM")
		due := float64(emitted) < float64(eventBudget)*float64(time.Since(t0))/float64(budget)
		// (a change that makes every round fail would otherwise hand hundreds of histories to coqc)
		if suspicious {
			suspEmitted++
		}
		if !(suspicious && suspEmitted <= 20) && !due && !r.scripted {
			continue
		}
		emitted += len(events)
		if nontriv {
			nontrivial++
		}
		term := fmt.Sprintf("(%d, %s, %s)", r.G(), hx.ListOf(events, coqEvent), hx.Bool(r.bad.Load()))
		cs.Add(term, human)
		st.Count(fmt.Sprintf("GOMAXPROCS:%02d", r.procs))
		st.Count(fmt.Sprintf("writers:%d", r.nA+r.nB+r.nC))
		st.Count(fmt.Sprintf("family-writers:%d", r.nC))
		st.Count(fmt.Sprintf("truncate-writer:%d", r.nD))
		st.Count(fmt.Sprintf("verb-writers:%d", r.nE))
		st.Count(fmt.Sprintf("scenario-writers:%d", r.nF))
		st.Count(fmt.Sprintf("readers:%02d", r.nR))
		st.Count(fmt.Sprintf("txn-routes:%d", r.K+3))
		if len(st.Samples) < 5 {
			st.Samples = append(st.Samples, cfg)
		}
		if r.bad.Load() && strings.Contains(human, "deadlock") {
			break // goroutines of this round still hold resources; stop stressing
		}
		if r.lockBroken.Load() {
			// a second writer completed inside an open write transaction: Router.mu is unlocked once too often, and
			// stressing on can only end in the runtime's fatal 'unlock of unlocked mutex', which would lose the
			// histories recorded so far. They are the failing input; stop here.
			fmt.Fprintln(os.Stderr, "c05: the writer mutex no longer serialises write transactions; stress stopped after round", k)
			break
		}
	}
	st.Evaluations = cs.Len()
	st.DistinctNontrivial = nontrivial
	st.Extra = map[string]any{
		"rounds_executed":               rounds,
		"scenario_rounds":               scen,
		"scenario_operations":           scenOps,
		"rounds_checked_by_coq":         cs.Len(),
		"events_checked_by_coq":         emitted,
		"operations_recorded":           totalOps,
		"operations_executed_upper":     totalRun,
		"reads_overlapping_a_commit":    totalOverlap,
		"stress_seconds":                int(time.Since(t0).Seconds()),
		"race_detector":                 "binary built with -race; GORACE=" + os.Getenv("GORACE"),
		"sampled_not_proved":            "data-race freedom under the Go memory model and the schedules exercised are runtime behaviour: sampled by this stress run, not proved",
		"num_cpu":                       runtime.NumCPU(),
	}
	os.Remove(scenarioFile)
	hx.Fatal(cs.Write(out, shards))
	hx.Fatal(st.Write(out))
	fmt.Printf("c05: %d rounds, %d operations recorded, written to %s\n", cs.Len(), totalOps, out)
}
