// c05: concurrent stress of the real router (built with -race, run with
// GORACE=halt_on_error=1): N writers (single-operation helpers on keys they own,
// and multi-route transactions that bump a version route from the value they
// read inside the transaction, committed / aborted / panicking) against M
// readers (ServeHTTP, Lookup, Reverse, Route/Has, Iter, View). Every operation
// is stamped with a global atomic clock at call and at return; the merged
// call/return history of each round is written as a Coq term and checked by the
// verified checker Protocol.history_ok (HistCorr.v).
//
// What is SAMPLED here and not proved: data-race freedom under the Go memory
// model and the schedules the runtime happens to produce. What is proved (of
// the protocol model that tie A binds to the source): every history the protocol
// can produce is accepted by history_ok, so a rejected history is a real defect.
package main

import (
	"context"
	"errors"
	"fmt"
	"net/http"
	"net/http/httptest"
	"os"
	"runtime"
	"sort"
	"strconv"
	"strings"
	"sync"
	"sync/atomic"
	"time"

	"foxverif/hx"

	"github.com/tigerwill90/fox"
)

type vkey struct{}

type ov struct {
	o int
	v uint64
}

type rec struct {
	tid       int
	call, ret int64
	kind      byte // 'W' committed write, 'A' aborted, 'R' read
	vs        []ov
	ok        bool // committed write: every operation returned the sequentially expected result
	what      string
}

var clock atomic.Int64

func handler(v uint64) fox.HandlerFunc {
	s := strconv.FormatUint(v, 10)
	return func(c fox.Context) {
		c.Writer().Header().Set("X-V", s)
		c.Writer().WriteHeader(http.StatusOK)
	}
}

func ann(v uint64) fox.RouteOption { return fox.WithAnnotation(vkey{}, v) }

func verOf(r *fox.Route) (uint64, bool) {
	if r == nil {
		return 0, false
	}
	v, ok := r.Annotation(vkey{}).(uint64)
	return v, ok
}

type round struct {
	f        *fox.Router
	K        int // data routes written together with /ver
	nA, nB   int // multi-route writers, single-op writers
	nE       int // verb writers: each commit adds the first route of a new custom method and removes the last of the old one
	opsE     int
	nD       int // 0 or 1 truncate writer (owns the TRACE and PURGE method roots)
	opsD     int
	nC       int // family writers: Update(parent) then writes below it, in one cached transaction
	opsC     int
	nR       int
	procs    int
	opsA     int
	opsB     int
	opsR     int
	recEvery int // readers record one read out of recEvery
	seed     uint64
	bad      atomic.Bool
	badMsg   atomic.Value
}

func (r *round) G() int { return r.K + 2 }

func (r *round) fail(format string, a ...any) {
	r.bad.Store(true)
	r.badMsg.CompareAndSwap(nil, fmt.Sprintf(format, a...))
}

const (
	objS = 10 // single-writer keys: object 10+i
	objC = 30 // churn keys (Handle/Delete alternately): object 30+i
	// family i (owner: family writer i): objects 100*(i+1)+j for /p/i, /p/i/a, /p/i/b, /p/i/a/deep
	famSize = 4
	// version tags of transactions that will be ABORTED: must never be observed by anybody
	poison = uint64(1) << 40
)

// truncate families: routes /t/0../t/2 under the common verb TRACE (objects 900+j) and under the custom verb
// PURGE (objects 1000+j); only the truncate writer touches these two method roots
const truncN = 3

var truncMethods = [2]string{"TRACE", "PURGE"}

func tpath(j int) string   { return "/t/" + strconv.Itoa(j) }
func tobj(mi, j int) int    { return 900 + 100*mi + j }

// verb family i (owner: verb writer i): at every published state exactly ONE custom method VB<I><k> has the route
// /m/i; version k is spelled in the method name, so every answer computed from the set of method roots
// (OPTIONS *, OPTIONS /m/i, the Allow header of a 405) identifies the tree version it was computed from.
func encK(k uint64) string {
	s := ""
	for {
		s = string(rune('A'+k%26)) + s
		k /= 26
		if k == 0 {
			return s
		}
	}
}
func verbName(i int, k uint64) string   { return "VB" + string(rune('A'+i)) + encK(k) }
func poisonVerb(i int, n uint64) string { return "VX" + string(rune('A'+i)) + encK(n) }
func mpath(i int) string                { return "/m/" + strconv.Itoa(i) }
func vobj(i int) int                    { return 1100 + 100*i }

// decodes the methods of an Allow header / a snapshot: family -> versions seen
func (r *round) verbsIn(methods []string, how string) []ov {
	var vs []ov
	cnt := make([]int, r.nE)
	for _, m := range methods {
		if strings.HasPrefix(m, "VX") {
			r.fail("%s shows the method %s of a transaction that was ABORTED", how, m)
		}
		if len(m) > 3 && strings.HasPrefix(m, "VB") {
			i := int(m[2] - 'A')
			if i < 0 || i >= r.nE {
				continue
			}
			k := uint64(0)
			for _, c := range m[3:] {
				k = k*26 + uint64(c-'A')
			}
			cnt[i]++
			vs = append(vs, ov{vobj(i), k})
		}
	}
	return vs
}

var famSuffix = [famSize]string{"", "/a", "/b", "/a/deep"}

func fpath(i, j int) string { return "/p/" + strconv.Itoa(i) + famSuffix[j] }
func fobj(i, j int) int     { return 100*(i+1) + j }

// parameter routes (never written during a round): infix catch-alls followed by parameters, mid-segment parameters
var paramRoutes = []string{"/files/*{path}/meta/{id}", "/api/v{ver}/users/{uid}/x", "/dl/*{rest}/f/{name}/{id}", "/img/pre{name}/{size}"}

func paramReq(k int, id string) (path string, want []string) {
	switch k {
	case 0:
		return "/files/d" + id + "/e/f" + id + "/meta/" + id, []string{"path=d" + id + "/e/f" + id, "id=" + id}
	case 1:
		return "/api/v" + id + "/users/u" + id + "/x", []string{"ver=" + id, "uid=u" + id}
	case 2:
		return "/dl/x/" + id + "/y/f/n" + id + "/" + id, []string{"rest=x/" + id + "/y", "name=n" + id, "id=" + id}
	}
	return "/img/prei" + id + "/" + id, []string{"name=i" + id, "size=" + id}
}

// what one request saw, on the original context and on its copy (Clone / CloneWith), before and after next
type probe struct {
	mode                                                string
	origBefore, copyBefore, handler, origAfter, copyAfter []string
	sawCopy                                             bool
}

type probeKey struct{}

func paramsOf(c fox.Context) []string {
	var ps []string
	for p := range c.Params() {
		ps = append(ps, p.Key+"="+p.Value)
	}
	return ps
}

func echoParams(c fox.Context) {
	ps := paramsOf(c)
	if pr, ok := c.Request().Context().Value(probeKey{}).(*probe); ok {
		pr.handler = ps
	}
	for _, p := range ps {
		c.Writer().Header().Add("X-P", p)
	}
	c.Writer().WriteHeader(http.StatusOK)
}

// middleware of the PUT variants of the parameter routes: copies the context the way real middleware does
// (Clone for use after the request, CloneWith + Close to run something with another writer/request)
func cloneMiddleware(next fox.HandlerFunc) fox.HandlerFunc {
	return func(c fox.Context) {
		pr, _ := c.Request().Context().Value(probeKey{}).(*probe)
		if pr == nil {
			next(c)
			return
		}
		pr.origBefore = paramsOf(c)
		var cp fox.Context
		var closer fox.ContextCloser
		switch pr.mode {
		case "Clone":
			cp = c.Clone()
		default:
			closer = c.CloneWith(c.Writer(), c.Request())
			cp = closer
		}
		pr.sawCopy = true
		pr.copyBefore = paramsOf(cp)
		next(c)
		pr.origAfter = paramsOf(c)
		pr.copyAfter = paramsOf(cp)
		if closer != nil {
			closer.Close()
		}
	}
}

func same(a, b any) bool { return a == b }

func joined(ps []string) string { return strings.Join(ps, "&") }

// handler of GET /nest/{id}: while its own context is alive it performs a Lookup of another parameter route
// (a second context alive at the same time), checks that the two are distinct objects and that each shows its own
// request, before and after closing the inner one
func (r *round) nestedLookup(c fox.Context) {
	id := c.Param("id")
	path, want := paramReq(0, "9"+id)
	inner := httptest.NewRequest("GET", path, nil)
	rte, cc, _ := r.f.Lookup(c.Writer(), inner)
	if cc == nil || rte == nil {
		r.fail("nested Lookup GET %s inside the handler of /nest/%s found nothing", path, id)
	} else {
		if same(cc, c) {
			r.fail("pool discipline: the context of the nested Lookup GET %s IS the context of the request /nest/%s being served (one pooled object handed out twice)", path, id)
		}
		if got := joined(paramsOf(cc)); got != joined(want) {
			r.fail("nested Lookup GET %s shows the parameters [%s]", path, got)
		}
		if got := c.Param("id"); got != id {
			r.fail("the request /nest/%s sees id=%q after a nested Lookup", id, got)
		}
		cc.Close()
	}
	echoParams(c)
}

func dpath(j int) string { return "/d/" + strconv.Itoa(j) }
func xpath(j uint64) string { return "/x/" + strconv.FormatUint(j%3, 10) }
func spat(i int) string  { return "/s/" + strconv.Itoa(i) + "/{id}" }
func sreq(i int) string  { return "/s/" + strconv.Itoa(i) + "/77" }
func cpat(i int) string  { return "/c/" + strconv.Itoa(i) + "/z" }

func (r *round) setup() {
	f, err := fox.New(fox.WithAutoOptions(true), fox.WithNoMethod(true))
	hx.Fatal(err)
	r.f = f
	must := func(_ *fox.Route, err error) { hx.Fatal(err) }
	must(f.Handle("GET", "/ver", handler(0), ann(0)))
	for j := 1; j <= r.K; j++ {
		must(f.Handle("GET", dpath(j), handler(0), ann(0)))
	}
	must(f.Handle("GET", xpath(0), handler(0), ann(0)))
	for i := 0; i < r.nB; i++ {
		must(f.Handle("POST", spat(i), handler(0), ann(0)))
	}
	for i := 0; i < r.nC; i++ {
		for j := 0; j < famSize; j++ {
			must(f.Handle("GET", fpath(i, j), handler(0), ann(0)))
		}
	}
	for _, p := range paramRoutes {
		must(f.Handle("GET", p, echoParams))
		must(f.Handle("PUT", p, echoParams, fox.WithMiddleware(cloneMiddleware)))
	}
	// routes for the other exits of ServeHTTP (never written during a round)
	must(f.Handle("GET", "/r/{id}", echoParams, fox.WithRedirectTrailingSlash(true)))
	must(f.Handle("POST", "/r/{id}", echoParams, fox.WithRedirectTrailingSlash(true)))
	must(f.Handle("GET", "/i/{id}", echoParams, fox.WithIgnoreTrailingSlash(true)))
	must(f.Handle("GET", "/nest/{id}", r.nestedLookup))
	if r.nD > 0 {
		for _, m := range truncMethods {
			for j := 0; j < truncN; j++ {
				must(f.Handle(m, tpath(j), handler(0), ann(0)))
			}
		}
	}
	for i := 0; i < r.nE; i++ {
		must(f.Handle(verbName(i, 0), mpath(i), handler(0), ann(0)))
	}
}

// a version a reader observed: tags of aborted transactions must never show up
func (r *round) seen(o int, v uint64, how string) ov {
	if v >= poison {
		r.fail("%s observed, on object %d, the tag %d of a transaction that was ABORTED", how, o, v)
	}
	return ov{o, v}
}

var errAbort = errors.New("c05: abort")

type boom struct{}

// the body of a multi-route transaction: reads the version inside the transaction, bumps everything
func (r *round) txnBody(txn *fox.Txn, rnd *hx.Rand, stopAfter int) (nv uint64, ok bool) {
	v, found := verOf(txn.Route("GET", "/ver"))
	if !found {
		return 0, false
	}
	nv = v + 1
	ok = true
	step := 0
	do := func(err error) {
		if err != nil {
			ok = false
		}
		step++
		if step == stopAfter {
			panic(boom{})
		}
	}
	_, err := txn.Update("GET", "/ver", handler(nv), ann(nv))
	do(err)
	for j := 1; j <= r.K; j++ {
		_, err = txn.Update("GET", dpath(j), handler(nv), ann(nv))
		do(err)
		if j == 1 && rnd.Pct(20) { // nested reads of the transaction's own state
			if x, _ := verOf(txn.Route("GET", "/ver")); x != nv {
				ok = false
			}
			for range txn.Iter().All() {
			}
		}
	}
	_, err = txn.Delete("GET", xpath(v))
	do(err)
	_, err = txn.Handle("GET", xpath(nv), handler(nv), ann(nv))
	do(err)
	return nv, ok
}

func (r *round) group(nv uint64) []ov {
	vs := make([]ov, 0, r.G())
	for o := 0; o < r.G(); o++ {
		vs = append(vs, ov{o, nv})
	}
	return vs
}

func (r *round) writerA(tid int, rnd *hx.Rand, out *[]rec) {
	for n := 0; n < r.opsA; n++ {
		mode := rnd.Intn(100)
		e := rec{tid: tid, kind: 'A'}
		var nv uint64
		var ok bool
		e.call = clock.Add(1)
		switch {
		case mode < 45: // managed, committed
			e.what = "Updates/commit"
			err := r.f.Updates(func(txn *fox.Txn) error { nv, ok = r.txnBody(txn, rnd, 0); return nil })
			if err != nil {
				ok = false
			}
			e.kind = 'W'
		case mode < 55: // managed, fn returns an error after all its writes
			e.what = "Updates/error"
			err := r.f.Updates(func(txn *fox.Txn) error { r.txnBody(txn, rnd, 0); return errAbort })
			if !errors.Is(err, errAbort) {
				r.fail("Updates did not return fn's error: %v", err)
			}
		case mode < 65: // managed, fn panics after a prefix of its writes
			e.what = "Updates/panic"
			func() {
				defer func() {
					if p := recover(); p != nil {
						if _, mine := p.(boom); !mine {
							r.fail("unexpected panic in Updates: %v", p)
						}
					}
				}()
				_ = r.f.Updates(func(txn *fox.Txn) error { r.txnBody(txn, rnd, 1+rnd.Intn(r.K+3)); return nil })
			}()
		case mode < 88: // unmanaged, committed
			e.what = "Txn/Commit"
			txn := r.f.Txn(true)
			nv, ok = r.txnBody(txn, rnd, 0)
			txn.Commit()
			if rnd.Pct(30) {
				txn.Abort() // no-op after Commit
			}
			e.kind = 'W'
		default: // unmanaged, aborted
			e.what = "Txn/Abort"
			txn := r.f.Txn(true)
			r.txnBody(txn, rnd, 0)
			txn.Abort()
			if rnd.Pct(30) {
				txn.Commit() // no-op after Abort
			}
		}
		e.ret = clock.Add(1)
		if e.kind == 'W' {
			e.vs = r.group(nv)
			e.ok = ok
		}
		*out = append(*out, e)
	}
}

// single-operation helpers on keys only this goroutine writes
func (r *round) writerB(tid, i int, rnd *hx.Rand, out *[]rec) {
	sv, cv := uint64(0), uint64(0) // version of /s/i (tag), of /c/i (operation count; odd = present)
	for n := 0; n < r.opsB; n++ {
		e := rec{tid: tid, kind: 'W', ok: true}
		switch x := rnd.Intn(100); {
		case x < 45:
			sv++
			e.what = "Update"
			e.call = clock.Add(1)
			var err error
			if rnd.Bool() {
				_, err = r.f.Update("POST", spat(i), handler(sv), ann(sv))
			} else {
				var rte *fox.Route
				rte, err = r.f.NewRoute(spat(i), handler(sv), ann(sv))
				if err == nil {
					err = r.f.UpdateRoute("POST", rte)
				}
			}
			e.ret = clock.Add(1)
			e.ok = err == nil
			e.vs = []ov{{objS + i, sv}}
		case x < 85:
			cv++
			e.call = clock.Add(1)
			var err error
			if cv%2 == 1 {
				e.what = "Handle"
				if rnd.Bool() {
					_, err = r.f.Handle("GET", cpat(i), handler(cv), ann(cv))
				} else {
					var rte *fox.Route
					rte, err = r.f.NewRoute(cpat(i), handler(cv), ann(cv))
					if err == nil {
						err = r.f.HandleRoute("GET", rte)
					}
				}
			} else {
				e.what = "Delete"
				_, err = r.f.Delete("GET", cpat(i))
			}
			e.ret = clock.Add(1)
			e.ok = err == nil
			e.vs = []ov{{objC + i, cv}}
		default:
			// an operation that must fail and leave no trace: the helper's deferred Abort path
			e.kind = 'A'
			e.what = "Handle(existing)"
			e.call = clock.Add(1)
			_, err := r.f.Handle("POST", spat(i), handler(999999), ann(999999))
			e.ret = clock.Add(1)
			if !errors.Is(err, fox.ErrRouteExist) {
				r.fail("Handle of an existing route returned %v", err)
			}
		}
		*out = append(*out, e)
	}
}

// family writer i: every transaction first Updates the parent route /p/i (a node WITH children) and then rewrites
// every route below it (Update, or Delete + Handle) inside ONE cached transaction (Txn(true) / Updates), ended by
// Commit or Abort / error. Committed transactions carry the next version on all four routes; transactions that
// will be aborted carry a poisoned, unique tag.
func (r *round) writerC(tid, i int, rnd *hx.Rand, out *[]rec) {
	ver := uint64(0)
	for n := 0; n < r.opsC; n++ {
		commit := rnd.Pct(60)
		tag := ver + 1
		if !commit {
			tag = poison + uint64(tid)<<20 + uint64(n)
		}
		body := func(txn *fox.Txn) bool {
			ok := true
			_, err := txn.Update("GET", fpath(i, 0), handler(tag), ann(tag))
			ok = ok && err == nil
			order := []int{1, 2, 3}
			if rnd.Bool() {
				order = []int{3, 2, 1}
			} else if rnd.Bool() {
				order = []int{2, 1, 3}
			}
			for _, j := range order {
				if rnd.Pct(55) {
					_, err = txn.Update("GET", fpath(i, j), handler(tag), ann(tag))
					ok = ok && err == nil
				} else {
					_, err = txn.Delete("GET", fpath(i, j))
					ok = ok && err == nil
					_, err = txn.Handle("GET", fpath(i, j), handler(tag), ann(tag))
					ok = ok && err == nil
				}
				if j == 2 && rnd.Pct(15) { // the transaction reads its own writes
					if x, _ := verOf(txn.Route("GET", fpath(i, 0))); x != tag {
						ok = false
					}
				}
			}
			return ok
		}
		e := rec{tid: tid, kind: 'A'}
		ok := false
		e.call = clock.Add(1)
		switch {
		case commit && rnd.Bool():
			e.what = "family Txn/Commit"
			txn := r.f.Txn(true)
			ok = body(txn)
			txn.Commit()
		case commit:
			e.what = "family Updates/commit"
			if err := r.f.Updates(func(txn *fox.Txn) error { ok = body(txn); return nil }); err != nil {
				ok = false
			}
		case rnd.Bool():
			e.what = "family Txn/Abort"
			txn := r.f.Txn(true)
			body(txn)
			txn.Abort()
		default:
			e.what = "family Updates/error"
			if err := r.f.Updates(func(txn *fox.Txn) error { body(txn); return errAbort }); !errors.Is(err, errAbort) {
				r.fail("Updates did not return fn's error: %v", err)
			}
		}
		e.ret = clock.Add(1)
		if commit {
			ver++
			e.kind = 'W'
			e.ok = ok
			for j := 0; j < famSize; j++ {
				e.vs = append(e.vs, ov{fobj(i, j), ver})
			}
		}
		*out = append(*out, e)
	}
}

// verb writer i: each transaction registers /m/i under a NEW custom method (the first route of that method: a method
// root is added) and deletes it under the previous one (its last route: the root is removed), in either order, in
// one transaction; committed, or aborted with a poisoned method name.
func (r *round) writerE(tid, i int, rnd *hx.Rand, out *[]rec) {
	k := uint64(0)
	for n := 0; n < r.opsE; n++ {
		commit := rnd.Pct(65)
		newM := verbName(i, k+1)
		if !commit {
			newM = poisonVerb(i, uint64(n))
		}
		oldM := verbName(i, k)
		body := func(txn *fox.Txn) bool {
			ok := true
			add := func() {
				_, err := txn.Handle(newM, mpath(i), handler(k+1), ann(k+1))
				ok = ok && err == nil
			}
			del := func() {
				_, err := txn.Delete(oldM, mpath(i))
				ok = ok && err == nil
			}
			if rnd.Bool() {
				add()
				del()
			} else {
				del()
				add()
			}
			return ok
		}
		e := rec{tid: tid, kind: 'A'}
		ok := false
		e.call = clock.Add(1)
		switch {
		case commit && rnd.Bool():
			e.what = "verb Txn/Commit"
			txn := r.f.Txn(true)
			ok = body(txn)
			txn.Commit()
		case commit:
			e.what = "verb Updates/commit"
			if err := r.f.Updates(func(txn *fox.Txn) error { ok = body(txn); return nil }); err != nil {
				ok = false
			}
		case rnd.Bool():
			e.what = "verb Txn/Abort"
			txn := r.f.Txn(true)
			body(txn)
			txn.Abort()
		default:
			e.what = "verb Updates/error"
			if err := r.f.Updates(func(txn *fox.Txn) error { body(txn); return errAbort }); !errors.Is(err, errAbort) {
				r.fail("Updates did not return fn's error: %v", err)
			}
		}
		e.ret = clock.Add(1)
		if commit {
			k++
			e.kind = 'W'
			e.ok = ok
			e.vs = []ov{{vobj(i), k}}
		}
		*out = append(*out, e)
	}
}

// truncate writer: every transaction's FIRST mutation is Truncate(methods...) on method roots nobody else writes
// (common verb TRACE, custom verb PURGE, one or both, in both orders), followed by the re-registration of every
// route of the truncated methods; ended by Commit, or by Abort / error (then with poisoned tags, or with no
// re-registration at all). In every published state all routes exist: readers must never miss one.
func (r *round) writerD(tid int, rnd *hx.Rand, out *[]rec) {
	var ver [2]uint64
	for n := 0; n < r.opsD; n++ {
		commit := rnd.Pct(55)
		var which []int
		switch rnd.Intn(4) {
		case 0:
			which = []int{0}
		case 1:
			which = []int{1}
		case 2:
			which = []int{0, 1}
		default:
			which = []int{1, 0}
		}
		reRegister := commit || rnd.Bool()
		body := func(txn *fox.Txn) bool {
			ms := make([]string, len(which))
			for i, mi := range which {
				ms[i] = truncMethods[mi]
			}
			ok := txn.Truncate(ms...) == nil
			if !reRegister {
				return ok
			}
			for _, mi := range which {
				tag := ver[mi] + 1
				if !commit {
					tag = poison + uint64(tid)<<20 + uint64(n)
				}
				for j := 0; j < truncN; j++ {
					_, err := txn.Handle(truncMethods[mi], tpath(j), handler(tag), ann(tag))
					ok = ok && err == nil
				}
			}
			return ok
		}
		e := rec{tid: tid, kind: 'A'}
		ok := false
		e.call = clock.Add(1)
		switch {
		case commit && rnd.Bool():
			e.what = "truncate Txn/Commit"
			txn := r.f.Txn(true)
			ok = body(txn)
			txn.Commit()
		case commit:
			e.what = "truncate Updates/commit"
			if err := r.f.Updates(func(txn *fox.Txn) error { ok = body(txn); return nil }); err != nil {
				ok = false
			}
		case rnd.Bool():
			e.what = "truncate Txn/Abort"
			txn := r.f.Txn(true)
			body(txn)
			if rnd.Pct(30) {
				time.Sleep(time.Duration(rnd.Intn(200)) * time.Microsecond) // keep the uncommitted truncate open a little
			}
			txn.Abort()
		default:
			e.what = "truncate Updates/error"
			if err := r.f.Updates(func(txn *fox.Txn) error { body(txn); return errAbort }); !errors.Is(err, errAbort) {
				r.fail("Updates did not return fn's error: %v", err)
			}
		}
		e.ret = clock.Add(1)
		if commit {
			e.kind = 'W'
			e.ok = ok
			for _, mi := range which {
				ver[mi]++
				for j := 0; j < truncN; j++ {
					e.vs = append(e.vs, ov{tobj(mi, j), ver[mi]})
				}
			}
		}
		*out = append(*out, e)
	}
}

type target struct {
	method, pattern, path string
	obj                   int
	always                bool // registered in every published state: a reader must never miss it
}

func (r *round) targets() []target {
	ts := []target{{"GET", "/ver", "/ver", 0, true}}
	for j := 1; j <= r.K; j++ {
		ts = append(ts, target{"GET", dpath(j), dpath(j), j, true})
	}
	for i := 0; i < r.nB; i++ {
		ts = append(ts, target{"POST", spat(i), sreq(i), objS + i, true}, target{"GET", cpat(i), cpat(i), objC + i, false})
	}
	for i := 0; i < r.nC; i++ {
		for j := 0; j < famSize; j++ {
			ts = append(ts, target{"GET", fpath(i, j), fpath(i, j), fobj(i, j), true})
		}
	}
	if r.nD > 0 {
		for mi, m := range truncMethods {
			for j := 0; j < truncN; j++ { // listed twice: these are the routes a misplaced truncate hides
				ts = append(ts, target{m, tpath(j), tpath(j), tobj(mi, j), true}, target{m, tpath(j), tpath(j), tobj(mi, j), true})
			}
		}
	}
	return ts
}

// everything one loaded tree shows
func (r *round) snapshotOf(all func(func(string, *fox.Route) bool)) []ov {
	var vs []ov
	nx, nf, nt := 0, 0, 0
	var verbs []string
	all(func(m string, rte *fox.Route) bool {
		v, _ := verOf(rte)
		p := rte.Pattern()
		switch {
		case p == "/ver":
			vs = append(vs, ov{0, v})
		case strings.HasPrefix(p, "/d/"):
			j, _ := strconv.Atoi(p[3:])
			vs = append(vs, ov{j, v})
		case strings.HasPrefix(p, "/x/"):
			nx++
			if p != xpath(v) {
				r.fail("snapshot shows %s with version %d", p, v)
			}
			vs = append(vs, ov{r.K + 1, v})
		case strings.HasPrefix(p, "/s/"):
			i, _ := strconv.Atoi(p[3:strings.LastIndex(p, "/")])
			vs = append(vs, ov{objS + i, v})
		case strings.HasPrefix(p, "/c/"):
			i, _ := strconv.Atoi(p[3:strings.LastIndex(p, "/")])
			vs = append(vs, ov{objC + i, v})
		case strings.HasPrefix(p, "/m/"):
			verbs = append(verbs, m)
		case strings.HasPrefix(p, "/t/"):
			j, _ := strconv.Atoi(p[3:])
			for mi := range truncMethods {
				if truncMethods[mi] == m {
					nt++
					vs = append(vs, ov{tobj(mi, j), v})
				}
			}
		case strings.HasPrefix(p, "/p/"):
			rest := p[3:]
			suffix := ""
			if k := strings.IndexByte(rest, '/'); k >= 0 {
				rest, suffix = rest[:k], rest[k:]
			}
			i, _ := strconv.Atoi(rest)
			nf++
			for j := range famSuffix {
				if famSuffix[j] == suffix {
					vs = append(vs, ov{fobj(i, j), v})
				}
			}
		}
		if v >= poison {
			r.fail("a snapshot shows %s with the tag %d of a transaction that was ABORTED", p, v)
		}
		return true
	})
	if nx != 1 {
		r.fail("snapshot shows %d /x routes (a partially applied transaction)", nx)
	}
	mv := r.verbsIn(verbs, "a snapshot")
	if len(mv) != r.nE || len(verbs) != r.nE {
		r.fail("snapshot shows the routes /m/* under the methods %v: not exactly one per verb family (a partially applied transaction)", verbs)
	}
	vs = append(vs, mv...)
	if nt != 2*truncN*r.nD {
		r.fail("snapshot shows %d TRACE/PURGE routes instead of %d (an uncommitted, aborted or partial Truncate is visible)", nt, 2*truncN*r.nD)
	}
	if nf != famSize*r.nC {
		r.fail("snapshot shows %d family routes instead of %d (a partially applied transaction)", nf, famSize*r.nC)
	}
	return vs
}

func (r *round) reader(tid int, rnd *hx.Rand, out *[]rec, stop *atomic.Bool) {
	ts := r.targets()
	req0 := httptest.NewRequest("GET", "/ver", nil)
	rw := fox.NewTestContextOnly(httptest.NewRecorder(), req0).Writer()
	rw2 := fox.NewTestContextOnly(httptest.NewRecorder(), req0).Writer()
	reqs := make([]*http.Request, len(ts))
	for i, t := range ts {
		reqs[i] = httptest.NewRequest(t.method, t.path, nil)
	}
	nreq := 0
	for n := 0; n < r.opsR && !stop.Load(); n++ {
		e := rec{tid: tid, kind: 'R'}
		ti := rnd.Intn(len(ts))
		t := ts[ti]
		record := n%r.recEvery == 0
		kind := rnd.Intn(230)
		if record {
			e.call = clock.Add(1)
		}
		switch {
		case kind >= 215:
			// iterator Seqs are values: ranged twice, and from two goroutines at once, they must give the same answer and
			// must not disturb a context that is alive in between (a Seq that keeps a pooled context across ranges would)
			e.what = "iter-seqs"
			nreq++
			id := strconv.Itoa(tid) + "000" + strconv.Itoa(nreq)
			it := r.f.Iter()
			collect := func(seq func(func(string, *fox.Route) bool)) string {
				var xs []string
				seq(func(m string, rte *fox.Route) bool {
					v, _ := verOf(rte)
					xs = append(xs, m+" "+rte.Pattern()+"="+strconv.FormatUint(v, 10))
					return true
				})
				sort.Strings(xs)
				return strings.Join(xs, ",")
			}
			var seq func(func(string, *fox.Route) bool)
			name := ""
			switch rnd.Intn(4) {
			case 0:
				name, seq = "Routes(/ver)", it.Routes(it.Methods(), "/ver")
			case 1:
				name, seq = "Reverse(/d/1)", it.Reverse(it.Methods(), "", dpath(1))
			case 2:
				name, seq = "Prefix(/d/)", it.Prefix(it.Methods(), "/d/")
			default:
				name, seq = "All", it.All()
			}
			first := collect(seq)
			// a context that stays alive across the second range
			path, want := paramReq(rnd.Intn(len(paramRoutes)), id)
			_, held, _ := r.f.Lookup(rw, httptest.NewRequest("GET", path, nil))
			second := collect(seq)
			var third string
			wg := make(chan struct{})
			go func() { defer close(wg); third = collect(seq) }()
			fourth := collect(seq)
			<-wg
			if first == "" || second != first || third != first || fourth != first {
				r.fail("Iter.%s by goroutine %d: ranging the same Seq again gave different answers: %q / %q / (other goroutine) %q / %q", name, tid, first, second, third, fourth)
			}
			if held != nil {
				if got := joined(paramsOf(held)); got != joined(want) {
					r.fail("pool discipline: the context of Lookup GET %s, alive while Iter.%s was ranged a second time, now shows the parameters [%s], not [%s]", path, name, got, joined(want))
				}
				held.Close()
			}
		case kind >= 200:
			// several contexts alive at once: two Lookups that are not closed, a CloneWith of the first, a request whose
			// handler performs a nested Lookup; preceded by a request that leaves ServeHTTP through the redirect exit.
			// Contexts alive at the same time must be DISTINCT objects and each must keep showing its own request.
			e.what = "contexts-alive"
			nreq++
			id := strconv.Itoa(tid) + "000" + strconv.Itoa(nreq)
			if rnd.Bool() {
				w := httptest.NewRecorder()
				r.f.ServeHTTP(w, httptest.NewRequest("GET", "/r/"+id+"/", nil))
				if w.Code != http.StatusMovedPermanently {
					r.fail("GET /r/%s/ answered %d, not the trailing-slash redirect", id, w.Code)
				}
			}
			p1, want1 := paramReq(rnd.Intn(len(paramRoutes)), "1"+id)
			p2, want2 := paramReq(rnd.Intn(len(paramRoutes)), "2"+id)
			req1, req2 := httptest.NewRequest("GET", p1, nil), httptest.NewRequest("GET", p2, nil)
			_, c1, _ := r.f.Lookup(rw, req1)
			_, c2, _ := r.f.Lookup(rw2, req2)
			if c1 == nil || c2 == nil {
				r.fail("Lookup GET %s / %s found nothing", p1, p2)
			} else {
				c3 := c1.CloneWith(rw, req1)
				if same(c1, c2) || same(c1, c3) || same(c2, c3) {
					r.fail("pool discipline: goroutine %d holds contexts for GET %s, GET %s and a CloneWith of the first at the same time, and two of them are the SAME object", tid, p1, p2)
				}
				w := httptest.NewRecorder()
				r.f.ServeHTTP(w, httptest.NewRequest("GET", "/nest/"+id, nil))
				if w.Code != 200 || joined(w.Header().Values("X-P")) != "id="+id {
					r.fail("GET /nest/%s: status %d, params %v", id, w.Code, w.Header().Values("X-P"))
				}
				for _, x := range []struct {
					what string
					c    fox.Context
					want []string
					path string
				}{{"first Lookup context", c1, want1, p1}, {"second Lookup context", c2, want2, p2}, {"CloneWith of the first", c3, want1, p1}} {
					if got := joined(paramsOf(x.c)); got != joined(x.want) || x.c.Request().URL.Path != x.path {
						r.fail("pool discipline: the %s (GET %s), still alive, shows the parameters [%s] and the request %s", x.what, x.path, got, x.c.Request().URL.Path)
					}
				}
				c3.Close()
				c2.Close()
				c1.Close()
			}
		case kind >= 185:
			// the remaining exits of ServeHTTP, with an id unique to the request: trailing-slash redirect (301 / 308),
			// ignored trailing slash (200, parameters from the tsr lookup), 404
			e.what = "exits"
			nreq++
			id := strconv.Itoa(tid) + "000" + strconv.Itoa(nreq)
			w := httptest.NewRecorder()
			switch rnd.Intn(4) {
			case 0:
				r.f.ServeHTTP(w, httptest.NewRequest("GET", "/r/"+id+"/", nil))
				if w.Code != http.StatusMovedPermanently || !strings.HasSuffix(w.Header().Get("Location"), "/r/"+id) && !strings.HasSuffix(w.Header().Get("Location"), id) {
					r.fail("GET /r/%s/: status %d Location %q", id, w.Code, w.Header().Get("Location"))
				}
			case 1:
				r.f.ServeHTTP(w, httptest.NewRequest("POST", "/r/"+id+"/", nil))
				if w.Code != http.StatusPermanentRedirect || !strings.HasSuffix(w.Header().Get("Location"), id) {
					r.fail("POST /r/%s/: status %d Location %q", id, w.Code, w.Header().Get("Location"))
				}
			case 2:
				r.f.ServeHTTP(w, httptest.NewRequest("GET", "/i/"+id+"/", nil))
				if w.Code != 200 || joined(w.Header().Values("X-P")) != "id="+id {
					r.fail("GET /i/%s/ (ignored trailing slash): status %d, params %v", id, w.Code, w.Header().Values("X-P"))
				}
			default:
				r.f.ServeHTTP(w, httptest.NewRequest("GET", "/nope/"+id, nil))
				if w.Code != http.StatusNotFound {
					r.fail("GET /nope/%s: status %d", id, w.Code)
				}
			}
		case kind >= 150:
			// answers computed from the SET OF METHOD ROOTS of the tree the request loaded: the Allow header of
			// OPTIONS *, of OPTIONS <path> and of a 405. The verb families spell their version in the method name, so
			// each answer is an observation of a tree version like any other read.
			var req *http.Request
			wantStatus := http.StatusOK
			fam := -1
			switch {
			case kind < 165 || r.nE == 0:
				e.what = "OPTIONS *"
				req = httptest.NewRequest(http.MethodOptions, "*", nil)
			case kind < 175:
				fam = rnd.Intn(r.nE)
				e.what = "OPTIONS " + mpath(fam)
				req = httptest.NewRequest(http.MethodOptions, mpath(fam), nil)
			default:
				fam = rnd.Intn(r.nE)
				e.what = "405 on GET " + mpath(fam)
				req = httptest.NewRequest(http.MethodGet, mpath(fam), nil)
				wantStatus = http.StatusMethodNotAllowed
			}
			w := httptest.NewRecorder()
			r.f.ServeHTTP(w, req)
			allow := strings.Split(w.Header().Get("Allow"), ", ")
			if w.Code != wantStatus {
				r.fail("%s by goroutine %d: status %d, Allow %q", e.what, tid, w.Code, w.Header().Get("Allow"))
			}
			e.vs = r.verbsIn(allow, e.what)
			has := func(m string) bool {
				for _, a := range allow {
					if a == m {
						return true
					}
				}
				return false
			}
			if fam >= 0 {
				if len(e.vs) != 1 || e.vs[0].o != vobj(fam) {
					r.fail("%s by goroutine %d: Allow %q does not name exactly one method of verb family %d", e.what, tid, w.Header().Get("Allow"), fam)
				}
			} else {
				if len(e.vs) != r.nE {
					r.fail("OPTIONS * by goroutine %d: Allow %q does not name exactly one method per verb family (%d families)", tid, w.Header().Get("Allow"), r.nE)
				}
				if !has("GET") || (r.nB > 0 && !has("POST")) || (r.nD > 0 && (!has("TRACE") || !has("PURGE"))) {
					r.fail("OPTIONS * by goroutine %d: Allow %q lacks a method that has routes in every published state", tid, w.Header().Get("Allow"))
				}
			}
		case kind >= 125:
			// the same, through code that COPIES the context: a middleware calling Clone or CloneWith (+ Close), or
			// Lookup followed by CloneWith; the original and the copy, before and after the handler ran, must all show
			// this request's own parameters
			e.what = "params+clone"
			nreq++
			id := strconv.Itoa(tid) + "000" + strconv.Itoa(nreq)
			pk := rnd.Intn(len(paramRoutes))
			path, want := paramReq(pk, id)
			pr := &probe{mode: "Clone"}
			if kind >= 133 {
				pr.mode = "CloneWith"
			}
			req := httptest.NewRequest("PUT", path, nil)
			req = req.WithContext(context.WithValue(req.Context(), probeKey{}, pr))
			views := map[string][]string{}
			if kind < 142 {
				w := httptest.NewRecorder()
				r.f.ServeHTTP(w, req)
				if w.Code != 200 || !pr.sawCopy {
					r.fail("ServeHTTP PUT %s: status %d, middleware ran: %v", path, w.Code, pr.sawCopy)
				}
				views = map[string][]string{"original before next": pr.origBefore, "copy before next": pr.copyBefore,
					"handler": pr.handler, "original after next": pr.origAfter, "copy after next": pr.copyAfter}
			} else {
				pr.mode = "Lookup+CloneWith"
				rte, cc, _ := r.f.Lookup(rw, req)
				if cc == nil || rte == nil || rte.Pattern() != paramRoutes[pk] {
					r.fail("Lookup PUT %s found no or a wrong route", path)
				} else {
					views["lookup context"] = paramsOf(cc)
					cp := cc.CloneWith(rw, req)
					views["copy"] = paramsOf(cp)
					views["lookup context after CloneWith"] = paramsOf(cc)
					cl := cc.Clone()
					cp.Close()
					cc.Close()
					views["Clone after Close"] = paramsOf(cl)
				}
			}
			for where, got := range views {
				if strings.Join(got, "&") != strings.Join(want, "&") {
					r.fail("%s PUT %s (route %s) by goroutine %d: the %s shows the parameters [%s], not the request's own [%s]",
						pr.mode, path, paramRoutes[pk], tid, where, strings.Join(got, " "), strings.Join(want, " "))
				}
			}
		case kind >= 100:
			// a request with parameters carrying an id unique to THIS request: whatever the router hands back
			// (to the handler through c.Params(), or to the caller of Lookup) must reproduce this request
			e.what = "params"
			nreq++
			id := strconv.Itoa(tid) + "000" + strconv.Itoa(nreq)
			pk := rnd.Intn(len(paramRoutes))
			path, want := paramReq(pk, id)
			req := httptest.NewRequest("GET", path, nil)
			var got []string
			how := "ServeHTTP"
			if kind < 115 {
				w := httptest.NewRecorder()
				r.f.ServeHTTP(w, req)
				got = w.Header().Values("X-P")
				if w.Code != 200 {
					got = append(got, "status="+strconv.Itoa(w.Code))
				}
			} else {
				how = "Lookup"
				rte, cc, _ := r.f.Lookup(rw, req)
				if cc != nil {
					for p := range cc.Params() {
						got = append(got, p.Key+"="+p.Value)
					}
					cc.Close()
				}
				if rte == nil || rte.Pattern() != paramRoutes[pk] {
					got = append(got, "route=nil-or-wrong")
				}
			}
			if strings.Join(got, "&") != strings.Join(want, "&") {
				r.fail("%s GET %s (route %s) by goroutine %d was given the parameters [%s], not its own [%s]",
					how, path, paramRoutes[pk], tid, strings.Join(got, " "), strings.Join(want, " "))
			}
		case kind < 30:
			e.what = "ServeHTTP"
			w := httptest.NewRecorder()
			r.f.ServeHTTP(w, reqs[ti])
			if w.Code == 200 {
				v, _ := strconv.ParseUint(w.Header().Get("X-V"), 10, 64)
				e.vs = []ov{r.seen(t.obj, v, e.what)}
			}
		case kind < 45:
			e.what = "Lookup"
			rte, cc, _ := r.f.Lookup(rw, reqs[ti])
			if v, ok := verOf(rte); ok {
				e.vs = []ov{r.seen(t.obj, v, e.what)}
			}
			if cc != nil {
				cc.Close()
			}
		case kind < 58:
			e.what = "Reverse"
			rte, _ := r.f.Reverse(t.method, "", t.path)
			if v, ok := verOf(rte); ok {
				e.vs = []ov{r.seen(t.obj, v, e.what)}
			}
		case kind < 72:
			e.what = "Route/Has"
			if rnd.Bool() {
				_ = r.f.Has(t.method, t.pattern)
			}
			if v, ok := verOf(r.f.Route(t.method, t.pattern)); ok {
				e.vs = []ov{r.seen(t.obj, v, e.what)}
			}
		case kind < 86:
			e.what = "Iter"
			it := r.f.Iter()
			e.vs = r.snapshotOf(it.All())
			if l := r.f.Len(); l < r.K+2+r.nB+famSize*r.nC+2*len(paramRoutes)+4+2*truncN*r.nD+r.nE {
				r.fail("Len() = %d", l)
			}
		default:
			e.what = "View"
			_ = r.f.View(func(txn *fox.Txn) error {
				// several lookups on the one tree the transaction loaded
				for o := 0; o <= r.K; o++ {
					p := "/ver"
					if o > 0 {
						p = dpath(o)
					}
					if v, ok := verOf(txn.Route("GET", p)); ok {
						e.vs = append(e.vs, ov{o, v})
					} else {
						r.fail("View: %s missing", p)
					}
				}
				if rnd.Bool() {
					e.vs = r.snapshotOf(txn.Iter().All())
				}
				return nil
			})
		}
		if kind < 72 && t.always && len(e.vs) == 0 {
			r.fail("%s by goroutine %d: %s %s not found, although it is registered in every published state (an uncommitted or aborted write is visible)", e.what, tid, t.method, t.path)
		}
		if record {
			e.ret = clock.Add(1)
			*out = append(*out, e)
		}
	}
}

type event struct {
	ts  int64
	ret bool
	r   *rec
}

func (r *round) run(rnd *hx.Rand) (events []event, dur time.Duration) {
	r.setup()
	old := runtime.GOMAXPROCS(r.procs)
	defer runtime.GOMAXPROCS(old)
	nth := r.nA + r.nB + r.nC + r.nD + r.nE + r.nR
	recs := make([][]rec, nth)
	rnds := make([]*hx.Rand, nth)
	for i := range rnds {
		rnds[i] = rnd.Fork()
	}
	var wgW, wgR sync.WaitGroup
	var stop atomic.Bool
	start := make(chan struct{})
	guard := func(tid int, wg *sync.WaitGroup, fn func()) {
		wg.Add(1)
		go func() {
			defer wg.Done()
			defer func() {
				if p := recover(); p != nil {
					r.fail("goroutine %d panicked: %v", tid, p)
				}
			}()
			<-start
			fn()
		}()
	}
	for i := 0; i < r.nA; i++ {
		tid := i
		guard(tid, &wgW, func() { r.writerA(tid, rnds[tid], &recs[tid]) })
	}
	for i := 0; i < r.nB; i++ {
		tid, k := r.nA+i, i
		guard(tid, &wgW, func() { r.writerB(tid, k, rnds[tid], &recs[tid]) })
	}
	for i := 0; i < r.nC; i++ {
		tid, k := r.nA+r.nB+i, i
		guard(tid, &wgW, func() { r.writerC(tid, k, rnds[tid], &recs[tid]) })
	}
	if r.nD > 0 {
		tid := r.nA + r.nB + r.nC
		guard(tid, &wgW, func() { r.writerD(tid, rnds[tid], &recs[tid]) })
	}
	for i := 0; i < r.nE; i++ {
		tid, k := r.nA+r.nB+r.nC+r.nD+i, i
		guard(tid, &wgW, func() { r.writerE(tid, k, rnds[tid], &recs[tid]) })
	}
	for i := 0; i < r.nR; i++ {
		tid := r.nA + r.nB + r.nC + r.nD + r.nE + i
		guard(tid, &wgR, func() { r.reader(tid, rnds[tid], &recs[tid], &stop) })
	}
	t0 := time.Now()
	close(start)
	done := make(chan struct{})
	go func() { wgW.Wait(); stop.Store(true); wgR.Wait(); close(done) }()
	select {
	case <-done:
	case <-time.After(60 * time.Second):
		r.fail("round did not finish within 60s (deadlock?)")
		return nil, time.Since(t0)
	}
	dur = time.Since(t0)
	for t := range recs {
		for i := range recs[t] {
			e := &recs[t][i]
			events = append(events, event{e.call, false, e}, event{e.ret, true, e})
		}
	}
	sort.Slice(events, func(i, j int) bool { return events[i].ts < events[j].ts })
	return events, dur
}

func coqVs(vs []ov) string {
	return hx.ListOf(vs, func(p ov) string { return "(" + strconv.Itoa(p.o) + "," + hx.N(p.v) + ")" })
}

func coqEvent(e event) string {
	if !e.ret {
		return "HCall " + strconv.Itoa(e.r.tid)
	}
	switch e.r.kind {
	case 'W':
		return fmt.Sprintf("HRet %d (ResW %s [%s])", e.r.tid, coqVs(e.r.vs), hx.Bool(e.r.ok))
	case 'A':
		return fmt.Sprintf("HRet %d ResA", e.r.tid)
	}
	return fmt.Sprintf("HRet %d (ResR %s tt)", e.r.tid, coqVs(e.r.vs))
}

// informal pre-check, only to give the replay file a readable first symptom; the verdict is Coq's
func symptom(events []event, G int) string {
	maxret := map[int]uint64{}
	floor := map[*rec]map[int]uint64{}
	seen := map[ov]string{}
	for _, e := range events {
		if !e.ret {
			fl := map[int]uint64{}
			for k, v := range maxret {
				fl[k] = v
			}
			floor[e.r] = fl
			continue
		}
		fl := floor[e.r]
		for _, p := range e.r.vs {
			if e.r.kind == 'W' {
				if p.v <= fl[p.o] {
					return fmt.Sprintf("thread %d %s wrote version %d of object %d although version %d had already been returned before it was called", e.r.tid, e.r.what, p.v, p.o, fl[p.o])
				}
				if prev, dup := seen[p]; dup {
					return fmt.Sprintf("version %d of object %d was produced twice (%s and thread %d %s): lost update", p.v, p.o, prev, e.r.tid, e.r.what)
				}
				seen[p] = fmt.Sprintf("thread %d %s", e.r.tid, e.r.what)
			} else if p.v < fl[p.o] {
				return fmt.Sprintf("stale read: thread %d %s saw version %d of object %d, but version %d had been returned before the read was called", e.r.tid, e.r.what, p.v, p.o, fl[p.o])
			}
			if p.v > maxret[p.o] {
				maxret[p.o] = p.v
			}
		}
		if e.r.kind == 'W' && !e.r.ok {
			return fmt.Sprintf("thread %d %s: an operation of a committed write returned an unexpected result", e.r.tid, e.r.what)
		}
		gv := map[int]uint64{}
		for _, p := range e.r.vs {
			g := -1
			if p.o < G {
				g = 0
			} else if p.o >= 100 {
				g = p.o / 100
			}
			if g >= 0 {
				if v, ok := gv[g]; ok && v != p.v {
					return fmt.Sprintf("thread %d %s saw a partially applied transaction: versions %d and %d on routes written together", e.r.tid, e.r.what, v, p.v)
				}
				gv[g] = p.v
			}
		}
	}
	cnt := map[int]uint64{}
	for p := range seen {
		cnt[p.o]++
	}
	for _, e := range events {
		if e.ret && e.r.kind == 'R' {
			for _, p := range e.r.vs {
				if p.v > cnt[p.o] {
					return fmt.Sprintf("thread %d %s saw version %d of object %d, which no committed write produced (%d committed)", e.r.tid, e.r.what, p.v, p.o, cnt[p.o])
				}
			}
		}
	}
	for p := range seen {
		if p.v > cnt[p.o] {
			return fmt.Sprintf("object %d reached version %d with only %d committed writes (a write that was not committed became visible)", p.o, p.v, cnt[p.o])
		}
	}
	return ""
}

func main() {
	args := hx.Args()
	out := args["out"]
	tier := args["tier"]
	shards := hx.Atoi(args["shards"], 8)
	rnd := hx.NewRand(hx.Seed())
	budget := time.Duration(hx.Atoi(args["seconds"], 25)) * time.Second
	if tier == "thorough" && args["seconds"] == "" {
		budget = 300 * time.Second
	}

	cs := &hx.Cases{
		Header: "From FoxBase Require Import Bytes.\nFrom FoxTxn Require Import Protocol HistCorr.\n",
		Type:   "hcase",
		Footer: "Definition mism := Eval vm_compute in mismatches cases.\nPrint mism.\n" +
			"Definition viol := Eval vm_compute in spec_violations cases.\nPrint viol.\n" +
			"Definition oof := Eval vm_compute in fuel_outs cases.\nPrint oof.\n",
	}
	st := &hx.Stats{Rule: "a case is the complete call/return history (global atomic clock) of one stress round on a fresh router: nA multi-route transaction writers (Updates commit / error / panic after a prefix, Txn Commit / Abort), nB single-operation writers (Update/UpdateRoute, Handle/HandleRoute/Delete on keys they own, failing Handle), nR readers (ServeHTTP, Lookup, Reverse, Route/Has, Iter+Len, View) under a varied GOMAXPROCS; binary built with -race and run with GORACE=halt_on_error=1; non-trivial = the round has >= 2 writers and at least one read overlapped a committed write in real time; distinct = distinct rounds (each has its own schedule)"}
	t0 := time.Now()
	nontrivial := 0
	totalOps, totalOverlap, totalRun := 0, 0, 0
	rounds, emitted := 0, 0
	eventBudget := hx.Atoi(args["events"], 40000)
	if tier == "thorough" && args["events"] == "" {
		eventBudget = 900000
	}
	procsChoices := []int{1, 2, 3, 4, 8, runtime.NumCPU()}
	for k := 0; time.Since(t0) < budget; k++ {
		r := &round{seed: rnd.U64()}
		rr := hx.NewRand(r.seed)
		r.K = rr.Range(1, 5)
		r.nA = rr.Range(1, 4)
		r.nB = rr.Range(0, 4)
		r.nE = rr.Range(0, 2)
		r.opsE = rr.Range(15, 60)
		r.nD = rr.Intn(2)
		r.opsD = rr.Range(10, 40)
		r.nC = rr.Range(0, 3)
		r.opsC = rr.Range(10, 50)
		r.nR = rr.Range(2, 8)
		r.procs = hx.Pick(rr, procsChoices)
		r.opsA = rr.Range(10, 60)
		r.opsB = rr.Range(20, 120)
		r.opsR = rr.Range(200, 1500)
		if tier == "thorough" {
			r.opsA, r.opsB, r.opsC, r.opsD, r.opsE, r.opsR = r.opsA*2, r.opsB*2, r.opsC*2, r.opsD*2, r.opsE*2, r.opsR*4
		}
		if k%7 == 6 { // reader-heavy / writer-heavy extremes
			r.nR, r.nA = 12, 1
		}
		if k%7 == 3 {
			r.nR, r.nA, r.nB = 2, 4, 4
		}
		if k%3 == 1 && r.nC == 0 {
			r.nC = 2
		}
		// every read runs (under the race detector); at most ~readBudget of them are recorded in the
		// history given to Coq (dropping reads from a history keeps it a valid history); writes always are
		readBudget := 400
		r.recEvery = (r.opsR*r.nR + readBudget - 1) / readBudget
		if r.recEvery < 1 {
			r.recEvery = 1
		}
		events, dur := r.run(rr)
		// overlap: a read whose [call, ret] contains the return of a committed write
		overlap := 0
		open := map[*rec]bool{}
		hit := map[*rec]bool{}
		for _, e := range events {
			if !e.ret {
				if e.r.kind == 'R' {
					open[e.r] = true
				}
				continue
			}
			if e.r.kind == 'R' {
				delete(open, e.r)
			} else if e.r.kind == 'W' {
				for x := range open {
					hit[x] = true
				}
			}
		}
		overlap = len(hit)
		totalOverlap += overlap
		totalOps += len(events) / 2
		totalRun += r.nA*r.opsA + r.nB*r.opsB + r.nC*r.opsC + r.nD*r.opsD + r.nE*r.opsE + r.nR*r.opsR
		nontriv := r.nA+r.nB+r.nC+r.nD+r.nE >= 2 && overlap > 0
		cfg := fmt.Sprintf("round %d seed=%d K=%d writersA=%d writersB=%d writersC=%d truncateWriter=%d verbWriters=%d readers=%d GOMAXPROCS=%d ops=%d reads-overlapping-a-commit=%d dur=%s",
			k, r.seed, r.K, r.nA, r.nB, r.nC, r.nD, r.nE, r.nR, r.procs, len(events)/2, overlap, dur.Round(time.Millisecond))
		human := cfg
		if msg, _ := r.badMsg.Load().(string); msg != "" {
			human += " FAILURE: " + msg
		}
		if s := symptom(events, r.G()); s != "" {
			human += " SYMPTOM: " + s
		}
		rounds++
		// Every round runs under the race detector and gets the informal pre-check; the histories handed to
		// the verified checker are budgeted (coqc elaborates ~1500 events/s): rounds with any symptom always,
		// the others evenly over the run until the event budget is used.
		suspicious := r.bad.Load() || strings.Contains(human, "SYMPTOM")
		due := float64(emitted) < float64(eventBudget)*float64(time.Since(t0))/float64(budget)
		if !suspicious && !due {
			continue
		}
		emitted += len(events)
		if nontriv {
			nontrivial++
		}
		term := fmt.Sprintf("(%d, %s, %s)", r.G(), hx.ListOf(events, coqEvent), hx.Bool(r.bad.Load()))
		cs.Add(term, human)
		st.Count(fmt.Sprintf("GOMAXPROCS:%02d", r.procs))
		st.Count(fmt.Sprintf("writers:%d", r.nA+r.nB+r.nC))
		st.Count(fmt.Sprintf("family-writers:%d", r.nC))
		st.Count(fmt.Sprintf("truncate-writer:%d", r.nD))
		st.Count(fmt.Sprintf("verb-writers:%d", r.nE))
		st.Count(fmt.Sprintf("readers:%02d", r.nR))
		st.Count(fmt.Sprintf("txn-routes:%d", r.K+3))
		if len(st.Samples) < 5 {
			st.Samples = append(st.Samples, cfg)
		}
		if r.bad.Load() && strings.Contains(human, "deadlock") {
			break // goroutines of this round still hold resources; stop stressing
		}
	}
	st.Evaluations = cs.Len()
	st.DistinctNontrivial = nontrivial
	st.Extra = map[string]any{
		"rounds_executed":               rounds,
		"rounds_checked_by_coq":         cs.Len(),
		"events_checked_by_coq":         emitted,
		"operations_recorded":           totalOps,
		"operations_executed_upper":     totalRun,
		"reads_overlapping_a_commit":    totalOverlap,
		"stress_seconds":                int(time.Since(t0).Seconds()),
		"race_detector":                 "binary built with -race; GORACE=" + os.Getenv("GORACE"),
		"sampled_not_proved":            "data-race freedom under the Go memory model and the schedules exercised are runtime behaviour: sampled by this stress run, not proved",
		"num_cpu":                       runtime.NumCPU(),
	}
	hx.Fatal(cs.Write(out, shards))
	hx.Fatal(st.Write(out))
	fmt.Printf("c05: %d rounds, %d operations recorded, written to %s\n", cs.Len(), totalOps, out)
}
