// c20: drives fox's Logger middleware (LoggerWithHandler with a capturing slog.Handler)
// over handler behaviours x resolver configurations x handler kinds, and writes Coq
// case files comparing what was logged with the model (FoxC20.Logger) and the
// specification (FoxC20.Spec).
package main

import (
	"context"
	"errors"
	"fmt"
	"io"
	"log"
	"log/slog"
	"net"
	"net/http"
	"net/url"
	"reflect"
	"sort"
	"strings"

	"foxverif/hx"

	"github.com/tigerwill90/fox"
	"github.com/tigerwill90/fox/clientip"
)

// ---------- capturing slog.Handler ----------

type rec struct {
	level slog.Level
	msg   string
	attrs []slog.Attr
}

type world struct {
	recs   []rec
	events []string // "enter", "exit", "log"
}

// capture: a slog.Handler with a minimum level (never: enabled at no level, like slog.DiscardHandler)
type capture struct {
	w     *world
	min   slog.Level
	never bool
}

func (h capture) Enabled(_ context.Context, l slog.Level) bool { return !h.never && l >= h.min }

type minLevel struct {
	name string
	coq  string
	min  slog.Level
	none bool
}

var minLevels = []minLevel{
	{"DEBUG", "(Some LevelDebug)", slog.LevelDebug, false},
	{"INFO", "(Some LevelInfo)", slog.LevelInfo, false},
	{"WARN", "(Some LevelWarn)", slog.LevelWarn, false},
	{"ERROR", "(Some LevelError)", slog.LevelError, false},
	{"above ERROR", "None", slog.LevelError + 4, true},
}

func (h capture) Handle(_ context.Context, r slog.Record) error {
	x := rec{level: r.Level, msg: r.Message}
	r.Attrs(func(a slog.Attr) bool { x.attrs = append(x.attrs, a); return true })
	h.w.recs = append(h.w.recs, x)
	h.w.events = append(h.w.events, "log")
	return nil
}
func (h capture) WithAttrs([]slog.Attr) slog.Handler { return h }
func (h capture) WithGroup(string) slog.Handler      { return h }

// ---------- underlying writer (what net/http would put on the wire) ----------

type uw struct {
	hdr     http.Header
	wrote   bool
	status  int
	info    []int
	sent    http.Header // snapshot of the header map when the status line was written
	body    []byte
	flushes int
}

func newUW() *uw { return &uw{hdr: http.Header{}} }

func (u *uw) Header() http.Header { return u.hdr }
func (u *uw) WriteHeader(code int) {
	if u.wrote {
		return
	}
	if code >= 100 && code <= 199 && code != 101 {
		u.info = append(u.info, code)
		return
	}
	u.wrote = true
	u.status = code
	u.sent = u.hdr.Clone()
}
func (u *uw) Write(b []byte) (int, error) {
	if !u.wrote {
		u.WriteHeader(200)
	}
	u.body = append(u.body, b...)
	return len(b), nil
}
func (u *uw) flush() {
	if !u.wrote {
		u.WriteHeader(200) // the client receives the pending (implicit 200) header
	}
	u.flushes++
}

// what the underlying writer offers for flushing: nothing, http.Flusher, FlushError() error
type uwF struct{ *uw }

func (u uwF) Flush() { u.flush() }

type uwFE struct{ *uw }

func (u uwFE) FlushError() error { u.flush(); return nil }

var flushKinds = []string{"FNone", "FFlusher", "FFlushError"}

func (u *uw) as(kind int) http.ResponseWriter {
	switch kind {
	case 1:
		return uwF{u}
	case 2:
		return uwFE{u}
	}
	return u
}

func (u *uw) final() int {
	if !u.wrote {
		return 200 // net/http sends an implicit 200 when the handler returns without writing
	}
	return u.status
}
func hdrString(h http.Header) string {
	ks := make([]string, 0, len(h))
	for k := range h {
		ks = append(ks, k)
	}
	sort.Strings(ks)
	var sb strings.Builder
	for _, k := range ks {
		fmt.Fprintf(&sb, "%q=%q;", k, h[k])
	}
	return sb.String()
}
func (u *uw) digest() string {
	return fmt.Sprintf("wrote=%v status=%d info=%v sent={%s} final={%s} body=%q flushes=%d", u.wrote, u.status, u.info, hdrString(u.sent), hdrString(u.hdr), u.body, u.flushes)
}

// ---------- scripts ----------

const (
	aWriteHeader = iota
	aWrite
	aSetLocation
	aPanic
	aFlush
)

type act struct {
	kind int
	code int
	n    int
	loc  string
	pid  int
	fk   int // aFlush: what the underlying writer offers (filled when served)
	via  int // aFlush: 0 c.Writer().FlushError(), 1 http.NewResponseController(w).Flush()
}

func (a act) coq() string {
	switch a.kind {
	case aWriteHeader:
		return "AWriteHeader " + hx.Z(int64(a.code))
	case aWrite:
		return "AWrite " + hx.Z(int64(a.n))
	case aSetLocation:
		return "ASetLocation " + hx.Bytes(a.loc)
	case aFlush:
		return "AFlush " + flushKinds[a.fk]
	default:
		return "APanic " + hx.N(uint64(a.pid))
	}
}
func (a act) String() string {
	switch a.kind {
	case aWriteHeader:
		return fmt.Sprintf("WriteHeader(%d)", a.code)
	case aWrite:
		return fmt.Sprintf("Write(%d bytes)", a.n)
	case aSetLocation:
		return fmt.Sprintf("SetHeader(Location,%q)", a.loc)
	case aFlush:
		return fmt.Sprintf("%s[underlying:%s]", []string{"FlushError()", "ResponseController.Flush()"}[a.via], flushKinds[a.fk])
	default:
		return fmt.Sprintf("panic(value#%d)", a.pid)
	}
}

type customPanic struct{ n int }

var panicValues = []any{
	errors.New("boom"),   // 0
	"a string",           // 1
	&customPanic{7},      // 2
	http.ErrAbortHandler, // 3
	fmt.Errorf("wrapped: %w", http.ErrAbortHandler), // 4
	42, // 5
}

var cur []act // script of the request being served (the harness is single threaded)

var curDispatch string
var curWorld *world

func scripted(c fox.Context) {
	defer func() { curWorld.events = append(curWorld.events, "done") }()
	for i, a := range cur {
		switch a.kind {
		case aWriteHeader:
			c.Writer().WriteHeader(a.code)
		case aWrite:
			if (i+a.n)%2 == 0 {
				_, _ = c.Writer().Write([]byte(strings.Repeat("x", a.n)))
			} else {
				_, _ = io.WriteString(c.Writer(), strings.Repeat("y", a.n))
			}
		case aSetLocation:
			c.SetHeader(fox.HeaderLocation, a.loc)
		case aFlush:
			if a.via == 0 {
				_ = c.Writer().FlushError()
			} else {
				_ = http.NewResponseController(c.Writer()).Flush()
			}
		case aPanic:
			panic(panicValues[a.pid])
		}
	}
}

// ---------- resolvers ----------

type errTree struct {
	coq string
	err error
}

var errBoom = errors.New("resolver: boom")
var errOther = errors.New("resolver: other")

func genErr(r *hx.Rand, depth int) errTree {
	k := r.Intn(6)
	if depth == 0 && k >= 3 {
		k = r.Intn(3)
	}
	switch k {
	case 0:
		return errTree{"ELeaf " + hx.N(0), fox.ErrNoClientIPResolver}
	case 1:
		return errTree{"ELeaf " + hx.N(5), errBoom}
	case 2:
		return errTree{"ELeaf " + hx.N(6), errOther}
	case 3, 4:
		in := genErr(r, depth-1)
		return errTree{"EWrap (" + in.coq + ")", fmt.Errorf("ctx: %w", in.err)}
	default:
		n := r.Range(1, 3)
		var cs []string
		var es []error
		for i := 0; i < n; i++ {
			in := genErr(r, depth-1)
			cs = append(cs, "("+in.coq+")")
			es = append(es, in.err)
		}
		return errTree{"EJoin " + hx.List(cs), errors.Join(es...)}
	}
}

type resolution struct {
	coq   string
	human string
	ip    *net.IPAddr
	err   error
	real  fox.ClientIPResolver // a resolver of package clientip (nil: stub answering ip / err)
	fails bool
}

func (r *resolution) ClientIP(c fox.Context) (*net.IPAddr, error) {
	if r.real != nil {
		return r.real.ClientIP(c)
	}
	return r.ip, r.err
}

// resolvers of package clientip. What they answer is stated here by construction (requests carry
// "X-Real-Ip: 203.0.113.50" and no other forwarding header), NOT read off the error they return: the
// failure of a CONFIGURED resolver is a failure (ELeaf 9), whatever the error value wraps.
const clientipFailure = "ResErr (ELeaf (9)%N)"
const remotePlaceholder = "@REMOTE@"

func must[T any](v T, err error) T {
	hx.Fatal(err)
	return v
}

func realResolvers() []*resolution {
	missingHdr := must(clientip.NewSingleIPHeader("X-Client-Ip"))
	leftmost := must(clientip.NewLeftmostNonPrivate(clientip.XForwardedForKey, 10))
	rightmost := must(clientip.NewRightmostNonPrivate(clientip.ForwardedKey))
	realIP := must(clientip.NewSingleIPHeader("X-Real-Ip"))
	mk := func(name string, r fox.ClientIPResolver, coq string) *resolution {
		return &resolution{coq: coq, human: "clientip." + name, real: r, fails: coq == clientipFailure}
	}
	return []*resolution{
		mk("NewChain() [empty]", clientip.NewChain(), clientipFailure),
		mk("NewChain(SingleIPHeader(X-Client-Ip), LeftmostNonPrivate(XFF)) [all members fail]", clientip.NewChain(missingHdr, leftmost), clientipFailure),
		mk("NewChain(NewChain()) [nested empty]", clientip.NewChain(clientip.NewChain()), clientipFailure),
		mk("RightmostNonPrivate(Forwarded) [header absent]", rightmost, clientipFailure),
		mk("SingleIPHeader(X-Client-Ip) [header absent]", missingHdr, clientipFailure),
		mk("LeftmostNonPrivate(XFF) [header absent]", leftmost, clientipFailure),
		mk("RemoteAddr", clientip.NewRemoteAddr(), "ResOk "+remotePlaceholder),
		mk("NewChain(SingleIPHeader(X-Client-Ip), RemoteAddr)", clientip.NewChain(missingHdr, clientip.NewRemoteAddr()), "ResOk "+remotePlaceholder),
		mk("SingleIPHeader(X-Real-Ip)", realIP, "ResOk "+hx.Bytes("203.0.113.50")),
	}
}

func okRes(ip, zone, str string) *resolution {
	return &resolution{coq: "ResOk " + hx.Bytes(str), human: "ok(" + str + ")", ip: &net.IPAddr{IP: net.ParseIP(ip), Zone: zone}}
}
func errRes(e errTree) *resolution {
	return &resolution{coq: "ResErr (" + e.coq + ")", human: "err(" + e.coq + ")", err: e.err}
}

func genRes(r *hx.Rand) *resolution {
	switch r.Intn(10) {
	case 0, 1:
		return okRes("203.0.113.7", "", "203.0.113.7")
	case 2:
		return okRes("2001:db8::1", "", "2001:db8::1")
	case 3:
		return okRes("fe80::1", "eth0", "fe80::1%eth0")
	case 4:
		return errRes(errTree{"ELeaf " + hx.N(5), errBoom})
	case 5:
		return errRes(errTree{"ELeaf " + hx.N(0), fox.ErrNoClientIPResolver})
	case 6:
		return errRes(errTree{"EWrap (ELeaf " + hx.N(0) + ")", fmt.Errorf("delegate: %w", fox.ErrNoClientIPResolver)})
	default:
		return errRes(genErr(r, 3))
	}
}

// ---------- routers ----------

type config struct {
	glob    *resolution // nil: option not given
	rtMode  int         // 0 inherit, 1 nil, 2 set
	rt      *resolution
	special bool // scripted 404/405/OPTIONS handlers instead of the defaults
	attach  int  // how the Logger instance(s) are attached, see attachModes
	minLvl  int  // minimum level of the capturing slog.Handler, see minLevels
	masks   []int // attach == attachScoped: one WithMiddlewareFor(mask, L) per entry (5-bit masks over scopeBits)
}

// how the Logger (one capturing instance, possibly attached several times) is put in the chain
type attachMode struct {
	name    string
	globals string // Coq: list attach, in option order
	tl, al  int    // instances attached to the target routes / to the alias route
}

var attachModes = []attachMode{
	{"WithMiddleware(L)", "[AWithMiddleware]", 0, 0},
	{"WithMiddlewareFor(Route|NoRoute, L)", "[AWithMiddlewareFor [SRoute; SNoRoute]]", 0, 0},
	{"WithMiddlewareFor(Route, L)", "[AWithMiddlewareFor [SRoute]]", 0, 0},
	{"WithMiddlewareFor(NoRoute|NoMethod|Redirect|Options, L)", "[AWithMiddlewareFor [SNoRoute; SNoMethod; SRedirect; SOptions]]", 0, 0},
	{"route option WithMiddleware(L) on the target routes", "[]", 1, 0},
	{"WithMiddleware(L) + route option WithMiddleware(L) on every route", "[AWithMiddleware]", 1, 1},
	{"WithMiddlewareFor(Route, L) + WithMiddlewareFor(AllHandlers, L)", "[AWithMiddlewareFor [SRoute]; AWithMiddlewareFor [SRoute; SNoRoute; SNoMethod; SRedirect; SOptions]]", 0, 0},
	{"DefaultOptions() + WithMiddleware(L)", "[AWithMiddleware]", 0, 0},
}

const attachDefaultOptions = 7

// attachScoped: the Logger is attached by one WithMiddlewareFor(mask, L) per entry of config.masks; the
// masks are chosen by the harness (scope sweep: every non-empty subset of the five handler kinds).
// Two independent tables turn a mask into the fox option and into the Coq term.
const attachScoped = 8

var scopeBits = []struct {
	fox  fox.HandlerScope
	name string
	coq  string
}{
	{fox.RouteHandler, "Route", "SRoute"},
	{fox.NoRouteHandler, "NoRoute", "SNoRoute"},
	{fox.NoMethodHandler, "NoMethod", "SNoMethod"},
	{fox.RedirectHandler, "Redirect", "SRedirect"},
	{fox.OptionsHandler, "Options", "SOptions"},
}

func maskFox(m int) (sc fox.HandlerScope) {
	for i, b := range scopeBits {
		if m&(1<<i) != 0 {
			sc |= b.fox
		}
	}
	return sc
}
func maskName(m int) string {
	var ns []string
	for i, b := range scopeBits {
		if m&(1<<i) != 0 {
			ns = append(ns, b.name)
		}
	}
	return strings.Join(ns, "|")
}
func maskCoq(m int) string {
	var ns []string
	for i, b := range scopeBits {
		if m&(1<<i) != 0 {
			ns = append(ns, b.coq)
		}
	}
	return "AWithMiddlewareFor [" + strings.Join(ns, "; ") + "]"
}

// mode: how the Logger of this configuration is attached (table entry, or built from the scope masks)
func (c config) mode() attachMode {
	if c.attach != attachScoped {
		return attachModes[c.attach]
	}
	var ns, cs []string
	for _, m := range c.masks {
		ns = append(ns, "WithMiddlewareFor("+maskName(m)+", L)")
		cs = append(cs, maskCoq(m))
	}
	return attachMode{strings.Join(ns, " + "), "[" + strings.Join(cs, "; ") + "]", 0, 0}
}

func (c config) globCoq() string {
	if c.glob == nil {
		return "None"
	}
	return "(Some (" + c.glob.coq + "))"
}
func (c config) rtCoq() string {
	switch c.rtMode {
	case 0:
		return "RInherit"
	case 1:
		return "RNil"
	default:
		return "(RSet (" + c.rt.coq + "))"
	}
}
func (c config) String() string {
	g, r := "none", "inherit"
	if c.glob != nil {
		g = c.glob.human
	}
	if c.rtMode == 1 {
		r = "nil"
	} else if c.rtMode == 2 {
		r = c.rt.human
	}
	return fmt.Sprintf("logger: %s, log handler minimum level %s | global-resolver=%s route-resolver=%s custom-special-handlers=%v", c.mode().name, minLevels[c.minLvl].name, g, r, c.special)
}

// context substituted by a middleware placed BEFORE the Logger: none, a pooled copy from CloneWith, or a
// Clone() whose writer is set back to the live one
var curSubst int
var substNames = []string{"none", "next(c.CloneWith(c.Writer(), c.Request()))", "next(c.Clone() + SetWriter(c.Writer()))"}

func substitute(next fox.HandlerFunc) fox.HandlerFunc {
	return func(c fox.Context) {
		switch curSubst {
		case 1:
			cp := c.CloneWith(c.Writer(), c.Request())
			defer cp.Close()
			next(cp)
		case 2:
			cp := c.Clone()
			cp.SetWriter(c.Writer())
			next(cp)
		default:
			next(c)
		}
	}
}

func build(cfg config, w *world, withLogger bool) *fox.Router {
	marker := func(next fox.HandlerFunc) fox.HandlerFunc {
		return func(c fox.Context) {
			w.events = append(w.events, "enter")
			defer func() { w.events = append(w.events, "exit") }()
			next(c)
		}
	}
	var opts []fox.GlobalOption
	L := fox.LoggerWithHandler(capture{w: w, min: minLevels[cfg.minLvl].min, never: minLevels[cfg.minLvl].none})
	if cfg.attach == attachDefaultOptions {
		opts = append(opts, fox.DefaultOptions()) // Recovery() for routes + Logger() to stdout (not observable here)
	}
	opts = append(opts, fox.WithMiddleware(substitute)) // outside every Logger attached below
	if withLogger {
		switch cfg.attach {
		case 0, 5, attachDefaultOptions:
			opts = append(opts, fox.WithMiddleware(L))
		case 1:
			opts = append(opts, fox.WithMiddlewareFor(fox.RouteHandler|fox.NoRouteHandler, L))
		case 2:
			opts = append(opts, fox.WithMiddlewareFor(fox.RouteHandler, L))
		case 3:
			opts = append(opts, fox.WithMiddlewareFor(fox.NoRouteHandler|fox.NoMethodHandler|fox.RedirectHandler|fox.OptionsHandler, L))
		case 6:
			opts = append(opts, fox.WithMiddlewareFor(fox.RouteHandler, L), fox.WithMiddlewareFor(fox.AllHandlers, L))
		case attachScoped:
			for _, m := range cfg.masks {
				opts = append(opts, fox.WithMiddlewareFor(maskFox(m), L))
			}
		}
	}
	opts = append(opts, fox.WithMiddleware(marker), fox.WithRedirectTrailingSlash(true))
	if cfg.glob != nil {
		opts = append(opts, fox.WithClientIPResolver(cfg.glob))
	}
	if cfg.special {
		opts = append(opts, fox.WithNoRouteHandler(scripted), fox.WithNoMethodHandler(scripted), fox.WithOptionsHandler(scripted))
	} else {
		opts = append(opts, fox.WithNoMethod(true), fox.WithAutoOptions(true))
	}
	f, err := fox.New(opts...)
	hx.Fatal(err)
	var ro []fox.RouteOption
	switch cfg.rtMode {
	case 1:
		ro = append(ro, fox.WithClientIPResolver(nil))
	case 2:
		ro = append(ro, fox.WithClientIPResolver(cfg.rt))
	}
	must := func(_ *fox.Route, err error) { hx.Fatal(err) }
	aliasOpts := append([]fox.RouteOption{}, ro...)
	if withLogger && cfg.mode().al > 0 {
		aliasOpts = append(aliasOpts, fox.WithMiddleware(L))
	}
	// the alias route re-dispatches to the route GET /r/{id} through the secondary entry points
	must(f.Handle("GET", "/alias/{id}", func(c fox.Context) {
		target := c.Fox().Route("GET", "/r/{id}")
		if curDispatch == "DAliasHandle" {
			target.Handle(c)
		} else {
			target.HandleMiddleware(c)
		}
	}, aliasOpts...))
	if withLogger && cfg.mode().tl > 0 {
		ro = append(ro, fox.WithMiddleware(L))
	}
	must(f.Handle("GET", "/r/{id}", scripted, ro...))
	must(f.Handle("DELETE", "/r/{id}", scripted, ro...))
	must(f.Handle("POST", "/only", scripted, ro...))
	must(f.Handle("GET", "/dir/", scripted, ro...))
	must(f.Handle("POST", "/dir/", scripted, ro...))
	must(f.Handle("GET", "/ign/", scripted, append(append([]fox.RouteOption{}, ro...), fox.WithIgnoreTrailingSlash(true))...))
	return f
}

type reqSpec struct {
	kind   string
	method string
	target string // request target
	path   string // expected c.Path()
	disp   string // "" = ServeHTTP; else the secondary entry point
}

var requests = []reqSpec{
	{"KRoute", "GET", "/r/123", "/r/123", ""},
	{"KRoute", "GET", "/alias/77", "/alias/77", "DAliasMiddleware"},
	{"KRoute", "GET", "/alias/78", "/alias/78", "DAliasHandle"},
	{"KRoute", "GET", "/r/456", "/r/456", "DLookupMiddleware"},
	{"KRoute", "GET", "/r/457", "/r/457", "DLookupHandle"},
	{"KRoute", "DELETE", "/r/a%2Fb", "/r/a/b", ""},
	{"KRouteTsr", "GET", "/ign", "/ign", ""},
	{"KNoRoute", "GET", "/nothing/here", "/nothing/here", ""},
	{"KNoRoute", "PURGE", "/zzz", "/zzz", ""},
	{"KNoMethod", "GET", "/only", "/only", ""},
	{"KNoMethod", "PUT", "/r/9", "/r/9", ""},
	{"KRedirect", "GET", "/dir", "/dir", ""},
	{"KRedirect", "POST", "/dir", "/dir", ""},
	{"KOptions", "OPTIONS", "/r/1", "/r/1", ""},
	{"KOptions", "OPTIONS", "/only", "/only", ""},
}

type remote struct{ addr, ip string }

// RemoteAddr -> textual IP expected as "the remote address" (hand-written pairs)
var remotes = []remote{
	{"192.0.2.1:1234", "192.0.2.1"},
	{"[2001:db8::2]:443", "2001:db8::2"},
	{"[fe80::3%eth1]:80", "fe80::3%eth1"},
	{"198.51.100.200:65535", "198.51.100.200"},
}

var hosts = []string{"example.com", "a.b:8080", "", "EXAMPLE.org"}

type observed struct {
	recs     []rec
	panicID  int // -1 none
	status   int
	location string
	digest   string
	after    bool
}

func serve(f *fox.Router, w *world, rq reqSpec, host string, rm remote, script []act, fk int, subst int) observed {
	w.recs, w.events = nil, nil
	curSubst = subst
	cur = script
	curWorld = w
	curDispatch = rq.disp
	u := newUW()
	pu, _ := url.ParseRequestURI(rq.target)
	req := &http.Request{Method: rq.method, URL: pu, Proto: "HTTP/1.1", ProtoMajor: 1, ProtoMinor: 1,
		Header: http.Header{"X-Real-Ip": {"203.0.113.50"}}, Host: host, RemoteAddr: rm.addr, RequestURI: rq.target, Body: http.NoBody}
	req = req.WithContext(context.Background())
	o := observed{panicID: -1}
	func() {
		defer func() {
			if p := recover(); p != nil {
				o.panicID = 999
				for i, v := range panicValues {
					if reflect.TypeOf(v) == reflect.TypeOf(p) && v == p {
						o.panicID = i
					}
				}
			}
		}()
		if strings.HasPrefix(rq.disp, "DLookup") {
			// Router.Lookup then Route.HandleMiddleware / Route.Handle on the returned context
			rw := fox.NewTestContextOnly(u.as(fk), req).Writer()
			route, cc, _ := f.Lookup(rw, req)
			if route == nil {
				panic("lookup failed")
			}
			defer cc.Close()
			if rq.disp == "DLookupHandle" {
				route.Handle(cc)
			} else {
				route.HandleMiddleware(cc)
			}
			return
		}
		f.ServeHTTP(u.as(fk), req)
	}()
	o.recs = w.recs
	o.status = u.final()
	o.location = u.hdr.Get("Location")
	o.digest = u.digest()
	// every record arrived after the handler finished: "done" of our scripted handler, else (handlers fox
	// supplies) "exit" of the innermost router-wide marker middleware
	o.after = true
	exited := false
	hasDone := false
	for _, e := range w.events {
		hasDone = hasDone || e == "done"
	}
	for _, e := range w.events {
		if (hasDone && e == "done") || (!hasDone && e == "exit") {
			exited = true
		}
		if e == "log" && !exited {
			o.after = false
		}
	}
	return o
}

func levelCoq(l slog.Level) (string, bool) {
	switch l {
	case slog.LevelDebug:
		return "LevelDebug", true
	case slog.LevelInfo:
		return "LevelInfo", true
	case slog.LevelWarn:
		return "LevelWarn", true
	case slog.LevelError:
		return "LevelError", true
	}
	return "LevelInfo", false
}

func recCoq(r rec) string {
	lv, ok := levelCoq(r.level)
	msg := r.msg
	if !ok {
		msg = fmt.Sprintf("<unexpected slog level %d> %s", int(r.level), r.msg)
	}
	as := make([]string, len(r.attrs))
	for i, a := range r.attrs {
		var v string
		switch a.Value.Kind() {
		case slog.KindInt64:
			v = "VInt " + hx.Z(a.Value.Int64())
		case slog.KindString:
			v = "VStr " + hx.Bytes(a.Value.String())
		case slog.KindDuration:
			v = "VDur"
		default:
			v = "VStr " + hx.Bytes("<kind "+a.Value.Kind().String()+">")
		}
		as[i] = "(" + hx.Bytes(a.Key) + ", " + v + ")"
	}
	return "R " + lv + " " + hx.Bytes(msg) + " " + hx.List(as)
}

func recHuman(r rec) string {
	var sb strings.Builder
	fmt.Fprintf(&sb, "%s %q", r.level, r.msg)
	for _, a := range r.attrs {
		if a.Value.Kind() == slog.KindDuration {
			fmt.Fprintf(&sb, " %s=<dur>", a.Key)
		} else {
			fmt.Fprintf(&sb, " %s=%v", a.Key, a.Value)
		}
	}
	return sb.String()
}

var statuses = []int{101, 200, 201, 204, 299, 300, 301, 302, 304, 307, 308, 399, 400, 404, 418, 499, 500, 503, 599, 600, 999}

func genScript(r *hx.Rand) []act {
	st := func() int {
		if r.Pct(75) {
			return hx.Pick(r, statuses)
		}
		return r.Range(100, 999)
	}
	loc := func() string { return hx.Pick(r, []string{"/next", "https://example.org/a?b=c", "../up", "x"}) }
	var s []act
	if r.Pct(18) { // flush first, then WriteHeader(other code) / Write / nothing
		s = []act{{kind: aFlush, via: r.Intn(2)}}
		switch r.Intn(5) {
		case 0:
		case 1:
			s = append(s, act{kind: aWriteHeader, code: st()})
		case 2:
			s = append(s, act{kind: aWrite, n: r.Range(1, 20)}, act{kind: aFlush, via: r.Intn(2)})
		case 3:
			s = append(s, act{kind: aWriteHeader, code: hx.Pick(r, []int{500, 502, 404, 302})}, act{kind: aWrite, n: 21})
		default:
			s = []act{{kind: aWriteHeader, code: 103}, {kind: aFlush, via: r.Intn(2)}, {kind: aSetLocation, loc: loc()}, {kind: aWriteHeader, code: hx.Pick(r, []int{301, 500})}}
		}
		return maybePanic(r, s)
	}
	switch r.Intn(12) {
	case 0:
	case 1:
		s = []act{{kind: aWrite, n: r.Range(0, 40)}}
	case 2:
		s = []act{{kind: aWriteHeader, code: st()}}
	case 3:
		s = []act{{kind: aWriteHeader, code: st()}, {kind: aWrite, n: r.Range(1, 40)}}
	case 4, 5:
		s = []act{{kind: aSetLocation, loc: loc()}, {kind: aWriteHeader, code: hx.Pick(r, []int{300, 301, 302, 303, 307, 308, 399, 299, 400, 200})}}
	case 6:
		s = []act{{kind: aWriteHeader, code: hx.Pick(r, []int{301, 302, 399, 404})}, {kind: aSetLocation, loc: loc()}}
	case 7:
		s = []act{{kind: aWriteHeader, code: hx.Pick(r, []int{100, 102, 103, 199})}, {kind: aWriteHeader, code: st()}}
	case 8:
		s = []act{{kind: aWriteHeader, code: st()}, {kind: aWriteHeader, code: st()}}
	case 9:
		s = []act{{kind: aSetLocation, loc: loc()}, {kind: aSetLocation, loc: ""}, {kind: aWriteHeader, code: 302}}
	case 10:
		s = []act{{kind: aWrite, n: 3}, {kind: aWriteHeader, code: st()}, {kind: aSetLocation, loc: loc()}}
	default:
		n := r.Range(1, 5)
		for i := 0; i < n; i++ {
			switch r.Intn(3) {
			case 0:
				s = append(s, act{kind: aWriteHeader, code: st()})
			case 1:
				s = append(s, act{kind: aWrite, n: r.Range(0, 9)})
			default:
				s = append(s, act{kind: aSetLocation, loc: loc()})
			}
		}
	}
	return maybePanic(r, s)
}

func maybePanic(r *hx.Rand, s []act) []act {
	if r.Pct(15) {
		at := r.Intn(len(s) + 1)
		s = append(append(append([]act{}, s[:at]...), act{kind: aPanic, pid: r.Intn(len(panicValues))}), s[at:]...)
	}
	return s
}

func main() {
	log.SetOutput(io.Discard) // "superfluous WriteHeader" notices of the recorder
	args := hx.Args()
	out := args["out"]
	tier := args["tier"]
	shards := hx.Atoi(args["shards"], 8)
	rnd := hx.NewRand(hx.Seed())

	cs := &hx.Cases{
		Header: "From FoxBase Require Import Bytes.\nFrom FoxC20 Require Import Types Spec Logger Corr.\n",
		Type:   "case",
		Footer: "Definition mism := Eval vm_compute in mismatches cases.\nPrint mism.\n" +
			"Definition viol := Eval vm_compute in spec_violations cases.\nPrint viol.\n" +
			"Definition oof := Eval vm_compute in fuel_outs cases.\nPrint oof.\n",
	}
	st := &hx.Stats{Rule: "per configuration (a middleware placed before the Logger hands on the context itself, a CloneWith copy or a Clone() with the live writer; capturing log handler with minimum level DEBUG / INFO / WARN / ERROR / above ERROR; Logger attached by WithMiddleware / WithMiddlewareFor with 4 scope masks / route option / several at once / DefaultOptions, plus a scope sweep: WithMiddlewareFor over all 31 non-empty subsets of the five handler kinds (default and scripted 404/405/OPTIONS handlers) and all 15 splits mask + complement over two options, each crossed with every request kind and entry point; router-wide resolver: none/ok/error tree; per-route resolver: inherit/nil/set; default or scripted 404/405/OPTIONS handlers) two routers are built (with and without LoggerWithHandler(capture)); every request kind (route, route reached through an alias handler calling Route.HandleMiddleware or Route.Handle, route reached by Router.Lookup + HandleMiddleware / Handle, route via ignore-trailing-slash, 404, 405, redirect 301/308, OPTIONS) is served with scripts of writer actions: (a) every status of a boundary list alone, (b) seeded random scripts (no write, implicit 200, 1xx then final, superfluous WriteHeader, Location before/after the status line, Flush/FlushError first (c.Writer().FlushError() or http.NewResponseController(w).Flush(), on an underlying writer offering nothing / http.Flusher / FlushError() error; enumerated with then-nothing / WriteHeader(500|404|302) / Write) — the underlying writers record what the CLIENT received (first final status forwarded; 200 after a bare flush or write), panic with one of 6 values at a random position); non-trivial = anything but a plain 2xx route request without resolver; distinct = distinct (configuration, request, host, remote, script) tuples"}
	seen := map[string]bool{}
	nontrivial := 0

	nconf, nrand := 16, 14
	if tier == "thorough" {
		nconf, nrand = 60, 40
	}
	reals := realResolvers()
	nreal := 2 * len(reals)
	// scope sweep (after everything else, so the random streams of the earlier configurations do not move):
	// the Logger attached by WithMiddlewareFor over EVERY non-empty subset of the five handler kinds, with
	// fox's own and with scripted 404/405/OPTIONS handlers, then every split of the five kinds over two
	// WithMiddlewareFor options (mask + complement: each request meets exactly one of the two);
	// every request kind is served once per configuration
	type sweepConf struct {
		masks   []int
		special bool
	}
	var sweep []sweepConf
	for m := 1; m < 1<<len(scopeBits); m++ {
		sweep = append(sweep, sweepConf{[]int{m}, false}, sweepConf{[]int{m}, true})
	}
	all := 1<<len(scopeBits) - 1
	for m := 1; m < all-m; m++ {
		sweep = append(sweep, sweepConf{[]int{m, all - m}, m%2 == 0})
	}
	for ci := 0; ci < nconf+nreal+len(sweep); ci++ {
		var cfg config
		light := false
		inSweep := ci >= nconf+nreal
		if inSweep {
			sw := sweep[ci-nconf-nreal]
			cfg.special = sw.special
			switch (ci - nconf - nreal) % 3 {
			case 1:
				cfg.glob = okRes("203.0.113.7", "", "203.0.113.7")
			case 2:
				cfg.glob = errRes(errTree{"ELeaf " + hx.N(5), errBoom})
			}
		} else if ci >= nconf {
			// resolvers of package clientip, router-wide (even index) or on the routes (odd index) under a
			// router-wide stub; few scripts each (the resolver, not the handler, is the point)
			r := reals[(ci-nconf)/2]
			light = tier != "thorough"
			if (ci-nconf)%2 == 0 {
				cfg.glob = r
				cfg.rtMode = (ci / 2) % 2 // inherit or nil
			} else {
				if ci%4 == 1 {
					cfg.glob = okRes("203.0.113.7", "", "203.0.113.7")
				}
				cfg.rtMode, cfg.rt = 2, r
			}
			cfg.special = ci%3 == 0
		}
		// the first configurations enumerate the resolver lattice; the rest is random
		switch {
		case ci >= nconf:
			// configured above (clientip resolvers, scope sweep)
		default:
			switch ci {
			case 0:
			case 1:
				cfg.glob = okRes("203.0.113.7", "", "203.0.113.7")
			case 2:
				cfg.glob = errRes(errTree{"ELeaf " + hx.N(5), errBoom})
				cfg.special = true
			case 3:
				cfg.glob = okRes("203.0.113.7", "", "203.0.113.7")
				cfg.rtMode = 1
				cfg.special = true
			case 4:
				cfg.rtMode, cfg.rt = 2, errRes(errTree{"EWrap (ELeaf " + hx.N(0) + ")", fmt.Errorf("delegate: %w", fox.ErrNoClientIPResolver)})
			case 5:
				cfg.glob = errRes(errTree{"ELeaf " + hx.N(5), errBoom})
				cfg.rtMode, cfg.rt = 2, okRes("2001:db8::1", "", "2001:db8::1")
				cfg.special = true
			default:
				if rnd.Pct(70) {
					cfg.glob = genRes(rnd)
				}
				cfg.rtMode = rnd.Intn(3)
				if cfg.rtMode == 2 {
					cfg.rt = genRes(rnd)
				}
				cfg.special = rnd.Bool()
			}
		}
		// how the Logger is attached: every mode is used by the first configurations, then in rotation
		cfg.attach = ci % len(attachModes)
		// minimum level of the log handler: DEBUG mostly (every record visible), the others in rotation
		cfg.minLvl = []int{0, 0, 0, 2, 1, 3, 4}[ci%7]
		if inSweep {
			cfg.attach, cfg.masks, cfg.minLvl = attachScoped, sweep[ci-nconf-nreal].masks, 0
		}
		w := &world{}
		withL := build(cfg, w, true)
		w0 := &world{}
		without := build(cfg, w0, false)

		for _, rq := range requests {
			scriptable := cfg.special || rq.kind == "KRoute" || rq.kind == "KRouteTsr"
			if rq.kind == "KRedirect" {
				scriptable = false
			}
			var scripts [][]act
			if scriptable && inSweep {
				// the chain, not the handler, is the point: one returning script
				var np []act
				for _, a := range genScript(rnd) {
					if a.kind != aPanic {
						np = append(np, a)
					}
				}
				scripts = [][]act{np}
			} else if scriptable {
				if (ci < 3 || tier == "thorough") && rq.disp == "" {
					for _, s := range statuses {
						scripts = append(scripts, []act{{kind: aWriteHeader, code: s}})
					}
				}
				if (ci < 3 || tier == "thorough") && rq.disp == "" {
					// flush first on each kind of underlying writer, through both entry points, then
					// WriteHeader(other code) / Write / nothing  (fk is stamped below from the script index)
					for via := 0; via < 2; via++ {
						for _, tail := range [][]act{nil, {{kind: aWriteHeader, code: 500}}, {{kind: aWriteHeader, code: 404}, {kind: aWrite, n: 4}}, {{kind: aWrite, n: 7}}, {{kind: aWriteHeader, code: 302}}} {
							for fk := 0; fk < 3; fk++ {
								scripts = append(scripts, append([]act{{kind: aFlush, via: via, fk: fk + 10}}, tail...))
							}
						}
					}
				}
				nr := nrand
				if light {
					nr = 3
				}
				if rq.disp != "" && tier != "thorough" && nr > 4 {
					nr = 4 // secondary entry points: the chain, not the handler, is the point
				}
				for i := 0; i < nr; i++ {
					scripts = append(scripts, genScript(rnd))
				}
			} else {
				scripts = [][]act{nil}
			}
			for si, script := range scripts {
				host := hx.Pick(rnd, hosts)
				rm := hx.Pick(rnd, remotes)
				if cfg.attach == attachDefaultOptions {
					var np []act
					for _, a := range script {
						if a.kind != aPanic {
							np = append(np, a)
						}
					}
					script = np
				}
				// what the underlying writer offers for flushing (forced by the enumerated flush scripts)
				fk := rnd.Intn(3)
				script = append([]act{}, script...)
				for i := range script {
					if script[i].kind == aFlush && script[i].fk >= 10 {
						fk = script[i].fk - 10
					}
				}
				for i := range script {
					script[i].fk = fk
				}
				// context substitution by an earlier middleware: forced for the first scripts of route requests
				// (so every route resolver override meets both substitutions), random otherwise
				subst := []int{0, 0, 0, 1, 1, 2}[rnd.Intn(6)]
				if (rq.kind == "KRoute" || rq.kind == "KRouteTsr") && si < 2 {
					subst = si + 1
				}
				if strings.HasPrefix(rq.disp, "DLookup") {
					subst = 0 // router-wide middleware is not in that chain
				}
				o := serve(withL, w, rq, host, rm, script, fk, subst)
				b := serve(without, w0, rq, host, rm, script, fk, subst)
				same := o.digest == b.digest && o.panicID == b.panicID
				// the script the MODEL is given: for handlers fox supplies itself (default 404/405/OPTIONS,
				// trailing-slash redirect) it is read off the underlying writer of the Logger-less router
				mscript := script
				if !scriptable {
					mscript = nil
					if l := b.location; l != "" {
						mscript = append(mscript, act{kind: aSetLocation, loc: l})
					}
					mscript = append(mscript, act{kind: aWriteHeader, code: b.status})
				}
				acts := hx.ListOf(mscript, func(a act) string { return a.coq() })
				gc, rc := strings.ReplaceAll(cfg.globCoq(), remotePlaceholder, hx.Bytes(rm.ip)), strings.ReplaceAll(cfg.rtCoq(), remotePlaceholder, hx.Bytes(rm.ip))
				key := fmt.Sprintf("%s|%s|%s|%s|%s|%s|%s|%s|%s|%d|%s", gc, rc, rq.kind, rq.method, rq.target, host, rm.addr, acts, hx.Bool(cfg.special), cfg.attach*10+cfg.minLvl, rq.disp+fmt.Sprint(subst, cfg.masks))
				if seen[key] {
					continue
				}
				seen[key] = true
				pan := hx.Opt(o.panicID >= 0, hx.N(uint64(max(o.panicID, 0))))
				disp := rq.disp
				if disp == "" {
					disp = "DServe"
				}
				am := cfg.mode()
				term := fmt.Sprintf("(mk %s %s %s %s %s %s %s "+minLevels[cfg.minLvl].coq+" %s %s %s %s %s %s %s "+disp+" "+am.globals+" "+fmt.Sprint(am.tl)+" "+fmt.Sprint(am.al)+")",
					rq.kind, gc, rc, hx.Bytes(rq.method), hx.Bytes(host), hx.Bytes(rq.path), hx.Bytes(rm.ip),
					acts, hx.ListOf(o.recs, func(r rec) string { return "(" + recCoq(r) + ")" }), pan,
					hx.Z(int64(o.status)), hx.Bytes(o.location), hx.Bool(same), hx.Bool(o.after))
				var hs []string
				for _, a := range mscript {
					hs = append(hs, a.String())
				}
				var rs []string
				for _, r := range o.recs {
					rs = append(rs, recHuman(r))
				}
				human := fmt.Sprintf("%s | %s %s Host=%q RemoteAddr=%s (%s%s, context substituted before the Logger: %s) | handler: [%s] => records [%s] panic=%d status=%d Location=%q same-response-as-without-logger=%v logged-after-handler=%v",
					cfg, rq.method, rq.target, host, rm.addr, rq.kind, map[bool]string{true: "", false: " via " + rq.disp}[rq.disp == ""], substNames[subst], strings.Join(hs, "; "), strings.Join(rs, " || "), o.panicID, o.status, o.location, same, o.after)
				cs.Add(term, human)
				st.Count("kind:" + rq.kind)
				if cfg.attach == attachScoped {
					st.Count(fmt.Sprintf("logger-attached:scope sweep, %d x WithMiddlewareFor(mask, L)", len(cfg.masks)))
				} else {
					st.Count("logger-attached:" + am.name)
				}
				st.Count("context-substituted-before-logger:" + substNames[subst])
				st.Count("log-handler-min-level:" + minLevels[cfg.minLvl].name)
				st.Count(fmt.Sprintf("records-per-request:%d", len(o.recs)))
				if rq.disp != "" {
					st.Count("entry-point:" + rq.disp)
				}
				st.Count(fmt.Sprintf("status-class:%dxx", o.status/100))
				if o.panicID >= 0 {
					st.Count("outcome:panic")
				} else {
					st.Count("outcome:return")
				}
				if len(o.recs) == 1 {
					st.Count("level:" + o.recs[0].level.String())
					st.Count("message:" + map[bool]string{true: "unknown", false: "ip"}[o.recs[0].msg == "unknown"])
				}
				gl := "none"
				if cfg.glob != nil {
					gl = map[bool]string{true: "ok", false: "err"}[cfg.glob.err == nil && !cfg.glob.fails]
					if cfg.glob.real != nil {
						gl = "clientip-" + gl
					}
				}
				st.Count("global-resolver:" + gl)
				st.Count(fmt.Sprintf("route-resolver-mode:%d", cfg.rtMode))
				if !(rq.kind == "KRoute" && cfg.glob == nil && cfg.rtMode == 0 && o.status/100 == 2 && o.panicID < 0) {
					nontrivial++
				}
				if len(st.Samples) < 10 && rnd.Pct(3) {
					st.Samples = append(st.Samples, human)
				}
				if len(st.Samples) == 0 && len(mscript) > 1 {
					st.Samples = append(st.Samples, human)
				}
			}
		}
	}
	st.Evaluations = cs.Len()
	st.DistinctNontrivial = nontrivial
	st.Exhaustive = false
	st.Extra = map[string]any{"configurations": nconf, "scope_sweep_configurations": len(sweep), "status_boundary_list": statuses, "panic_values": len(panicValues)}
	hx.Fatal(cs.Write(out, shards))
	hx.Fatal(st.Write(out))
	fmt.Printf("c20: %d cases written to %s\n", cs.Len(), out)
}
