// c12: runs histories of tagged requests of every shape (direct, ignored trailing
// slash, redirect, 404/405/OPTIONS, manual Lookup, CloneWith, Clone) on routers
// whose tree is replaced between requests, with chosen leftovers planted in every
// pooled context before it is handed out, and writes Coq case files comparing what
// every handler observed with the model (FoxC12.Context/Ops) and with the
// specification (FoxC12.Spec). A second, concurrent part checks the specification
// only.
package main

import (
	"context"
	"fmt"
	"io"
	"log"
	"net/http"
	"net/http/httptest"
	"runtime/debug"
	"sync"
	"sync/atomic"

	"foxverif/hx"

	"github.com/tigerwill90/fox"
)

// ---- regression witness of c12-clone-stale-recorder ----

// witness 1: ServeHTTP sets a header and writes; a later Lookup + Clone must not show any of it.
// witness 2: Lookup + Clone on a context that never served a request (nil embedded writer).
func witness(rnd *hx.Rand, id int, variant int) (*B, string) {
	b := newB(rnd, id)
	s := &scen{b: b}
	f, err := fox.New()
	hx.Fatal(err)
	s.f = f
	smallID(b.foxID, fox.VerifRouterID(f))
	var ra, rb *fox.Route
	ra = f.MustHandle("GET", "/a", func(c fox.Context) {
		c.SetHeader("X-Secret", "request-A")
		_ = c.String(418, "hello-from-A")
	})
	rb = f.MustHandle("GET", "/b/{id}", func(c fox.Context) {})
	b.notePattern("/b/{id}")
	b.routeID[fox.VerifRouteID(ra)] = 1
	b.routeID[fox.VerifRouteID(rb)] = 2
	behaviour := "fixed"
	func() {
		defer func() {
			if r := recover(); r != nil {
				b.recovered("witness", r)
				behaviour = "pre-fix (panic)"
			}
		}()
		// register the pooled object and mirror exactly what the first request does with it
		c0 := fox.VerifPoolGet(f)
		a, _ := b.register(c0)
		fox.VerifPoolPut(c0)
		if variant == 1 {
			r1 := b.newReq("GET", "/a", "", b.tok())
			w1 := b.newHW("w")
			f.ServeHTTP(w1, r1)
			b.op(fmt.Sprintf("OServe %s %s %s (mkLk (Some (mkRi %s false false)) false [] None []) (mkFl false false true false false true None [])",
				nat(a), nat(b.hdrAddr[fox.VerifHeaderID(w1.Header())]), nat(b.reqAddr[fox.VerifRequestID(r1)]), nN(1)), "ServeHTTP(GET /a): handler sets X-Secret, writes 418 + 12 bytes")
			b.outs = append(b.outs, "OutBranch BDirect")
			b.next += 2
			b.op(fmt.Sprintf("OSetHeader %s %s %s", nat(a), hx.Bytes("X-Secret"), hx.Bytes("request-A")), "")
			b.op(fmt.Sprintf("OSetHeader %s %s %s", nat(a), hx.Bytes("Content-Type"), hx.Bytes("text/plain; charset=UTF-8")), "")
			b.op(fmt.Sprintf("OWriteHeader %s %s", nat(a), zZ(418)), "")
			b.op(fmt.Sprintf("OWrite %s %s", nat(a), zZ(12)), "")
		}
		tok := b.tok()
		r2 := b.newReq("GET", "/b/2", "q="+tok, tok)
		hw := b.newHW(tok)
		xw := b.newRec(hw)
		_, cc, _ := f.Lookup(xw, r2)
		d, _ := fox.VerifCtxDump(cc)
		if d.ID != uintptr(0) && b.ctxAddr[d.ID] != a {
			b.desync = "witness: pool handed out another object"
		}
		rd, _ := fox.VerifRecDump(xw)
		b.op(fmt.Sprintf("OLookup %s %s %s (mkLk (Some (mkRi %s false false)) false %s None [])", nat(a), nat(b.recAddr[rd.ID]), nat(b.reqAddr[fox.VerifRequestID(r2)]), nN(2), kvs([]KV{{"id", "2"}})),
			"Lookup(GET /b/2) with a fresh external writer")
		b.outs = append(b.outs, "OutLookup true")
		b.next += 2
		env := envCoq(*b.reqVal[r2], freshW(b.hwInit[hw]), 1)
		l := &live{c: cc, a: a, base: fmt.Sprintf("XEntry %s None (ShLookup %s %s)", env, nN(2), kvs([]KV{{"id", "2"}}))}
		k := b.observe(cc, a, l.spec(), "Lookup context")
		s.doClone(l)
		if len(b.views) > k+2 {
			cl := b.views[len(b.views)-1]
			if cl.W.Status != 200 || cl.W.Written || len(cl.W.Hdr) != len(b.hwInit[hw]) {
				behaviour = "pre-fix (stale recorder)"
			}
		}
		if cc != nil {
			cc.Close()
		}
	}()
	if b.panicked {
		behaviour = "pre-fix (panic)"
	}
	return b, behaviour
}

// ---- concurrent part: specification only ----

type concObs struct {
	v     View
	spec  string
	human string
	bad   bool
}

func concurrent(rnd *hx.Rand, workers, perWorker int, st *hx.Stats) []concObs {
	var mu sync.Mutex
	var all []concObs
	ids := map[uintptr]int{}
	var stop atomic.Bool
	var liveIDs sync.Map
	bs := make([]*B, workers)
	var f *fox.Router
	routeIDs := map[uintptr]int{}
	var rmu sync.RWMutex
	mw := func(next fox.HandlerFunc) fox.HandlerFunc {
		return func(c fox.Context) {
			wid := 0
			fmt.Sscanf(c.Request().Header.Get("X-Worker"), "%d", &wid)
			b := bs[wid]
			exp := c.Request().Context().Value(expKey{}).(*concExp)
			// pool discipline: a context serves one request at a time
			cd, _ := fox.VerifCtxDump(c)
			if _, busy := liveIDs.LoadOrStore(cd.ID, exp.tok); busy {
				mu.Lock()
				all = append(all, concObs{bad: true, spec: "XNone", human: "concurrent: request " + exp.rv.Path + " is served with a context that is serving another request right now (same *cTx handed out twice)"})
				mu.Unlock()
			} else {
				defer liveIDs.Delete(cd.ID)
			}
			check := func(cc fox.Context, spec, why string) {
				rmu.RLock()
				v, ok := b.viewOf(cc)
				rmu.RUnlock()
				o := concObs{v: v, spec: spec, human: why + ": " + v.human(), bad: !ok}
				mu.Lock()
				all = append(all, o)
				mu.Unlock()
			}
			env := envCoq(exp.rv, freshW(nil), 1)
			shape := "ShNoRoute"
			if exp.route != nil {
				rmu.RLock()
				rid := routeIDs[fox.VerifRouteID(exp.route)]
				rmu.RUnlock()
				if exp.tsr {
					shape = fmt.Sprintf("(ShIgnoreTsr %s %s)", nN(rid), kvs(exp.params))
				} else {
					shape = fmt.Sprintf("(ShDirect %s %s)", nN(rid), kvs(exp.params))
				}
			}
			var acts []act
			check(c, fmt.Sprintf("(XEntry %s None %s [])", env, shape), "concurrent handler entry "+exp.rv.Path)
			c.SetHeader("X-Resp", exp.tok)
			acts = append(acts, act{coq: fmt.Sprintf("ASetHeader %s %s", hx.Bytes("X-Resp"), hx.Bytes(exp.tok))})
			code := 200 + wid
			c.Writer().WriteHeader(code)
			acts = append(acts, act{coq: fmt.Sprintf("AWriteHeader %s", zZ(code))})
			_, _ = c.Writer().Write(make([]byte, exp.n))
			acts = append(acts, act{coq: fmt.Sprintf("AWrite %s", zZ(exp.n))})
			spec := fmt.Sprintf("(XEntry %s None %s %s)", env, shape, actsCoq(acts))
			check(c, spec, "concurrent after writes "+exp.rv.Path)
			cl := c.Clone()
			exp.clone, exp.cloneSpec = cl, spec
			if exp.route != nil && exp.n%3 == 0 {
				cw := c.CloneWith(c.Writer(), c.Request())
				wd, _ := fox.VerifCtxDump(cw)
				if _, busy := liveIDs.LoadOrStore(wd.ID, exp.tok); busy {
					mu.Lock()
					all = append(all, concObs{bad: true, spec: "XNone", human: "concurrent: CloneWith in " + exp.rv.Path + " returned a context that is in use (same *cTx handed out twice)"})
					mu.Unlock()
				} else {
					check(cw, spec, "concurrent CloneWith(own writer, own request) "+exp.rv.Path)
					liveIDs.Delete(wd.ID)
				}
				cw.Close()
			}
		}
	}
	var err error
	f, err = fox.New(fox.WithMiddlewareFor(fox.AllHandlers, mw))
	hx.Fatal(err)
	for w := range bs {
		bs[w] = newB(rnd.Fork(), 100000+w)
		bs[w].routeID = routeIDs
		bs[w].foxID[fox.VerifRouterID(f)] = 1
	}
	_ = ids
	type croute struct {
		pattern string
		keys    []string
		route   *fox.Route
	}
	var routes []*croute
	for i := 0; i < 6; i++ {
		t := &tmpls[i%5]
		cr := &croute{pattern: t.pattern(i), keys: t.keys}
		cr.route = f.MustHandle("GET", cr.pattern, func(c fox.Context) {}, fox.WithIgnoreTrailingSlash(true))
		routeIDs[fox.VerifRouteID(cr.route)] = i + 1
		routes = append(routes, cr)
	}
	// an infix catch-all route: requests under its prefix that do not match walk the sub-context scan
	infix := f.MustHandle("GET", "/files/*{p}/meta", func(c fox.Context) {})
	for _, b := range bs {
		for _, cr := range routes {
			b.notePattern(cr.pattern)
		}
		b.notePattern("/files/*{p}/meta", "/extra0/{a}/{b}/{c}/{d}")
	}
	routeIDs[fox.VerifRouteID(infix)] = 900
	var wg sync.WaitGroup
	// writer: replaces the tree while requests are in flight
	wg.Add(1)
	go func() {
		defer wg.Done()
		r := rnd.Fork()
		for i := 0; !stop.Load(); i++ {
			p := fmt.Sprintf("/extra%d/{a}/{b}/{c}/{d}", r.Intn(4))
			if rt, err := f.Handle("GET", p, func(c fox.Context) {}); err == nil {
				rmu.Lock()
				routeIDs[fox.VerifRouteID(rt)] = 1000 + i
				rmu.Unlock()
			} else {
				_, _ = f.Delete("GET", p)
			}
		}
	}()
	var cwg sync.WaitGroup
	clones := make([][]*concExp, workers)
	for w := 0; w < workers; w++ {
		cwg.Add(1)
		go func(w int) {
			defer cwg.Done()
			r := bs[w].rnd
			for i := 0; i < perWorker; i++ {
				tok := fmt.Sprintf("C%dx%d", w, i)
				exp := &concExp{tok: tok, n: 1 + r.Intn(50)}
				path := "/zz/" + tok
				if r.Pct(40) {
					path = "/files/a/b/" + tok
				}
				if r.Pct(80) {
					k := r.Intn(len(routes))
					t := &tmpls[k%5]
					vals := []string{"v1" + tok, "v2" + tok, "v3" + tok}
					path = t.path(k, vals)
					exp.route = routes[k].route
					for j, key := range t.keys {
						exp.params = append(exp.params, KV{key, vals[j]})
					}
					if r.Pct(30) {
						path = toggleSlash(path)
						exp.tsr = true
					}
				}
				req := httptest.NewRequest("GET", path+"?q="+tok, nil)
				req.Host = "h-" + tok + ".test"
				req.RemoteAddr = fmt.Sprintf("192.0.2.%d:%d", w+1, 1000+i)
				req.Header.Set("X-Tok", tok)
				req.Header.Set("X-Worker", fmt.Sprint(w))
				exp.rv = ReqVal{Method: "GET", Host: req.Host, Path: req.URL.Path, Query: valuesKV(req.URL.Query()), Hdr: valuesKV(req.Header), Remote: req.RemoteAddr}
				req = req.WithContext(contextWith(req, exp))
				f.ServeHTTP(httptest.NewRecorder(), req)
				if exp.clone != nil && i%4 == 0 {
					clones[w] = append(clones[w], exp)
				}
			}
		}(w)
	}
	cwg.Wait()
	stop.Store(true)
	wg.Wait()
	// clones inspected after all later requests reused the originals
	for w := range clones {
		for _, exp := range clones[w] {
			v, ok := bs[w].viewOf(exp.clone)
			all = append(all, concObs{v: v, spec: exp.cloneSpec, human: "concurrent clone inspected at the end " + exp.rv.Path + ": " + v.human(), bad: !ok})
		}
	}
	st.Count(fmt.Sprintf("concurrent:workers=%d", workers))
	return all
}

type expKey struct{}
type concExp struct {
	tok       string
	n         int
	rv        ReqVal
	route     *fox.Route
	params    []KV
	tsr       bool
	clone     fox.Context
	cloneSpec string
}

func contextWith(r *http.Request, e *concExp) context.Context {
	return context.WithValue(r.Context(), expKey{}, e)
}

func main() {
	args := hx.Args()
	out := args["out"]
	tier := args["tier"]
	shards := hx.Atoi(args["shards"], 8)
	rnd := hx.NewRand(hx.Seed())
	// the pool must hand back the object the harness prepared: no GC clearing sync.Pool in between
	debug.SetGCPercent(-1)
	log.SetOutput(io.Discard)

	if args["mode"] == "race" {
		// only the concurrent mix (binary built with -race): any report makes the process fail
		obs := concurrent(rnd.Fork(), 8, 1500, &hx.Stats{})
		bad := 0
		for _, o := range obs {
			if o.bad {
				bad++
			}
		}
		fmt.Printf("c12 race mode: %d concurrent observations, %d getter panics\n", len(obs), bad)
		return
	}

	st := &hx.Stats{Rule: "a case is a history on one router: 3-6 steps, each optionally replacing the tree (Handle/Update/Delete) and then sending a tagged request (direct, trailing-slash, other method, OPTIONS, no route) through ServeHTTP or doing a manual Lookup; before every acquisition chosen leftovers are planted in every resettable field of the pooled context; handlers set headers, write, mutate the request, Clone, CloneWith (own or new writer/request), nested Lookup; hostname route families (static and parameter labels as siblings) with expectations from a fresh router; every observation is compared with the model (view + raw field dump) and with the view the specification derives from the current request alone; clones are re-inspected after every later step. non-trivial = the history contains a Clone, CloneWith or Lookup; distinct = distinct histories (every token is unique). Separately: host sequences replayed 3x on one router without planting (natural leftovers), each request compared with the same request on a fresh router; and a concurrent mix"}
	ncases := 130
	workers, perWorker, concEmit := 6, 150, 300
	if tier == "thorough" {
		ncases = 1200
		workers, perWorker, concEmit = 8, 1500, 2000
	}

	behaviour := "fixed"
	var terms, humans []string
	nontrivial := 0
	desyncs := 0
	for v := 1; v <= 2; v++ {
		b, beh := witness(rnd.Fork(), 900+v, v)
		if beh != "fixed" {
			behaviour = beh
		}
		t := fmt.Sprintf("(mkCase %s %s %s %s %s)", hx.Bool(b.desync == ""), hx.List(b.ops), hx.List(b.outs), hx.List(b.specs), nN(1))
		terms = append(terms, t)
		humans = append(humans, b.humanText(fmt.Sprintf("regression witness %d of c12-clone-stale-recorder (implementation shows %s behaviour)", v, beh)))
		st.Count("witness")
	}
	for i := 0; i < ncases; i++ {
		b := newB(rnd.Fork(), i)
		s := &scen{b: b}
		s.newRouter()
		steps := b.rnd.Range(3, 6)
		for k := 0; k < steps && !b.panicked && b.desync == ""; k++ {
			if k > 0 && b.rnd.Pct(45) {
				s.mutateTree()
			}
			if b.rnd.Pct(40) && len(s.routes) > 0 {
				// other users of the pool (resetNil paths, matcher sub-contexts) stir it between requests
				r := hx.Pick(b.rnd, s.routes)
				_ = s.f.Has(r.method, r.t.pattern(r.i))
				_, _ = s.f.Reverse(r.method, "", r.t.path(r.i, []string{"x", "y", "z"}))
				b.kinds["pool-stir:Has+Reverse"]++
			}
			if b.rnd.Pct(80) {
				s.request(hx.Pick(b.rnd, []string{"direct", "direct", "tsr", "tsr", "othermethod", "options", "noroute", "hostfail", "hostfail", "prefixmiss", "prefixmiss"}))
			} else {
				s.doLookup(nil, 1)
			}
			s.probePool()
			s.recheckClones("after a later step", false)
		}
		s.recheckClones("at the end", true)
		for k, n := range b.kinds {
			if st.Distribution == nil {
				st.Distribution = map[string]int{}
			}
			st.Distribution[k] += n
		}
		if b.desync != "" {
			desyncs++
			st.Count("desync:" + b.desync)
		}
		if b.nontrivial {
			nontrivial++
		}
		st.Count(fmt.Sprintf("history-ops:%03d-%03d", len(b.ops)/20*20, len(b.ops)/20*20+19))
		terms = append(terms, fmt.Sprintf("(mkCase %s %s %s %s %s)", hx.Bool(b.desync == ""), hx.List(b.ops), hx.List(b.outs), hx.List(b.specs), nN(0)))
		humans = append(humans, b.humanText(fmt.Sprintf("history %d (seed %d)%s", i, hx.Seed(), map[bool]string{true: " [pool desync: specification only: " + b.desync + "]", false: ""}[b.desync != ""])))
		if len(st.Samples) < 3 && b.nontrivial && b.rnd.Pct(10) {
			st.Samples = append(st.Samples, b.humanText(fmt.Sprintf("history %d", i)))
		}
	}

	// host sequences with natural leftovers, expected = the same request on a fresh router
	// Many sequences run in Go; Coq evaluates every observation of the sequences an informal Go pre-check
	// marks as suspicious, and of a budgeted number of the others.
	nSeq, seqBudget := 3000, 25
	if tier == "thorough" {
		nSeq, seqBudget = 15000, 200
	}
	hsN, hsAll, hsSusp := 0, 0, 0
	var suspTerms, suspHumans []string
	for i := 0; i < nSeq; i++ {
		obs, susp := hostSeq(rnd.Fork(), 5000+i, st)
		hsAll += len(obs)
		if susp {
			hsSusp++
		}
		if !susp && i >= seqBudget {
			continue
		}
		if susp && hsSusp > 40 {
			continue // enough failing inputs
		}
		for _, o := range obs {
			outT := obsOuts(o.v)
			if o.bad {
				outT = "OutPanic"
			}
			t := fmt.Sprintf("(mkCase false [] [%s] [%s] %s)", outT, o.spec, nN(0))
			if susp {
				// reported first: the realistic witness (natural leftovers) before the planted ones
				suspTerms, suspHumans = append(suspTerms, t), append(suspHumans, o.human)
				continue
			}
			terms = append(terms, t)
			humans = append(humans, o.human)
			hsN++
		}
	}
	// hostile handlers (write into every mutable value the Context API returns; take extra contexts; pool discipline)
	nHostile, hostileBudget := 400, 15
	if tier == "thorough" {
		nHostile, hostileBudget = 3000, 100
	}
	hoAll, hoSusp, hoEval := 0, 0, 0
	for i := 0; i < nHostile; i++ {
		obs, susp := hostileSeq(rnd.Fork(), 7000+i, st)
		hoAll += len(obs)
		if susp {
			hoSusp++
		}
		if (!susp && i >= hostileBudget) || (susp && hoSusp > 40) {
			continue
		}
		for _, o := range obs {
			outT := obsOuts(o.v)
			if o.bad {
				outT = "OutPanic"
			}
			t := fmt.Sprintf("(mkCase false [] [%s] [%s] %s)", outT, o.spec, nN(0))
			hoEval++
			if susp {
				suspTerms, suspHumans = append(suspTerms, t), append(suspHumans, o.human)
				continue
			}
			terms = append(terms, t)
			humans = append(humans, o.human)
			hsN++
		}
	}
	st.Distribution["hostile:sequences"] = nHostile
	st.Distribution["hostile:sequences-suspicious"] = hoSusp
	st.Distribution["hostile:observations-run"] = hoAll
	st.Distribution["hostile:observations-evaluated"] = hoEval
	st.Distribution["hostseq:observations-run"] = hsAll
	st.Distribution["hostseq:sequences-suspicious"] = hsSusp
	st.Count("hostseq:sequences")
	st.Distribution["hostseq:sequences"] = nSeq
	st.Distribution["hostseq:observations-evaluated"] = hsN + len(suspTerms)
	nHist := len(terms) - hsN
	// concurrent mixes: specification only
	debug.SetGCPercent(100)
	obs := concurrent(rnd.Fork(), workers, perWorker, st)
	concN := len(obs)
	emitted := 0
	for i, o := range obs {
		// all observations are evaluated by Coq up to a budget; beyond it a sample (every k-th)
		if !o.bad && !o.v.paramOdd() && emitted >= concEmit && i%(len(obs)/concEmit+1) != 0 {
			continue
		}
		emitted++
		outT := obsOuts(o.v)
		if o.bad {
			outT = "OutPanic"
		}
		terms = append(terms, fmt.Sprintf("(mkCase false [] [%s] [%s] %s)", outT, o.spec, nN(0)))
		humans = append(humans, o.human)
	}
	st.Distribution["concurrent:observations"] = concN
	st.Distribution["concurrent:observations-evaluated"] = emitted

	// interleave cheap and expensive cases over the shards
	cs := &hx.Cases{
		Header: "From FoxBase Require Import Bytes.\nFrom FoxC12 Require Import Types Context Ops Spec Corr.\nFrom Coq Require Import ZArith.\nOpen Scope list_scope.\n",
		Type:   "case",
		Footer: fmt.Sprintf("Definition mism := Eval vm_compute in mismatches %s cases.\nPrint mism.\n", hx.Bool(behaviour == "fixed")) +
			"Definition viol := Eval vm_compute in spec_violations cases.\nPrint viol.\n" +
			"Definition oof := Eval vm_compute in fuel_outs cases.\nPrint oof.\n" +
			"Definition witn := Eval vm_compute in witness_cases cases.\nPrint witn.\n",
	}
	// interleave expensive (histories) and cheap (concurrent observations) cases so shards are balanced
	// (host-sequence observations are cheap too: they sit after the histories)
	for i := range suspTerms {
		cs.Add(suspTerms[i], suspHumans[i])
	}
	ia, ib := 0, nHist
	nb := len(terms) - nHist
	for ia < nHist || ib < len(terms) {
		if ia < nHist && (ib >= len(terms) || ia*nb <= (ib-nHist)*nHist) {
			cs.Add(terms[ia], humans[ia])
			ia++
		} else {
			cs.Add(terms[ib], humans[ib])
			ib++
		}
	}
	if len(st.Samples) == 0 && len(humans) > 2 {
		st.Samples = append(st.Samples, humans[2])
	}
	st.Evaluations = cs.Len()
	st.DistinctNontrivial = nontrivial
	st.Extra = map[string]any{"clone_behaviour": behaviour, "pool_desync_histories": desyncs, "concurrent_observations": concN}
	hx.Fatal(cs.Write(out, shards))
	hx.Fatal(st.Write(out))
	fmt.Printf("c12: %d cases (%d histories, %d concurrent observations) written to %s; clone behaviour: %s; desync %d\n", cs.Len(), ncases, emitted, out, behaviour, desyncs)
}
