package main

import (
	"fmt"
	"net/http"
	"net/http/httptest"
	"net/url"
	"slices"
	"strings"

	"foxverif/hx"

	"github.com/tigerwill90/fox"
)

// B builds one case: the history run on the implementation, mirrored as model ops.
type B struct {
	rnd     *hx.Rand
	ops     []string
	outs    []string
	specs   []string
	human   []string
	views   []View // implementation views, by observation index
	next    int    // mirror of the model's allocation counter
	ctxAddr map[uintptr]int
	recAddr map[uintptr]int
	hdrAddr map[uintptr]int
	reqAddr map[uintptr]int
	routeID map[uintptr]int
	treeID  map[uintptr]int
	foxID   map[uintptr]int
	reqVal  map[*http.Request]*ReqVal
	hwInit  map[*httptest.ResponseRecorder][]KV
	desync  string // non-empty: the pool handed out an object the harness did not prepare
	panicked bool
	tokN    int
	caseID  int
	// pools of earlier objects, used as stale leftovers
	oldReqs []*http.Request
	oldHWs  []*httptest.ResponseRecorder
	oldRecs []fox.ResponseWriter
	routes  []*fox.Route
	clones  []cloneRec
	nontrivial bool
	kinds   map[string]int
	lastPlantedTsr []KV
	live map[uintptr]string // contexts in use right now (serving, or open Lookup / CloneWith contexts)
	pnames []string // universe of parameter names asked through Param(): every name registered in any route of the case,
	// the names of the fabricated leftovers, and one name nobody registers
}

// staleKeys: the parameter names of fabricated leftovers (staleParams)
var staleKeys = []string{"a", "b", "c", "rest", "mid"}

// notePattern adds the parameter names of a pattern the harness registers to the universe asked through Param()
func (b *B) notePattern(patterns ...string) {
	for _, p := range patterns {
		for _, k := range wildcardNames(p) {
			if !slices.Contains(b.pnames, k) {
				b.pnames = append(b.pnames, k)
			}
		}
	}
}

// paramGets: Param(name) for every name of the universe, each call on its own (a panic is an observation)
func (b *B) paramGets(c fox.Context) []PObs {
	out := make([]PObs, 0, len(b.pnames))
	for _, k := range b.pnames {
		o := PObs{K: k}
		func() {
			defer func() {
				if r := recover(); r != nil {
					o.Panic = true
				}
			}()
			o.V = c.Param(k)
		}()
		out = append(out, o)
	}
	return out
}

type cloneRec struct {
	c   fox.Context
	k   int // observation index of the original at clone time
	tag string
}

func newB(rnd *hx.Rand, id int) *B {
	return &B{rnd: rnd, next: 1, caseID: id,
		ctxAddr: map[uintptr]int{}, recAddr: map[uintptr]int{}, hdrAddr: map[uintptr]int{}, reqAddr: map[uintptr]int{},
		routeID: map[uintptr]int{}, treeID: map[uintptr]int{}, foxID: map[uintptr]int{},
		reqVal: map[*http.Request]*ReqVal{}, hwInit: map[*httptest.ResponseRecorder][]KV{}, kinds: map[string]int{}, live: map[uintptr]string{},
		pnames: append([]string{"never-registered"}, staleKeys...)}
}

func (b *B) tok() string {
	b.tokN++
	return fmt.Sprintf("T%dx%d", b.caseID, b.tokN)
}

func (b *B) op(term, human string) {
	b.ops = append(b.ops, term)
	b.human = append(b.human, human)
}

func idOf(m map[uintptr]int, p uintptr) int {
	if p == 0 {
		return -1
	}
	if v, ok := m[p]; ok {
		return v
	}
	return 9999 // unknown object: will not match any model address
}

func smallID(m map[uintptr]int, p uintptr) int {
	if p == 0 {
		return 0
	}
	if v, ok := m[p]; ok {
		return v
	}
	m[p] = len(m) + 1
	return m[p]
}

// ---- objects the environment creates ----

func (b *B) newReq(method, path, query, tok string, host ...string) *http.Request {
	target := path
	if query != "" {
		target += "?" + query
	}
	r := httptest.NewRequest(method, target, nil)
	r.Host = "h-" + tok + ".test"
	if len(host) > 0 && host[0] != "" {
		r.Host = host[0]
	}
	r.RemoteAddr = "192.0.2.1:" + fmt.Sprint(1000+b.tokN)
	r.Header.Set("X-Tok", tok)
	rv := &ReqVal{Method: method, Host: r.Host, Path: r.URL.Path, Query: valuesKV(r.URL.Query()), Hdr: valuesKV(r.Header), Remote: r.RemoteAddr}
	b.reqVal[r] = rv
	b.reqAddr[fox.VerifRequestID(r)] = b.next
	b.op(fmt.Sprintf("ONewReq %s", rv.coq()), fmt.Sprintf("r%d := %s %s (token %s)", b.next, method, target, tok))
	b.next++
	return r
}

func (b *B) newHW(tok string) *httptest.ResponseRecorder {
	w := httptest.NewRecorder()
	var init []KV
	if b.rnd.Pct(60) {
		w.Header().Set("X-Pre", "pre-"+tok)
		init = []KV{{"X-Pre", "pre-" + tok}}
	}
	b.hwInit[w] = init
	b.hdrAddr[fox.VerifHeaderID(w.Header())] = b.next
	b.op(fmt.Sprintf("ONewHW %s", kvs(init)), fmt.Sprintf("w%d := http writer, headers %v", b.next, init))
	b.next++
	return w
}

func (b *B) newRec(hw *httptest.ResponseRecorder) fox.ResponseWriter {
	rw := fox.VerifNewRecorder(hw)
	d, _ := fox.VerifRecDump(rw)
	b.recAddr[d.ID] = b.next
	b.op(fmt.Sprintf("ONewRec %s", nat(b.hdrAddr[fox.VerifHeaderID(hw.Header())])), fmt.Sprintf("x%d := fox recorder over w%d", b.next, b.hdrAddr[fox.VerifHeaderID(hw.Header())]))
	b.next++
	return rw
}

// ---- pooled contexts: register, plant leftovers ----

func (b *B) register(c fox.Context) (int, fox.VerifCtx) {
	d, _ := fox.VerifCtxDump(c)
	if a, ok := b.ctxAddr[d.ID]; ok {
		return a, d
	}
	a := b.next
	b.ctxAddr[d.ID] = a
	b.recAddr[d.Rec.ID] = a + 1
	b.next += 4
	if d.ParamsCap != d.TsrCap {
		b.desync = "context with unequal capacities"
	}
	b.op(fmt.Sprintf("OAllocCtx %s %s %s", nN(smallID(b.treeID, d.TreeID)), nN(smallID(b.foxID, d.FoxID)), nat(d.ParamsCap)),
		fmt.Sprintf("c%d := pooled context of tree %d (cap %d)", a, smallID(b.treeID, d.TreeID), d.ParamsCap))
	return a, d
}

func (b *B) staleParams(capN int) ([]fox.Param, int) {
	n := b.rnd.Intn(capN + 1)
	ps := make([]fox.Param, n)
	for i := range ps {
		ps[i] = fox.Param{Key: hx.Pick(b.rnd, staleKeys), Value: "STALE" + b.tok()}
	}
	l := 0
	if n > 0 {
		l = b.rnd.Intn(n + 1)
	}
	return ps, l
}

// plant overwrites every resettable field of the pooled context with leftovers of
// earlier requests of this case (or fabricated ones) and mirrors it in the model.
func (b *B) plant(c fox.Context) uintptr {
	if d0, _ := fox.VerifCtxDump(c); b.live[d0.ID] != "" {
		// pool discipline: an object obtained from the pool while it is still in use was Put twice
		b.fail(fmt.Sprintf("the pool handed out a context that is still in use as %s (same *cTx in the pool twice)", b.live[d0.ID]))
		return 0
	}
	a, d := b.register(c)
	var s fox.VerifStale
	s.Params, s.PLen = b.staleParams(d.ParamsCap)
	s.TsrParams, s.TLen = b.staleParams(d.TsrCap)
	s.SkipLen = b.rnd.Intn(3)
	wk, wa := 0, 0
	if len(b.oldRecs) > 0 && b.rnd.Pct(70) {
		s.W = hx.Pick(b.rnd, b.oldRecs)
		rd, _ := fox.VerifRecDump(s.W)
		wk, wa = 1, b.recAddr[rd.ID]
	}
	ra := -1
	if len(b.oldReqs) > 0 && b.rnd.Pct(70) {
		s.Req = hx.Pick(b.rnd, b.oldReqs)
		ra = b.reqAddr[fox.VerifRequestID(s.Req)]
	}
	rt := -1
	if len(b.routes) > 0 && b.rnd.Pct(70) {
		s.Route = hx.Pick(b.rnd, b.routes)
		rt = b.routeID[fox.VerifRouteID(s.Route)]
	}
	var cq []KV
	cqNil := true
	if b.rnd.Pct(60) {
		v := "STALEQ" + b.tok()
		s.CQ = url.Values{"q": {v}, "z": {"stale"}}
		cq, cqNil = []KV{{"q", v}, {"z", "stale"}}, false
	}
	rec := RecVal{}
	if len(b.oldHWs) > 0 && b.rnd.Pct(70) {
		hw := hx.Pick(b.rnd, b.oldHWs)
		s.RecUnder = hw
		rec.UnderKind, rec.Under = 1, b.hdrAddr[fox.VerifHeaderID(hw.Header())]
	}
	s.RecSize = hx.Pick(b.rnd, []int{-1, 0, 7, 1234})
	s.RecStatus = hx.Pick(b.rnd, []int{200, 404, 418, 503, 0})
	s.RecHij = b.rnd.Pct(30)
	rec.Size, rec.Status, rec.Hij = s.RecSize, s.RecStatus, s.RecHij
	s.Scope = hx.Pick(b.rnd, []uint8{128, 64, 32, 16, 8, 0, 255})
	s.Tsr = b.rnd.Bool()
	b.lastPlantedTsr = paramsKV(s.TsrParams[:s.TLen])
	if !fox.VerifPlant(c, s) {
		b.desync = "plant rejected"
	}
	term := fmt.Sprintf("OPlant %s (mkStale %s %s %s %s %s %s [] %s %s %s %s %s)", nat(a), wref(wk, wa), optNat(ra),
		kvs(paramsKV(s.Params)), nat(s.PLen), kvs(paramsKV(s.TsrParams)), nat(s.TLen), optN(rt), optKVs(cqNil, cq), rec.coq(), nN(int(s.Scope)), hx.Bool(s.Tsr))
	b.op(term, fmt.Sprintf("plant leftovers in c%d: params=%v[:%d] tsrParams=%v[:%d] w=%d req=%d route=%d cachedQuery=%v rec={under %d size %d status %d hij %v} scope=%d tsr=%v",
		a, s.Params, s.PLen, s.TsrParams, s.TLen, wa, ra, rt, cq, rec.Under, rec.Size, rec.Status, rec.Hij, s.Scope, s.Tsr))
	return d.ID
}

// prePlant: take the next object of the router's current pool, plant leftovers, put it back.
func (b *B) prePlant(f *fox.Router) uintptr {
	c := fox.VerifPoolGet(f)
	id := b.plant(c)
	fox.VerifPoolPut(c)
	return id
}

func (b *B) prePlantSame(of fox.Context) uintptr {
	c := fox.VerifPoolGetSame(of)
	if c == nil {
		return 0
	}
	id := b.plant(c)
	fox.VerifPoolPut(c)
	return id
}

// ---- observation ----

func (b *B) viewOf(c fox.Context) (v View, ok bool) {
	defer func() {
		if r := recover(); r != nil {
			ok = false
		}
	}()
	v.PGet = b.paramGets(c)
	v.Params = paramsKV(slices.Collect(c.Params()))
	v.Route = -1
	if rt := c.Route(); rt != nil {
		v.Route = idOf(b.routeID, fox.VerifRouteID(rt))
		if c.Pattern() != rt.Pattern() {
			v.Route = 7777
		}
	} else if c.Pattern() != "" {
		v.Route = 7778
	}
	r := c.Request()
	v.Req = ReqVal{Method: r.Method, Host: r.Host, Path: r.URL.Path, Query: valuesKV(r.URL.Query()), Hdr: valuesKV(r.Header), Remote: r.RemoteAddr}
	if c.Method() != r.Method || c.Path() != r.URL.Path || c.Host() != r.Host || c.Header("X-Tok") != r.Header.Get("X-Tok") {
		v.Req.Method = "GETTER-INCONSISTENT"
	}
	for _, p := range v.Params {
		if c.Param(p.K) == "" && p.V != "" {
			v.Params = append(v.Params, KV{"PARAM-GETTER-INCONSISTENT", p.K})
		}
	}
	v.Query = valuesKV(c.QueryParams())
	if len(v.Query) > 0 && c.QueryParam(v.Query[0].K) != strings.Split(v.Query[0].V, ",")[0] {
		v.Query = append(v.Query, KV{"QUERYPARAM-GETTER-INCONSISTENT", ""})
	}
	w := c.Writer()
	v.W = WView{Status: w.Status(), Size: w.Size(), Written: w.Written(), Hdr: valuesKV(w.Header())}
	if rd, ok := fox.VerifRecDump(w); ok {
		v.W.Hij = rd.Hijacked
	}
	v.Scope = int(c.Scope())
	v.Fox = idOf(b.foxID, fox.VerifRouterID(c.Fox()))
	return v, true
}

func (b *B) rawOf(c fox.Context) Raw {
	d, _ := fox.VerifCtxDump(c)
	r := Raw{WKind: d.WKind, W: idOf(b.recAddr, d.WID), Req: idOf(b.reqAddr, d.ReqID), PNil: d.ParamsNil, Params: paramsKV(d.Params),
		TNil: d.TsrNil, Tsrp: paramsKV(d.TsrParams), Route: idOf(b.routeID, d.RouteID), CQNil: d.CQNil, CQ: valuesKV(d.CQ),
		Scope: int(d.Scope), Tsr: d.Tsr}
	if d.WKind == 0 {
		r.W = 0
	}
	r.Rec = RecVal{UnderKind: d.Rec.UnderKind, Under: idOf(b.hdrAddr, d.Rec.UnderHdr), Size: d.Rec.Size, Status: d.Rec.Status, Hij: d.Rec.Hijacked}
	return r
}

// observe records what the implementation shows through c (raw dump first: the
// getters cache the parsed query) and the view the specification demands.
func (b *B) observe(c fox.Context, a int, spec, why string) int {
	raw := b.rawOf(c)
	v, ok := b.viewOf(c)
	k := len(b.views)
	b.views = append(b.views, v)
	if !ok {
		b.outs = append(b.outs, fmt.Sprintf("OutObs Panic %s", raw.coq()))
		b.op(fmt.Sprintf("OObserve %s", nat(a)), fmt.Sprintf("observe c%d (%s): GETTER PANICKED", a, why))
	} else {
		b.outs = append(b.outs, fmt.Sprintf("OutObs (Ok %s) %s", v.coq(), raw.coq()))
		b.op(fmt.Sprintf("OObserve %s", nat(a)), fmt.Sprintf("observe#%d c%d (%s): %s", k, a, why, v.human()))
		// QueryParams() cached the parsed query
		b.op(fmt.Sprintf("OQuery %s", nat(a)), "")
		if len(v.PGet) > 0 {
			_, odd := paramHuman(v.PGet, v.Params)
			if odd {
				b.kinds["param-getter:ODD-answer"]++ // informal pre-check; the verdict is Coq's
			}
			b.kinds["param-getter:calls"] += len(v.PGet)
			b.op(fmt.Sprintf("OParam %s %s", nat(a), hx.ListOf(v.PGet, func(p PObs) string { return hx.Bytes(p.K) })),
				fmt.Sprintf("c%d.Param(name) for every name in %v (answers above)", a, b.pnames))
			b.outs = append(b.outs, paramOut(v.PGet))
		}
	}
	b.specs = append(b.specs, spec)
	return k
}

// fail records a violation that is not a wrong view (pool discipline) and ends the history
func (b *B) fail(msg string) {
	b.panicked = true
	b.outs = append(b.outs, "OutPanic")
	b.human = append(b.human, "FAILURE: "+msg)
}

func (b *B) recovered(what string, r any) {
	b.panicked = true
	b.outs = append(b.outs, "OutPanic")
	b.human = append(b.human, fmt.Sprintf("PANIC in %s: %v", what, r))
}

// ---- spec terms ----

type act struct {
	coq    string
	writer bool // acts on the writer
	req    bool // acts on the request
}

func actsCoq(as []act) string {
	return hx.ListOf(as, func(a act) string { return a.coq })
}

func envCoq(rv ReqVal, w WView, foxID int) string {
	return fmt.Sprintf("(mkEnv %s %s %s)", rv.coq(), w.coq(), nN(foxID))
}

func freshW(h []KV) WView { return WView{Status: 200, Size: 0, Written: false, Hdr: h} }

func (b *B) term() string {
	return fmt.Sprintf("(mkCase true %s %s %s %s)", hx.List(b.ops), hx.List(b.outs), hx.List(b.specs), nN(0))
}

func (b *B) humanText(title string) string {
	var sb strings.Builder
	sb.WriteString(title)
	for _, h := range b.human {
		if h != "" {
			sb.WriteString("\n    ")
			sb.WriteString(h)
		}
	}
	return sb.String()
}
