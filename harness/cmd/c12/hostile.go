package main

import (
	"fmt"
	"net/http"
	"net/http/httptest"

	"foxverif/hx"

	"github.com/tigerwill90/fox"
)

// Hostile handlers (specification only; nothing planted). Every handler of a shared router
//  1. observes its context (must be the view derived from ITS request: expectation = the same request on a
//     fresh router with a passive handler);
//  2. takes further contexts while its own is live - Clone, CloneWith (new writer, new request), Lookup - checks
//     that every object obtained is DISTINCT from every context still in use (pool discipline: an object handed
//     out twice means it was Put twice), and WRITES into every mutable value those contexts return: the
//     QueryParams map, the writer's header map, the request's header map;
//  3. observes its own context again: still exactly its own request's view;
//  4. finally writes into the mutable values of its own context (QueryParams map, writer headers).
// Later requests (with and without query string, on matching, non-matching and infix-catch-all-miss paths,
// after tree replacements) must see only their own data.

type hostileReq struct {
	host, path, query string
}

func hostileSeq(rnd *hx.Rand, id int, st *hx.Stats) (out []concObs, suspicious bool) {
	b := newB(rnd, id)
	patterns := []string{"/u/{id}", "/s", "/files/*{p}/meta", "/files/*{p}/raw/{n}", "api.{env}.hz.com/u/{id}", "/t/{a}/"}
	b.notePattern(patterns...)
	b.notePattern("/extra0/{a}/{b}")
	patID := map[string]int{}
	for k, p := range patterns {
		patID[p] = k + 1
	}
	extra := 0
	var got []View
	var gotOK bool
	// views of the copies a hostile handler takes of its own request (Clone, CloneWith), observed BEFORE it writes into them
	type copyObs struct {
		v    View
		ok   bool
		what string
		rv   *ReqVal // CloneWith: the request given (with a fresh writer); nil: Clone (request and writer state of the original)
	}
	var copies []copyObs
	var problems []string
	var shared *fox.Router
	passive := func(c fox.Context) (View, bool) {
		v, ok := b.viewOf(c)
		v.Route = -1
		if rt := c.Route(); rt != nil {
			v.Route = patID[rt.Pattern()]
		}
		v.Fox = 1
		return v, ok
	}
	idOf := func(c fox.Context) uintptr {
		d, _ := fox.VerifCtxDump(c)
		return d.ID
	}
	mk := func(hostile bool) *fox.Router {
		f, err := fox.New(fox.WithMiddlewareFor(fox.AllHandlers, func(next fox.HandlerFunc) fox.HandlerFunc {
			return func(c fox.Context) {
				v, ok := passive(c)
				got, gotOK = append(got, v), ok
				if !hostile {
					return
				}
				tok := c.Request().Header.Get("X-Tok")
				live := map[uintptr]string{idOf(c): "the context serving the request"}
				take := func(what string, x fox.Context, given ...*http.Request) {
					if x == nil {
						return
					}
					if prev, dup := live[idOf(x)]; dup {
						problems = append(problems, fmt.Sprintf("%s returned an object that is still in use as %s (same *cTx handed out twice by the pool)", what, prev))
					}
					live[idOf(x)] = what
					if what != "Lookup" {
						co := copyObs{what: what}
						co.v, co.ok = passive(x)
						if len(given) > 0 {
							g := given[0]
							co.rv = &ReqVal{Method: g.Method, Host: g.Host, Path: g.URL.Path, Query: valuesKV(g.URL.Query()), Hdr: valuesKV(g.Header), Remote: g.RemoteAddr}
						}
						copies = append(copies, co)
					}
					// write into everything the context hands out
					q := x.QueryParams()
					q.Set("hostile", what+"-"+tok)
					q.Del("q")
					x.Writer().Header().Set("X-Hostile", what+"-"+tok)
					x.Request().Header.Set("X-Hostile", what+"-"+tok)
				}
				take("Clone", c.Clone())
				var closers []fox.ContextCloser
				if b.rnd.Pct(80) {
					r2 := httptest.NewRequest("GET", "/u/sub-"+tok, nil)
					cw := c.CloneWith(fox.VerifNewRecorder(httptest.NewRecorder()), r2)
					take("CloneWith", cw, r2)
					closers = append(closers, cw)
				}
				if b.rnd.Pct(80) {
					r3 := httptest.NewRequest("GET", hx.Pick(b.rnd, []string{"/u/lk-" + tok, "/files/x/y/meta", "/s"}), nil)
					_, lc, _ := shared.Lookup(fox.VerifNewRecorder(httptest.NewRecorder()), r3)
					if lc != nil {
						take("Lookup", lc)
						closers = append(closers, lc)
					}
				}
				if b.rnd.Pct(40) {
					r4 := httptest.NewRequest("GET", "/u/sub2-"+tok, nil)
					cw := c.CloneWith(fox.VerifNewRecorder(httptest.NewRecorder()), r4)
					take("second CloneWith", cw, r4)
					closers = append(closers, cw)
				}
				for _, x := range closers {
					x.Close()
				}
				v2, ok2 := passive(c)
				got, gotOK = append(got, v2), gotOK && ok2
				// and into its own
				q := c.QueryParams()
				q.Set("hostile", "own-"+tok)
				q.Del("q")
				c.Writer().Header().Set("X-Hostile", "own-"+tok)
			}
		}))
		hx.Fatal(err)
		for _, p := range patterns {
			_, err := f.Handle("GET", p, func(c fox.Context) {}, fox.WithIgnoreTrailingSlash(p == "/t/{a}/"))
			hx.Fatal(err)
		}
		for k := 0; k < extra; k++ {
			_, _ = f.Handle("GET", fmt.Sprintf("/extra%d/{a}/{b}", k), func(c fox.Context) {})
		}
		return f
	}
	shared = mk(true)
	n := rnd.Range(8, 16)
	serve := func(f *fox.Router, q hostileReq, tok string) ([]View, bool, ReqVal) {
		target := q.path
		if q.query != "" {
			target += "?" + q.query
		}
		r := httptest.NewRequest(http.MethodGet, target, nil)
		if q.host != "" {
			r.Host = q.host
		}
		r.Header.Set("X-Tok", tok)
		rv := ReqVal{Method: "GET", Host: r.Host, Path: r.URL.Path, Query: valuesKV(r.URL.Query()), Hdr: valuesKV(r.Header), Remote: r.RemoteAddr}
		got, gotOK, copies = nil, false, nil
		func() {
			defer func() {
				if rec := recover(); rec != nil {
					problems = append(problems, fmt.Sprintf("panic: %v", rec))
					gotOK = false
				}
			}()
			f.ServeHTTP(httptest.NewRecorder(), r)
		}()
		return got, gotOK, rv
	}
	var history []string
	for k := 0; k < n; k++ {
		tok := fmt.Sprintf("Z%dx%d", id, k)
		q := hostileReq{path: hx.Pick(rnd, []string{"/u/" + tok, "/u/" + tok, "/s", "/files/a/" + tok + "/meta", "/files/a/b/" + tok, "/files/" + tok + "/raw", "/nothing/" + tok, "/t/" + tok})}
		if rnd.Pct(45) {
			q.query = "q=" + tok + "&page=" + fmt.Sprint(k)
		}
		if rnd.Pct(20) {
			q.host, q.path = "api."+tok+".hz.com", "/u/"+tok
		}
		if k > 0 && rnd.Pct(20) {
			// tree replaced between requests (new pool)
			_, _ = shared.Handle("GET", fmt.Sprintf("/extra%d/{a}/{b}", extra), func(c fox.Context) {})
			extra++
		}
		problems = nil
		fresh, fok, rv := serve(mk(false), q, tok)
		seen, sok, _ := serve(shared, q, tok)
		desc := fmt.Sprintf("GET %s%s?%s", q.host, q.path, q.query)
		if !fok || len(fresh) != 1 {
			continue
		}
		shape := "ShNoRoute"
		if fresh[0].Route >= 0 {
			shape = fmt.Sprintf("(ShDirect %s %s)", nN(fresh[0].Route), kvs(fresh[0].Params))
			st.Count("hostile:expected-match")
		} else {
			st.Count("hostile:expected-no-route")
		}
		spec := fmt.Sprintf("(XEntry %s None %s [])", envCoq(rv, freshW(nil), 1), shape)
		for _, pr := range problems {
			suspicious = true
			st.Count("hostile:POOL-OR-PANIC-problem")
			out = append(out, concObs{bad: true, spec: spec,
				human: fmt.Sprintf("hostile sequence %d request %d %s after %v: %s", id, k, desc, history, pr)})
		}
		for j, v := range seen {
			when := []string{"at handler entry", "after writing into its Clone / CloneWith / Lookup contexts"}[min(j, 1)]
			if v.Route != fresh[0].Route || !sameKVs(v.Params, fresh[0].Params) || !sameKVs(v.Query, rv.Query) || !sameKVs(v.W.Hdr, fresh[0].W.Hdr) || !sameKVs(v.Req.Hdr, fresh[0].Req.Hdr) || v.paramOdd() {
				suspicious = true
				st.Count("hostile:DIFFERS-from-own-request")
			}
			out = append(out, concObs{v: v, bad: !sok, spec: spec,
				human: fmt.Sprintf("hostile sequence %d request %d %s, %s, after %v: shows %s; its own request alone gives route=%d params=%v query=%v", id, k, desc, when, history, v.human(), fresh[0].Route, fresh[0].Params, rv.Query)})
		}
		// the copies show the match data of THIS request: a Clone everything the original showed at entry, a
		// CloneWith(w', r') the request and (fresh) writer it was given
		for _, co := range copies {
			cspec := spec
			if co.rv != nil {
				cspec = fmt.Sprintf("(XEntry %s None %s [])", envCoq(*co.rv, freshW(nil), 1), shape)
			}
			if co.v.Route != fresh[0].Route || !sameKVs(co.v.Params, fresh[0].Params) || co.v.paramOdd() || !co.ok {
				suspicious = true
				st.Count("hostile:COPY-DIFFERS-from-own-request")
			}
			st.Count("hostile:copy-observed:" + co.what)
			out = append(out, concObs{v: co.v, bad: !co.ok, spec: cspec,
				human: fmt.Sprintf("hostile sequence %d request %d %s, its %s copy before anything is written into it, after %v: shows %s; its own request alone gives route=%d params=%v", id, k, desc, co.what, history, co.v.human(), fresh[0].Route, fresh[0].Params)})
		}
		if len(seen) == 0 {
			out = append(out, concObs{bad: true, spec: spec, human: fmt.Sprintf("hostile sequence %d request %d %s: handler not invoked", id, k, desc)})
		}
		history = append(history, desc)
	}
	return out, suspicious
}
