package main

import (
	"fmt"
	"net/http/httptest"
	"strings"

	"foxverif/hx"

	"github.com/tigerwill90/fox"
)

// Host sequences: NATURAL leftovers (nothing is planted). One router with hostname route families in
// which static and parameter labels are alternatives at several label positions (so the host walk
// records skipped nodes for backtracking) next to path-only routes; a sequence of requests is replayed
// a few times on it (sync.Pool hands the same objects out again), mixing hosts that match directly
// through a branch with alternatives and hosts that fail, or match, on another branch. What each
// request shows must be what the SAME request shows on a fresh router holding the same routes (fresh
// contexts, no history): route, params (tsr or not), scope, request, writer.

type hsRoute struct {
	pattern string
	ignore  bool
}

func hostSeqRoutes(rnd *hx.Rand) []hsRoute {
	// labels of equal length per position, so that a stale byte offset of an earlier host is meaningful in a later one
	first := []string{"api", "www", "dev", "svc", "adm"}
	second := []string{"prod", "beta", "test"}
	var out []hsRoute
	seen := map[string]bool{}
	nd := rnd.Range(1, 2)
	for d := 0; d < nd; d++ {
		dom := fmt.Sprintf("ex%d.com", d)
		n := rnd.Range(3, 7)
		for k := 0; k < n; k++ {
			var labels []string
			pn := 0
			lab := func(statics []string) string {
				if rnd.Pct(35) {
					pn++
					return fmt.Sprintf("{p%d}", pn)
				}
				return hx.Pick(rnd, statics)
			}
			labels = append(labels, lab(first))
			if rnd.Pct(65) {
				labels = append(labels, lab(second))
			}
			path := hx.Pick(rnd, []string{"/x", "/x", "/x", "/x/{a}", "/y/"})
			pat := strings.Join(labels, ".") + "." + dom + path
			if !seen[pat] {
				seen[pat] = true
				out = append(out, hsRoute{pat, rnd.Pct(50)})
			}
		}
	}
	if rnd.Pct(50) {
		out = append(out, hsRoute{"/x", false}, hsRoute{"/p/{a}", true})
	}
	return out
}

type hsReq struct{ host, path string }

// request hosts derived from the patterns, in blocks: one request that instantiates a pattern exactly
// (matches directly, possibly through a branch with alternatives), then 1-3 requests in a row that deviate
// from some pattern (a label replaced, one more label, another first label): they fail, or match, on
// another branch. Consecutive deviating requests matter: the pool hands the object of the first request
// back as main context only every other request (the matcher takes a sub-context from the same pool).
func hostSeqRequests(rnd *hx.Rand, routes []hsRoute, n int) []hsReq {
	statics := []string{"api", "www", "dev", "svc", "adm", "prod", "beta", "test"}
	inst := func(deviate bool) hsReq {
		r := hx.Pick(rnd, routes)
		i := strings.IndexByte(r.pattern, '/')
		host, path := r.pattern[:i], r.pattern[i:]
		if host == "" {
			host = hx.Pick(rnd, []string{"plain.test", "api.prod.ex0.com", "www.ex0.com"})
		}
		labels := strings.Split(host, ".")
		for j, l := range labels {
			if strings.HasPrefix(l, "{") {
				labels[j] = hx.Pick(rnd, []string{"dev", "v" + fmt.Sprint(10+rnd.Intn(89)), "prod", "api", "qa01"})
			}
		}
		if deviate && len(labels) > 2 {
			switch rnd.Intn(4) {
			case 0: // one more label in the middle: fails half-way through a branch
				k := 1 + rnd.Intn(len(labels)-2)
				labels = append(labels[:k], append([]string{hx.Pick(rnd, []string{"dev", "beta", "v7"})}, labels[k:]...)...)
			case 1: // another first label
				labels[0] = hx.Pick(rnd, statics)
			case 2: // another label somewhere before the domain
				labels[rnd.Intn(len(labels)-2)] = hx.Pick(rnd, statics)
			default: // other top-level domain
				labels[len(labels)-1] = "org"
			}
		}
		path = strings.ReplaceAll(path, "{a}", "a"+fmt.Sprint(rnd.Intn(9)))
		if rnd.Pct(15) {
			path = toggleSlash(path)
		}
		return hsReq{strings.Join(labels, "."), path}
	}
	var out []hsReq
	for len(out) < n {
		out = append(out, inst(false))
		for k := rnd.Range(1, 3); k > 0; k-- {
			out = append(out, inst(true))
		}
	}
	return out
}

func hostSeq(rnd *hx.Rand, id int, st *hx.Stats) (obs []concObs, suspicious bool) {
	routes := hostSeqRoutes(rnd)
	b := newB(rnd, id)
	for _, r := range routes {
		b.notePattern(r.pattern)
	}
	patID := map[string]int{}
	var got *View
	var gotOK bool
	mk := func() *fox.Router {
		f, err := fox.New(fox.WithMiddlewareFor(fox.AllHandlers, func(next fox.HandlerFunc) fox.HandlerFunc {
			return func(c fox.Context) {
				v, ok := b.viewOf(c)
				v.Route = -1
				if rt := c.Route(); rt != nil {
					v.Route = patID[rt.Pattern()]
				}
				v.Fox = 1
				got, gotOK = &v, ok
			}
		}))
		hx.Fatal(err)
		for k, r := range routes {
			if _, err := f.Handle("GET", r.pattern, func(c fox.Context) {}, fox.WithIgnoreTrailingSlash(r.ignore)); err == nil {
				patID[r.pattern] = k + 1
			}
		}
		return f
	}
	shared := mk()
	reqs := hostSeqRequests(rnd, routes, rnd.Range(8, 14))
	var out []concObs
	serve := func(f *fox.Router, q hsReq, tok string) (*View, bool, ReqVal) {
		r := httptest.NewRequest("GET", q.path+"?q="+tok, nil)
		r.Host = q.host
		r.Header.Set("X-Tok", tok)
		rv := ReqVal{Method: "GET", Host: r.Host, Path: r.URL.Path, Query: valuesKV(r.URL.Query()), Hdr: valuesKV(r.Header), Remote: r.RemoteAddr}
		got, gotOK = nil, false
		func() {
			defer func() {
				if rec := recover(); rec != nil {
					got, gotOK = &View{}, false
				}
			}()
			f.ServeHTTP(httptest.NewRecorder(), r)
		}()
		return got, gotOK, rv
	}
	for round := 0; round < 3; round++ {
		for k, q := range reqs {
			tok := fmt.Sprintf("H%dx%dx%d", id, round, k)
			fresh, fok, rv := serve(mk(), q, tok)
			seen, sok, _ := serve(shared, q, tok)
			if fresh == nil || !fok {
				continue // the oracle itself did not answer: nothing to compare with
			}
			shape := "ShNoRoute"
			if fresh.Route >= 0 {
				shape = fmt.Sprintf("(ShDirect %s %s)", nN(fresh.Route), kvs(fresh.Params))
				st.Count("hostseq:expected-match")
			} else {
				st.Count("hostseq:expected-no-route")
			}
			spec := fmt.Sprintf("(XEntry %s None %s [])", envCoq(rv, freshW(nil), 1), shape)
			o := concObs{spec: spec}
			if seen == nil {
				o.bad = true
				o.human = fmt.Sprintf("host sequence %d round %d: GET %s%s: handler not invoked", id, round, q.host, q.path)
			} else {
				o.v, o.bad = *seen, !sok
				if seen.Route != fresh.Route || !sameKVs(seen.Params, fresh.Params) || seen.Scope != fresh.Scope || seen.paramOdd() {
					st.Count("hostseq:DIFFERS-from-fresh-router") // informal pre-check; the verdict is Coq's
					suspicious = true
				}
				o.human = fmt.Sprintf("host sequence %d (routes %v) round %d request %d: GET Host=%s %s after %v: shows %s; on a fresh router: route=%d params=%v scope=%d",
					id, routes, round, k, q.host, q.path, reqs[:k], seen.human(), fresh.Route, fresh.Params, fresh.Scope)
			}
			out = append(out, o)
		}
	}
	return out, suspicious
}
