package main

import (
	"fmt"
	"sort"
	"strings"

	"foxverif/hx"

	"github.com/tigerwill90/fox"
)

// ---- value types mirrored in coq/C12/Types.v ----

type KV struct{ K, V string }

type ReqVal struct {
	Method, Host, Path string
	Query              []KV
	Hdr                []KV
	Remote             string
}

type WView struct {
	Status, Size int
	Written      bool
	Hdr          []KV
	Hij          bool
}

type View struct {
	Params []KV
	Route  int // -1 nil
	Req    ReqVal
	Query  []KV
	W      WView
	Scope  int
	Fox    int
}

type RecVal struct {
	UnderKind int // 0 nil 1 http 2 noop
	Under     int
	Size      int
	Status    int
	Hij       bool
}

type Raw struct {
	WKind  int // 0 nil, 1 rec, 2 nounwrap
	W      int
	Req    int // -1 nil
	Params []KV
	PNil   bool
	Tsrp   []KV
	TNil   bool
	Route  int
	CQ     []KV
	CQNil  bool
	Scope  int
	Tsr    bool
	Rec    RecVal
}

func sortKV(m []KV) []KV {
	out := append([]KV(nil), m...)
	sort.SliceStable(out, func(i, j int) bool { return out[i].K < out[j].K })
	return out
}

func kvs(m []KV) string {
	return hx.ListOf(m, func(p KV) string { return hx.Pair(hx.Bytes(p.K), hx.Bytes(p.V)) })
}

func nat(n int) string { return fmt.Sprintf("%d%%nat", n) }
func nN(n int) string  { return hx.N(uint64(n)) }
func zZ(n int) string  { return hx.Z(int64(n)) }

func optN(n int) string {
	if n < 0 {
		return "None"
	}
	return "(Some " + nN(n) + ")"
}
func optNat(n int) string {
	if n < 0 {
		return "None"
	}
	return "(Some " + nat(n) + ")"
}

func (r ReqVal) coq() string {
	return fmt.Sprintf("(mkReq %s %s %s %s %s %s)", hx.Bytes(r.Method), hx.Bytes(r.Host), hx.Bytes(r.Path), kvs(r.Query), kvs(sortKV(r.Hdr)), hx.Bytes(r.Remote))
}
func (w WView) coq() string {
	return fmt.Sprintf("(mkWv %s %s %s %s %s)", zZ(w.Status), zZ(w.Size), hx.Bool(w.Written), kvs(sortKV(w.Hdr)), hx.Bool(w.Hij))
}
func (v View) coq() string {
	return fmt.Sprintf("(mkView %s %s %s %s %s %s %s)", kvs(v.Params), optN(v.Route), v.Req.coq(), kvs(v.Query), v.W.coq(), nN(v.Scope), nN(v.Fox))
}
func (r RecVal) coq() string {
	u := "None"
	if r.UnderKind != 0 {
		u = fmt.Sprintf("(Some (%s, %s))", hx.Bool(r.UnderKind == 2), nat(r.Under))
	}
	return fmt.Sprintf("(mkRec %s %s %s %s)", u, zZ(r.Size), zZ(r.Status), hx.Bool(r.Hij))
}
func wref(kind, a int) string {
	if kind == 0 {
		return "None"
	}
	return fmt.Sprintf("(Some (%s, %s))", hx.Bool(kind == 2), nat(a))
}
func optKVs(isNil bool, m []KV) string {
	if isNil {
		return "None"
	}
	return "(Some " + kvs(m) + ")"
}
func (r Raw) coq() string {
	return fmt.Sprintf("(mkRaw %s %s %s %s %s %s %s %s %s)", wref(r.WKind, r.W), optNat(r.Req),
		optKVs(r.PNil, r.Params), optKVs(r.TNil, r.Tsrp), optN(r.Route), optKVs(r.CQNil, r.CQ), nN(r.Scope), hx.Bool(r.Tsr), r.Rec.coq())
}

func (v View) human() string {
	return fmt.Sprintf("{params=%v route=%d req=%s %s%s q=%v hdr=%v remote=%s | query=%v | w=%d/%d/%v hdr=%v hij=%v | scope=%d fox=%d}",
		v.Params, v.Route, v.Req.Method, v.Req.Host, v.Req.Path, v.Req.Query, v.Req.Hdr, v.Req.Remote, v.Query,
		v.W.Status, v.W.Size, v.W.Written, v.W.Hdr, v.W.Hij, v.Scope, v.Fox)
}

func paramsKV(ps []fox.Param) []KV {
	out := make([]KV, len(ps))
	for i, p := range ps {
		out[i] = KV{p.Key, p.Value}
	}
	return out
}

func valuesKV(m map[string][]string) []KV {
	var out []KV
	for k, v := range m {
		out = append(out, KV{k, strings.Join(v, ",")})
	}
	return sortKV(out)
}
