package main

import (
	"fmt"
	"slices"
	"sort"
	"strings"

	"foxverif/hx"

	"github.com/tigerwill90/fox"
)

// ---- value types mirrored in coq/C12/Types.v ----

type KV struct{ K, V string }

type ReqVal struct {
	Method, Host, Path string
	Query              []KV
	Hdr                []KV
	Remote             string
}

type WView struct {
	Status, Size int
	Written      bool
	Hdr          []KV
	Hij          bool
}

// PObs is one call of the single-parameter accessor: Param(K) returned V (or panicked)
type PObs struct {
	K, V  string
	Panic bool
}

type View struct {
	PGet   []PObs // Param(name) for every name of the harness' universe (emitted as OutParam, not part of the Coq view)
	Params []KV
	Route  int // -1 nil
	Req    ReqVal
	Query  []KV
	W      WView
	Scope  int
	Fox    int
}

type RecVal struct {
	UnderKind int // 0 nil 1 http 2 noop
	Under     int
	Size      int
	Status    int
	Hij       bool
}

type Raw struct {
	WKind  int // 0 nil, 1 rec, 2 nounwrap
	W      int
	Req    int // -1 nil
	Params []KV
	PNil   bool
	Tsrp   []KV
	TNil   bool
	Route  int
	CQ     []KV
	CQNil  bool
	Scope  int
	Tsr    bool
	Rec    RecVal
}

func sortKV(m []KV) []KV {
	out := append([]KV(nil), m...)
	sort.SliceStable(out, func(i, j int) bool { return out[i].K < out[j].K })
	return out
}

func kvs(m []KV) string {
	return hx.ListOf(m, func(p KV) string { return hx.Pair(hx.Bytes(p.K), hx.Bytes(p.V)) })
}

func nat(n int) string { return fmt.Sprintf("%d%%nat", n) }
func nN(n int) string  { return hx.N(uint64(n)) }
func zZ(n int) string  { return hx.Z(int64(n)) }

func optN(n int) string {
	if n < 0 {
		return "None"
	}
	return "(Some " + nN(n) + ")"
}
func optNat(n int) string {
	if n < 0 {
		return "None"
	}
	return "(Some " + nat(n) + ")"
}

func (r ReqVal) coq() string {
	return fmt.Sprintf("(mkReq %s %s %s %s %s %s)", hx.Bytes(r.Method), hx.Bytes(r.Host), hx.Bytes(r.Path), kvs(r.Query), kvs(sortKV(r.Hdr)), hx.Bytes(r.Remote))
}
func (w WView) coq() string {
	return fmt.Sprintf("(mkWv %s %s %s %s %s)", zZ(w.Status), zZ(w.Size), hx.Bool(w.Written), kvs(sortKV(w.Hdr)), hx.Bool(w.Hij))
}
func (v View) coq() string {
	return fmt.Sprintf("(mkView %s %s %s %s %s %s %s)", kvs(v.Params), optN(v.Route), v.Req.coq(), kvs(v.Query), v.W.coq(), nN(v.Scope), nN(v.Fox))
}
func (r RecVal) coq() string {
	u := "None"
	if r.UnderKind != 0 {
		u = fmt.Sprintf("(Some (%s, %s))", hx.Bool(r.UnderKind == 2), nat(r.Under))
	}
	return fmt.Sprintf("(mkRec %s %s %s %s)", u, zZ(r.Size), zZ(r.Status), hx.Bool(r.Hij))
}
func wref(kind, a int) string {
	if kind == 0 {
		return "None"
	}
	return fmt.Sprintf("(Some (%s, %s))", hx.Bool(kind == 2), nat(a))
}
func optKVs(isNil bool, m []KV) string {
	if isNil {
		return "None"
	}
	return "(Some " + kvs(m) + ")"
}
func (r Raw) coq() string {
	return fmt.Sprintf("(mkRaw %s %s %s %s %s %s %s %s %s)", wref(r.WKind, r.W), optNat(r.Req),
		optKVs(r.PNil, r.Params), optKVs(r.TNil, r.Tsrp), optN(r.Route), optKVs(r.CQNil, r.CQ), nN(r.Scope), hx.Bool(r.Tsr), r.Rec.coq())
}

func (v View) human() string {
	ph, _ := paramHuman(v.PGet, v.Params)
	return fmt.Sprintf("{params=%v%s route=%d req=%s %s%s q=%v hdr=%v remote=%s | query=%v | w=%d/%d/%v hdr=%v hij=%v | scope=%d fox=%d}",
		v.Params, ph, v.Route, v.Req.Method, v.Req.Host, v.Req.Path, v.Req.Query, v.Req.Hdr, v.Req.Remote, v.Query,
		v.W.Status, v.W.Size, v.W.Written, v.W.Hdr, v.W.Hij, v.Scope, v.Fox)
}

func paramsKV(ps []fox.Param) []KV {
	out := make([]KV, len(ps))
	for i, p := range ps {
		out[i] = KV{p.Key, p.Value}
	}
	return out
}

func valuesKV(m map[string][]string) []KV {
	var out []KV
	for k, v := range m {
		out = append(out, KV{k, strings.Join(v, ",")})
	}
	return sortKV(out)
}

// paramOut: the OutParam term of a list of Param(name) observations
func paramOut(ps []PObs) string {
	return "OutParam " + hx.ListOf(ps, func(p PObs) string {
		if p.Panic {
			return hx.Pair(hx.Bytes(p.K), "Panic")
		}
		return hx.Pair(hx.Bytes(p.K), "(Ok "+hx.Bytes(p.V)+")")
	})
}

// obsOuts: the outs of a specification-only observation (view, then the Param answers)
func obsOuts(v View) string {
	out := fmt.Sprintf("OutObs (Ok %s) %s", v.coq(), Raw{Req: -1, Route: -1, PNil: true, TNil: true, CQNil: true}.coq())
	if len(v.PGet) > 0 {
		out += "; " + paramOut(v.PGet)
	}
	return out
}

// paramHuman: readable Param answers; an answer that is not the first parameter of that name in ps
// ("" when there is none) is marked (informal: the verdict is Coq's)
func paramHuman(pg []PObs, ps []KV) (string, bool) {
	var sb strings.Builder
	odd := false
	if n := len(pg); n > 1 && !slices.ContainsFunc(pg, func(p PObs) bool { return !p.Panic }) {
		return fmt.Sprintf(" Param(name) PANICKED for each of the %d names asked", n), true
	}
	for _, p := range pg {
		want := ""
		for _, kv := range ps {
			if kv.K == p.K {
				want = kv.V
				break
			}
		}
		switch {
		case p.Panic:
			fmt.Fprintf(&sb, " Param(%q) PANICKED", p.K)
			odd = true
		case p.V != want:
			fmt.Fprintf(&sb, " Param(%q)=%q (!! Params() of the same context: %q)", p.K, p.V, want)
			odd = true
		case p.V != "":
			fmt.Fprintf(&sb, " Param(%q)=%q", p.K, p.V)
		}
	}
	return sb.String(), odd
}

// paramOdd: informal pre-check used to choose what Coq evaluates first
func (v View) paramOdd() bool {
	_, odd := paramHuman(v.PGet, v.Params)
	return odd
}

// wildcardNames: the parameter names of a route pattern the harness registers ({name}, *{name})
func wildcardNames(pattern string) []string {
	var out []string
	for {
		i := strings.IndexByte(pattern, '{')
		if i < 0 {
			return out
		}
		j := strings.IndexByte(pattern[i:], '}')
		if j < 0 {
			return out
		}
		out = append(out, pattern[i+1:i+j])
		pattern = pattern[i+j+1:]
	}
}
