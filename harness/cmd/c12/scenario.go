package main

import (
	"fmt"
	"net/http"
	"net/http/httptest"
	"slices"
	"strings"

	"foxverif/hx"

	"github.com/tigerwill90/fox"
)

// route templates: pattern with N wildcards; path(toks) gives a matching path and the expected params
type tmpl struct {
	name    string
	pattern func(i int) string
	keys    []string
	path    func(i int, v []string) string
	tsrOK   bool // toggling the trailing slash yields a trailing-slash match with the same params
	host    func(i int, v []string) string // nil: path-only route
}

// hostname route family: a static and a parameter label as siblings (the host walk records skipped nodes
// for backtracking), another branch, and a leading-parameter branch. Expectations for these come from a
// fresh router (oracle), not from the template.
var hostFamily = []tmpl{
	{name: "h-static", pattern: func(i int) string { return fmt.Sprintf("api.prod.ex%d.com/hx", i) }, path: func(i int, v []string) string { return "/hx" },
		host: func(i int, v []string) string { return fmt.Sprintf("api.prod.ex%d.com", i) }, tsrOK: true},
	{name: "h-param", pattern: func(i int) string { return fmt.Sprintf("api.{env}.ex%d.com/hx", i) }, keys: []string{"env"}, path: func(i int, v []string) string { return "/hx" },
		host: func(i int, v []string) string { return fmt.Sprintf("api.%s.ex%d.com", v[0], i) }, tsrOK: true},
	{name: "h-www", pattern: func(i int) string { return fmt.Sprintf("www.ex%d.com/hx", i) }, path: func(i int, v []string) string { return "/hx" },
		host: func(i int, v []string) string { return fmt.Sprintf("www.ex%d.com", i) }, tsrOK: true},
	{name: "h-lead", pattern: func(i int) string { return fmt.Sprintf("{sub}.svc.ex%d.com/hy/{a}", i) }, keys: []string{"sub", "a"}, path: func(i int, v []string) string { return "/hy/" + v[1] },
		host: func(i int, v []string) string { return fmt.Sprintf("%s.svc.ex%d.com", v[0], i) }, tsrOK: true},
}

var tmpls = []tmpl{
	{"static", func(i int) string { return fmt.Sprintf("/s%d/home", i) }, nil, func(i int, v []string) string { return fmt.Sprintf("/s%d/home", i) }, true, nil},
	{"param1", func(i int) string { return fmt.Sprintf("/p%d/{a}", i) }, []string{"a"}, func(i int, v []string) string { return fmt.Sprintf("/p%d/%s", i, v[0]) }, true, nil},
	{"param2", func(i int) string { return fmt.Sprintf("/q%d/{a}/x/{b}", i) }, []string{"a", "b"}, func(i int, v []string) string { return fmt.Sprintf("/q%d/%s/x/%s", i, v[0], v[1]) }, true, nil},
	{"param3", func(i int) string { return fmt.Sprintf("/m%d/{a}/{b}/{c}", i) }, []string{"a", "b", "c"}, func(i int, v []string) string { return fmt.Sprintf("/m%d/%s/%s/%s", i, v[0], v[1], v[2]) }, true, nil},
	{"slash", func(i int) string { return fmt.Sprintf("/d%d/{a}/", i) }, []string{"a"}, func(i int, v []string) string { return fmt.Sprintf("/d%d/%s/", i, v[0]) }, true, nil},
	{"catchall", func(i int) string { return fmt.Sprintf("/c%d/*{rest}", i) }, []string{"rest"}, func(i int, v []string) string { return fmt.Sprintf("/c%d/%s/more", i, v[0]) }, false, nil},
	{"infix", func(i int) string { return fmt.Sprintf("/i%d/*{mid}/end/{b}", i) }, []string{"mid", "b"}, func(i int, v []string) string { return fmt.Sprintf("/i%d/%s/deep/end/%s", i, v[0], v[1]) }, false, nil},
}

type rt struct {
	t        *tmpl
	i        int
	method   string
	ignore   bool
	redirect bool
	route    *fox.Route
}

type scen struct {
	b         *B
	f         *fox.Router
	opts      bool
	no405     bool
	routes    []*rt
	nroute    int
	cur       *pending
	depth     int
}

// what the harness expects of the request it is about to send
type pending struct {
	tok       string
	r         *http.Request
	hw        *httptest.ResponseRecorder
	planted   uintptr
	rt        *rt // route expected to match (directly or by trailing slash), nil if none
	tsr       bool
	params    []KV
	method    string
	path      string
	done      bool
	host      string
	host0     string
	kindName  string
	plantedTsr []KV
}

func (s *scen) handler(c fox.Context) {}

func (s *scen) newRouter() {
	b := s.b
	s.opts = b.rnd.Pct(60)
	s.no405 = b.rnd.Pct(60)
	f, err := fox.New(
		fox.WithAutoOptions(s.opts),
		fox.WithNoMethod(s.no405),
		fox.WithMiddlewareFor(fox.AllHandlers, func(next fox.HandlerFunc) fox.HandlerFunc {
			return func(c fox.Context) { s.onHandler(c) }
		}),
	)
	hx.Fatal(err)
	s.f = f
	smallID(b.foxID, fox.VerifRouterID(f))
	n := b.rnd.Range(2, 4)
	for k := 0; k < n; k++ {
		s.addRoute()
	}
}

func (s *scen) addRoute() {
	b := s.b
	s.nroute++
	if b.rnd.Pct(40) {
		// a whole hostname family under one index
		n := 3 + b.rnd.Intn(2)
		for k := 0; k < n; k++ {
			s.addOne(&rt{t: &hostFamily[k], i: s.nroute, method: "GET"})
		}
		return
	}
	s.addOne(&rt{t: &tmpls[b.rnd.Intn(len(tmpls))], i: s.nroute, method: hx.Pick(b.rnd, []string{"GET", "GET", "POST"})})
}

func (s *scen) addOne(r *rt) {
	b := s.b
	switch b.rnd.Intn(3) {
	case 0:
		r.ignore = true
	case 1:
		r.redirect = true
	}
	b.notePattern(r.t.pattern(r.i))
	route, err := s.f.Handle(r.method, r.t.pattern(r.i), s.handler, fox.WithIgnoreTrailingSlash(r.ignore), fox.WithRedirectTrailingSlash(r.redirect))
	hx.Fatal(err)
	r.route = route
	b.routeID[fox.VerifRouteID(route)] = len(b.routeID) + 1
	b.routes = append(b.routes, route)
	s.routes = append(s.routes, r)
	b.human = append(b.human, fmt.Sprintf("(tree replaced) register route#%d %s %s ignoreTS=%v redirectTS=%v", b.routeID[fox.VerifRouteID(route)], r.method, r.t.pattern(r.i), r.ignore, r.redirect))
}

func (s *scen) mutateTree() {
	b := s.b
	switch {
	case len(s.routes) > 2 && b.rnd.Pct(35):
		k := b.rnd.Intn(len(s.routes))
		r := s.routes[k]
		_, err := s.f.Delete(r.method, r.t.pattern(r.i))
		hx.Fatal(err)
		s.routes = append(s.routes[:k], s.routes[k+1:]...)
		b.human = append(b.human, fmt.Sprintf("(tree replaced) delete %s %s", r.method, r.t.pattern(r.i)))
	case len(s.routes) > 0 && b.rnd.Pct(35):
		r := hx.Pick(b.rnd, s.routes)
		route, err := s.f.Update(r.method, r.t.pattern(r.i), s.handler, fox.WithIgnoreTrailingSlash(r.ignore), fox.WithRedirectTrailingSlash(r.redirect))
		hx.Fatal(err)
		r.route = route
		b.routeID[fox.VerifRouteID(route)] = len(b.routeID) + 1
		b.routes = append(b.routes, route)
		b.human = append(b.human, fmt.Sprintf("(tree replaced) update %s %s -> route#%d", r.method, r.t.pattern(r.i), b.routeID[fox.VerifRouteID(route)]))
	default:
		s.addRoute()
	}
}

func toggleSlash(p string) string {
	if strings.HasSuffix(p, "/") {
		return strings.TrimSuffix(p, "/")
	}
	return p + "/"
}

// plan chooses a request shape and computes what should match, by construction of the route table.
func (s *scen) plan(kind string) *pending {
	b := s.b
	p := &pending{tok: b.tok()}
	vals := []string{"v1" + p.tok, "v2" + p.tok, "v3" + p.tok}
	var cands []*rt
	for _, r := range s.routes {
		if kind != "tsr" || r.t.tsrOK {
			cands = append(cands, r)
		}
	}
	if len(cands) == 0 || kind == "noroute" {
		p.method, p.path = "GET", "/zz/"+p.tok
		return p
	}
	r := hx.Pick(b.rnd, cands)
	if kind == "prefixmiss" {
		// walks into the route's branch but does not match it (for an infix catch-all: the scan runs out of segments)
		p.method = r.method
		switch r.t.name {
		case "infix":
			p.path = fmt.Sprintf("/i%d/%s/deep/%s", r.i, vals[0], vals[1])
		case "catchall":
			p.path = fmt.Sprintf("/c%d", r.i)
		default:
			p.path = r.t.path(r.i, vals) + "/zz/" + vals[2]
		}
		if r.t.host != nil {
			p.host = r.t.host(r.i, vals)
		}
		p.host0 = p.host
		if p.host == "" {
			p.host = "h-" + p.tok + ".test"
		}
		s.oracle(p)
		p.host = p.host0
		return p
	}
	if kind == "hostfail" {
		var hs []*rt
		for _, c := range s.routes {
			if c.t.host != nil {
				hs = append(hs, c)
			}
		}
		if len(hs) == 0 {
			p.method, p.path = "GET", "/zz/"+p.tok
			return p
		}
		r = hx.Pick(b.rnd, hs)
		// hosts that fail (or match) on ANOTHER branch than the one an earlier request took
		p.host = hx.Pick(b.rnd, []string{
			fmt.Sprintf("www.%s.ex%d.com", vals[0], r.i), fmt.Sprintf("api.prod.%s.com", vals[0]), fmt.Sprintf("zzz.ex%d.com", r.i),
			fmt.Sprintf("www.svc.ex%d.com", r.i), fmt.Sprintf("api.%s.ex%d.org", vals[0], r.i), fmt.Sprintf("www.ex%d.com.%s", r.i, vals[0])})
		p.method, p.path = "GET", hx.Pick(b.rnd, []string{"/hx", "/hx", "/hy/" + vals[1], "/hx/"})
		s.oracle(p)
		return p
	}
	direct := r.t.path(r.i, vals)
	if r.t.host != nil {
		p.host = r.t.host(r.i, vals)
	}
	for i, k := range r.t.keys {
		v := vals[i]
		if r.t.name == "catchall" {
			v += "/more"
		}
		if r.t.name == "infix" && i == 0 {
			v += "/deep"
		}
		p.params = append(p.params, KV{k, v})
	}
	switch kind {
	case "direct":
		p.method, p.path, p.rt = r.method, direct, r
	case "tsr":
		p.method, p.path, p.rt, p.tsr = r.method, toggleSlash(direct), r, true
	case "othermethod":
		p.method, p.path = hx.Pick(b.rnd, []string{"PUT", "DELETE"}), direct
		p.params = nil
	case "options":
		p.method, p.path = "OPTIONS", direct
		p.params = nil
	}
	if p.host != "" && (kind == "direct" || kind == "tsr") {
		s.oracle(p)
	}
	return p
}

// oracle: what the same request gets on a FRESH router holding the same routes (fresh contexts, no history)
func (s *scen) oracle(p *pending) {
	f, err := fox.New()
	hx.Fatal(err)
	byRoute := map[*fox.Route]*rt{}
	for _, r := range s.routes {
		fr, err := f.Handle(r.method, r.t.pattern(r.i), s.handler, fox.WithIgnoreTrailingSlash(r.ignore), fox.WithRedirectTrailingSlash(r.redirect))
		hx.Fatal(err)
		byRoute[fr] = r
	}
	req := httptest.NewRequest(p.method, p.path, nil)
	req.Host = p.host
	fr, cc, tsr := f.Lookup(fox.VerifNewRecorder(httptest.NewRecorder()), req)
	p.rt, p.tsr, p.params = nil, false, nil
	if cc != nil {
		p.rt, p.tsr = byRoute[fr], tsr
		p.params = paramsKV(slices.Collect(cc.Params()))
		cc.Close()
	}
	s.b.kinds["oracle:fresh-router"]++
}

func (s *scen) lkCoq(p *pending, d fox.VerifCtx, plantedTsr []KV) string {
	route := "None"
	if p.rt != nil {
		route = fmt.Sprintf("(Some (mkRi %s %s %s))", nN(s.b.routeID[fox.VerifRouteID(p.rt.route)]), hx.Bool(p.rt.ignore), hx.Bool(p.rt.redirect))
	}
	// whether the matcher overwrote tsrParams is its own business (an input of the model): read it back
	tsrw := "None"
	if p.tsr {
		tsrw = "(Some " + kvs(p.params) + ")"
	} else if got := paramsKV(d.TsrParams); !sameKVs(got, plantedTsr) {
		tsrw = "(Some " + kvs(got) + ")"
	}
	ps := p.params
	if p.rt == nil {
		ps = nil
	} else if p.tsr {
		// what the matcher left in c.params on a trailing-slash match is its own business too (not observable: tsr is set)
		ps = paramsKV(d.Params)
	}
	return fmt.Sprintf("(mkLk %s %s %s %s [])", route, hx.Bool(p.tsr && p.rt != nil), kvs(ps), tsrw)
}

func sameKVs(a, b []KV) bool {
	if len(a) != len(b) {
		return false
	}
	for i := range a {
		if a[i] != b[i] {
			return false
		}
	}
	return true
}
