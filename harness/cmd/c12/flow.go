package main

import (
	"fmt"
	"net/http"

	"foxverif/hx"

	"github.com/tigerwill90/fox"
)

// live is a context a handler is working with, and how the specification derives its view
type live struct {
	c      fox.Context
	a      int    // model address
	base   string // "XEntry env wk shape" or "XCloneWith k r w", without the trailing acts
	acts   []act
	w      fox.ResponseWriter
	r      *http.Request
	parent *live // for sub-contexts sharing writer / request
	shareW bool
	shareR bool
}

func (l *live) spec() string { return fmt.Sprintf("(%s %s)", l.base, actsCoq(l.acts)) }

func (l *live) addAct(a act) {
	l.acts = append(l.acts, a)
	if l.parent != nil && ((a.writer && l.shareW) || (a.req && l.shareR)) {
		l.parent.addAct(a)
	}
}

func (s *scen) expectedShape(p *pending, kind string, allow string) (shape string, branch string, hasAllow bool) {
	b := s.b
	rid := 0
	if p.rt != nil {
		rid = b.routeID[fox.VerifRouteID(p.rt.route)]
	}
	noMatch := func() (string, string, bool) {
		if p.method == "OPTIONS" && s.opts && kind == "options" {
			return fmt.Sprintf("(ShOptions %s)", hx.Bytes(allow)), "BOptions", true
		}
		if (kind == "othermethod" || kind == "options") && !(p.method == "OPTIONS" && s.opts) && s.no405 {
			return fmt.Sprintf("(ShNoMethod %s)", hx.Bytes(allow)), "BNoMethod", true
		}
		return "ShNoRoute", "BNoRoute", false
	}
	switch kind {
	case "direct":
		return fmt.Sprintf("(ShDirect %s %s)", nN(rid), kvs(p.params)), "BDirect", false
	case "tsr":
		if p.rt.ignore {
			return fmt.Sprintf("(ShIgnoreTsr %s %s)", nN(rid), kvs(p.params)), "BIgnoreTsr", false
		}
		if p.rt.redirect {
			return "ShRedirect", "BRedirect", false
		}
		return noMatch()
	}
	return noMatch()
}

var branchOfScope = map[int]string{64: "BNoRoute", 32: "BNoMethod", 16: "BRedirect", 8: "BOptions"}

// onHandler is the middleware every handler chain of the router enters first (all scopes).
func (s *scen) onHandler(c fox.Context) {
	b := s.b
	p := s.cur
	if p == nil || p.done {
		b.desync = "unexpected handler invocation"
		return
	}
	p.done = true
	d, _ := fox.VerifCtxDump(c)
	b.live[d.ID] = "the context serving the request"
	defer delete(b.live, d.ID)
	a, known := b.ctxAddr[d.ID]
	if !known || d.ID != p.planted {
		b.desync = "ServeHTTP used a context the harness did not prepare"
		return
	}
	kind := p.kindName
	allow := p.hw.Header().Get("Allow")
	shape, _, hasAllow := s.expectedShape(p, kind, allow)
	fallow := "None"
	if hasAllow {
		fallow = "(Some " + hx.Bytes(allow) + ")"
	}
	flags := fmt.Sprintf("(mkFl false %s true %s %s %s %s [])", hx.Bool(p.path == "/"), hx.Bool(p.method == "OPTIONS"), hx.Bool(s.opts), hx.Bool(s.no405), fallow)
	// the branch the IMPLEMENTATION took, from what it shows
	impl := "BDirect"
	if d.Scope != 128 {
		impl = branchOfScope[int(d.Scope)]
		if impl == "" {
			impl = "BNoRoute"
			b.human = append(b.human, fmt.Sprintf("unexpected scope %d", d.Scope))
		}
	} else if d.Tsr {
		impl = "BIgnoreTsr"
	}
	b.op(fmt.Sprintf("OServe %s %s %s %s %s", nat(a), nat(b.hdrAddr[fox.VerifHeaderID(p.hw.Header())]), nat(b.reqAddr[fox.VerifRequestID(p.r)]), s.lkCoq(p, d, p.plantedTsr), flags),
		fmt.Sprintf("ServeHTTP(%s Host=%s %s) [%s] on c%d: implementation took %s", p.method, p.r.Host, p.path, kind, a, impl))
	b.outs = append(b.outs, "OutBranch "+impl)
	b.next += 2
	b.kinds["serve:"+impl]++
	env := envCoq(*b.reqVal[p.r], freshW(b.hwInit[p.hw]), b.foxID[fox.VerifRouterID(s.f)])
	l := &live{c: c, a: a, base: fmt.Sprintf("XEntry %s None %s", env, shape), w: c.Writer(), r: c.Request()}
	b.observe(c, a, l.spec(), "handler entry")
	s.script(l, 0)
}

// script: what a handler does with its context
func (s *scen) script(l *live, depth int) {
	b := s.b
	n := b.rnd.Range(1, 5)
	for i := 0; i < n && !b.panicked && b.desync == ""; i++ {
		switch b.rnd.Intn(10) {
		case 0, 1:
			k, v := hx.Pick(b.rnd, []string{"X-Resp", "X-Other", "Content-Type"}), "resp-"+b.tok()
			l.c.SetHeader(k, v)
			b.op(fmt.Sprintf("OSetHeader %s %s %s", nat(l.a), hx.Bytes(k), hx.Bytes(v)), fmt.Sprintf("c%d.SetHeader(%s,%s)", l.a, k, v))
			l.addAct(act{fmt.Sprintf("ASetHeader %s %s", hx.Bytes(k), hx.Bytes(v)), true, false})
		case 2:
			code := hx.Pick(b.rnd, []int{200, 201, 204, 404, 418, 500}) + b.rnd.Intn(3)
			l.c.Writer().WriteHeader(code)
			b.op(fmt.Sprintf("OWriteHeader %s %s", nat(l.a), zZ(code)), fmt.Sprintf("c%d.Writer().WriteHeader(%d)", l.a, code))
			l.addAct(act{fmt.Sprintf("AWriteHeader %s", zZ(code)), true, false})
		case 3:
			sz := b.rnd.Range(1, 40)
			_, _ = l.c.Writer().Write(make([]byte, sz))
			b.op(fmt.Sprintf("OWrite %s %s", nat(l.a), zZ(sz)), fmt.Sprintf("c%d.Writer().Write(%d bytes)", l.a, sz))
			l.addAct(act{fmt.Sprintf("AWrite %s", zZ(sz)), true, false})
		case 4:
			k, v := "X-Mut", "mut-"+b.tok()
			l.c.Request().Header.Set(k, v)
			b.op(fmt.Sprintf("OReqSetHeader %s %s %s", nat(l.a), hx.Bytes(k), hx.Bytes(v)), fmt.Sprintf("c%d.Request().Header.Set(%s,%s)", l.a, k, v))
			l.addAct(act{fmt.Sprintf("AReqSetHeader %s %s", hx.Bytes(k), hx.Bytes(v)), false, true})
			if rv := b.reqVal[l.c.Request()]; rv != nil {
				rv.Hdr = setKV(rv.Hdr, k, v)
			}
		case 5, 6:
			s.doClone(l)
		case 7:
			if depth < 2 {
				s.doCloneWith(l, depth)
			}
		case 8:
			if depth < 2 {
				s.doLookup(l, depth)
			}
		default:
			b.observe(l.c, l.a, l.spec(), "after handler actions")
		}
	}
	if !b.panicked && b.desync == "" {
		b.observe(l.c, l.a, l.spec(), "before return")
	}
}

func setKV(m []KV, k, v string) []KV {
	for i := range m {
		if m[i].K == k {
			m[i].V = v
			return m
		}
	}
	return sortKV(append(m, KV{k, v}))
}

func (s *scen) doClone(l *live) {
	b := s.b
	k := b.observe(l.c, l.a, l.spec(), "just before Clone")
	var cl fox.Context
	func() {
		defer func() {
			if r := recover(); r != nil {
				b.op(fmt.Sprintf("OClone %s", nat(l.a)), fmt.Sprintf("c%d.Clone()", l.a))
				b.recovered("Clone", r)
			}
		}()
		cl = l.c.Clone()
	}()
	if cl == nil {
		return
	}
	base := b.next
	b.next += 5
	d, _ := fox.VerifCtxDump(cl)
	b.ctxAddr[d.ID] = base + 4
	b.recAddr[d.Rec.ID] = base + 2
	b.hdrAddr[d.Rec.UnderHdr] = base + 1
	b.reqAddr[d.ReqID] = base
	b.op(fmt.Sprintf("OClone %s", nat(l.a)), fmt.Sprintf("c%d := c%d.Clone()", base+4, l.a))
	b.kinds["clone"]++
	b.observe(cl, base+4, fmt.Sprintf("(XSame %s)", nat(k)), fmt.Sprintf("clone of c%d, at clone time, must equal observe#%d", l.a, k))
	b.clones = append(b.clones, cloneRec{cl, k, fmt.Sprintf("clone c%d of c%d", base+4, l.a)})
	b.nontrivial = true
}

func (s *scen) doCloneWith(l *live, depth int) {
	b := s.b
	k := b.observe(l.c, l.a, l.spec(), "just before CloneWith")
	w := l.c.Writer()
	r := l.c.Request()
	shareW, shareR := true, true
	wTerm, rTerm := "None", "None"
	if b.rnd.Pct(50) {
		t := b.tok()
		hw := b.newHW(t)
		w = b.newRec(hw)
		shareW = false
		wTerm = "(Some " + freshW(b.hwInit[hw]).coq() + ")"
		b.oldHWs = append(b.oldHWs, hw)
		b.oldRecs = append(b.oldRecs, w)
	}
	if b.rnd.Pct(50) {
		t := b.tok()
		r = b.newReq("GET", "/sub/"+t, "q="+t, t)
		shareR = false
		rTerm = "(Some " + b.reqVal[r].coq() + ")"
		b.oldReqs = append(b.oldReqs, r)
	}
	planted := b.prePlantSame(l.c)
	if planted == 0 {
		return
	}
	cw := l.c.CloneWith(w, r)
	d, _ := fox.VerifCtxDump(cw)
	if b.live[d.ID] != "" {
		b.fail("CloneWith returned a context that is still in use as " + b.live[d.ID])
		return
	}
	b.live[d.ID] = "an open CloneWith context"
	defer delete(b.live, d.ID)
	if d.ID != planted {
		b.desync = "CloneWith used a context the harness did not prepare"
		return
	}
	cp := b.ctxAddr[d.ID]
	rd, _ := fox.VerifRecDump(w)
	b.op(fmt.Sprintf("OCloneWith %s %s %s %s", nat(l.a), nat(cp), nat(b.recAddr[rd.ID]), nat(b.reqAddr[fox.VerifRequestID(r)])),
		fmt.Sprintf("c%d := c%d.CloneWith(x%d, r%d)", cp, l.a, b.recAddr[rd.ID], b.reqAddr[fox.VerifRequestID(r)]))
	b.next++
	b.kinds["clonewith"]++
	sub := &live{c: cw, a: cp, base: fmt.Sprintf("XCloneWith %s %s %s", nat(k), rTerm, wTerm), w: w, r: r, parent: l, shareW: shareW, shareR: shareR}
	b.observe(cw, cp, sub.spec(), "CloneWith context")
	s.script(sub, depth+1)
	cw.Close()
	b.nontrivial = true
}

// doLookup: manual Router.Lookup, from inside a handler (l != nil) or between requests
func (s *scen) doLookup(l *live, depth int) {
	b := s.b
	kind := hx.Pick(b.rnd, []string{"direct", "direct", "tsr", "noroute", "hostfail", "prefixmiss"})
	p := s.plan(kind)
	kind = normKind(kind, p)
	r := b.newReq(p.method, p.path, "q="+p.tok+"&z=zz"+p.tok, p.tok, p.host)
	b.oldReqs = append(b.oldReqs, r)
	var w fox.ResponseWriter
	wk := "None"
	var wv WView
	var par *live
	if l != nil && b.rnd.Pct(40) {
		k := b.observe(l.c, l.a, l.spec(), "just before Lookup with this context's writer")
		w = l.c.Writer()
		wk = "(Some " + nat(k) + ")"
		par = l
	} else {
		hw := b.newHW(p.tok)
		w = b.newRec(hw)
		wv = freshW(b.hwInit[hw])
		b.oldHWs = append(b.oldHWs, hw)
		b.oldRecs = append(b.oldRecs, w)
	}
	planted := b.prePlant(s.f)
	if planted == 0 {
		return
	}
	var rt *fox.Route
	var cc fox.ContextCloser
	var tsr bool
	via := "Router.Lookup"
	func() {
		defer func() {
			if rec := recover(); rec != nil {
				b.op(fmt.Sprintf("OLookup %s %s %s (mkLk None false [] None [])", nat(b.ctxAddrOf(planted)), nat(0), nat(b.reqAddr[fox.VerifRequestID(r)])),
					fmt.Sprintf("Lookup(%s Host=%s %s) [%s] on the context with the planted leftovers", p.method, r.Host, p.path, kind))
				b.recovered("Lookup (leftovers of an earlier user of the pooled context were consumed)", rec)
			}
		}()
		if b.rnd.Pct(30) {
			// same code shape in txn.go: a read transaction on the current tree (same pool)
			via = "Txn.Lookup"
			txn := s.f.Txn(false)
			defer txn.Abort()
			rt, cc, tsr = txn.Lookup(w, r)
		} else {
			rt, cc, tsr = s.f.Lookup(w, r)
		}
	}()
	if b.panicked {
		return
	}
	b.kinds[via]++
	rd, _ := fox.VerifRecDump(w)
	if cc == nil {
		// which object was used is not visible: only model it when it cannot matter (the object went back to the pool)
		b.op(fmt.Sprintf("OLookup %s %s %s (mkLk None false [] None [])", nat(b.ctxAddrOf(planted)), nat(b.recAddr[rd.ID]), nat(b.reqAddr[fox.VerifRequestID(r)])),
			fmt.Sprintf("Lookup(%s %s) [%s]: no match", p.method, p.path, kind))
		b.outs = append(b.outs, "OutLookup false")
		b.next += 2
		b.kinds["lookup:nomatch"]++
		if kind != "noroute" {
			b.outs = append(b.outs, "OutPanic")
			b.human = append(b.human, "Lookup found no route where one was expected")
		}
		return
	}
	d, _ := fox.VerifCtxDump(cc)
	if b.live[d.ID] != "" {
		b.fail("Lookup returned a context that is still in use as " + b.live[d.ID])
		return
	}
	b.live[d.ID] = "an open Lookup context"
	defer delete(b.live, d.ID)
	if d.ID != planted {
		b.desync = "Lookup used a context the harness did not prepare"
		cc.Close()
		return
	}
	a := b.ctxAddr[d.ID]
	if kind == "noroute" || rt != p.rt.route || tsr != p.tsr {
		b.human = append(b.human, fmt.Sprintf("Lookup result differs from the route table: tsr=%v", tsr))
	}
	b.op(fmt.Sprintf("OLookup %s %s %s %s", nat(a), nat(b.recAddr[rd.ID]), nat(b.reqAddr[fox.VerifRequestID(r)]), s.lkCoq(p, d, b.lastPlantedTsr)),
		fmt.Sprintf("c%d := Lookup(x%d, %s %s) [%s]", a, b.recAddr[rd.ID], p.method, p.path, kind))
	b.outs = append(b.outs, "OutLookup true")
	b.next += 2
	b.kinds["lookup:"+kind]++
	env := envCoq(*b.reqVal[r], wv, b.foxID[fox.VerifRouterID(s.f)])
	sub := &live{c: cc, a: a, base: fmt.Sprintf("XEntry %s %s (ShLookup %s %s)", env, wk, nN(b.routeID[fox.VerifRouteID(p.rt.route)]), kvs(p.params)),
		w: w, r: r, parent: par, shareW: par != nil}
	b.observe(cc, a, sub.spec(), "Lookup context")
	s.script(sub, depth+1)
	cc.Close()
	b.nontrivial = true
}

func (b *B) ctxAddrOf(id uintptr) int { return b.ctxAddr[id] }

// normKind: the shape a planned request has once the oracle has spoken
func normKind(kind string, p *pending) string {
	if kind == "direct" || kind == "tsr" || kind == "hostfail" || kind == "prefixmiss" {
		switch {
		case p.rt == nil:
			return "noroute"
		case p.tsr:
			return "tsr"
		default:
			return "direct"
		}
	}
	return kind
}

// request sends one request of the given kind through ServeHTTP
func (s *scen) request(kind string) {
	b := s.b
	p := s.plan(kind)
	kind = normKind(kind, p)
	p.kindName = kind
	p.r = b.newReq(p.method, p.path, "q="+p.tok+"&z=zz"+p.tok, p.tok, p.host)
	p.hw = b.newHW(p.tok)
	p.planted = b.prePlant(s.f)
	if p.planted == 0 {
		return
	}
	p.plantedTsr = b.lastPlantedTsr
	s.cur = p
	func() {
		defer func() {
			if r := recover(); r != nil {
				b.recovered("ServeHTTP", r)
			}
		}()
		s.f.ServeHTTP(p.hw, p.r)
	}()
	if !p.done && b.desync == "" && !b.panicked {
		b.desync = "handler not invoked"
	}
	b.oldReqs = append(b.oldReqs, p.r)
	b.oldHWs = append(b.oldHWs, p.hw)
	s.cur = nil
}

// probePool: pool discipline between requests. Objects obtained from the pool while others are held must be
// distinct; the same object twice means it was Put twice (two later users would share it).
func (s *scen) probePool() {
	b := s.b
	if b.panicked || b.desync != "" {
		return
	}
	var held []fox.Context
	seen := map[uintptr]bool{}
	dup := false
	for k := 0; k < 4; k++ {
		c := fox.VerifPoolGet(s.f)
		d, _ := fox.VerifCtxDump(c)
		if seen[d.ID] {
			dup = true
			continue
		}
		seen[d.ID] = true
		held = append(held, c)
	}
	for k := len(held) - 1; k >= 0; k-- {
		fox.VerifPoolPut(held[k])
	}
	b.kinds["pool-probe"]++
	if dup {
		b.fail("pool probe: the same *cTx was obtained twice from the pool of the current tree without being returned in between (it was Put twice by an earlier request)")
	}
}

// recheckClones: clones are inspected again after later requests reused the originals
func (s *scen) recheckClones(when string, all bool) {
	b := s.b
	cls := b.clones
	if !all && len(cls) > 2 {
		cls = []cloneRec{cls[b.rnd.Intn(len(cls)-1)], cls[len(cls)-1]}
	} else if len(cls) > 8 {
		cls = cls[len(cls)-8:]
	}
	for _, cl := range cls {
		if b.panicked || b.desync != "" {
			return
		}
		d, _ := fox.VerifCtxDump(cl.c)
		b.observe(cl.c, b.ctxAddr[d.ID], fmt.Sprintf("(XSame %s)", nat(cl.k)), fmt.Sprintf("%s, %s, must still equal observe#%d", cl.tag, when, cl.k))
	}
}
