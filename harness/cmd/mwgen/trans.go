package main

import (
	"fmt"
	"go/ast"
	"go/token"
	"go/types"
	"regexp"
	"sort"
	"strings"
)

// ---------------------------------------------------------------- names and kinds

// how a Go variable is represented: "H" handler, "N" scope mask, "slice" []middleware, "mw" one middleware element,
// "idx" loop index, "rec" the record under construction (r / rte), "fox" the receiver of NewRoute
type tr struct {
	names map[types.Object]string
	kind  map[types.Object]string
	used  map[string]bool
	nbind int
	fail  string // what a Go panic is in the result type: None (option) / Panic (outcome)
	cfg   *ctorCfg
}

var reserved = map[string]bool{"H": true, "wrap": true, "special": true, "nil_h": true, "apply_gopts": true, "apply_ropts": true,
	"heap": true, "hp": true, "st": true, "index": true, "clip": true, "fox_mws": true, "tt": true, "e": true,
	"at": true, "end": true, "in": true, "as": true, "fun": true, "let": true, "if": true, "then": true, "else": true, "match": true,
	"with": true, "return": true, "for": true, "forall": true, "exists": true, "fix": true, "cofix": true, "Type": true, "Set": true,
	"Prop": true, "using": true, "where": true, "mod": true, "Some": true, "None": true, "Ok": true, "Err": true, "Panic": true}
var genVar = regexp.MustCompile(`^[ev][0-9]+$`)
var coqIdent = regexp.MustCompile(`^[A-Za-z_][A-Za-z0-9_']*$`)

func newTr(fail string) *tr {
	return &tr{names: map[types.Object]string{}, kind: map[types.Object]string{}, used: map[string]bool{}, fail: fail}
}

func obj(id *ast.Ident) types.Object {
	if o := info.Uses[id]; o != nil {
		return o
	}
	return info.Defs[id]
}

func tyOf(e ast.Expr) string {
	t := info.TypeOf(e)
	if t == nil {
		return "?"
	}
	return typeStr(t)
}

func (t *tr) declare(id *ast.Ident, kind string) string {
	o := info.Defs[id]
	if o == nil {
		refuse(id.Pos(), "%s is not a new variable here", id.Name)
	}
	n := id.Name
	if reserved[n] || genVar.MatchString(n) || !coqIdent.MatchString(n) {
		n += "_"
	}
	if t.used[n] {
		refuse(id.Pos(), "variable %s declared twice in one function (shadowing is not translated)", id.Name)
	}
	t.used[n] = true
	t.names[o] = n
	t.kind[o] = kind
	return n
}

func (t *tr) kindOf(e ast.Expr) (string, string) {
	if id, ok := unparen(e).(*ast.Ident); ok {
		if o := obj(id); o != nil {
			return t.kind[o], t.names[o]
		}
	}
	return "", ""
}

func unparen(e ast.Expr) ast.Expr {
	for {
		p, ok := e.(*ast.ParenExpr)
		if !ok {
			return e
		}
		e = p.X
	}
}

func wrapBinds(binds []string, inner string) string {
	if len(binds) == 0 {
		return inner
	}
	return strings.Join(binds, "\n") + "\n" + inner + strings.Repeat(" end", len(binds))
}

func atom(s string) string {
	if coqIdent.MatchString(s) || (strings.HasPrefix(s, "(") && strings.HasSuffix(s, ")")) {
		return s
	}
	return "(" + s + ")"
}

// ---------------------------------------------------------------- expressions

var scopeConsts = map[string]bool{"RouteHandler": true, "NoRouteHandler": true, "NoMethodHandler": true, "RedirectHandler": true,
	"OptionsHandler": true, "AllHandlers": true}

var specials = map[string]string{"DefaultNotFoundHandler": "KNoRoute", "DefaultMethodNotAllowedHandler": "KNoMethod",
	"DefaultOptionsHandler": "KOptions", "defaultRedirectTrailingSlashHandler": "KRedirect"}

// an expression of type middleware: mws[i] (a bind: out of range is a panic) or a local holding one
func (t *tr) mwexpr(e ast.Expr) ([]string, string) {
	e = unparen(e)
	if tyOf(e) != "fox.middleware" {
		refuse(e.Pos(), "expected a middleware value: %s", src(e))
	}
	switch x := e.(type) {
	case *ast.Ident:
		if k, n := t.kindOf(x); k == "mw" {
			return nil, n
		}
	case *ast.IndexExpr:
		ks, ns := t.kindOf(x.X)
		ki, ni := t.kindOf(x.Index)
		if ks == "slice" && ki == "idx" {
			t.nbind++
			v := fmt.Sprintf("e%d", t.nbind)
			return []string{fmt.Sprintf("match index hp %s %s with None => %s | Some %s =>", ns, ni, t.fail, v)}, v
		}
	}
	refuse(e.Pos(), "unsupported middleware expression: %s", src(e))
	return nil, ""
}

// an expression of type HandlerScope
func (t *tr) nexpr(e ast.Expr) ([]string, string) {
	e = unparen(e)
	if tyOf(e) != "fox.HandlerScope" {
		refuse(e.Pos(), "expected a HandlerScope: %s (%s)", src(e), tyOf(e))
	}
	switch x := e.(type) {
	case *ast.Ident:
		if k, n := t.kindOf(x); k == "N" {
			return nil, n
		}
		if c, ok := obj(x).(*types.Const); ok && c.Parent() == pkg.Scope() && scopeConsts[x.Name] {
			return nil, x.Name // GenConsts.v, regenerated from the same tree
		}
	case *ast.BinaryExpr:
		op := map[token.Token]string{token.AND: "N.land", token.OR: "N.lor"}[x.Op]
		if op != "" {
			b1, a := t.nexpr(x.X)
			b2, b := t.nexpr(x.Y)
			return append(b1, b2...), fmt.Sprintf("%s %s %s", op, atom(a), atom(b))
		}
	case *ast.SelectorExpr:
		if x.Sel.Name == "scope" {
			b, m := t.mwexpr(x.X)
			return b, "m_scope " + atom(m)
		}
	}
	refuse(e.Pos(), "unsupported scope expression: %s", src(e))
	return nil, ""
}

func isZero(e ast.Expr) bool {
	tv, ok := info.Types[e]
	return ok && tv.Value != nil && tv.Value.ExactString() == "0"
}

// a condition
func (t *tr) cexpr(e ast.Expr) ([]string, string) {
	e = unparen(e)
	switch x := e.(type) {
	case *ast.Ident:
		if _, ok := obj(x).(*types.Const); ok && (x.Name == "true" || x.Name == "false") {
			return nil, x.Name
		}
	case *ast.UnaryExpr:
		if x.Op == token.NOT {
			b, c := t.cexpr(x.X)
			return b, "negb " + atom(c)
		}
	case *ast.SelectorExpr:
		if x.Sel.Name == "g" && tyOf(x.X) == "fox.middleware" {
			b, m := t.mwexpr(x.X)
			return b, "m_g " + atom(m)
		}
	case *ast.BinaryExpr:
		switch x.Op {
		case token.LAND, token.LOR:
			b1, a := t.cexpr(x.X)
			b2, b := t.cexpr(x.Y)
			if len(b2) > 0 {
				refuse(x.Y.Pos(), "index expression in the right operand of %s (evaluated conditionally): %s", x.Op, src(x.Y))
			}
			return b1, fmt.Sprintf("%s %s %s", map[token.Token]string{token.LAND: "andb", token.LOR: "orb"}[x.Op], atom(a), atom(b))
		case token.NEQ, token.EQL:
			l, r := x.X, x.Y
			if isZero(l) {
				l, r = r, l
			}
			if isZero(r) && tyOf(l) == "fox.HandlerScope" {
				b, n := t.nexpr(l)
				s := fmt.Sprintf("N.eqb %s 0", atom(n))
				if x.Op == token.NEQ {
					s = "negb (" + s + ")"
				}
				return b, s
			}
		}
	}
	refuse(e.Pos(), "unsupported condition: %s", src(e))
	return nil, ""
}

func isFunc(e ast.Expr, name string) bool {
	id, ok := unparen(e).(*ast.Ident)
	if !ok || id.Name != name {
		return false
	}
	f, ok := obj(id).(*types.Func)
	return ok && f.Parent() == pkg.Scope()
}

// an expression of type HandlerFunc
func (t *tr) hexpr(e ast.Expr) ([]string, string) {
	e = unparen(e)
	switch x := e.(type) {
	case *ast.Ident:
		if k, n := t.kindOf(x); k == "H" {
			return nil, n
		}
		if k := specials[x.Name]; k != "" && t.cfg != nil {
			if f, ok := obj(x).(*types.Func); ok && f.Parent() == pkg.Scope() && typeStr(f.Type()) == "func(c fox.Context)" {
				return nil, "special " + k
			}
		}
	case *ast.SelectorExpr:
		if t.cfg != nil {
			if k, _ := t.kindOf(x.X); k == "rec" {
				if f, ok := t.cfg.fields[x.Sel.Name]; ok && tyOf(x) == "fox.HandlerFunc" {
					return nil, f.get + " st"
				}
			}
		}
	case *ast.CallExpr:
		if sel, ok := x.Fun.(*ast.SelectorExpr); ok && sel.Sel.Name == "m" && tyOf(sel.X) == "fox.middleware" && len(x.Args) == 1 && !x.Ellipsis.IsValid() {
			b1, m := t.mwexpr(sel.X)
			b2, a := t.hexpr(x.Args[0])
			return append(b1, b2...), fmt.Sprintf("wrap (m_f %s) %s", atom(m), atom(a))
		}
		if t.cfg != nil && isFunc(x.Fun, "applyMiddleware") && len(x.Args) == 3 {
			b1, sc := t.nexpr(x.Args[0])
			sl := t.slexpr(x.Args[1])
			b2, h := t.hexpr(x.Args[2])
			t.nbind++
			v := fmt.Sprintf("v%d", t.nbind)
			b := append(b1, b2...)
			b = append(b, fmt.Sprintf("match gen_applyMiddleware (%s st) %s %s %s with None => Panic | Some %s =>", t.cfg.heapGet, atom(sc), atom(sl), atom(h), v))
			return b, v
		}
	}
	refuse(e.Pos(), "unsupported handler expression: %s", src(e))
	return nil, ""
}

// an expression of type []middleware (constructors only)
func (t *tr) slexpr(e ast.Expr) string {
	e = unparen(e)
	if tyOf(e) != "[]fox.middleware" {
		refuse(e.Pos(), "expected a []middleware: %s", src(e))
	}
	switch x := e.(type) {
	case *ast.SelectorExpr:
		if x.Sel.Name == "mws" {
			switch k, _ := t.kindOf(x.X); k {
			case "rec":
				return "(" + t.cfg.mwsGet + " st)"
			case "fox":
				return "fox_mws"
			}
		}
	case *ast.SliceExpr:
		isLen := func(a ast.Expr) bool {
			c, ok := a.(*ast.CallExpr)
			if !ok || len(c.Args) != 1 {
				return false
			}
			id, ok := c.Fun.(*ast.Ident)
			if !ok || id.Name != "len" {
				return false
			}
			_, bi := obj(id).(*types.Builtin)
			return bi && src(c.Args[0]) == src(x.X)
		}
		if x.Slice3 && x.Low == nil && x.High != nil && x.Max != nil && isLen(x.High) && isLen(x.Max) {
			return "(clip " + t.slexpr(x.X) + ")"
		}
	}
	refuse(e.Pos(), "unsupported []middleware expression: %s", src(e))
	return ""
}

// ---------------------------------------------------------------- applyMiddleware / applyRouteMiddleware

func tuple(vs []string) string {
	switch len(vs) {
	case 0:
		return "tt"
	case 1:
		return vs[0]
	}
	return "(" + strings.Join(vs, ", ") + ")"
}

// handler variables assigned (=) inside n, in declaration order
func (t *tr) assigned(n ast.Node) []string {
	seen := map[types.Object]bool{}
	var os []types.Object
	ast.Inspect(n, func(x ast.Node) bool {
		if a, ok := x.(*ast.AssignStmt); ok && a.Tok == token.ASSIGN {
			for _, l := range a.Lhs {
				if id, ok := l.(*ast.Ident); ok {
					if o := obj(id); o != nil && t.kind[o] == "H" && !seen[o] {
						seen[o] = true
						os = append(os, o)
					}
				}
			}
		}
		return true
	})
	sort.Slice(os, func(i, j int) bool { return os[i].Pos() < os[j].Pos() })
	var r []string
	for _, o := range os {
		r = append(r, t.names[o])
	}
	return r
}

// loop header -> (combinator, slice name, index identifier)
func (t *tr) loopHeader(s ast.Stmt) (string, string, *ast.Ident, *ast.BlockStmt) {
	lenOf := func(e ast.Expr) string {
		c, ok := unparen(e).(*ast.CallExpr)
		if !ok || len(c.Args) != 1 {
			return ""
		}
		id, ok := c.Fun.(*ast.Ident)
		if !ok || id.Name != "len" {
			return ""
		}
		if _, bi := obj(id).(*types.Builtin); !bi {
			return ""
		}
		if k, n := t.kindOf(c.Args[0]); k == "slice" {
			return n
		}
		return ""
	}
	lit := func(e ast.Expr, v string) bool {
		b, ok := unparen(e).(*ast.BasicLit)
		return ok && b.Kind == token.INT && b.Value == v
	}
	switch x := s.(type) {
	case *ast.RangeStmt:
		k, ok := x.Key.(*ast.Ident)
		if ok && k.Name != "_" && x.Tok == token.DEFINE && x.Value == nil {
			if ks, ns := t.kindOf(x.X); ks == "slice" {
				return "for_up", ns, k, x.Body
			}
		}
	case *ast.ForStmt:
		in, ok1 := x.Init.(*ast.AssignStmt)
		cond, ok2 := x.Cond.(*ast.BinaryExpr)
		post, ok3 := x.Post.(*ast.IncDecStmt)
		if !ok1 || !ok2 || !ok3 || in.Tok != token.DEFINE || len(in.Lhs) != 1 || len(in.Rhs) != 1 {
			break
		}
		i, ok := in.Lhs[0].(*ast.Ident)
		if !ok {
			break
		}
		same := func(e ast.Expr) bool {
			id, ok := unparen(e).(*ast.Ident)
			return ok && obj(id) == info.Defs[i]
		}
		if !same(post.X) || !same(cond.X) {
			break
		}
		if sub, ok := unparen(in.Rhs[0]).(*ast.BinaryExpr); ok && sub.Op == token.SUB && lit(sub.Y, "1") && lenOf(sub.X) != "" &&
			cond.Op == token.GEQ && lit(cond.Y, "0") && post.Tok == token.DEC {
			return "for_down", lenOf(sub.X), i, x.Body
		}
		if lit(in.Rhs[0], "0") && cond.Op == token.LSS && lenOf(cond.Y) != "" && post.Tok == token.INC {
			return "for_up", lenOf(cond.Y), i, x.Body
		}
	}
	refuse(s.Pos(), "unsupported loop (accepted: for i := len(s) - 1; i >= 0; i-- / for i := 0; i < len(s); i++ / for i := range s): %s", strings.SplitN(src(s), "{", 2)[0])
	return "", "", nil, nil
}

// stmts translates a statement list into an expression of type option <state>; tail = value of falling off the end
func (t *tr) stmts(list []ast.Stmt, tail string, retOK bool) string {
	if len(list) == 0 {
		if tail == "" {
			refuse(token.NoPos, "the function does not end in a return statement")
		}
		return tail
	}
	s, rest := list[0], list[1:]
	switch x := s.(type) {
	case *ast.ReturnStmt:
		if !retOK || len(rest) > 0 {
			refuse(x.Pos(), "return is accepted only as the last statement of the function")
		}
		var binds, vs []string
		for _, r := range x.Results {
			b, v := t.hexpr(r)
			binds, vs = append(binds, b...), append(vs, v)
		}
		return wrapBinds(binds, "Some "+atom(tuple(vs)))
	case *ast.AssignStmt:
		if len(x.Lhs) != 1 || len(x.Rhs) != 1 || (x.Tok != token.DEFINE && x.Tok != token.ASSIGN) {
			refuse(x.Pos(), "unsupported assignment: %s", src(x))
		}
		id, ok := x.Lhs[0].(*ast.Ident)
		if !ok || id.Name == "_" {
			refuse(x.Pos(), "unsupported assignment target: %s", src(x))
		}
		var binds []string
		var val, name string
		switch tyOf(x.Rhs[0]) {
		case "fox.HandlerFunc":
			binds, val = t.hexpr(x.Rhs[0])
			if x.Tok == token.DEFINE {
				name = t.declare(id, "H")
			} else if k, n := t.kindOf(id); k == "H" {
				name = n
			}
		case "fox.middleware":
			if x.Tok == token.DEFINE {
				binds, val = t.mwexpr(x.Rhs[0])
				name = t.declare(id, "mw")
			}
		}
		if name == "" {
			refuse(x.Pos(), "unsupported assignment: %s", src(x))
		}
		return wrapBinds(binds, fmt.Sprintf("let %s := %s in\n%s", name, val, t.stmts(rest, tail, retOK)))
	case *ast.IfStmt:
		if x.Init != nil {
			refuse(x.Pos(), "if with an init statement: %s", src(x.Init))
		}
		bc, c := t.cexpr(x.Cond)
		branch := func(tl string) string {
			th := t.stmts(x.Body.List, tl, false)
			el := tl
			switch e := x.Else.(type) {
			case nil:
			case *ast.BlockStmt:
				el = t.stmts(e.List, tl, false)
			case *ast.IfStmt:
				el = t.stmts([]ast.Stmt{e}, tl, false)
			default:
				refuse(x.Else.Pos(), "unsupported else")
			}
			return fmt.Sprintf("(if %s then\n%s\nelse\n%s)", c, th, el)
		}
		if len(rest) == 0 && tail != "" {
			return wrapBinds(bc, branch(tail))
		}
		pat := tuple(t.assigned(x))
		return wrapBinds(bc, fmt.Sprintf("match %s with None => %s | Some %s =>\n%s end", branch("Some "+atom(pat)), t.fail, pat, t.stmts(rest, tail, retOK)))
	case *ast.ForStmt, *ast.RangeStmt:
		comb, sl, i, body := t.loopHeader(s)
		in := t.declare(i, "idx")
		pat := tuple(t.assigned(body))
		fpat := pat
		if strings.HasPrefix(pat, "(") || pat == "tt" {
			fpat = "'" + pat
		}
		b := t.stmts(body.List, "Some "+atom(pat), false)
		return fmt.Sprintf("match %s (s_len %s) (fun %s %s =>\n%s) %s with None => %s | Some %s =>\n%s end",
			comb, sl, in, fpat, b, atom(pat), t.fail, pat, t.stmts(rest, tail, retOK))
	}
	refuse(s.Pos(), "unsupported statement: %s", src(s))
	return ""
}

func indent(s, pre string) string {
	ls := strings.Split(s, "\n")
	for i := range ls {
		ls[i] = pre + ls[i]
	}
	return strings.Join(ls, "\n")
}

func sigTypes(fl *ast.FieldList) []string {
	var r []string
	if fl == nil {
		return r
	}
	for _, f := range fl.List {
		n := len(f.Names)
		if n == 0 {
			n = 1
		}
		for k := 0; k < n; k++ {
			r = append(r, tyOf(f.Type))
		}
	}
	return r
}

var coqTy = map[string]string{"fox.HandlerScope": "N", "[]fox.middleware": "slice", "fox.HandlerFunc": "H"}
var coqKind = map[string]string{"fox.HandlerScope": "N", "[]fox.middleware": "slice", "fox.HandlerFunc": "H"}

func transPure(fd *ast.FuncDecl, name string, params, results []string) string {
	if fd.Recv != nil || strings.Join(sigTypes(fd.Type.Params), ",") != strings.Join(params, ",") ||
		strings.Join(sigTypes(fd.Type.Results), ",") != strings.Join(results, ",") {
		refuse(fd.Pos(), "signature of %s changed: expected func(%s) (%s)", fd.Name.Name, strings.Join(params, ", "), strings.Join(results, ", "))
	}
	t := newTr("None")
	bind := "(hp : heap)"
	for _, f := range fd.Type.Params.List {
		for _, id := range f.Names {
			if id.Name == "_" {
				refuse(id.Pos(), "unnamed parameter")
			}
			ty := tyOf(f.Type)
			bind += fmt.Sprintf(" (%s : %s)", t.declare(id, coqKind[ty]), coqTy[ty])
		}
	}
	res := "H"
	if len(results) == 2 {
		res = "(H * H)"
	}
	body := t.stmts(fd.Body.List, "", true)
	return fmt.Sprintf("  Definition %s %s : option %s :=\n%s.\n", name, bind, res, indent(body, "    "))
}

// ---------------------------------------------------------------- New / NewRoute

type field struct{ get, set string }

type ctorCfg struct {
	gen, recType, zero, out     string
	fields                      map[string]field
	mwsGet, mwsSet, heapGet     string
	oracle, method, key, optsTy string
	params, results             []string
	recv                        bool
}

var routerCtor = &ctorCfg{gen: "gen_New", recType: "fox.Router", zero: "router_zero nil_h", out: "grec H",
	fields: map[string]field{"noRouteBase": {"g_noRouteBase", "set_g_noRouteBase"}, "noRoute": {"g_noRoute", "set_g_noRoute"},
		"noMethod": {"g_noMethod", "set_g_noMethod"}, "tsrRedirect": {"g_tsrRedirect", "set_g_tsrRedirect"},
		"autoOptions": {"g_autoOptions", "set_g_autoOptions"}},
	mwsGet: "g_mws", heapGet: "g_heap", oracle: "apply_gopts", method: "applyGlob", key: "router", optsTy: "[]fox.GlobalOption",
	params: []string{"[]fox.GlobalOption"}, results: []string{"*fox.Router", "error"}}

var routeCtor = &ctorCfg{gen: "gen_NewRoute", recType: "fox.Route", zero: "route_zero nil_h hp", out: "rrec H",
	fields: map[string]field{"hbase": {"rr_hbase", "set_rr_hbase"}, "hself": {"rr_hself", "set_rr_hself"}, "hall": {"rr_hall", "set_rr_hall"}},
	mwsGet: "rr_mws", mwsSet: "set_rr_mws", heapGet: "rr_heap", oracle: "apply_ropts", method: "applyRoute", key: "route", optsTy: "[]fox.RouteOption",
	params: []string{"string", "fox.HandlerFunc", "[]fox.RouteOption"}, results: []string{"*fox.Route", "error"}, recv: true}

// an expression that neither reads nor builds handlers / middleware and calls nothing
func inert(e ast.Expr) bool {
	ok := true
	ast.Inspect(e, func(n ast.Node) bool {
		x, isx := n.(ast.Expr)
		if !isx {
			return true
		}
		if c, isc := x.(*ast.CallExpr); isc {
			if tv, has := info.Types[c.Fun]; !(has && tv.IsType()) {
				if id, isid := c.Fun.(*ast.Ident); !(isid && id.Name == "len") {
					ok = false
				}
			}
		}
		if ty := info.TypeOf(x); ty != nil {
			s := typeStr(ty)
			if strings.Contains(s, "HandlerFunc") || strings.Contains(s, "iddleware") {
				ok = false
			}
		}
		return ok
	})
	return ok
}

func isNil(e ast.Expr) bool {
	id, ok := unparen(e).(*ast.Ident)
	if !ok || id.Name != "nil" {
		return false
	}
	_, isn := obj(id).(*types.Nil)
	return isn
}

func transCtor(fd *ast.FuncDecl, cfg *ctorCfg) string {
	if (fd.Recv != nil) != cfg.recv || strings.Join(sigTypes(fd.Type.Params), ",") != strings.Join(cfg.params, ",") ||
		strings.Join(sigTypes(fd.Type.Results), ",") != strings.Join(cfg.results, ",") {
		refuse(fd.Pos(), "signature of %s changed", fd.Name.Name)
	}
	t := newTr("Panic")
	t.cfg = cfg
	bind := ""
	if cfg.recv {
		r := fd.Recv.List[0]
		if len(r.Names) != 1 || tyOf(r.Type) != "*fox.Router" {
			refuse(fd.Pos(), "unexpected receiver")
		}
		o := info.Defs[r.Names[0]]
		t.kind[o], t.names[o] = "fox", "fox"
		bind = " (hp : heap) (fox_mws : slice)"
	}
	var optsObj types.Object
	for _, f := range fd.Type.Params.List {
		for _, id := range f.Names {
			switch tyOf(f.Type) {
			case "fox.HandlerFunc":
				bind += fmt.Sprintf(" (%s : H)", t.declare(id, "H"))
			case cfg.optsTy:
				optsObj = info.Defs[id]
			}
		}
	}
	strct, _ := pkg.Scope().Lookup(strings.TrimPrefix(cfg.recType, "fox.")).Type().Underlying().(*types.Struct)
	ftype := func(name string, pos token.Pos) string {
		for i := 0; i < strct.NumFields(); i++ {
			if strct.Field(i).Name() == name {
				return typeStr(strct.Field(i).Type())
			}
		}
		refuse(pos, "%s has no field %s", cfg.recType, name)
		return ""
	}
	var lines []string
	closers := 0
	emitBinds := func(b []string) {
		lines = append(lines, b...)
		closers += len(b)
	}
	var rec types.Object
	recName := ""
	isRec := func(e ast.Expr) bool {
		id, ok := unparen(e).(*ast.Ident)
		return ok && rec != nil && obj(id) == rec
	}
	store := func(name string, val ast.Expr, pos token.Pos) {
		ft := ftype(name, pos)
		if f, ok := cfg.fields[name]; ok {
			if ft != "fox.HandlerFunc" {
				refuse(pos, "field %s is no longer a HandlerFunc", name)
			}
			b, v := t.hexpr(val)
			emitBinds(b)
			lines = append(lines, fmt.Sprintf("let st := %s %s st in", f.set, atom(v)))
			return
		}
		if name == "mws" {
			if ft != "[]fox.middleware" {
				refuse(pos, "field mws is no longer a []middleware")
			}
			if cfg.mwsSet == "" {
				refuse(pos, "assignment to the middleware slice outside the options: %s", src(val))
			}
			lines = append(lines, fmt.Sprintf("let st := %s %s st in", cfg.mwsSet, t.slexpr(val)))
			return
		}
		if strings.Contains(ft, "HandlerFunc") || strings.Contains(ft, "iddleware") {
			refuse(pos, "handler / middleware field %s is not known to the model", name)
		}
		if !inert(val) {
			refuse(pos, "field %s (not a handler): the value must not involve handlers, middleware or calls: %s", name, src(val))
		}
	}
	recField := func(e ast.Expr) (string, bool) {
		sel, ok := e.(*ast.SelectorExpr)
		if !ok || !isRec(sel.X) {
			return "", false
		}
		return sel.Sel.Name, true
	}
	done := false
	for _, s := range fd.Body.List {
		if done {
			refuse(s.Pos(), "statement after the final return")
		}
		switch x := s.(type) {
		case *ast.AssignStmt:
			// allocation
			if rec == nil && x.Tok == token.DEFINE && len(x.Lhs) == 1 && len(x.Rhs) == 1 {
				id, _ := x.Lhs[0].(*ast.Ident)
				if c, ok := x.Rhs[0].(*ast.CallExpr); ok && id != nil && len(c.Args) == 1 && src(c.Fun) == "new" && tyOf(c) == "*"+cfg.recType {
					rec, recName = info.Defs[id], id.Name
					t.kind[rec] = "rec"
					lines = append(lines, "let st := "+cfg.zero+" in")
					continue
				}
				if u, ok := x.Rhs[0].(*ast.UnaryExpr); ok && id != nil && u.Op == token.AND && tyOf(u) == "*"+cfg.recType {
					cl, ok := u.X.(*ast.CompositeLit)
					if !ok {
						refuse(x.Pos(), "unsupported allocation: %s", src(x.Rhs[0]))
					}
					lines = append(lines, "let st := "+cfg.zero+" in")
					for _, el := range cl.Elts {
						kv, ok := el.(*ast.KeyValueExpr)
						if !ok {
							refuse(el.Pos(), "positional composite literal")
						}
						store(kv.Key.(*ast.Ident).Name, kv.Value, kv.Pos())
					}
					rec, recName = info.Defs[id], id.Name
					t.kind[rec] = "rec"
					continue
				}
			}
			// n, endHost, err := fox.parseRoute(pattern): the pattern is not C13's subject
			if x.Tok == token.DEFINE && len(x.Rhs) == 1 {
				if c, ok := x.Rhs[0].(*ast.CallExpr); ok {
					if sel, ok := c.Fun.(*ast.SelectorExpr); ok && sel.Sel.Name == "parseRoute" {
						if k, _ := t.kindOf(sel.X); k == "fox" {
							okargs := true
							for _, a := range c.Args {
								okargs = okargs && inert(a)
							}
							if okargs {
								continue
							}
						}
					}
				}
			}
			if x.Tok == token.ASSIGN && len(x.Lhs) == 1 && len(x.Rhs) == 1 {
				if name, ok := recField(x.Lhs[0]); ok {
					store(name, x.Rhs[0], x.Pos())
					continue
				}
			}
			if x.Tok == token.ASSIGN && len(x.Lhs) == 2 && len(x.Rhs) == 1 {
				c, ok := x.Rhs[0].(*ast.CallExpr)
				n1, ok1 := recField(x.Lhs[0])
				n2, ok2 := recField(x.Lhs[1])
				if ok && ok1 && ok2 && isFunc(c.Fun, "applyRouteMiddleware") && len(c.Args) == 2 {
					f1, k1 := cfg.fields[n1]
					f2, k2 := cfg.fields[n2]
					if !k1 || !k2 {
						refuse(x.Pos(), "unknown handler fields: %s", src(x))
					}
					sl := t.slexpr(c.Args[0])
					b, h := t.hexpr(c.Args[1])
					emitBinds(b)
					t.nbind += 2
					va, vb := fmt.Sprintf("v%d", t.nbind-1), fmt.Sprintf("v%d", t.nbind)
					emitBinds([]string{fmt.Sprintf("match gen_applyRouteMiddleware (%s st) %s %s with None => Panic | Some (%s, %s) =>", cfg.heapGet, atom(sl), atom(h), va, vb)})
					lines = append(lines, fmt.Sprintf("let st := %s %s st in", f1.set, va), fmt.Sprintf("let st := %s %s st in", f2.set, vb))
					continue
				}
			}
		case *ast.RangeStmt:
			if rec != nil && t.optsLoop(x, optsObj, rec) {
				emitBinds([]string{fmt.Sprintf("match %s st with Err e => Err e | Panic => Panic | Ok st =>", cfg.oracle)})
				continue
			}
		case *ast.IfStmt:
			// if handler == nil { return nil, <error> }: handlers of the model are never nil
			if b, ok := x.Cond.(*ast.BinaryExpr); ok && x.Init == nil && x.Else == nil && b.Op == token.EQL && isNil(b.Y) && rec == nil {
				if k, _ := t.kindOf(b.X); k == "H" && errReturn(x.Body, nil) {
					continue
				}
			}
			// if err != nil { return nil, err } after parseRoute
			if b, ok := x.Cond.(*ast.BinaryExpr); ok && x.Init == nil && x.Else == nil && b.Op == token.NEQ && isNil(b.Y) && tyOf(b.X) == "error" && rec == nil {
				if id, ok := b.X.(*ast.Ident); ok && errReturn(x.Body, obj(id)) {
					continue
				}
			}
		case *ast.ExprStmt:
			if rec != nil && src(x) == recName+".tree.Store("+recName+".newTree())" {
				continue
			}
		case *ast.ReturnStmt:
			if len(x.Results) == 2 && isRec(x.Results[0]) && isNil(x.Results[1]) {
				lines = append(lines, "Ok st")
				done = true
				continue
			}
		}
		refuse(s.Pos(), "unsupported statement in %s: %s", fd.Name.Name, strings.SplitN(src(s), "{", 2)[0])
	}
	if !done {
		refuse(fd.End(), "%s does not end in `return <record>, nil`", fd.Name.Name)
	}
	body := strings.Join(lines, "\n") + strings.Repeat(" end", closers)
	return fmt.Sprintf("  Definition %s%s : outcome (%s) :=\n%s.\n", cfg.gen, bind, cfg.out, indent(body, "    "))
}

// { return nil, <e> }  (e = the given error variable, or any expression when errObj is nil)
func errReturn(b *ast.BlockStmt, errObj types.Object) bool {
	if len(b.List) != 1 {
		return false
	}
	r, ok := b.List[0].(*ast.ReturnStmt)
	if !ok || len(r.Results) != 2 || !isNil(r.Results[0]) {
		return false
	}
	if errObj == nil {
		return tyOf(r.Results[1]) == "error" && !isNil(r.Results[1])
	}
	id, ok := r.Results[1].(*ast.Ident)
	return ok && obj(id) == errObj
}

// for _, opt := range opts { if err := opt.<method>(sealedOption{<key>: <rec>}); err != nil { return nil, err } }
func (t *tr) optsLoop(x *ast.RangeStmt, optsObj, rec types.Object) bool {
	k, ok := x.Key.(*ast.Ident)
	v, ok2 := x.Value.(*ast.Ident)
	xs, ok3 := x.X.(*ast.Ident)
	if !ok || !ok2 || !ok3 || k.Name != "_" || optsObj == nil || obj(xs) != optsObj || len(x.Body.List) != 1 {
		return false
	}
	is, ok := x.Body.List[0].(*ast.IfStmt)
	if !ok || is.Else != nil {
		return false
	}
	as, ok := is.Init.(*ast.AssignStmt)
	if !ok || len(as.Lhs) != 1 || len(as.Rhs) != 1 {
		return false
	}
	errId, ok := as.Lhs[0].(*ast.Ident)
	if !ok || tyOf(errId) != "error" {
		return false
	}
	c, ok := as.Rhs[0].(*ast.CallExpr)
	if !ok || len(c.Args) != 1 {
		return false
	}
	sel, ok := c.Fun.(*ast.SelectorExpr)
	if !ok || sel.Sel.Name != t.cfg.method {
		return false
	}
	if id, ok := sel.X.(*ast.Ident); !ok || obj(id) != info.Defs[v] {
		return false
	}
	cl, ok := c.Args[0].(*ast.CompositeLit)
	if !ok || tyOf(cl) != "fox.sealedOption" || len(cl.Elts) != 1 {
		return false
	}
	kv, ok := cl.Elts[0].(*ast.KeyValueExpr)
	if !ok || src(kv.Key) != t.cfg.key {
		return false
	}
	if id, ok := kv.Value.(*ast.Ident); !ok || obj(id) != rec {
		return false
	}
	cond, ok := is.Cond.(*ast.BinaryExpr)
	if !ok || cond.Op != token.NEQ || !isNil(cond.Y) {
		return false
	}
	if id, ok := cond.X.(*ast.Ident); !ok || obj(id) != obj(errId) {
		return false
	}
	return errReturn(is.Body, obj(errId))
}

// ---------------------------------------------------------------- Route.Handle / Route.HandleMiddleware

func transAccessor(fd *ast.FuncDecl, name string) string {
	if fd.Recv == nil || len(fd.Recv.List[0].Names) != 1 || tyOf(fd.Recv.List[0].Type) != "*fox.Route" {
		refuse(fd.Pos(), "unexpected receiver")
	}
	ps := sigTypes(fd.Type.Params)
	if len(ps) == 0 || ps[0] != "fox.Context" || len(fd.Type.Params.List[0].Names) != 1 || fd.Type.Results != nil {
		refuse(fd.Pos(), "signature changed")
	}
	if len(fd.Body.List) != 1 {
		refuse(fd.Pos(), "expected the single statement r.<handler field>(c)")
	}
	es, ok := fd.Body.List[0].(*ast.ExprStmt)
	if !ok {
		refuse(fd.Body.List[0].Pos(), "unsupported statement: %s", src(fd.Body.List[0]))
	}
	c, ok := es.X.(*ast.CallExpr)
	if !ok || len(c.Args) != 1 || c.Ellipsis.IsValid() {
		refuse(es.Pos(), "unsupported statement: %s", src(es))
	}
	sel, ok := c.Fun.(*ast.SelectorExpr)
	arg, ok2 := c.Args[0].(*ast.Ident)
	if !ok || !ok2 || obj(arg) != info.Defs[fd.Type.Params.List[0].Names[0]] {
		refuse(es.Pos(), "unsupported statement: %s", src(es))
	}
	rid, ok := sel.X.(*ast.Ident)
	if !ok || obj(rid) != info.Defs[fd.Recv.List[0].Names[0]] {
		refuse(es.Pos(), "unsupported statement: %s", src(es))
	}
	f, ok := routeCtor.fields[sel.Sel.Name]
	if !ok || tyOf(sel) != "fox.HandlerFunc" {
		refuse(es.Pos(), "%s is not a handler field of Route known to the model", sel.Sel.Name)
	}
	return fmt.Sprintf("  Definition %s (r : rrec H) : H := %s r.\n", name, f.get)
}
