// c19: option sequences (repeated, contradictory, nil, ill-typed) on router and
// routes x patterns x handler kinds in which Context.ClientIP is called.  Runs
// fox and writes Coq case files comparing the observations with the model
// (FoxC19.Model) and the specification (FoxC19.Spec).
package main

import (
	"errors"
	"fmt"
	"net"
	"net/http"
	"net/http/httptest"
	"strings"

	"foxverif/hx"

	"github.com/tigerwill90/fox"
)

// ---------- data ----------

type GOpt struct {
	Kind string // redirect ignore clientip mw mwfor norouteh nomethodh optionsh nomethod autooptions default
	B    bool
	Res  int // resolver id, -1 = nil
	Ms   []bool
	Scope uint8 // mwfor: any HandlerScope value
	N    int   // maxparams
}
type ROpt struct {
	Kind  string // redirect ignore clientip annot mw
	B     bool
	Res   int
	KeyK  string // nil hash unhashdyn noncomp
	KeyID int
	Val   int // -1 = nil
	Ms    []bool
}
type Op struct {
	Kind    string // create probe annotget access
	Via     string // VHandle VUpdate VNewRoute
	Key     int
	Handler bool
	Opts    []ROpt
	Probe   int // 0 exact 1 tsr 2 noroute 3 wrongmethod 4 options
	AKey    int
	Entry   string // lookup: ERouter ETxnRead ETxnWrite
	Adj     bool   // lookup: request with the trailing slash toggled
	Mw      bool   // lookup: run route.HandleMiddleware(cc) instead of route.Handle(cc)
}

var entryNames = []string{"ERouter", "ETxnRead", "ETxnWrite"}

var probeNames = []string{"PExact", "PTsr", "PNoRoute", "PWrongMethod", "POptions"}

// a pattern with the request that matches it
type Pat struct {
	Pattern string
	Host    string // request host ("" = example.org)
	Path    string // request path matching the pattern
	TsrPath string // path with the trailing slash toggled, "" when no tsr probe is generated for this shape
	Valid   bool
	Term    string // compact Coq term for very long patterns ("" = write the pattern literally)
}

func patTerm(p Pat) string {
	if p.Term != "" {
		return p.Term
	}
	return hx.Bytes(p.Pattern)
}

// strTerm writes a string the route returned; a string equal to a very long pattern is written with the pattern's compact term
func strTerm(s string, p Pat) string {
	if p.Term != "" && s == p.Pattern {
		return p.Term
	}
	return hx.Bytes(s)
}

// manyWildcards is "/w" followed by n times "/{a}" (n wildcards), with the compact Coq term for it
func manyWildcards(n int) Pat {
	return Pat{Pattern: "/w" + strings.Repeat("/{a}", n), Path: "/zz/not/requested", Valid: true,
		Term: fmt.Sprintf("(S2B \"/w\" ++ brep %s (S2B \"/{a}\"))", hx.N(uint64(n)))}
}

// ---------- keys, resolvers, probe middleware ----------

type keyT struct{ n int }

func hashKey(id int) any {
	switch id % 4 {
	case 0:
		return id
	case 1:
		return fmt.Sprint("k", id)
	case 2:
		return keyT{id}
	}
	return [1]any{id}
}
func badKey(kind string, id int) any {
	switch kind {
	case "nil":
		return nil
	case "unhashdyn": // comparable static type, unhashable dynamic content
		if id%2 == 0 {
			return [1]any{[]int{id}}
		}
		return struct{ v any }{map[int]int{id: 1}}
	}
	switch id % 3 { // non-comparable types
	case 0:
		return []int{id}
	case 1:
		return map[string]int{}
	}
	return func() {}
}

func resolver(id int) fox.ClientIPResolver {
	if id < 0 {
		return nil
	}
	return fox.ClientIPResolverFunc(func(c fox.Context) (*net.IPAddr, error) {
		return &net.IPAddr{IP: net.IPv4(10, 0, 0, byte(id))}, nil
	})
}
func cipTerm(ip *net.IPAddr, err error) string {
	if err != nil {
		if errors.Is(err, fox.ErrNoClientIPResolver) {
			return "CIPNone"
		}
		return "(CIP 255)"
	}
	return fmt.Sprintf("(CIP %d)", ip.IP.To4()[3])
}

type probeRec struct {
	ran                  bool
	scope                fox.HandlerScope
	own, clone, cloneWith string
	down                 string // what the route handler saw on the context it was given; "" = no recording handler ran
}

// viewTerm: what a context shows for this property - ClientIP() and the pattern of Route()
func viewTerm(c fox.Context) string {
	pat := "None"
	if r := c.Route(); r != nil {
		pat = "(Some " + hx.Bytes(r.Pattern()) + ")"
	}
	return "(" + cipTerm(c.ClientIP()) + ", " + pat + ")"
}

// the probing middleware reads its own context, a Clone and a CloneWith copy, and hands the CloneWith copy
// to the rest of the chain (the documented use of CloneWith: wrapping the ResponseWriter)
func probeMw(rec *probeRec) fox.MiddlewareFunc {
	return func(next fox.HandlerFunc) fox.HandlerFunc {
		return func(c fox.Context) {
			if rec.ran {
				next(c)
				return
			}
			rec.ran, rec.scope = true, c.Scope()
			rec.own = viewTerm(c)
			rec.clone = viewTerm(c.Clone())
			cp := c.CloneWith(c.Writer(), c.Request())
			defer cp.Close()
			rec.cloneWith = viewTerm(cp)
			next(cp)
		}
	}
}
func noopMw(next fox.HandlerFunc) fox.HandlerFunc { return func(c fox.Context) { next(c) } }
func noopHandler(c fox.Context)                     {}

func fns(ms []bool) []fox.MiddlewareFunc {
	out := make([]fox.MiddlewareFunc, len(ms))
	for i, ok := range ms {
		if ok {
			out[i] = noopMw
		}
	}
	return out
}
func handlerOrNil(ok bool) fox.HandlerFunc {
	if ok {
		return noopHandler
	}
	return nil
}

// route handlers record what the context they receive shows
func routeHandlerOrNil(ok bool, rec *probeRec) fox.HandlerFunc {
	if ok {
		return func(c fox.Context) { rec.down = viewTerm(c) }
	}
	return nil
}

func globalOption(g GOpt, rec *probeRec, last bool) fox.GlobalOption {
	switch g.Kind {
	case "redirect":
		return fox.WithRedirectTrailingSlash(g.B)
	case "ignore":
		return fox.WithIgnoreTrailingSlash(g.B)
	case "clientip":
		return fox.WithClientIPResolver(resolver(g.Res))
	case "mw":
		if last { // the probe middleware is the last global option of every case
			return fox.WithMiddleware(probeMw(rec))
		}
		return fox.WithMiddleware(fns(g.Ms)...)
	case "mwfor":
		return fox.WithMiddlewareFor(fox.HandlerScope(g.Scope), fns(g.Ms)...)
	case "maxparams":
		return fox.WithMaxRouteParams(uint16(g.N))
	case "norouteh":
		return fox.WithNoRouteHandler(handlerOrNil(g.B))
	case "nomethodh":
		return fox.WithNoMethodHandler(handlerOrNil(g.B))
	case "optionsh":
		return fox.WithOptionsHandler(handlerOrNil(g.B))
	case "nomethod":
		return fox.WithNoMethod(g.B)
	case "autooptions":
		return fox.WithAutoOptions(g.B)
	}
	return fox.DefaultOptions()
}
func routeOption(o ROpt) fox.RouteOption {
	switch o.Kind {
	case "redirect":
		return fox.WithRedirectTrailingSlash(o.B)
	case "ignore":
		return fox.WithIgnoreTrailingSlash(o.B)
	case "clientip":
		return fox.WithClientIPResolver(resolver(o.Res))
	case "annot":
		var v any
		if o.Val >= 0 {
			v = o.Val
		}
		if o.KeyK == "hash" {
			return fox.WithAnnotation(hashKey(o.KeyID), v)
		}
		return fox.WithAnnotation(badKey(o.KeyK, o.KeyID), v)
	}
	return fox.WithMiddleware(fns(o.Ms)...)
}

// ---------- Coq terms ----------

func optNat(v int) string {
	if v < 0 {
		return "None"
	}
	return fmt.Sprintf("(Some %d)", v)
}
func bools(ms []bool) string { return hx.ListOf(ms, hx.Bool) }
func goptTerm(g GOpt) string {
	switch g.Kind {
	case "redirect":
		return "(GRedirectTS " + hx.Bool(g.B) + ")"
	case "ignore":
		return "(GIgnoreTS " + hx.Bool(g.B) + ")"
	case "clientip":
		return "(GClientIP " + optNat(g.Res) + ")"
	case "mw":
		return "(GMw " + bools(g.Ms) + ")"
	case "mwfor":
		return "(GMwFor " + hx.N(uint64(g.Scope)) + " " + bools(g.Ms) + ")"
	case "maxparams":
		return "(GMaxParams " + hx.N(uint64(g.N)) + ")"
	case "norouteh":
		return "(GNoRouteH " + hx.Bool(g.B) + ")"
	case "nomethodh":
		return "(GNoMethodH " + hx.Bool(g.B) + ")"
	case "optionsh":
		return "(GOptionsH " + hx.Bool(g.B) + ")"
	case "nomethod":
		return "(GNoMethod " + hx.Bool(g.B) + ")"
	case "autooptions":
		return "(GAutoOptions " + hx.Bool(g.B) + ")"
	}
	return "GDefault"
}
func roptTerm(o ROpt) string {
	switch o.Kind {
	case "redirect":
		return "(ORedirectTS " + hx.Bool(o.B) + ")"
	case "ignore":
		return "(OIgnoreTS " + hx.Bool(o.B) + ")"
	case "clientip":
		return "(OClientIP " + optNat(o.Res) + ")"
	case "annot":
		k := "KNil"
		switch o.KeyK {
		case "hash":
			k = fmt.Sprintf("(KHash %d)", o.KeyID)
		case "unhashdyn":
			k = fmt.Sprintf("(KUnhashDyn %d)", o.KeyID)
		case "noncomp":
			k = fmt.Sprintf("(KNonComp %d)", o.KeyID)
		}
		return fmt.Sprintf("(OAnnot %s %s)", k, optNat(o.Val))
	}
	return "(OMw " + bools(o.Ms) + ")"
}
func opTerm(o Op) string {
	switch o.Kind {
	case "create":
		return fmt.Sprintf("(OCreate %s %d %s %s)", o.Via, o.Key, hx.Bool(o.Handler), hx.ListOf(o.Opts, roptTerm))
	case "probe":
		return fmt.Sprintf("(OProbe %d %s)", o.Key, probeNames[o.Probe])
	case "annotget":
		return fmt.Sprintf("(OAnnotGet %d %d)", o.Key, o.AKey)
	}
	if o.Kind == "lookup" {
		return fmt.Sprintf("(OLookup %s %d %s %s)", o.Entry, o.Key, hx.Bool(o.Adj), hx.Bool(o.Mw))
	}
	return fmt.Sprintf("(OAccess %d)", o.Key)
}
func errTerm(err error) string {
	switch {
	case err == nil:
		return "None"
	case errors.Is(err, fox.ErrInvalidConfig):
		return "(Some ErrInvalidConfig)"
	case errors.Is(err, fox.ErrInvalidRoute):
		return "(Some ErrInvalidRoute)"
	case errors.Is(err, fox.ErrRouteExist):
		return "(Some ErrRouteExist)"
	case errors.Is(err, fox.ErrRouteNotFound):
		return "(Some ErrRouteNotFound)"
	}
	return "(Some ErrOther)"
}
func snapTerm(rte *fox.Route, p Pat) string {
	res := "None"
	if r := rte.ClientIPResolver(); r != nil {
		ip, err := r.ClientIP(nil)
		if err == nil {
			res = fmt.Sprintf("(Some %d)", ip.IP.To4()[3])
		} else {
			res = "(Some 255)"
		}
	}
	return fmt.Sprintf("(mkSnap %s %s %s (N.to_nat %s) %s %s %s %d)", strTerm(rte.Pattern(), p), strTerm(rte.Hostname(), p), strTerm(rte.Path(), p),
		hx.N(uint64(rte.ParamsLen())), hx.Bool(rte.RedirectTrailingSlashEnabled()), hx.Bool(rte.IgnoreTrailingSlashEnabled()), res, fox.VerifRouteMws(rte).Len)
}

// ---------- running ----------

func kindOf(s fox.HandlerScope) string {
	switch s {
	case fox.RouteHandler:
		return "KRoute"
	case fox.NoRouteHandler:
		return "KNoRoute"
	case fox.NoMethodHandler:
		return "KNoMethod"
	case fox.RedirectHandler:
		return "KRedirect"
	case fox.OptionsHandler:
		return "KOptions"
	}
	return "KUnknown"
}

func runOp(f *fox.Router, rec *probeRec, pats []Pat, o Op) (obs string) {
	defer func() {
		if r := recover(); r != nil {
			obs = "ObsPanic"
		}
	}()
	p := pats[o.Key]
	switch o.Kind {
	case "create":
		var (
			rte *fox.Route
			err error
		)
		opts := make([]fox.RouteOption, len(o.Opts))
		for i, ro := range o.Opts {
			opts[i] = routeOption(ro)
		}
		switch o.Via {
		case "VHandle":
			rte, err = f.Handle(http.MethodGet, p.Pattern, routeHandlerOrNil(o.Handler, rec), opts...)
		case "VUpdate":
			rte, err = f.Update(http.MethodGet, p.Pattern, routeHandlerOrNil(o.Handler, rec), opts...)
		case "VOnly":
			rte, err = f.NewRoute(p.Pattern, routeHandlerOrNil(o.Handler, rec), opts...)
		default:
			rte, err = f.NewRoute(p.Pattern, routeHandlerOrNil(o.Handler, rec), opts...)
			if err == nil {
				err = f.HandleRoute(http.MethodGet, rte)
			}
		}
		if err != nil {
			return "(ObsErr " + errTerm(err) + " None)"
		}
		return "(ObsErr None (Some " + snapTerm(rte, p) + "))"
	case "probe":
		*rec = probeRec{}
		method, path := http.MethodGet, p.Path
		switch o.Probe {
		case 1:
			path = p.TsrPath
		case 2:
			path = "/zz/no/such/route"
		case 3:
			method = http.MethodPost
		case 4:
			method = http.MethodOptions
		}
		req := httptest.NewRequest(method, path, nil)
		if p.Host != "" {
			req.Host = p.Host
		}
		f.ServeHTTP(httptest.NewRecorder(), req)
		if !rec.ran {
			return "ObsPanic"
		}
		down := "None"
		if rec.down != "" {
			down = "(Some " + rec.down + ")"
		}
		return fmt.Sprintf("(ObsProbe %s %s %s %s %s)", kindOf(rec.scope), rec.own, rec.clone, rec.cloneWith, down)
	case "annotget":
		rte := f.Route(http.MethodGet, p.Pattern)
		if rte == nil {
			return "(ObsSnap None)"
		}
		v := rte.Annotation(hashKey(o.AKey))
		if v == nil {
			return "(ObsAnnot None)"
		}
		if n, ok := v.(int); ok {
			return fmt.Sprintf("(ObsAnnot (Some %d))", n)
		}
		return "(ObsAnnot (Some 255))"
	}
	if o.Kind == "lookup" {
		// secondary entry points: Router.Lookup / Txn.Lookup, then the returned route is run on the returned context
		*rec = probeRec{}
		path := p.Path
		if o.Adj {
			path = p.TsrPath
		}
		req := httptest.NewRequest(http.MethodGet, path, nil)
		if p.Host != "" {
			req.Host = p.Host
		}
		w := fox.NewTestContextOnly(httptest.NewRecorder(), req).Writer()
		var (
			rte *fox.Route
			cc  fox.ContextCloser
			tsr bool
		)
		switch o.Entry {
		case "ERouter":
			rte, cc, tsr = f.Lookup(w, req)
		default:
			txn := f.Txn(o.Entry == "ETxnWrite")
			defer txn.Abort()
			rte, cc, tsr = txn.Lookup(w, req)
		}
		if rte == nil {
			return "ObsLookupNone"
		}
		defer cc.Close()
		own, cl := viewTerm(cc), viewTerm(cc.Clone())
		cp := cc.CloneWith(cc.Writer(), cc.Request())
		cw := viewTerm(cp)
		cp.Close()
		if o.Mw {
			rte.HandleMiddleware(cc)
		} else {
			rte.Handle(cc)
		}
		down := "None"
		if rec.down != "" {
			down = "(Some " + rec.down + ")"
		}
		return fmt.Sprintf("(ObsLookup %s %s %s %s %s)", hx.Bool(tsr), own, cl, cw, down)
	}
	rte := f.Route(http.MethodGet, p.Pattern)
	if rte == nil {
		return "(ObsSnap None)"
	}
	return "(ObsSnap (Some " + snapTerm(rte, p) + "))"
}

// ---------- generators ----------

type gen struct{ rnd *hx.Rand }

func (g *gen) ms(nilPct int) []bool {
	n := g.rnd.Range(1, 3)
	out := make([]bool, n)
	for i := range out {
		out[i] = !g.rnd.Pct(nilPct)
	}
	return out
}
func (g *gen) gopts(invalidPct int, allowDefault bool) []GOpt {
	n := g.rnd.Range(0, 7)
	var out []GOpt
	for i := 0; i < n; i++ {
		switch r := g.rnd.Intn(100); {
		case r < 18:
			out = append(out, GOpt{Kind: "redirect", B: g.rnd.Pct(65)})
		case r < 36:
			out = append(out, GOpt{Kind: "ignore", B: g.rnd.Pct(65)})
		case r < 54:
			res := g.rnd.Range(1, 4)
			if g.rnd.Pct(30) {
				res = -1
			}
			out = append(out, GOpt{Kind: "clientip", Res: res})
		case r < 62:
			out = append(out, GOpt{Kind: "mw", Ms: g.ms(invalidPct)})
		case r < 66:
			out = append(out, GOpt{Kind: "mwfor", Scope: uint8(g.rnd.Intn(256)), Ms: g.ms(invalidPct)})
		case r < 70:
			out = append(out, GOpt{Kind: "norouteh", B: !g.rnd.Pct(invalidPct)})
		case r < 76:
			out = append(out, GOpt{Kind: "nomethodh", B: !g.rnd.Pct(invalidPct)})
		case r < 82:
			out = append(out, GOpt{Kind: "optionsh", B: !g.rnd.Pct(invalidPct)})
		case r < 89:
			out = append(out, GOpt{Kind: "nomethod", B: g.rnd.Bool()})
		case r < 96:
			out = append(out, GOpt{Kind: "autooptions", B: g.rnd.Bool()})
		default:
			if allowDefault {
				out = append(out, GOpt{Kind: "default"})
			}
		}
	}
	return append(out, GOpt{Kind: "mw", Ms: []bool{true}}) // the probe middleware
}
func (g *gen) ropts(invalidPct int) []ROpt {
	n := g.rnd.Range(0, 6)
	var out []ROpt
	for i := 0; i < n; i++ {
		switch r := g.rnd.Intn(100); {
		case r < 20:
			out = append(out, ROpt{Kind: "redirect", B: g.rnd.Pct(65)})
		case r < 40:
			out = append(out, ROpt{Kind: "ignore", B: g.rnd.Pct(65)})
		case r < 60:
			res := g.rnd.Range(5, 8)
			if g.rnd.Pct(40) {
				res = -1
			}
			out = append(out, ROpt{Kind: "clientip", Res: res})
		case r < 88:
			o := ROpt{Kind: "annot", KeyK: "hash", KeyID: g.rnd.Intn(5), Val: g.rnd.Range(-1, 9)}
			if g.rnd.Pct(invalidPct) {
				o.KeyK = hx.Pick(g.rnd, []string{"nil", "unhashdyn", "noncomp"})
			}
			out = append(out, o)
		default:
			out = append(out, ROpt{Kind: "mw", Ms: g.ms(invalidPct)})
		}
	}
	return out
}

var invalidPatterns = []string{"noslash", "", "/k/{}", "/k/{a", "/k/*", "/k/*x", "/k/{a}b", "/k/{a{b}}", "/k/{a/b}", "/k/*{a", "/k/*{}", "/k/*{a}b",
	"*{x}.com/a", ".a.com/b", "-a.com/b", "{a.b}.com/x", "a.{}.com/"}

const (
	alnum     = "abcdefghijklmnopqrstuvwxyzABCDEFGHIJKLMNOPQRSTUVWXYZ0123456789"
	letters   = "abcdefghijklmnopqrstuvwxyzABCDEFGHIJKLMNOPQRSTUVWXYZ"
	hostInner = alnum + "_-"
	nameChars = alnum + "_-"
	pathName  = alnum + "_-.:~,;=@"         // bytes parseRoute allows inside a {name} of the path
	segChars  = alnum + "-._~!$&'()+,;=:@" // legal path bytes that need no escaping in a request target
)

func (g *gen) str(first, inner, last string, n int) string {
	b := make([]byte, n)
	for i := range b {
		switch {
		case i == 0:
			b[i] = first[g.rnd.Intn(len(first))]
		case i == n-1:
			b[i] = last[g.rnd.Intn(len(last))]
		default:
			b[i] = inner[g.rnd.Intn(len(inner))]
		}
	}
	return string(b)
}
func (g *gen) length(long int) int {
	if g.rnd.Pct(6) {
		return g.rnd.Range(long/2, long)
	}
	return g.rnd.Range(1, 7)
}

// label: a hostname label as parseRoute accepts it - letters of both cases, digits, '_', '-' (not first, not last), <= 63 bytes
func (g *gen) label() string { return g.str(letters, hostInner, alnum, g.length(63)) }

// name: a wildcard name; inside the hostname '.' is the delimiter, inside the path more bytes are legal
func (g *gen) name(inHost bool) string {
	if inHost {
		return g.str(nameChars, nameChars, nameChars, g.length(40))
	}
	return g.str(pathName, pathName, pathName, g.length(40))
}

// seg: a static path segment (starts with a letter: never "." or "..")
func (g *gen) seg() string { return g.str(letters, segChars, segChars, g.length(30)) }

func (g *gen) pattern(key int, invalidPct int) Pat {
	if g.rnd.Pct(invalidPct) {
		return Pat{Pattern: hx.Pick(g.rnd, invalidPatterns), Path: "/zz/invalid/pattern"}
	}
	var pat, host, rhost strings.Builder
	if g.rnd.Pct(40) {
		// Hosts of different keys must not conflict in the tree: the first label of key k is static and starts with
		// its own letter ('A'+k, either case), except that key 0 may start with a wildcard label.
		nl := g.rnd.Range(2, 4)
		long := false
		lbl := func() string {
			l := g.label()
			if len(l) > 7 {
				if long { // at most one long label: the whole hostname stays under 255 bytes
					l = l[:5] + "z"
				}
				long = true
			}
			return l
		}
		for i := 0; i < nl; i++ {
			if i > 0 {
				host.WriteByte('.')
				rhost.WriteByte('.')
			}
			r := g.rnd.Intn(100)
			if i == 0 && (key != 0 || r >= 35) {
				first := string(rune('A' + key))
				if g.rnd.Bool() {
					first = strings.ToLower(first)
				}
				l := lbl()
				l = first + l[1:]
				if len(l) == 1 || (len(l) < 60 && g.rnd.Pct(20)) {
					l += "9"
				}
				host.WriteString(l)
				rhost.WriteString(l)
				continue
			}
			switch {
			case r < 25: // a whole-label wildcard
				fmt.Fprintf(&host, "{%s}", g.name(true))
				rhost.WriteString("v9")
			case r < 35: // prefix + wildcard
				pre := g.str(letters, alnum, alnum, g.rnd.Range(1, 3))
				fmt.Fprintf(&host, "%s{%s}", pre, g.name(true))
				rhost.WriteString(pre + "V")
			default:
				l := lbl()
				host.WriteString(l)
				rhost.WriteString(l)
			}
		}
	}
	var path strings.Builder
	fmt.Fprintf(&pat, "/k%d", key)
	fmt.Fprintf(&path, "/k%d", key)
	n := g.rnd.Range(0, 3)
	catchAll, lastStatic := false, true
	for i := 0; i < n && !catchAll; i++ {
		switch r := g.rnd.Intn(100); {
		case r < 40:
			sg := g.seg()
			pat.WriteString("/" + sg)
			path.WriteString("/" + sg)
			lastStatic = true
		case r < 70:
			fmt.Fprintf(&pat, "/{%s}", g.name(false))
			path.WriteString("/val")
			lastStatic = false
		case r < 80:
			pre := g.str(letters, alnum, alnum, g.rnd.Range(1, 3))
			fmt.Fprintf(&pat, "/%s{%s}", pre, g.name(false))
			path.WriteString("/" + pre + "val")
			lastStatic = false
		case r < 90 && i == n-1:
			fmt.Fprintf(&pat, "/*{%s}", g.name(false))
			path.WriteString("/c/d")
			catchAll, lastStatic = true, false
		default:
			if i == n-1 {
				fmt.Fprintf(&pat, "/f*{%s}", g.name(false))
				path.WriteString("/fc/d")
				catchAll, lastStatic = true, false
			} else {
				fmt.Fprintf(&pat, "/*{%s}/end", g.name(false)) // infix catch-all
				path.WriteString("/c/d/end")
				lastStatic = true
			}
		}
	}
	p := Pat{Valid: true, Host: rhost.String()}
	tsr := ""
	if lastStatic {
		if g.rnd.Pct(30) {
			pat.WriteString("/")
			tsr = path.String()
			path.WriteString("/")
		} else {
			tsr = path.String() + "/"
		}
	}
	p.Pattern, p.Path, p.TsrPath = host.String()+pat.String(), path.String(), tsr
	return p
}

func (g *gen) ops(pats []Pat, invalidPct int) []Op {
	n := g.rnd.Range(3, 9)
	var out []Op
	reg := map[int]bool{}
	keyFor := func(wantReg bool) int {
		key := g.rnd.Intn(len(pats))
		if g.rnd.Pct(75) {
			for k := 0; k < len(pats); k++ {
				if reg[(key+k)%len(pats)] == wantReg {
					return (key + k) % len(pats)
				}
			}
		}
		return key
	}
	probe := func(key int) Op {
		pr := g.rnd.Intn(5)
		if pr == 1 && pats[key].TsrPath == "" {
			pr = 0
		}
		return Op{Kind: "probe", Key: key, Probe: pr}
	}
	lookup := func(key int, entry string, adj, mw bool) Op {
		if pats[key].TsrPath == "" {
			adj = false
		}
		return Op{Kind: "lookup", Key: key, Entry: entry, Adj: adj, Mw: mw}
	}
	for i := 0; i < n; i++ {
		r := g.rnd.Intn(100)
		if i == 0 && g.rnd.Pct(85) {
			r = 0 // start by creating a route most of the time
		}
		switch {
		case r < 40:
			via := "VHandle"
			key := keyFor(false)
			if v := g.rnd.Intn(100); v < 25 {
				via, key = "VUpdate", keyFor(true)
			} else if v < 50 {
				via = "VNewRoute"
			}
			handler := true
			if via != "VNewRoute" && g.rnd.Pct(invalidPct) { // NewRoute(nil handler) has its own stream
				handler = false
			}
			out = append(out, Op{Kind: "create", Via: via, Key: key, Handler: handler, Opts: g.ropts(invalidPct)})
			if pats[key].Valid && handler {
				reg[key] = true
			}
		case r < 66:
			out = append(out, probe(keyFor(true)))
		case r < 78:
			out = append(out, lookup(keyFor(true), hx.Pick(g.rnd, entryNames), g.rnd.Bool(), g.rnd.Bool()))
		case r < 89:
			out = append(out, Op{Kind: "annotget", Key: keyFor(true), AKey: g.rnd.Intn(5)})
		default:
			out = append(out, Op{Kind: "access", Key: keyFor(true)})
		}
	}
	key := keyFor(true)
	for pr := 0; pr < 5; pr++ {
		if pr == 1 && pats[key].TsrPath == "" {
			continue
		}
		out = append(out, Op{Kind: "probe", Key: key, Probe: pr})
	}
	for i, e := range entryNames { // every secondary entry point, direct and slash-adjusted
		out = append(out, lookup(key, e, false, i%2 == 0), lookup(key, e, true, i%2 == 1))
	}
	out = append(out, Op{Kind: "access", Key: key})
	for k := 0; k < 5; k++ { // every annotation key the generator uses
		out = append(out, Op{Kind: "annotget", Key: key, AKey: k})
	}
	return out
}

// ---------- main ----------

func main() {
	args := hx.Args()
	out := args["out"]
	tier := args["tier"]
	shards := hx.Atoi(args["shards"], 8)
	rnd := hx.NewRand(hx.Seed())

	cs := &hx.Cases{
		Header: "From FoxBase Require Import Bytes.\nFrom FoxC19 Require Import Types Corr.\n",
		Type:   "case",
		Footer: "Definition mism := Eval vm_compute in mismatches cases.\nPrint mism.\n" +
			"Definition viol := Eval vm_compute in spec_violations cases.\nPrint viol.\n" +
			"Definition oof := Eval vm_compute in fuel_outs cases.\nPrint oof.\n" +
			"Definition known_newroute_nil_handler := Eval vm_compute in Corr.known_newroute_nil_handler cases.\nPrint known_newroute_nil_handler.\n",
	}
	st := &hx.Stats{Rule: "a case = 0-7 seeded global options (trailing-slash modes on/off, resolvers incl. nil, middleware incl. nil, nil/non-nil special handlers, NoMethod/AutoOptions, DefaultOptions) + the probing middleware; 3 patterns built from tokens (static, {param}, prefix{param}, suffix / infix catch-all, optional hostname with wildcards, optional trailing slash; an invalid-pattern stream); 3-9 operations (Handle / Update / NewRoute+HandleRoute with 0-6 route options: both trailing-slash modes, resolvers incl. nil, annotations with hashable / nil / unhashable-dynamic / non-comparable keys and nil values, middleware incl. nil; requests exact / trailing-slash-toggled / unmatched / POST / OPTIONS; Route.Annotation; accessors) + a closing sweep; exhaustive: all sequences of <= L global and <= L route trailing-slash options; router resolver x route resolver (inherited / own / nil) x route trailing-slash mode x five request shapes x {Router.Lookup, Txn.Lookup read-only, Txn.Lookup write} x {direct, slash-adjusted} x {Route.Handle, Route.HandleMiddleware}. Every request reads ClientIP and Route().Pattern() on the middleware's context, on c.Clone(), on c.CloneWith(...) and in the route handler that receives the CloneWith copy. non-trivial = a route was created with at least one route option or a create operation failed; distinct = distinct (options, patterns, operations)"}
	seen := map[string]bool{}
	nontrivial := 0

	add := func(gopts []GOpt, pats []Pat, ops []Op, kind string) {
		rec := &probeRec{}
		opts := make([]fox.GlobalOption, len(gopts))
		for i, g := range gopts {
			opts[i] = globalOption(g, rec, i == len(gopts)-1)
		}
		var (
			f        *fox.Router
			err      error
			panicked bool
		)
		func() {
			defer func() {
				if r := recover(); r != nil {
					panicked = true
				}
			}()
			f, err = fox.New(opts...)
		}()
		gterm := hx.ListOf(gopts, goptTerm)
		pterm := hx.ListOf(pats, patTerm)
		oterm := hx.ListOf(ops, opTerm)
		key := gterm + "|" + pterm + "|" + oterm
		if seen[key] {
			return
		}
		seen[key] = true
		var result string
		var human []string
		nt := false
		switch {
		case panicked:
			result = "RPanic"
			nt = true
		case err != nil:
			result = "(RNewErr " + strings.TrimSuffix(strings.TrimPrefix(errTerm(err), "(Some "), ")") + ")"
			st.Count("new:error")
			nt = true
		default:
			info := f.Stats()
			var obs []string
			for _, o := range ops {
				b := runOp(f, rec, pats, o)
				obs = append(obs, b)
				human = append(human, opTerm(o)+" => "+b)
				st.Count("op:" + o.Kind)
				if o.Kind == "create" {
					st.Count("create:" + o.Via)
					if strings.HasPrefix(b, "(ObsErr (Some ") {
						st.Count("create-outcome:" + strings.Fields(strings.TrimPrefix(b, "(ObsErr (Some "))[0])
						nt = true
					} else if len(o.Opts) > 0 {
						nt = true
					}
					for _, ro := range o.Opts {
						st.Count("ropt:" + ro.Kind)
						if ro.Kind == "annot" {
							st.Count("annot-key:" + ro.KeyK)
						}
					}
				}
				if o.Kind == "probe" {
					st.Count("probe:" + probeNames[o.Probe])
					if strings.HasPrefix(b, "(ObsProbe ") {
						st.Count("handler:" + strings.Fields(strings.TrimPrefix(b, "(ObsProbe "))[0])
					}
				}
				if b == "ObsPanic" {
					st.Count("outcome:panic")
				}
			}
			result = fmt.Sprintf("(RRun (%s, %s, %s, %s, %s) %s)", hx.Bool(info.RedirectTrailingSlash), hx.Bool(info.IgnoreTrailingSlash),
				hx.Bool(info.ClientIP), hx.Bool(info.MethodNotAllowed), hx.Bool(info.AutoOptions), hx.List(obs))
		}
		for _, g := range gopts {
			st.Count("gopt:" + g.Kind)
		}
		for _, p := range pats {
			if !p.Valid {
				st.Count("pattern:invalid")
			} else if strings.HasPrefix(p.Pattern, "/") {
				st.Count("pattern:path-only")
			} else {
				st.Count("pattern:hostname")
			}
		}
		if nt {
			nontrivial++
		}
		h := fmt.Sprintf("fox.New(%s); patterns %s; %s  [result %s]", gterm, pterm, strings.Join(human, " ;; "), result)
		if len(human) > 0 {
			h = fmt.Sprintf("fox.New(%s); patterns %s; %s", gterm, pterm, strings.Join(human, " ;; "))
		}
		cs.Add(fmt.Sprintf("(Case %s %s %s %s)", gterm, pterm, oterm, result), h)
		st.Count("kind:" + kind)
		if len(st.Samples) < 8 && nt && rnd.Pct(2) {
			st.Samples = append(st.Samples, h)
		}
	}

	nrand, ninv, nnil, L := 450, 120, 25, 2
	if tier == "thorough" {
		nrand, ninv, nnil, L = 6000, 1500, 200, 3
	}
	// exhaustive: trailing-slash option sequences on router and route
	ts := []struct {
		k string
		b bool
	}{{"redirect", true}, {"redirect", false}, {"ignore", true}, {"ignore", false}}
	var seqs [][]int
	var rec func(cur []int)
	rec = func(cur []int) {
		seqs = append(seqs, append([]int(nil), cur...))
		if len(cur) == L {
			return
		}
		for i := range ts {
			rec(append(cur, i))
		}
	}
	rec(nil)
	pat := Pat{Pattern: "/k0/seg", Path: "/k0/seg", TsrPath: "/k0/seg/", Valid: true}
	for _, gs := range seqs {
		for _, rs := range seqs {
			var gopts []GOpt
			for _, i := range gs {
				gopts = append(gopts, GOpt{Kind: ts[i].k, B: ts[i].b})
			}
			gopts = append(gopts, GOpt{Kind: "mw", Ms: []bool{true}})
			var ropts []ROpt
			for _, i := range rs {
				ropts = append(ropts, ROpt{Kind: ts[i].k, B: ts[i].b})
			}
			add(gopts, []Pat{pat}, []Op{{Kind: "create", Via: "VHandle", Key: 0, Handler: true, Opts: ropts}, {Kind: "probe", Key: 0, Probe: 1}, {Kind: "access", Key: 0}}, "exhaustive-ts")
		}
	}
	// accessor identities on a fixed list of patterns using the whole alphabet parseRoute accepts: upper / lower case,
	// digits, '-', '_' in hostname labels and wildcard names, less common legal path bytes, long labels and names;
	// each is created with Handle, read, replaced with Update, read again, and reached through Lookup
	long63 := strings.Repeat("Ab3-_", 12) + "Zz9"
	long40 := strings.Repeat("N_a-9", 8)
	for _, pp := range []Pat{
		{Pattern: "API.Example.com/users/{id}", Host: "API.Example.com", Path: "/users/7"},
		{Pattern: "{Tenant}.example.com/", Host: "acme.example.com", Path: "/"},
		{Pattern: "a-b_C.D0-9_x.Org/A-b_c/{X-y_Z.0}", Host: "a-b_C.D0-9_x.Org", Path: "/A-b_c/v"},
		{Pattern: "x{SubDomain_9-a}.H.{TLD}/p/*{Rest.Of-It}", Host: "xq.H.io", Path: "/p/a/b"},
		{Pattern: long63 + ".Example.COM/" + long40 + "/{" + long40 + "}", Host: long63 + ".Example.COM", Path: "/" + long40 + "/v"},
		{Pattern: "/~user/!$&'()+,;=:@/{a:b}/c.d", Path: "/~user/!$&'()+,;=:@/v/c.d"},
		{Pattern: "/UPPER/lower/MiXeD/{ID}/*{Path}/End", Path: "/UPPER/lower/MiXeD/1/x/y/End"},
		{Pattern: "_under.score-dash.X9/{a}/{B}/{c_D}", Host: "_under.score-dash.X9", Path: "/1/2/3"},
		{Pattern: "9lives.Cat/x", Host: "9lives.Cat", Path: "/x"},
	} {
		pp.Valid = true
		for _, via := range []string{"VHandle", "VNewRoute"} {
			add([]GOpt{{Kind: "mw", Ms: []bool{true}}}, []Pat{pp}, []Op{
				{Kind: "create", Via: via, Key: 0, Handler: true, Opts: []ROpt{{Kind: "annot", KeyK: "hash", KeyID: 1, Val: 4}}},
				{Kind: "access", Key: 0}, {Kind: "probe", Key: 0, Probe: 0}, {Kind: "annotget", Key: 0, AKey: 1},
				{Kind: "create", Via: "VUpdate", Key: 0, Handler: true, Opts: []ROpt{{Kind: "clientip", Res: 6}}},
				{Kind: "access", Key: 0}, {Kind: "probe", Key: 0, Probe: 0}, {Kind: "annotget", Key: 0, AKey: 1},
				{Kind: "lookup", Key: 0, Entry: "ERouter"}, {Kind: "create", Via: "VOnly", Key: 0, Handler: true}}, "accessor-alphabet")
		}
	}
	// exhaustive: WithMiddlewareFor with EVERY scope value 0..255 x {valid, nil, valid then nil}: the nil check does
	// not depend on the scope, and a valid middleware is registered whatever the scope is
	for sc := 0; sc < 256; sc++ {
		for _, ms := range [][]bool{{true}, {false}, {true, false}} {
			add([]GOpt{{Kind: "mwfor", Scope: uint8(sc), Ms: ms}, {Kind: "mw", Ms: []bool{true}}}, []Pat{pat},
				[]Op{{Kind: "create", Via: "VOnly", Key: 0, Handler: true}}, "exhaustive-scope-nil")
		}
	}
	// exhaustive: nil in every position of middleware lists up to length 3 (global WithMiddleware, WithMiddlewareFor,
	// route WithMiddleware), nil special handlers, every annotation key kind x nil / non-nil value, nil handler x every
	// way of creating a route
	var lists [][]bool
	for n := 1; n <= 3; n++ {
		for bits := 0; bits < 1<<n; bits++ {
			l := make([]bool, n)
			for i := range l {
				l[i] = bits&(1<<i) != 0
			}
			lists = append(lists, l)
		}
	}
	probeOpt := GOpt{Kind: "mw", Ms: []bool{true}}
	one := []Op{{Kind: "create", Via: "VHandle", Key: 0, Handler: true}, {Kind: "access", Key: 0}}
	for _, l := range lists {
		add([]GOpt{{Kind: "mw", Ms: l}, probeOpt}, []Pat{pat}, one, "exhaustive-args")
		add([]GOpt{{Kind: "mwfor", Scope: 128, Ms: l}, probeOpt}, []Pat{pat}, one, "exhaustive-args")
		for _, via := range []string{"VHandle", "VUpdate", "VNewRoute", "VOnly"} {
			add([]GOpt{probeOpt}, []Pat{pat}, []Op{{Kind: "create", Via: "VHandle", Key: 0, Handler: true},
				{Kind: "create", Via: via, Key: 0, Handler: true, Opts: []ROpt{{Kind: "mw", Ms: l}}}, {Kind: "access", Key: 0}}, "exhaustive-args")
		}
	}
	for _, k := range []string{"norouteh", "nomethodh", "optionsh"} {
		for _, b := range []bool{true, false} {
			add([]GOpt{{Kind: k, B: b}, probeOpt}, []Pat{pat}, one, "exhaustive-args")
			add([]GOpt{probeOpt, {Kind: "nomethod", B: false}, {Kind: k, B: b}, probeOpt}, []Pat{pat}, one, "exhaustive-args")
		}
	}
	for _, kk := range []string{"hash", "nil", "unhashdyn", "noncomp"} {
		for id := 0; id < 4; id++ {
			for _, val := range []int{-1, 7} {
				for _, via := range []string{"VHandle", "VOnly"} {
					add([]GOpt{probeOpt}, []Pat{pat}, []Op{{Kind: "create", Via: via, Key: 0, Handler: true,
						Opts: []ROpt{{Kind: "annot", KeyK: "hash", KeyID: 1, Val: 3}, {Kind: "annot", KeyK: kk, KeyID: id, Val: val}}}, {Kind: "annotget", Key: 0, AKey: id}}, "exhaustive-args")
				}
			}
		}
	}
	for _, via := range []string{"VHandle", "VUpdate", "VNewRoute", "VOnly"} {
		add([]GOpt{probeOpt}, []Pat{pat}, []Op{{Kind: "create", Via: "VHandle", Key: 0, Handler: true}, {Kind: "create", Via: via, Key: 0, Handler: false},
			{Kind: "create", Via: via, Key: 0, Handler: false, Opts: []ROpt{{Kind: "mw", Ms: []bool{false}}}}, {Kind: "access", Key: 0}}, "exhaustive-args")
	}
	// the wildcard limit: NewRoute (no registration) on patterns with n wildcards around every limit, the default
	// math.MaxUint16 included (the harness builds the patterns and counts the wildcards; Coq gets a compact term)
	type lim struct {
		set bool
		n   int
	}
	for _, l := range []lim{{false, 0}, {true, 65535}, {true, 0}, {true, 1}, {true, 3}, {true, 255}, {true, 256}, {true, 300}} {
		limit := 65535
		if l.set {
			limit = l.n
		}
		counts := []int{0, 1, limit - 1, limit, limit + 1, limit + 2}
		if limit == 65535 { // quarter-megabyte patterns: a handful is enough
			counts = []int{3, limit, limit + 1}
			if !l.set {
				counts = append(counts, limit+2, 65536+300)
				if tier == "thorough" {
					counts = append(counts, limit-1, 2*65536, 2*65536+1)
				}
			}
		}
		for _, n := range counts {
			if n < 0 {
				continue
			}
			gopts := []GOpt{probeOpt}
			if l.set {
				gopts = []GOpt{{Kind: "maxparams", N: 7}, {Kind: "maxparams", N: l.n}, probeOpt}
			}
			add(gopts, []Pat{manyWildcards(n)}, []Op{{Kind: "create", Via: "VOnly", Key: 0, Handler: true}}, "wildcard-limit")
		}
	}
	// exhaustive: all annotation sequences of length <= 3 over {k0:=1, k0:=2, k0:=nil, k1:=1}, then read both keys
	annots := []ROpt{{Kind: "annot", KeyK: "hash", KeyID: 0, Val: 1}, {Kind: "annot", KeyK: "hash", KeyID: 0, Val: 2},
		{Kind: "annot", KeyK: "hash", KeyID: 0, Val: -1}, {Kind: "annot", KeyK: "hash", KeyID: 1, Val: 1}}
	var arec func(cur []ROpt)
	arec = func(cur []ROpt) {
		add([]GOpt{{Kind: "mw", Ms: []bool{true}}}, []Pat{pat}, []Op{{Kind: "create", Via: "VHandle", Key: 0, Handler: true, Opts: append([]ROpt(nil), cur...)},
			{Kind: "annotget", Key: 0, AKey: 0}, {Kind: "annotget", Key: 0, AKey: 1}}, "exhaustive-annotations")
		if len(cur) == 3 {
			return
		}
		for _, a := range annots {
			arec(append(cur, a))
		}
	}
	arec(nil)
	// exhaustive: router-wide resolver {none, set} x route resolver {inherited, own, nil} x route trailing-slash mode
	// {none, ignore, redirect}, every special handler enabled, all five request shapes: ClientIP and Route read on the
	// handler's context, on a Clone, on a CloneWith copy and downstream of the middleware
	for _, gres := range []int{-2, 2} {
		for _, rres := range []int{-2, 6, -1} {
			for _, mode := range []string{"", "ignore", "redirect"} {
				gopts := []GOpt{{Kind: "nomethod", B: true}, {Kind: "autooptions", B: true}}
				if gres > 0 {
					gopts = append(gopts, GOpt{Kind: "clientip", Res: gres})
				}
				gopts = append(gopts, GOpt{Kind: "mw", Ms: []bool{true}})
				var ropts []ROpt
				if rres != -2 {
					ropts = append(ropts, ROpt{Kind: "clientip", Res: rres})
				}
				if mode != "" {
					ropts = append(ropts, ROpt{Kind: mode, B: true})
				}
				ops := []Op{{Kind: "create", Via: "VHandle", Key: 0, Handler: true, Opts: ropts}}
				for pr := 0; pr < 5; pr++ {
					ops = append(ops, Op{Kind: "probe", Key: 0, Probe: pr})
				}
				for _, e := range entryNames {
					for _, adj := range []bool{false, true} {
						for _, mw := range []bool{false, true} {
							ops = append(ops, Op{Kind: "lookup", Key: 0, Entry: e, Adj: adj, Mw: mw})
						}
					}
				}
				add(gopts, []Pat{pat}, ops, "exhaustive-resolver")
			}
		}
	}
	mk := func(invOpt, invPat int, allowDefault bool) ([]GOpt, []Pat) {
		g := &gen{rnd: rnd}
		pats := []Pat{g.pattern(0, invPat), g.pattern(1, invPat), g.pattern(2, invPat)}
		return g.gopts(invOpt, allowDefault), pats
	}
	for i := 0; i < nrand; i++ {
		gopts, pats := mk(0, 3, true)
		add(gopts, pats, (&gen{rnd: rnd}).ops(pats, 4), "random")
	}
	for i := 0; i < ninv; i++ {
		gopts, pats := mk(12, 25, true)
		add(gopts, pats, (&gen{rnd: rnd}).ops(pats, 20), "random-invalid")
	}
	// NewRoute with a nil handler, then HandleRoute and requests (no DefaultOptions: Recovery would swallow the panic)
	for i := 0; i < nnil; i++ {
		gopts, pats := mk(0, 0, false)
		g := &gen{rnd: rnd}
		ops := []Op{{Kind: "create", Via: "VNewRoute", Key: 0, Handler: false, Opts: g.ropts(0)}}
		if rnd.Bool() {
			ops = append(ops, Op{Kind: "probe", Key: 0, Probe: 0})
		}
		ops = append(ops, Op{Kind: "access", Key: 0}, Op{Kind: "probe", Key: 0, Probe: 3}, Op{Kind: "probe", Key: 0, Probe: 0})
		add(gopts, pats, ops, "newroute-nil-handler")
	}
	if len(st.Samples) == 0 {
		st.Samples = append(st.Samples, "(no sample drawn)")
	}
	st.Evaluations = cs.Len()
	st.DistinctNontrivial = nontrivial
	st.Exhaustive = false
	st.Extra = map[string]any{"exhaustive_scopes": []string{fmt.Sprintf("all sequences of <= %d global x <= %d route trailing-slash options (WithRedirectTrailingSlash / WithIgnoreTrailingSlash, true / false)", L, L)}}
	hx.Fatal(cs.Write(out, shards))
	hx.Fatal(st.Write(out))
	fmt.Printf("c19: %d cases written to %s\n", cs.Len(), out)
}
