// c11: serves generated requests with real fox routers and writes Coq case
// files comparing the outcome with FoxDispatch.Dispatch / Redirect (model) and
// DispatchSpec / Uri (specification).  Properties C11 and the dispatch/redirect
// half of C08.
//
// Per request it records
//   - the router options, tree.root (key, has children) and the methods that
//     have routes (own bookkeeping),
//   - the matcher's answer for the request's host and path under every method
//     root and under the request's method (Router.Lookup: route, tsr, params;
//     cross-checked against Router.Reverse) = the lookup function of the model,
//   - the ServeHTTP outcome: which handler ran (route handlers identify
//     themselves; one middleware per special scope identifies the others),
//     Context.Route/Pattern/Params/Scope inside it, status, Allow, Location.
package main

import (
	"bufio"
	"fmt"
	"net/http"
	"net/http/httptest"
	"net/url"
	"regexp"
	"sort"
	"strings"

	"foxverif/hx"

	"github.com/tigerwill90/fox"
)

type routeID struct {
	method, pattern string
	ign, red        bool
}

type obsT struct {
	n        int // handler observations (must be exactly 1)
	kind     string
	kmethod  string
	kpattern string
	routeNil bool
	rid      routeID
	ridKnown bool
	pattern  string
	params   [][2]string
	scope    fox.HandlerScope
	views    []viewT // Clone() and CloneWith() copies taken inside the handler
	named    [][2]string
}

// viewT is what a copy of the context shows
type viewT struct {
	name     string
	routeNil bool
	rid      routeID
	ridKnown bool
	pattern  string
	params   [][2]string
	scope    fox.HandlerScope
	named    [][2]string // Param(name) for every parameter name registered on the router
}

func namedOf(r *rtr, c fox.Context) [][2]string {
	var out [][2]string
	for _, n := range r.paramNames {
		out = append(out, [2]string{n, c.Param(n)})
	}
	return out
}

func viewOf(r *rtr, name string, c fox.Context) viewT {
	v := viewT{name: name}
	rt := c.Route()
	v.routeNil = rt == nil
	if rt != nil {
		v.rid, v.ridKnown = r.byPtr[rt]
	}
	v.pattern = c.Pattern()
	for prm := range c.Params() {
		v.params = append(v.params, [2]string{prm.Key, prm.Value})
	}
	v.scope = c.Scope()
	v.named = namedOf(r, c)
	return v
}

var cur *obsT

type rtr struct {
	f          *fox.Router
	nomethod   bool
	autoopt    bool
	global     string // rendering of the router-wide trailing-slash options, in the order given
	gIgn, gRed bool   // router-wide mode in force (folded from the options given)
	routes     []routeID
	byPtr      map[*fox.Route]routeID
	registered map[string]bool
	hosts      []string
	sig        string
	optsig     []string
	paramNames []string    // every parameter name of every route ever registered on this router
	pairs      [][2]string // near-miss pairs registered (static-label route, parameter-label route)
	curPair    int         // pair the request being generated aims at, -1 = none
	family     bool        // hostname route families with competing static / parameter labels
}

func record(r *rtr, c fox.Context, kind, m, p string) {
	if cur == nil {
		return
	}
	cur.n++
	if cur.n > 1 {
		cur.kind = "multi"
		return
	}
	cur.kind, cur.kmethod, cur.kpattern = kind, m, p
	rt := c.Route()
	cur.routeNil = rt == nil
	if rt != nil {
		cur.rid, cur.ridKnown = r.byPtr[rt]
	}
	cur.pattern = c.Pattern()
	for prm := range c.Params() {
		cur.params = append(cur.params, [2]string{prm.Key, prm.Value})
	}
	cur.scope = c.Scope()
	cur.named = namedOf(r, c)
	// the views obtained from the context: what a writer-wrapping middleware would pass down
	cur.views = append(cur.views, viewOf(r, "Clone", c.Clone()))
	cw := c.CloneWith(c.Writer(), c.Request())
	cur.views = append(cur.views, viewOf(r, "CloneWith", cw))
	cw.Close()
}

// prime puts the pooled contexts of the router's current tree in the state an earlier, unrelated request
// leaves them in, right before the observed request (back-to-back sequence on the same router):
//
//	mode 0  nothing extra: the sequence is whatever the generator served on this router before;
//	mode 1  a request SERVED by a wildcard route (direct match): wildcard parameters stay in c.params;
//	mode 2  a request served through an IGNORED trailing slash of a wildcard route, when the router has
//	        one (else as mode 1): c.tsr and c.tsrParams stay set.
//
// The primer is served twice through ServeHTTP (unobserved), then several contexts are taken out of the
// pool at once through Lookup and given back with what the match recorded (Close does not truncate), so
// that the observed request AND the copies its handler takes (CloneWith draws another pooled context) are
// built on contexts carrying foreign state. sync.Pool gives no guarantee, hence several.
func (r *rtr) prime(st *hx.Stats, mode int) {
	if mode == 0 {
		st.Count("sequence:natural")
		return
	}
	var prq *http.Request
	viaTsr := false
	try := func(wantTsr bool) {
		for _, id := range r.routes {
			if !strings.ContainsAny(id.pattern, "{*") || (wantTsr && !id.ign) {
				continue
			}
			host := "a.org"
			pat := id.pattern
			if i := strings.IndexByte(pat, '/'); i > 0 {
				host = paramNameRe.ReplaceAllString(pat[:i], "foo")
				pat = pat[i:]
			}
			path := paramNameRe.ReplaceAllString(strings.ReplaceAll(pat, "*{w}", "w/42"), "users")
			if wantTsr {
				if strings.HasSuffix(path, "/") {
					path = strings.TrimSuffix(path, "/")
				} else {
					path += "/"
				}
				if path == "" || id.method == "CONNECT" {
					continue
				}
			}
			rq, err := parseWire(id.method, path, host)
			if err != nil {
				continue
			}
			if rte, cc, tsr := r.f.Lookup(nil, rq); rte != nil {
				n := 0
				for range cc.Params() {
					n++
				}
				ign := rte.IgnoreTrailingSlashEnabled()
				cc.Close()
				if n > 0 && tsr == wantTsr && (!wantTsr || ign) {
					prq = rq
					viaTsr = wantTsr
					return
				}
			}
		}
	}
	if mode == 2 {
		try(true)
	}
	if prq == nil {
		try(false)
	}
	if prq == nil {
		st.Count("sequence:no-wildcard-route-to-prime-with")
		return
	}
	if viaTsr {
		st.Count("sequence:after-a-request-served-through-an-ignored-trailing-slash")
	} else {
		st.Count("sequence:after-a-served-wildcard-request")
	}
	for i := 0; i < 2; i++ {
		func() {
			defer func() { _ = recover() }()
			r.f.ServeHTTP(httptest.NewRecorder(), prq) // cur == nil: not observed
		}()
	}
	var held []fox.ContextCloser
	for i := 0; i < 4; i++ {
		if _, cc, _ := r.f.Lookup(nil, prq); cc != nil {
			held = append(held, cc)
		}
	}
	for _, cc := range held {
		cc.Close()
	}
}

var stdMethods = []string{"GET", "POST", "PUT", "DELETE", "OPTIONS", "HEAD", "PATCH", "CONNECT"}
var customMethods = []string{"PROPFIND", "FOO", "get", "QUERY", "M-SEARCH"}

var patternPool = []string{
	"/", "/a", "/a/", "/b", "/b/", "/ab", "/ab/", "/a/b", "/a/b/", "/{x}", "/{x}/", "/a/{x}", "/a/{x}/",
	"/{x}/b", "/{x}/b/", "/{x}/{y}", "/{x}/{y}/", "/*{w}", "/a/*{w}", "/b/*{w}/", "/a/b/{x}/", "/a{x}", "/a{x}/",
	"/c:d", "/c:d/", "/a/b/c", "/a/b/c/", "/ab/{x}", "/ab/{x}/", "/b/{x}/c/", "/{x}/b/{y}", "/{x}/{y}/{z}/", "/{x}/{y}/{z}",
}
var paramNameRe = regexp.MustCompile(`\{([^}]*)\}`)

// hostname route families in which a static label and a parameter label compete after a parameter label
// (and the other way round), with paths that exist only under one of the alternatives: a lookup follows
// the static label, fails on the path and backtracks inside the hostname
var hostFamily = []string{
	"{a}.b.com/x", "{a}.{c}.com/y", "{a}.b.com/{p}/x", "www.b.com/x", "www.{c}.com/y", "{a}.b.com/x/", "{a}.{c}.com/x/y",
	"{a}.{c}.com/{p}", "www.b.com/y/", "{a}.b.{d}/z", "{a}.b.com/z", "{a}.{c}.{d}/w", "foo.{c}.com/v", "{a}.z.com/v",
}
var familyHosts = []string{"foo.b.com", "foo.z.com", "www.b.com", "www.z.com", "foo.b.org", "bar.b.com", "foo.z.org", "b.com",
	"www.b.com", "foo.b.com", "api.example.com", "web.example.com"}
var familyPaths = []string{"/x", "/y", "/x/", "/y/", "/z", "/w", "/v", "/v/", "/x/y", "/q", "/q/x", "/", "/foo", "/foo/", "/x", "/y"}

// {static-label route, parameter-label route}: for the host named by the static label one of them matches
// the path directly and the other only after adding / removing the trailing slash
var nearMissPairs = [][2]string{
	{"www.b.com/x/", "{a}.b.com/x"}, {"www.b.com/x", "{a}.b.com/x/"},
	{"www.b.com/y/", "{a}.{c}.com/y"}, {"www.b.com/y", "{a}.{c}.com/y/"},
	{"foo.b.com/v/", "foo.{c}.com/v"}, {"foo.b.com/v", "{a}.b.com/v/"},
	{"api.example.com/foo/", "{sub}.example.com/foo"}, {"api.example.com/foo", "{sub}.example.com/foo/"},
	{"api.example.com/foo/", "{sub}.{dom}.com/foo"}, {"www.b.com/{p}/", "{a}.b.com/x"},
}

var hostPatterns = []string{"ex.com/", "ex.com/a/", "ex.com/{x}", "ex.com/{x}/", "{sub}.ex.com/a", "{sub}.ex.com/a/", "ex.com/a/b"}

var paramValues = []string{
	"x", "ab", "b", "a", "c", "a:b", "https:evil.com", "a%3Fb", "a%23b", "a%25b", "a%20b", "a%2Fb", "%C3%A9",
	"\xc3\xa9", "a;b", "a@b", "a+b", "~a", "a%3fb", "a,b", "a=b", "a%22b", "a!b", "a*b", "(a)", "a'b", "a$b", "a&b",
	"a%5Bb", ".a", "a.", "...", "c:d", ":", "a%3A", "a%3Ab", "x%2F", "1", "a-b_c",
}
var queries = []string{"", "", "", "q=1", "a=b&c=%20d", "x=a?b", "x=a/b", "x=%C3%A9", "x=\xc3\xa9", "a:b", "?", "a+b=c"}

// ---------- trailing-slash options: what was GIVEN, folded by the documented rule ----------
//
// The flags the model and the specification are fed never come from the Route's accessors: they are
// computed here from the options passed to fox.New / Handle (options.go doc comments): options apply in
// order, the last one wins; enabling one mode disables the other; a route starts from the router-wide
// mode in force when it is created.

type tsOpt struct {
	redirect bool // WithRedirectTrailingSlash, else WithIgnoreTrailingSlash
	enable   bool
}

func (o tsOpt) String() string {
	if o.redirect {
		return fmt.Sprintf("redirect(%v)", o.enable)
	}
	return fmt.Sprintf("ignore(%v)", o.enable)
}

func tsString(ops []tsOpt) string {
	var ss []string
	for _, o := range ops {
		ss = append(ss, o.String())
	}
	return strings.Join(ss, ",")
}

func foldTS(ign, red bool, ops []tsOpt) (bool, bool) {
	for _, o := range ops {
		if o.redirect {
			red = o.enable
			if o.enable {
				ign = false
			}
		} else {
			ign = o.enable
			if o.enable {
				red = false
			}
		}
	}
	return ign, red
}

func tsFox(o tsOpt) fox.Option {
	if o.redirect {
		return fox.WithRedirectTrailingSlash(o.enable)
	}
	return fox.WithIgnoreTrailingSlash(o.enable)
}

var allTsOpts = []tsOpt{{false, true}, {false, false}, {true, true}, {true, false}}

// every option list of length <= 2, in every order
func allTsLists() [][]tsOpt {
	out := [][]tsOpt{nil}
	for _, a := range allTsOpts {
		out = append(out, []tsOpt{a})
	}
	for _, a := range allTsOpts {
		for _, b := range allTsOpts {
			out = append(out, []tsOpt{a, b})
		}
	}
	return out
}

func buildRouter(nomethod, autoopt bool, gops []tsOpt) *rtr {
	r := &rtr{byPtr: map[*fox.Route]routeID{}, registered: map[string]bool{}, nomethod: nomethod, autoopt: autoopt}
	r.global = tsString(gops)
	r.gIgn, r.gRed = foldTS(false, false, gops)
	mw := func(kind string) fox.MiddlewareFunc {
		return func(next fox.HandlerFunc) fox.HandlerFunc {
			return func(c fox.Context) { record(r, c, kind, "", ""); next(c) }
		}
	}
	opts := []fox.GlobalOption{
		fox.WithNoMethod(nomethod), fox.WithAutoOptions(autoopt),
		fox.WithMiddlewareFor(fox.NoRouteHandler, mw("noroute")),
		fox.WithMiddlewareFor(fox.NoMethodHandler, mw("nomethod")),
		fox.WithMiddlewareFor(fox.OptionsHandler, mw("options")),
		fox.WithMiddlewareFor(fox.RedirectHandler, mw("redirect")),
	}
	for _, o := range gops {
		opts = append(opts, tsFox(o))
	}
	f, err := fox.New(opts...)
	hx.Fatal(err)
	r.f = f
	return r
}

// handle registers a route; its identity carries the flags that FOLLOW FROM THE OPTIONS GIVEN
func (r *rtr) handle(st *hx.Stats, m, p string, rops []tsOpt) error {
	var ro []fox.RouteOption
	for _, o := range rops {
		ro = append(ro, tsFox(o))
	}
	rte, err := r.f.Handle(m, p, func(c fox.Context) {
		record(r, c, "route", m, p)
		c.Writer().WriteHeader(http.StatusOK)
	}, ro...)
	if err != nil {
		return err
	}
	ign, red := foldTS(r.gIgn, r.gRed, rops)
	if ign != rte.IgnoreTrailingSlashEnabled() || red != rte.RedirectTrailingSlashEnabled() {
		st.Count("options:route-accessors-disagree-with-the-options-given")
	}
	id := routeID{m, p, ign, red}
	r.byPtr[rte] = id
	r.routes = append(r.routes, id)
	r.registered[m] = true
	if i := strings.IndexByte(p, '/'); i > 0 {
		r.hosts = append(r.hosts, p[:i])
	}
	for _, mm := range paramNameRe.FindAllStringSubmatch(p, -1) {
		known := false
		for _, n := range r.paramNames {
			known = known || n == mm[1]
		}
		if !known {
			r.paramNames = append(r.paramNames, mm[1])
		}
	}
	r.optsig = append(r.optsig, fmt.Sprintf("%s %s [%s]", m, p, tsString(rops)))
	return nil
}

func (r *rtr) makeSig() {
	var sb strings.Builder
	fmt.Fprintf(&sb, "nomethod=%v autooptions=%v global=[%s] routes=[", r.nomethod, r.autoopt, r.global)
	for i, id := range r.routes {
		if i > 0 {
			sb.WriteString(" ")
		}
		fmt.Fprintf(&sb, "%s %s", id.method, id.pattern)
		if id.ign {
			sb.WriteString(" (ignore-ts)")
		}
		if id.red {
			sb.WriteString(" (redirect-ts)")
		}
		sb.WriteString(";")
	}
	sb.WriteString("] options-given=[" + strings.Join(r.optsig, "; ") + "]")
	r.sig = sb.String()
}

func newRouter(rnd *hx.Rand, st *hx.Stats) *rtr {
	var gops []tsOpt
	switch rnd.Intn(10) {
	case 0, 1, 2:
	case 3, 4:
		gops = []tsOpt{{false, true}}
	case 5, 6:
		gops = []tsOpt{{true, true}}
	default:
		gops = hx.Pick(rnd, allTsLists())
	}
	r := buildRouter(rnd.Bool(), rnd.Bool(), gops)
	f := r.f

	// 2-5 methods, standard and custom
	nm := rnd.Range(2, 5)
	var methods []string
	seen := map[string]bool{}
	for len(methods) < nm {
		var m string
		if rnd.Pct(70) {
			m = hx.Pick(rnd, stdMethods)
		} else {
			m = hx.Pick(rnd, customMethods)
		}
		if !seen[m] {
			seen[m] = true
			methods = append(methods, m)
		}
	}
	withHosts := rnd.Pct(30)
	r.family = rnd.Pct(18)
	for _, m := range methods {
		nr := rnd.Range(1, 6)
		if rnd.Pct(10) {
			nr = 0 // a method that loses all its routes below, or never had one
		}
		for i := 0; i < nr; i++ {
			p := hx.Pick(rnd, patternPool)
			if withHosts && rnd.Pct(40) {
				p = hx.Pick(rnd, hostPatterns)
			}
			if r.family && rnd.Pct(75) {
				p = hx.Pick(rnd, hostFamily)
			}
			var rops []tsOpt
			switch rnd.Intn(10) {
			case 0, 1:
				rops = []tsOpt{{false, true}}
			case 2, 3:
				rops = []tsOpt{{true, true}}
			case 4, 5:
				rops = hx.Pick(rnd, allTsLists())
			}
			if err := r.handle(st, m, p, rops); err != nil {
				st.Count("register:rejected")
			}
		}
		// a trailing-slash near miss under the static label next to a direct match under the parameter label
		// (and the reverse), both under this method, in any trailing-slash mode
		if r.family && rnd.Pct(55) {
			pair := hx.Pick(rnd, nearMissPairs)
			for _, p := range pair {
				var rops []tsOpt
				switch rnd.Intn(6) {
				case 0:
					rops = []tsOpt{{false, true}}
				case 1:
					rops = []tsOpt{{true, true}}
				case 2:
					rops = hx.Pick(rnd, allTsLists())
				}
				if err := r.handle(st, m, p, rops); err != nil {
					st.Count("register:rejected")
				} else {
					st.Count("router:near-miss-pair-route")
				}
			}
			r.pairs = append(r.pairs, pair)
		}
	}
	// sometimes delete every route of one method: the root stays, without children
	if rnd.Pct(12) && len(r.routes) > 0 {
		m := r.routes[rnd.Intn(len(r.routes))].method
		var keep []routeID
		for _, id := range r.routes {
			if id.method == m {
				_, derr := f.Delete(id.method, id.pattern)
				hx.Fatal(derr)
			} else {
				keep = append(keep, id)
			}
		}
		r.routes = keep
		delete(r.registered, m)
		for p, id := range r.byPtr {
			if id.method == m {
				delete(r.byPtr, p)
			}
		}
		st.Count("router:method-emptied")
	}
	r.makeSig()
	return r
}

func instantiate(rnd *hx.Rand, pattern string) string {
	if i := strings.IndexByte(pattern, '/'); i > 0 {
		pattern = pattern[i:]
	}
	var sb strings.Builder
	for i := 0; i < len(pattern); i++ {
		switch pattern[i] {
		case '{':
			j := strings.IndexByte(pattern[i:], '}')
			sb.WriteString(hx.Pick(rnd, paramValues))
			i += j
		case '*':
			j := strings.IndexByte(pattern[i:], '}')
			sb.WriteString(hx.Pick(rnd, paramValues))
			if rnd.Pct(50) {
				sb.WriteString("/" + hx.Pick(rnd, paramValues))
			}
			i += j
		default:
			sb.WriteByte(pattern[i])
		}
	}
	return sb.String()
}

func genWire(rnd *hx.Rand, r *rtr, method string) string {
	var p string
	var same []routeID
	for _, id := range r.routes {
		if id.method == method {
			same = append(same, id)
		}
	}
	switch {
	case r.curPair >= 0 && r.curPair < len(r.pairs) && rnd.Pct(85):
		pt := r.pairs[r.curPair][rnd.Intn(2)]
		return paramNameRe.ReplaceAllString(pt[strings.IndexByte(pt, '/'):], "v")
	case r.family && rnd.Pct(60):
		return hx.Pick(rnd, familyPaths)
	case len(same) > 0 && rnd.Pct(45):
		p = instantiate(rnd, same[rnd.Intn(len(same))].pattern)
	case len(r.routes) > 0 && rnd.Pct(70):
		p = instantiate(rnd, r.routes[rnd.Intn(len(r.routes))].pattern)
	case rnd.Pct(70):
		p = instantiate(rnd, hx.Pick(rnd, patternPool))
	default:
		n := rnd.Range(1, 3)
		for i := 0; i < n; i++ {
			p += "/" + hx.Pick(rnd, paramValues)
		}
	}
	if rnd.Pct(50) { // toggle the trailing slash
		if strings.HasSuffix(p, "/") && len(p) > 1 {
			p = p[:len(p)-1]
		} else if !strings.HasSuffix(p, "/") {
			p += "/"
		}
	}
	if rnd.Pct(10) { // not clean
		switch rnd.Intn(4) {
		case 0:
			p = strings.Replace(p, "/", "//", 1)
		case 1:
			p = "/." + p
		case 2:
			p = "/x/.." + p
		case 3:
			p += "/"
		}
	}
	return p
}

type reqCase struct {
	req    *http.Request
	wire   string
	hasW   bool
	origin string
}

func parseWire(method, target, host string) (*http.Request, error) {
	raw := method + " " + target + " HTTP/1.1\r\nHost: " + host + "\r\n\r\n"
	return http.ReadRequest(bufio.NewReader(strings.NewReader(raw)))
}

func genRequest(rnd *hx.Rand, r *rtr, st *hx.Stats) *reqCase {
	// method
	var method string
	regs := hx.SortedKeys(r.registered)
	switch k := rnd.Intn(100); {
	case k < 40 && len(regs) > 0:
		method = hx.Pick(rnd, regs)
	case k < 55:
		method = "OPTIONS"
	case k < 65:
		method = "GET"
	case k < 73:
		method = "POST"
	case k < 80:
		method = "CONNECT"
	case k < 90:
		method = hx.Pick(rnd, customMethods)
	default:
		method = hx.Pick(rnd, stdMethods)
	}
	host := "other.org"
	if len(r.hosts) > 0 && rnd.Pct(70) {
		host = paramNameRe.ReplaceAllStringFunc(hx.Pick(rnd, r.hosts), func(string) string {
			return hx.Pick(rnd, []string{"foo", "foo", "b", "www", "z"})
		})
	}
	if r.family && rnd.Pct(75) {
		host = hx.Pick(rnd, familyHosts)
	}
	r.curPair = -1
	if len(r.pairs) > 0 && rnd.Pct(45) {
		// aim at a near-miss pair: the host named by the static label, the path of either route
		r.curPair = rnd.Intn(len(r.pairs))
		st0 := r.pairs[r.curPair][0]
		host = paramNameRe.ReplaceAllString(st0[:strings.IndexByte(st0, '/')], "foo")
	}
	// decorations of the Host: port, trailing dot, and the doubly-decorated forms of which only one
	// layer may be removed (so they do NOT name the registered hostname)
	switch k := rnd.Intn(100); {
	case r.curPair >= 0 && k < 80:
	case k < 8:
		host += ":8080"
	case k < 14:
		host += "."
	case k < 18:
		host += ".:8080"
	case k < 24:
		host += ".."
	case k < 30:
		host += "..:8080"
	case k < 36:
		host = "[" + host + ":80]:80"
	case k < 39:
		host += ".:80."
	}
	if rnd.Pct(8) {
		// hand-built request: URL.Path and URL.RawPath chosen independently
		p := genWire(rnd, r, method)
		rp := ""
		if rnd.Pct(70) {
			rp = genWire(rnd, r, method)
		}
		if rnd.Pct(30) {
			p = "/"
		}
		if rnd.Pct(10) {
			p = ""
		}
		rq := &http.Request{Method: method, URL: &url.URL{Path: p, RawPath: rp, RawQuery: hx.Pick(rnd, queries)},
			Host: host, Header: http.Header{}, Proto: "HTTP/1.1", ProtoMajor: 1, ProtoMinor: 1}
		st.Count("request:hand-built")
		return &reqCase{req: rq, origin: "hand-built"}
	}
	var wire string
	switch k := rnd.Intn(100); {
	case k < 6:
		wire = "*"
		if rnd.Pct(70) {
			method = "OPTIONS"
		}
	case k < 10:
		wire = "/"
	default:
		wire = genWire(rnd, r, method)
	}
	target := wire
	if q := hx.Pick(rnd, queries); q != "" && wire != "*" {
		target += "?" + q
	}
	if method == "CONNECT" && rnd.Pct(30) {
		target = "ex.com:443" // authority form: URL.Path is empty
		rq, err := parseWire(method, target, host)
		if err != nil {
			st.Count("request:rejected-by-net/http")
			return nil
		}
		st.Count("request:connect-authority")
		return &reqCase{req: rq, origin: "authority-form"}
	}
	rq, err := parseWire(method, target, host)
	if err != nil {
		st.Count("request:rejected-by-net/http")
		return nil
	}
	if method == "CONNECT" && !strings.HasPrefix(wire, "/") {
		// net/http reads a CONNECT target without a leading slash as an authority
		st.Count("request:connect-authority")
		return &reqCase{req: rq, origin: "authority-form"}
	}
	st.Count("request:parsed")
	return &reqCase{req: rq, wire: wire, hasW: true, origin: "wire"}
}

// ---------- emitters ----------

func scopeName(s fox.HandlerScope) string {
	switch s {
	case fox.RouteHandler:
		return "RouteHandler"
	case fox.NoRouteHandler:
		return "NoRouteHandler"
	case fox.NoMethodHandler:
		return "NoMethodHandler"
	case fox.RedirectHandler:
		return "RedirectHandler"
	case fox.OptionsHandler:
		return "OptionsHandler"
	}
	return "RouteHandler"
}

func rtTerm(id routeID) string {
	return fmt.Sprintf("(Build_rt %s %s %s %s)", hx.Bytes(id.method), hx.Bytes(id.pattern), hx.Bool(id.ign), hx.Bool(id.red))
}

func paramsTerm(ps [][2]string) string {
	return hx.ListOf(ps, func(p [2]string) string { return hx.Pair(hx.Bytes(p[0]), hx.Bytes(p[1])) })
}

type entry struct {
	method string
	found  bool
	id     routeID
	tsr    bool
	params [][2]string
}

func runCase(r *rtr, rc *reqCase, st *hx.Stats, mode int) (term, human string, nontrivial bool, kind string) {
	rq := rc.req
	path := rq.URL.Path
	if len(rq.URL.RawPath) > 0 {
		path = rq.URL.RawPath
	}
	dump := r.f.VerifDump()
	var roots []string
	var keys []string
	for _, n := range dump.Roots {
		roots = append(roots, hx.Pair(hx.Bytes(n.Key), hx.Bool(len(n.Children) > 0)))
		keys = append(keys, n.Key)
	}
	inKeys := false
	for _, k := range keys {
		if k == rq.Method {
			inKeys = true
		}
	}
	if !inKeys {
		keys = append(keys, rq.Method)
	}
	var table []entry
	for _, k := range keys {
		q := rq.Clone(rq.Context())
		q.Method = k
		e := entry{method: k}
		rte, cc, tsr := r.f.Lookup(nil, q)
		if rte != nil {
			e.found, e.tsr = true, tsr
			id, ok := r.byPtr[rte]
			if !ok || id.method != k {
				st.Count("harness:lookup-route-of-other-method")
				id = routeID{"<unknown>", rte.Pattern(), rte.IgnoreTrailingSlashEnabled(), rte.RedirectTrailingSlashEnabled()}
			}
			e.id = id
			for p := range cc.Params() {
				e.params = append(e.params, [2]string{p.Key, p.Value})
			}
			cc.Close()
		}
		if path != "" {
			rr, rtsr := r.f.Reverse(k, rq.Host, path)
			if (rr != nil) != e.found || (rr != nil && (rr != rte || rtsr != tsr)) {
				st.Count("harness:lazy-vs-nonlazy-lookup-disagree")
			}
		}
		table = append(table, e)
	}
	// what the non-lazy lookup for the request's own method leaves in the context
	_, _, recP, recT := r.f.VerifRecorded(rq.Method, rq.Host, path)
	toPairs := func(ps []fox.Param) [][2]string {
		var out [][2]string
		for _, p := range ps {
			out = append(out, [2]string{p.Key, p.Value})
		}
		return out
	}
	recParams, recTsr := toPairs(recP), toPairs(recT)
	tableTerm := hx.ListOf(table, func(e entry) string {
		return hx.Pair(hx.Bytes(e.method), hx.Opt(e.found, "("+rtTerm(e.id)+", "+hx.Bool(e.tsr)+", "+paramsTerm(e.params)+")"))
	})

	// serve, back to back after a served request with wildcard parameters on the same router
	r.prime(st, mode)
	o := &obsT{}
	cur = o
	w := httptest.NewRecorder()
	panicked := false
	func() {
		defer func() {
			if rec := recover(); rec != nil {
				panicked = true
			}
		}()
		r.f.ServeHTTP(w, rq)
	}()
	cur = nil

	var obsTerm, obsHuman string
	if panicked {
		obsTerm, obsHuman, kind = "None", "PANIC", "panic"
	} else {
		kind = o.kind
		var kt string
		switch o.kind {
		case "route":
			kt = "(KRoute " + hx.Bytes(o.kmethod) + " " + hx.Bytes(o.kpattern) + ")"
		case "redirect":
			kt = "KRedirect"
		case "options":
			kt = "KOptions"
		case "nomethod":
			kt = "KNoMethod"
		case "noroute":
			kt = "KNoRoute"
		default:
			kt = "KNone"
			kind = "none"
		}
		routeT := "None"
		routeH := "nil"
		if !o.routeNil {
			id := o.rid
			if !o.ridKnown {
				id = routeID{method: "<unregistered>", pattern: o.pattern}
			}
			routeT = "(Some " + hx.Pair(hx.Bytes(id.method), hx.Bytes(id.pattern)) + ")"
			routeH = id.method + " " + id.pattern
		}
		hdr, hasAllow := w.Header()["Allow"]
		allowHdr := ""
		var allowList []string
		if hasAllow {
			allowHdr = strings.Join(hdr, ",")
			for _, a := range strings.Split(allowHdr, ",") {
				allowList = append(allowList, strings.TrimSpace(a))
			}
		}
		loc, hasLoc := w.Header()["Location"]
		locS := strings.Join(loc, ",")
		viewsTerm := hx.ListOf(o.views, func(v viewT) string {
			rt := "None"
			if !v.routeNil {
				id := v.rid
				if !v.ridKnown {
					id = routeID{method: "<unregistered>", pattern: v.pattern}
				}
				rt = "(Some " + hx.Pair(hx.Bytes(id.method), hx.Bytes(id.pattern)) + ")"
			}
			return "(" + rt + ", " + hx.Bytes(v.pattern) + ", " + paramsTerm(v.params) + ", " + scopeName(v.scope) + ", " + paramsTerm(v.named) + ")"
		})
		obsTerm = fmt.Sprintf("(Some (Build_observed %s %s %s %s %s %s %s %s %s %s %s))", kt, routeT, hx.Bytes(o.pattern),
			paramsTerm(o.params), scopeName(o.scope), hx.Z(int64(w.Code)), hx.Opt(hasAllow, hx.Bytes(allowHdr)),
			hx.ListOf(allowList, hx.Bytes), hx.Opt(hasLoc, hx.Bytes(locS)), viewsTerm, paramsTerm(o.named))
		setList := append([]string(nil), allowList...)
		sort.Strings(setList)
		obsHuman = fmt.Sprintf("handler=%s %s %s status=%d ctx{route=%s pattern=%q params=%v scope=%s}", o.kind, o.kmethod, o.kpattern,
			w.Code, routeH, o.pattern, o.params, scopeName(o.scope))
		if hasAllow {
			obsHuman += fmt.Sprintf(" Allow=%q set=%v", allowHdr, setList)
		}
		if hasLoc {
			obsHuman += fmt.Sprintf(" Location=%q", locS)
		}
		nonEmpty := func(named [][2]string) [][2]string {
			var out [][2]string
			for _, nv := range named {
				if nv[1] != "" {
					out = append(out, nv)
				}
			}
			return out
		}
		obsHuman += fmt.Sprintf(" Param(name)!=\"\":%v", nonEmpty(o.named))
		for _, v := range o.views {
			vr := "nil"
			if !v.routeNil {
				vr = v.rid.method + " " + v.rid.pattern
			}
			obsHuman += fmt.Sprintf(" %s(){route=%s pattern=%q params=%v scope=%s Param(name)!=\"\":%v}", v.name, vr, v.pattern, v.params, scopeName(v.scope), nonEmpty(v.named))
		}
	}
	regs := hx.SortedKeys(r.registered)
	term = fmt.Sprintf("(Build_kase (Build_options %s %s) %s %s %s %s %s %s %s %s %s %s %s %s)",
		hx.Bool(r.nomethod), hx.Bool(r.autoopt), hx.List(roots), hx.ListOf(regs, hx.Bytes), tableTerm,
		hx.Bytes(rq.Method), hx.Opt(rc.hasW, hx.Bytes(rc.wire)), hx.Bytes(rq.URL.Path), hx.Bytes(rq.URL.RawPath),
		hx.Bytes(rq.URL.EscapedPath()), hx.Bytes(rq.URL.RawQuery), paramsTerm(recParams), paramsTerm(recTsr), obsTerm)
	var lk []string
	for _, e := range table {
		if e.found {
			lk = append(lk, fmt.Sprintf("%s->%s(tsr=%v,ign=%v,red=%v)", e.method, e.id.pattern, e.tsr, e.id.ign, e.id.red))
		} else {
			lk = append(lk, e.method+"->nil")
		}
	}
	human = fmt.Sprintf("router{%s} request{%s %s Host=%s URL.Path=%q RawPath=%q RawQuery=%q origin=%s} lookup{%s} => %s",
		r.sig, rq.Method, hx.Quote(rc.wire), rq.Host, rq.URL.Path, rq.URL.RawPath, rq.URL.RawQuery, rc.origin,
		strings.Join(lk, " "), obsHuman)
	branch := "no-match"
	for _, e := range table {
		if e.method == rq.Method && e.found {
			switch {
			case !e.tsr:
				branch = "direct"
			case rq.Method == "CONNECT" || rq.URL.Path == "/":
				branch = "tsr:connect-or-root"
			case e.id.ign:
				branch = "tsr:ignore"
			case e.id.red && fox.CleanPath(path) == path:
				branch = "tsr:redirect"
			case e.id.red:
				branch = "tsr:redirect-unclean"
			default:
				branch = "tsr:no-option"
			}
		}
	}
	st.Count("branch:" + branch)
	if kind != "route" && kind != "redirect" && len(recParams) > 0 {
		st.Count("scrub:leftover-params-before-special-handler")
	}
	nontrivial = kind != "route" || (len(table) > 0 && func() bool {
		for _, e := range table {
			if e.method == rq.Method && e.found && e.tsr {
				return true
			}
		}
		return false
	}())
	return
}

// probe: which variant of the redirect handler does the tree under test implement?
func probeVariant() (string, string) {
	f, err := fox.New(fox.WithRedirectTrailingSlash(true))
	hx.Fatal(err)
	_, err = f.Handle("GET", "/{x}/", func(c fox.Context) {})
	hx.Fatal(err)
	rq, err := parseWire("GET", "/https:evil.com", "a.org")
	hx.Fatal(err)
	w := httptest.NewRecorder()
	f.ServeHTTP(w, rq)
	loc := w.Header().Get("Location")
	if loc == "https:evil.com/" {
		return "LocAsIs", loc
	}
	return "LocFixed", loc
}

// fixed cases run first: witnesses of the refuted / partial theorems and of the listed finding
func corpus(st *hx.Stats, add func(r *rtr, rc *reqCase, tag string)) {
	type rdef struct{ m, p, opt string }
	type c struct {
		nomethod, autoopt bool
		global            string
		routes            []rdef
		method, target    string
		host              string
	}
	cases := []c{
		{false, false, "redirect", []rdef{{"GET", "/{x}/", ""}}, "GET", "/https:evil.com", ""},
		{false, false, "redirect", []rdef{{"GET", "/{x}/", ""}}, "GET", "/a%3Fb?q=1", ""},
		{false, false, "redirect", []rdef{{"GET", "/{x}/", ""}}, "GET", "/a%23b", ""},
		{false, false, "redirect", []rdef{{"GET", "/{x}/", ""}}, "GET", "/a%25b", ""},
		{false, false, "redirect", []rdef{{"POST", "/{x}/", ""}}, "POST", "/a%20b", ""},
		{false, false, "redirect", []rdef{{"POST", "/a/{x}", ""}}, "POST", "/a/c:d/?x=1", ""},
		{false, false, "redirect", []rdef{{"GET", "/foo/{bar}/", ""}}, "GET", "/foo/bar%2Fbaz", ""},
		{false, false, "redirect", []rdef{{"GET", "/foo/bar/", ""}}, "GET", "/foo/bar?a=b", ""},
		{true, true, "", []rdef{{"GET", "/a", ""}, {"POST", "/a/", "ignore"}, {"PUT", "/a/", "redirect"}, {"FOO", "/a", ""}}, "DELETE", "/a", ""},
		{true, true, "", []rdef{{"GET", "/a", ""}, {"POST", "/a/", "ignore"}, {"PUT", "/a/", "redirect"}, {"FOO", "/a", ""}}, "OPTIONS", "/a", ""},
		{true, true, "", []rdef{{"GET", "/a", ""}, {"FOO", "/b", ""}, {"OPTIONS", "/c", ""}}, "OPTIONS", "*", ""},
		{true, false, "", []rdef{{"GET", "/{x}/y", ""}, {"POST", "/{x}/z", ""}}, "GET", "/v/z", ""},
		{false, true, "ignore", []rdef{{"CONNECT", "/a/", ""}, {"GET", "/a/", ""}}, "CONNECT", "/a", ""},
		{true, false, "redirect", []rdef{{"GET", "/{x}/{y}/", ""}, {"POST", "/{x}/{y}", ""}}, "GET", "/./a", ""},
		{false, false, "redirect", []rdef{{"GET", "/{x}/{y}/", ""}}, "GET", "/a//b", ""},
		// a Host that merely extends a registered hostname: only ONE port and ONE trailing dot are removed
		{true, true, "", []rdef{{"POST", "ex.com/foo", ""}}, "GET", "/foo", "ex.com.."},
		{true, true, "", []rdef{{"POST", "ex.com/foo", ""}}, "GET", "/foo", "ex.com..:8080"},
		{true, true, "", []rdef{{"POST", "ex.com/foo", ""}}, "GET", "/foo", "[ex.com:80]:80"},
		{true, true, "", []rdef{{"POST", "ex.com/foo", ""}}, "OPTIONS", "/foo", "ex.com.."},
		{true, true, "", []rdef{{"POST", "ex.com/foo", ""}}, "OPTIONS", "/foo", "[ex.com:80]:80"},
		{true, true, "", []rdef{{"POST", "ex.com/foo", ""}}, "GET", "/foo", "ex.com.:8080"},
		// a hostname walk that follows the static label, fails on the path and backtracks to the parameter label,
		// under a method other than the request's (lazy per-method sweeps)
		{true, true, "", []rdef{{"POST", "{a}.b.com/x", ""}, {"POST", "{a}.{c}.com/y", ""}}, "GET", "/y", "foo.b.com"},
		{true, true, "", []rdef{{"POST", "{a}.b.com/x", ""}, {"POST", "{a}.{c}.com/y", ""}}, "DELETE", "/y", "foo.b.com"},
		{true, true, "", []rdef{{"POST", "{a}.b.com/x", ""}, {"POST", "{a}.{c}.com/y", ""}}, "OPTIONS", "/y", "foo.b.com"},
		{true, false, "", []rdef{{"POST", "{a}.b.com/x", ""}, {"POST", "{a}.{c}.com/y", ""}, {"GET", "/q", ""}}, "GET", "/y", "foo.b.com"},
		{true, true, "", []rdef{{"POST", "www.b.com/x", ""}, {"POST", "{a}.b.com/y", ""}, {"PUT", "{a}.b.com/x", ""}, {"PUT", "{a}.{c}.com/z", ""}}, "GET", "/z", "www.b.com"},
		{true, false, "", []rdef{{"POST", "{a}.b.com/x", ""}, {"POST", "{a}.{c}.com/y", ""}}, "GET", "/q", "foo.b.com"},
		// direct match under the parameter label next to a trailing-slash near miss under the static label
		{true, true, "", []rdef{{"GET", "api.example.com/foo/", ""}, {"GET", "{sub}.example.com/foo", ""}}, "POST", "/foo", "api.example.com"},
		{true, true, "", []rdef{{"GET", "api.example.com/foo/", ""}, {"GET", "{sub}.example.com/foo", ""}}, "OPTIONS", "/foo", "api.example.com"},
		{true, true, "", []rdef{{"GET", "api.example.com/foo/", ""}, {"GET", "{sub}.example.com/foo", ""}}, "GET", "/foo", "api.example.com"},
		{true, true, "redirect", []rdef{{"GET", "api.example.com/foo/", ""}, {"GET", "{sub}.example.com/foo", ""}}, "POST", "/foo", "api.example.com"},
		{true, true, "", []rdef{{"GET", "api.example.com/foo/", "ignore"}, {"GET", "{sub}.example.com/foo", ""}}, "POST", "/foo", "api.example.com"},
		{true, true, "", []rdef{{"GET", "api.example.com/foo", ""}, {"GET", "{sub}.example.com/foo/", ""}, {"PUT", "www.b.com/x/", ""}, {"PUT", "{a}.b.com/x", ""}}, "DELETE", "/foo/", "api.example.com"},
		{true, false, "", []rdef{{"PUT", "www.b.com/x/", ""}, {"PUT", "{a}.b.com/x", ""}}, "GET", "/x", "www.b.com"},
	}
	named := func(o string) []tsOpt {
		switch o {
		case "ignore":
			return []tsOpt{{false, true}}
		case "redirect":
			return []tsOpt{{true, true}}
		}
		return nil
	}
	for _, cs := range cases {
		r := buildRouter(cs.nomethod, cs.autoopt, named(cs.global))
		for _, d := range cs.routes {
			hx.Fatal(r.handle(st, d.m, d.p, named(d.opt)))
		}
		r.makeSig()
		host := cs.host
		if host == "" {
			host = "a.org"
		}
		rq, err := parseWire(cs.method, cs.target, host)
		hx.Fatal(err)
		wire, _, _ := strings.Cut(cs.target, "?")
		add(r, &reqCase{req: rq, wire: wire, hasW: true, origin: "corpus"}, "corpus")
	}

	// every router-wide option list of length <= 1 (and the two-option lists that flip the mode) x every
	// per-route option list of length <= 2, in every order: the route's flags must be those that follow
	// from the options given, visible in how a slash-adjusted request is answered
	globals := [][]tsOpt{nil}
	for _, o := range allTsOpts {
		globals = append(globals, []tsOpt{o})
	}
	globals = append(globals, []tsOpt{{false, true}, {true, true}}, []tsOpt{{true, true}, {false, true}},
		[]tsOpt{{false, true}, {false, false}}, []tsOpt{{true, true}, {true, false}})
	for _, g := range globals {
		for _, ro := range allTsLists() {
			r := buildRouter(true, true, g)
			hx.Fatal(r.handle(st, "GET", "/a/{x}/", ro))
			hx.Fatal(r.handle(st, "POST", "/b/{x}", ro))
			r.makeSig()
			for _, t := range [][2]string{{"GET", "/a/v?a=b"}, {"POST", "/b/v/"}} {
				rq, err := parseWire(t[0], t[1], "a.org")
				hx.Fatal(err)
				wire, _, _ := strings.Cut(t[1], "?")
				add(r, &reqCase{req: rq, wire: wire, hasW: true, origin: "corpus-options"}, "corpus-options")
			}
		}
	}
}

func main() {
	args := hx.Args()
	out := args["out"]
	tier := args["tier"]
	shards := hx.Atoi(args["shards"], 8)
	rnd := hx.NewRand(hx.Seed())

	variant, probeLoc := probeVariant()
	cs := &hx.Cases{
		Header: "From FoxBase Require Import Bytes.\nFrom FoxDispatch Require Import Dispatch Redirect Corr.\nOpen Scope char_scope.\n" +
			"Definition variant := " + variant + ".\n",
		Type: "kase",
		Footer: "Definition mism := Eval vm_compute in mismatches variant cases.\nPrint mism.\n" +
			"Definition viol := Eval vm_compute in spec_violations cases.\nPrint viol.\n" +
			"Definition known_C08_location := Eval vm_compute in known_location variant cases.\nPrint known_C08_location.\n" +
			"Definition oof := Eval vm_compute in fuel_outs cases.\nPrint oof.\n",
	}
	st := &hx.Stats{Rule: "real routers with 2-5 method trees (standard and custom methods, some emptied again), 0-6 routes each from a pool of colliding static/param/catch-all/hostname patterns, random per-route and global ignore/redirect trailing-slash options, the four (no-method, auto-OPTIONS) combinations; requests parsed by net/http from wire targets (instantiated patterns with reserved, percent-encoded and non-ASCII parameter values, trailing slash toggled, some unclean, '*', '/', CONNECT in both forms, query strings) plus hand-built URL.Path/RawPath pairs; non-trivial = the request is not served by a direct match (trailing-slash branch, redirect, OPTIONS/405/404 answers); distinct = distinct (router, request) pairs"}
	distinct := map[string]bool{}
	seqMode := 0
	add := func(r *rtr, rc *reqCase, tag string) {
		seqMode++
		term, human, nontrivial, kind := runCase(r, rc, st, seqMode%3)
		cs.Add(term, human)
		st.Count("handler:" + kind)
		st.Count("method:" + rc.req.Method)
		st.Count(fmt.Sprintf("options:nomethod=%v,auto=%v", r.nomethod, r.autoopt))
		if nontrivial {
			distinct[human] = true
		}
		if len(st.Samples) < 14 && (tag == "corpus" && len(st.Samples) < 4 || kind != "route" && rnd.Pct(3)) {
			st.Samples = append(st.Samples, human)
		}
	}
	corpus(st, add)

	nrouters, nreq := 230, 24
	if tier == "thorough" {
		nrouters, nreq = 2600, 30
	}
	if v := hx.Atoi(args["routers"], 0); v > 0 {
		nrouters = v
	}
	for i := 0; i < nrouters; i++ {
		r := newRouter(rnd, st)
		st.Count(fmt.Sprintf("router:methods=%d", len(r.registered)))
		for j := 0; j < nreq; j++ {
			rc := genRequest(rnd, r, st)
			if rc == nil {
				continue
			}
			add(r, rc, "gen")
		}
	}
	st.Evaluations = cs.Len()
	st.DistinctNontrivial = len(distinct)
	st.Extra = map[string]any{"redirect_variant_observed": variant, "probe_location": probeLoc,
		"probe": "GET /https:evil.com on routes {GET /{x}/ (redirect)}"}
	hx.Fatal(cs.Write(out, shards))
	hx.Fatal(st.Write(out))
	fmt.Printf("c11: %d cases written to %s (variant %s)\n", cs.Len(), out, variant)
}
