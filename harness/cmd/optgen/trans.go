package main

import (
	"fmt"
	"go/ast"
	"go/constant"
	"go/token"
	"go/types"
	"strconv"
	"strings"
)

type gvar struct {
	coq  string
	kind vkind
}

// env: what the translator knows at a program point.
type env struct {
	def      string
	vars     map[types.Object]*gvar
	sParam   types.Object            // the closure's sealedOption parameter (option closures)
	recObj   map[types.Object]string // New / NewRoute: identifier -> "router" | "route"
	recVar   map[string]string       // "router" | "route" -> Coq variable holding the record; "" = nil pointer / not yet built
	writable string                  // the record that is threaded through as `st`
	facts    map[string]bool         // path facts: nonnil:<key>, comparable:<key>, mapnonnil:route.annots, assigned:<rec>.<F>
	nonnil   map[types.Object]string // interface parameter known not to be nil -> Coq variable of its value
	arity    int                     // number of results: 1 = error (closures), 2 = (T, error) (New, NewRoute)
	pure     bool                    // inside a conditional block that falls through: no return, no loop
	inLoop   bool
	elemS    types.Object // loop: m[i] with m = elemS, i = elemI is the Coq variable elemV
	elemI    types.Object
	elemV    string
	sh       *shared
}

// shared by all forks of one definition
type shared struct {
	aux      []string // auxiliary Fixpoints (loops), in source order
	nloop    int
	mw       []string // (scope, g) of every middleware literal appended, in source order
	binders  []string // "(enable : bool)"
	names    []string
	kinds    []vkind
	objs     []types.Object
	stType   string // "router" | "route"
	oracles  string // leading binders of New / NewRoute
	oracleAp string
}

func (en *env) fork(facts ...string) *env {
	c := *en
	c.facts = map[string]bool{}
	for k := range en.facts {
		c.facts[k] = true
	}
	for _, f := range facts {
		c.facts[f] = true
	}
	c.nonnil = map[types.Object]string{}
	for k, v := range en.nonnil {
		c.nonnil[k] = v
	}
	c.vars = map[types.Object]*gvar{}
	for k, v := range en.vars {
		c.vars[k] = v
	}
	c.recObj = map[types.Object]string{}
	for k, v := range en.recObj {
		c.recObj[k] = v
	}
	c.recVar = map[string]string{}
	for k, v := range en.recVar {
		c.recVar[k] = v
	}
	return &c
}

var reserved = map[string]bool{"st": true, "fox": true, "at": true, "in": true, "end": true, "fun": true, "match": true, "if": true,
	"then": true, "else": true, "let": true, "return": true, "with": true, "as": true, "for": true, "Type": true, "Set": true,
	"Prop": true, "forall": true, "exists": true, "fix": true, "cofix": true, "where": true, "using": true, "mod": true,
	"applyGlob": true, "applyRoute": true, "parseRoute": true, "l": true}

func coqName(s string) string {
	if reserved[s] || strings.HasPrefix(s, "gen_") {
		return s + "_"
	}
	return s
}

func unparen(e ast.Expr) ast.Expr {
	for {
		p, ok := e.(*ast.ParenExpr)
		if !ok {
			return e
		}
		e = p.X
	}
}

func indent(s string) string {
	ls := strings.Split(s, "\n")
	for i := range ls {
		ls[i] = "  " + ls[i]
	}
	return strings.Join(ls, "\n")
}

func isNil(e ast.Expr) bool {
	tv, ok := info.Types[unparen(e)]
	return ok && tv.IsNil()
}

func obj(id *ast.Ident) types.Object {
	if o := info.Uses[id]; o != nil {
		return o
	}
	return info.Defs[id]
}

// ---------------------------------------------------------------- records and fields

// rec: does e denote the router or the route record?
func (en *env) rec(e ast.Expr) (string, bool) {
	switch x := unparen(e).(type) {
	case *ast.SelectorExpr:
		if id, ok := unparen(x.X).(*ast.Ident); ok && en.sParam != nil && obj(id) == en.sParam {
			if x.Sel.Name == "router" || x.Sel.Name == "route" {
				return x.Sel.Name, true
			}
			refuse(x.Pos(), "unknown field %s of sealedOption", x.Sel.Name)
		}
	case *ast.Ident:
		if r, ok := en.recObj[obj(x)]; ok {
			return r, true
		}
	}
	return "", false
}

// live: the Coq variable of a record that is dereferenced at pos
func (en *env) live(rec string, at ast.Node) string {
	v := en.recVar[rec]
	if v == "" {
		if en.sParam != nil {
			refuse(at.Pos(), "%s dereferences s.%s, which is nil when the option is applied to a %s (would panic)", src(at), rec, en.writable)
		}
		refuse(at.Pos(), "%s: the %s record does not exist yet", src(at), rec)
	}
	return v
}

// fieldSel: e = <record>.F
func (en *env) fieldSel(e ast.Expr) (string, *ast.SelectorExpr, bool) {
	sel, ok := unparen(e).(*ast.SelectorExpr)
	if !ok {
		return "", nil, false
	}
	r, ok := en.rec(sel.X)
	if !ok {
		return "", nil, false
	}
	return r, sel, true
}

func fieldOf(rec string, id *ast.Ident, at ast.Node) mfield {
	o, _ := obj(id).(*types.Var)
	if o == nil || !o.IsField() {
		refuse(at.Pos(), "%s is not a struct field", src(at))
	}
	tbl := routerFields
	if rec == "route" {
		tbl = routeFields
	}
	mf, ok := tbl[id.Name]
	if !ok {
		if rec == "route" && (id.Name == "hself" || id.Name == "hall") {
			refuse(at.Pos(), "field %s of route is only accepted in `rte.hself, rte.hall = applyRouteMiddleware(rte.mws, handler)`", id.Name)
		}
		refuse(at.Pos(), "field %s of %s (type %s) is not known to the model (coq/C19/Model.v)", id.Name, rec, typeStr(o.Type()))
	}
	if typeStr(o.Type()) != mf.goType {
		refuse(at.Pos(), "field %s of %s has type %s, the model expects %s", id.Name, rec, typeStr(o.Type()), mf.goType)
	}
	return mf
}

// read: <record>.F as a value of the model
func (en *env) read(rec string, sel *ast.SelectorExpr) (string, mfield) {
	mf := fieldOf(rec, sel.Sel, sel)
	if mf.unobs != "" {
		refuse(sel.Pos(), "%s reads a field the model does not observe", src(sel))
	}
	return "(" + mf.get + " " + en.live(rec, sel) + ")", mf
}

// ---------------------------------------------------------------- conditions

type cond struct {
	static *bool
	coq    string
	iface  types.Object // x != nil (neg: x == nil) on an interface parameter
	ifaceV *gvar
	neg    bool
	tFacts []string
	fFacts []string
}

func staticC(b bool) cond { return cond{static: &b} }

func (c cond) not() cond {
	switch {
	case c.static != nil:
		return staticC(!*c.static)
	case c.iface != nil:
		c.neg = !c.neg
		return c
	}
	return cond{coq: "negb " + paren(c.coq), tFacts: c.fFacts, fFacts: c.tFacts}
}

func paren(s string) string {
	if strings.ContainsAny(s, " \n") && !(strings.HasPrefix(s, "(") && strings.HasSuffix(s, ")") && balanced(s[1:len(s)-1])) {
		return "(" + s + ")"
	}
	return s
}

func balanced(s string) bool {
	d := 0
	for _, c := range s {
		if c == '(' {
			d++
		} else if c == ')' {
			d--
			if d < 0 {
				return false
			}
		}
	}
	return d == 0
}

func (en *env) cond(e ast.Expr) cond {
	e = unparen(e)
	switch x := e.(type) {
	case *ast.UnaryExpr:
		if x.Op == token.NOT {
			return en.cond(x.X).not()
		}
	case *ast.BinaryExpr:
		switch x.Op {
		case token.LAND, token.LOR:
			a := en.cond(x.X)
			and := x.Op == token.LAND
			if a.static != nil {
				if *a.static == and { // true && b, false || b
					return en.condAfter(a, x.Y, and)
				}
				return a // false && _, true || _ : b is not evaluated
			}
			b := en.condAfter(a, x.Y, and)
			if b.static != nil {
				if *b.static == and {
					return a
				}
				// a && false, a || true: a is still evaluated, but conditions have no effects
				return b
			}
			if a.iface != nil || b.iface != nil {
				refuse(x.Pos(), "nil test of an interface combined with another condition: %s", src(x))
			}
			if and {
				return cond{coq: "(" + paren(a.coq) + " && " + paren(b.coq) + ")%bool", tFacts: append(append([]string{}, a.tFacts...), b.tFacts...)}
			}
			return cond{coq: "(" + paren(a.coq) + " || " + paren(b.coq) + ")%bool", fFacts: append(append([]string{}, a.fFacts...), b.fFacts...)}
		case token.EQL, token.NEQ:
			c, ok := en.nilTest(x)
			if !ok {
				// equality of two booleans
				c = cond{coq: "Bool.eqb " + paren(en.boolExpr(x.X)) + " " + paren(en.boolExpr(x.Y))}
			}
			if x.Op == token.NEQ {
				return c.not()
			}
			return c
		}
	case *ast.CallExpr:
		// reflect.ValueOf(key).Comparable()
		if sel, ok := x.Fun.(*ast.SelectorExpr); ok && sel.Sel.Name == "Comparable" && len(x.Args) == 0 {
			if in, ok := unparen(sel.X).(*ast.CallExpr); ok && len(in.Args) == 1 {
				if f, ok := in.Fun.(*ast.SelectorExpr); ok && f.Sel.Name == "ValueOf" && isPkg(f.X, "reflect") {
					if v := en.varOf(in.Args[0]); v != nil && v.kind == kAkey {
						return cond{coq: "value_comparable " + v.coq, tFacts: []string{"comparable:" + v.coq}}
					}
				}
			}
		}
	}
	return cond{coq: en.boolExpr(e)}
}

// condAfter: the right operand of && / ||, evaluated only when the left one is true / false
func (en *env) condAfter(a cond, y ast.Expr, and bool) cond {
	f := a.fFacts
	if and {
		f = a.tFacts
	}
	return en.fork(f...).cond(y)
}

func isPkg(e ast.Expr, path string) bool {
	id, ok := unparen(e).(*ast.Ident)
	if !ok {
		return false
	}
	pn, ok := info.Uses[id].(*types.PkgName)
	return ok && pn.Imported().Path() == path
}

// nilTest: x == nil, as the condition "x is nil"
func (en *env) nilTest(x *ast.BinaryExpr) (cond, bool) {
	l, r := x.X, x.Y
	if isNil(l) {
		l, r = r, l
	}
	if !isNil(r) {
		return cond{}, false
	}
	if rec, ok := en.rec(l); ok {
		if en.sParam == nil {
			refuse(x.Pos(), "nil test of %s", src(l))
		}
		return staticC(en.recVar[rec] == ""), true
	}
	if v := en.varOf(l); v != nil {
		switch v.kind {
		case kFn:
			return cond{coq: "go_fn_is_nil " + v.coq}, true
		case kAkey:
			return cond{coq: "key_is_nil " + v.coq, fFacts: []string{"nonnil:" + v.coq}}, true
		case kIface:
			id := unparen(l).(*ast.Ident)
			return cond{iface: obj(id), ifaceV: v, neg: true}, true
		}
		refuse(x.Pos(), "nil test of %s, which the model represents as %s", src(l), coqType[v.kind])
	}
	if rec, sel, ok := en.fieldSel(l); ok {
		g, mf := en.read(rec, sel)
		if mf.kind == kAnnots {
			return cond{coq: "annots_is_nil " + g, fFacts: []string{"mapnonnil:" + rec + "." + sel.Sel.Name}}, true
		}
		refuse(x.Pos(), "nil test of the field %s", src(l))
	}
	refuse(x.Pos(), "unsupported nil test %s", src(x))
	return cond{}, false
}

// varOf: a parameter / local known to the translator, or the element m[i] of the enclosing loop
func (en *env) varOf(e ast.Expr) *gvar {
	switch x := unparen(e).(type) {
	case *ast.Ident:
		if v, ok := en.vars[obj(x)]; ok {
			return v
		}
	case *ast.IndexExpr:
		s, ok1 := unparen(x.X).(*ast.Ident)
		i, ok2 := unparen(x.Index).(*ast.Ident)
		if ok1 && ok2 && en.elemS != nil && obj(s) == en.elemS && obj(i) == en.elemI {
			return &gvar{en.elemV, kFn}
		}
	}
	return nil
}

func (en *env) boolExpr(e ast.Expr) string {
	e = unparen(e)
	if tv, ok := info.Types[e]; ok && tv.Value != nil && tv.Value.Kind() == constant.Bool {
		return strconv.FormatBool(constant.BoolVal(tv.Value))
	}
	if v := en.varOf(e); v != nil {
		if v.kind != kBool {
			refuse(e.Pos(), "%s used as a boolean", src(e))
		}
		return v.coq
	}
	if rec, sel, ok := en.fieldSel(e); ok {
		g, mf := en.read(rec, sel)
		if mf.kind != kBool {
			refuse(e.Pos(), "%s used as a boolean", src(e))
		}
		return g
	}
	switch x := e.(type) {
	case *ast.UnaryExpr:
		if x.Op == token.NOT {
			return "negb " + paren(en.boolExpr(x.X))
		}
	case *ast.BinaryExpr:
		if x.Op == token.EQL || x.Op == token.NEQ || x.Op == token.LAND || x.Op == token.LOR {
			c := en.cond(x)
			if c.static == nil && c.iface == nil {
				return c.coq
			}
		}
	}
	refuse(e.Pos(), "unsupported boolean expression %s", src(e))
	return ""
}

// ---------------------------------------------------------------- values

func (en *env) value(e ast.Expr, k vkind, rec string, f string) string {
	e = unparen(e)
	switch k {
	case kBool:
		return en.boolExpr(e)
	case kFn:
		return en.fnExpr(e)
	case kN:
		return en.nExpr(e)
	case kNat, kBytes:
		if v := en.varOf(e); v != nil && v.kind == k {
			return v.coq
		}
	case kResolver:
		return en.resolverExpr(e)
	case kMws:
		return en.mwsExpr(e, rec, f)
	case kAnnots:
		if c, ok := e.(*ast.CallExpr); ok && isBuiltin(c.Fun, "make") && len(c.Args) >= 1 && typeStr(info.Types[c.Args[0]].Type) == "map[any]any" {
			for _, a := range c.Args[1:] {
				if tv := info.Types[a]; tv.Value == nil {
					refuse(a.Pos(), "size argument of make is not a constant")
				}
			}
			return "annots_make"
		}
	}
	refuse(e.Pos(), "unsupported value %s for a field the model represents as %s", src(e), coqType[k])
	return ""
}

func isBuiltin(e ast.Expr, name string) bool {
	id, ok := unparen(e).(*ast.Ident)
	if !ok {
		return false
	}
	b, ok := info.Uses[id].(*types.Builtin)
	return ok && b.Name() == name
}

func (en *env) fnExpr(e ast.Expr) string {
	if v := en.varOf(e); v != nil && v.kind == kFn {
		return v.coq
	}
	// Recovery() / Logger(): package-level constructors of a MiddlewareFunc, assumed not to return nil
	if c, ok := unparen(e).(*ast.CallExpr); ok && len(c.Args) == 0 {
		if id, ok := c.Fun.(*ast.Ident); ok && (id.Name == "Recovery" || id.Name == "Logger") {
			if f, ok := info.Uses[id].(*types.Func); ok && f.Pkg() == pkg && typeStr(info.Types[c].Type) == "fox.MiddlewareFunc" {
				return "true"
			}
		}
	}
	refuse(e.Pos(), "unsupported function value %s", src(e))
	return ""
}

func (en *env) nExpr(e ast.Expr) string {
	if tv, ok := info.Types[unparen(e)]; ok && tv.Value != nil && tv.Value.Kind() == constant.Int {
		return tv.Value.ExactString() + "%N"
	}
	if v := en.varOf(e); v != nil && v.kind == kN {
		return v.coq
	}
	refuse(e.Pos(), "unsupported integer value %s", src(e))
	return ""
}

// resolverExpr: a ClientIPResolver that is provably not nil, as a Types.resolver
func (en *env) resolverExpr(e ast.Expr) string {
	e = unparen(e)
	switch x := e.(type) {
	case *ast.Ident:
		if v, ok := en.vars[obj(x)]; ok && v.kind == kIface {
			if nn, ok := en.nonnil[obj(x)]; ok {
				return "RSome " + nn
			}
			refuse(x.Pos(), "%s may be nil here: a nil interface in the field clientip is not representable in the model (Context.ClientIP would dereference it)", x.Name)
		}
	case *ast.CompositeLit:
		if typeStr(info.Types[x].Type) == "fox.noClientIPResolver" && len(x.Elts) == 0 {
			return "RNone"
		}
	case *ast.CallExpr:
		if tv := info.Types[x.Fun]; tv.IsType() && len(x.Args) == 1 && typeStr(tv.Type) == "fox.ClientIPResolver" {
			return en.resolverExpr(x.Args[0]) // conversion ClientIPResolver(v)
		}
		if sel, ok := x.Fun.(*ast.SelectorExpr); ok && sel.Sel.Name == "Or" && isPkg(sel.X, "cmp") && len(x.Args) == 2 {
			id, ok := unparen(x.Args[0]).(*ast.Ident)
			if !ok || en.vars[obj(id)] == nil || en.vars[obj(id)].kind != kIface {
				refuse(x.Pos(), "cmp.Or: the first argument must be the resolver parameter")
			}
			return "go_cmp_or " + en.vars[obj(id)].coq + " " + paren(en.resolverExpr(x.Args[1]))
		}
	case *ast.SelectorExpr:
		if rec, sel, ok := en.fieldSel(x); ok {
			g, mf := en.read(rec, sel)
			if mf.kind == kResolver {
				return g
			}
		}
	}
	refuse(e.Pos(), "unsupported resolver value %s", src(e))
	return ""
}

func (en *env) sameField(e ast.Expr, rec, f string) bool {
	r, sel, ok := en.fieldSel(e)
	return ok && r == rec && sel.Sel.Name == f
}

// mwsExpr: the accepted right-hand sides of <rec>.mws = ...
func (en *env) mwsExpr(e ast.Expr, rec, f string) string {
	switch x := e.(type) {
	case *ast.CallExpr:
		if !isBuiltin(x.Fun, "append") || len(x.Args) != 2 {
			break
		}
		if !x.Ellipsis.IsValid() {
			if !en.sameField(x.Args[0], rec, f) {
				refuse(x.Pos(), "append must extend the slice it is assigned to (%s.%s), not %s", rec, f, src(x.Args[0]))
			}
			_, sel, _ := en.fieldSel(x.Args[0])
			g, _ := en.read(rec, sel)
			return "mws_append " + g + " " + paren(en.mwEntry(x.Args[1]))
		}
		lit, ok := unparen(x.Args[0]).(*ast.CompositeLit)
		if !ok || typeStr(info.Types[lit].Type) != "[]fox.middleware" || !en.sameField(x.Args[1], rec, f) {
			break
		}
		var es []string
		for _, el := range lit.Elts {
			es = append(es, en.mwEntry(el))
		}
		_, sel, _ := en.fieldSel(x.Args[1])
		g, _ := en.read(rec, sel)
		return "mws_prepend [" + strings.Join(es, "; ") + "] " + g
	case *ast.SliceExpr:
		// x[:len(x):len(x)]
		r2, sel, ok := en.fieldSel(x.X)
		if !ok {
			break
		}
		g, mf := en.read(r2, sel)
		if mf.kind != kMws {
			break
		}
		isLen := func(a ast.Expr) bool {
			c, ok := unparen(a).(*ast.CallExpr)
			return ok && isBuiltin(c.Fun, "len") && len(c.Args) == 1 && en.sameField(c.Args[0], r2, sel.Sel.Name)
		}
		if !x.Slice3 || x.Low != nil || !isLen(x.High) || !isLen(x.Max) {
			refuse(x.Pos(), "only the clipped copy x[:len(x):len(x)] of a middleware slice is accepted, not %s", src(x))
		}
		return "mws_clip " + g
	case *ast.SelectorExpr:
		if r2, sel, ok := en.fieldSel(x); ok {
			if _, mf := en.read(r2, sel); mf.kind == kMws {
				refuse(x.Pos(), "%s shares the backing array of the middleware slice: a later append could write into it (only x[:len(x):len(x)] is accepted)", src(x))
			}
		}
	}
	refuse(e.Pos(), "unsupported middleware slice expression %s", src(e))
	return ""
}

// mwEntry: middleware{m, scope, g} (positional or keyed; an omitted field is its zero value)
func (en *env) mwEntry(e ast.Expr) string {
	lit, ok := unparen(e).(*ast.CompositeLit)
	if !ok || typeStr(info.Types[lit].Type) != "fox.middleware" {
		refuse(e.Pos(), "expected a middleware{..} literal, got %s", src(e))
	}
	m, scope, g := "false", "0%N", "false"
	set := func(name string, v ast.Expr) {
		switch name {
		case "m":
			m = en.fnExpr(v)
		case "scope":
			scope = en.nExpr(v)
		case "g":
			g = en.boolExpr(v)
		default:
			refuse(v.Pos(), "unknown field %s of middleware", name)
		}
	}
	order := []string{"m", "scope", "g"}
	for i, el := range lit.Elts {
		if kv, ok := el.(*ast.KeyValueExpr); ok {
			set(kv.Key.(*ast.Ident).Name, kv.Value)
		} else if i < 3 {
			set(order[i], el)
		}
	}
	en.sh.mw = append(en.sh.mw, "("+scope+", "+g+")")
	return "mw_entry " + paren(m) + " " + paren(scope) + " " + paren(g)
}

// harmless: right-hand side of an assignment to a field the model does not observe
func (en *env) harmless(e ast.Expr) {
	e = unparen(e)
	if tv, ok := info.Types[e]; ok && tv.Value != nil {
		return
	}
	switch x := e.(type) {
	case *ast.Ident:
		return
	case *ast.SelectorExpr:
		if rec, sel, ok := en.fieldSel(x); ok {
			en.live(rec, sel)
			return
		}
	case *ast.CallExpr:
		if id, ok := x.Fun.(*ast.Ident); ok && id.Name == "applyMiddleware" {
			if f, ok := info.Uses[id].(*types.Func); ok && f.Pkg() == pkg {
				for _, a := range x.Args {
					en.harmless(a)
				}
				return
			}
		}
	}
	refuse(e.Pos(), "unsupported expression %s", src(e))
}

// ---------------------------------------------------------------- statements

func (en *env) st(at ast.Node) string {
	v := en.recVar[en.writable]
	if v == "" {
		refuse(at.Pos(), "the %s record does not exist yet", en.writable)
	}
	return v
}

func terminates(list []ast.Stmt) bool {
	if len(list) == 0 {
		return false
	}
	switch s := list[len(list)-1].(type) {
	case *ast.ReturnStmt:
		return true
	case *ast.IfStmt:
		if s.Else == nil {
			return false
		}
		switch e := s.Else.(type) {
		case *ast.BlockStmt:
			return terminates(s.Body.List) && terminates(e.List)
		case *ast.IfStmt:
			return terminates(s.Body.List) && terminates([]ast.Stmt{e})
		}
	}
	return false
}

func containsReturn(n ast.Node) bool {
	found := false
	ast.Inspect(n, func(x ast.Node) bool {
		switch x.(type) {
		case *ast.ReturnStmt:
			found = true
		case *ast.FuncLit:
			return false
		}
		return !found
	})
	return found
}

func concat(a, b []ast.Stmt) []ast.Stmt {
	return append(append([]ast.Stmt{}, a...), b...)
}

// stmts translates a statement list in source order; end gives the term at a fall-through end
// (nil: the list must not fall through).
func (en *env) stmts(list []ast.Stmt, end func(*env) string) string {
	if len(list) == 0 {
		if end == nil {
			refuse(token.NoPos, "%s: control reaches the end of the function body without a return", en.def)
		}
		return end(en)
	}
	s, rest := list[0], list[1:]
	switch x := s.(type) {
	case *ast.ReturnStmt:
		return en.ret(x)
	case *ast.IfStmt:
		return en.ifStmt(x, rest, end)
	case *ast.RangeStmt:
		return en.rangeStmt(x, rest, end)
	case *ast.AssignStmt:
		if en.arity == 2 && x.Tok == token.DEFINE {
			return en.define(x, rest, end)
		}
		t := en.assign(x)
		return t + "\n" + en.stmts(rest, end)
	case *ast.ExprStmt:
		t := en.exprStmt(x)
		return t + "\n" + en.stmts(rest, end)
	case *ast.BlockStmt:
		return en.stmts(concat(x.List, rest), end)
	case *ast.EmptyStmt:
		return en.stmts(rest, end)
	}
	refuse(s.Pos(), "unsupported statement: %s", src(s))
	return ""
}

// sentinel: fmt.Errorf("%w...", ErrX) -> ErrX
func sentinel(e ast.Expr) string {
	c, ok := unparen(e).(*ast.CallExpr)
	if !ok {
		refuse(e.Pos(), "unsupported error value %s (only nil or fmt.Errorf(\"%%w..\", <sentinel>))", src(e))
	}
	sel, ok := c.Fun.(*ast.SelectorExpr)
	if !ok || sel.Sel.Name != "Errorf" || !isPkg(sel.X, "fmt") || len(c.Args) != 2 {
		refuse(e.Pos(), "unsupported error value %s (only fmt.Errorf with one %%w operand)", src(e))
	}
	tv := info.Types[c.Args[0]]
	if tv.Value == nil || tv.Value.Kind() != constant.String {
		refuse(e.Pos(), "the format of fmt.Errorf is not a constant")
	}
	f := strings.ReplaceAll(constant.StringVal(tv.Value), "%%", "")
	if strings.Count(f, "%") != 1 || !strings.Contains(f, "%w") {
		refuse(e.Pos(), "the format %q must have exactly one verb, %%w", constant.StringVal(tv.Value))
	}
	id, ok := unparen(c.Args[1]).(*ast.Ident)
	if !ok {
		refuse(e.Pos(), "the %%w operand must be a sentinel error variable")
	}
	v, ok := info.Uses[id].(*types.Var)
	if !ok || v.Pkg() != pkg || v.Parent() != pkg.Scope() || typeStr(v.Type()) != "error" {
		refuse(e.Pos(), "%s is not a package-level sentinel error", id.Name)
	}
	if id.Name != "ErrInvalidConfig" && id.Name != "ErrInvalidRoute" {
		refuse(e.Pos(), "sentinel %s is not an error class of the model at this point", id.Name)
	}
	return id.Name
}

func (en *env) ret(s *ast.ReturnStmt) string {
	if en.pure {
		refuse(s.Pos(), "return inside a conditional block that does not always return")
	}
	if len(s.Results) != en.arity {
		refuse(s.Pos(), "unsupported return %s", src(s))
	}
	if en.arity == 1 {
		if isNil(s.Results[0]) {
			if en.inLoop {
				refuse(s.Pos(), "`return nil` inside a loop")
			}
			return "Some " + en.st(s)
		}
		if sentinel(s.Results[0]) != "ErrInvalidConfig" {
			refuse(s.Pos(), "an option may only fail with ErrInvalidConfig")
		}
		return "None"
	}
	if isNil(s.Results[1]) {
		rec, ok := en.rec(s.Results[0])
		if !ok || rec != en.writable {
			refuse(s.Pos(), "unsupported return %s", src(s))
		}
		en.needAssigned(s)
		return "Ok " + en.st(s)
	}
	if !isNil(s.Results[0]) {
		refuse(s.Pos(), "unsupported return %s", src(s))
	}
	return "Err " + sentinel(s.Results[1])
}

// needAssigned: the interface field clientip must have been given a non-nil value
func (en *env) needAssigned(at ast.Node) {
	if en.arity == 2 && !en.facts["assigned:"+en.writable+".clientip"] {
		refuse(at.Pos(), "%s.clientip is not assigned a non-nil resolver before this point (its zero value, nil, is not representable)", en.writable)
	}
}

func (en *env) branches(c cond) (*env, *env) {
	t, f := en.fork(c.tFacts...), en.fork(c.fFacts...)
	if c.iface != nil {
		nn := c.ifaceV.coq + "_v"
		if c.neg {
			f.nonnil[c.iface] = nn
		} else {
			t.nonnil[c.iface] = nn
		}
	}
	return t, f
}

func ite(c cond, a, b string) string {
	if c.iface != nil {
		if c.neg {
			a, b = b, a
		}
		return "match " + c.ifaceV.coq + " with\n| Some " + c.ifaceV.coq + "_v =>\n" + indent(a) + "\n| None =>\n" + indent(b) + "\nend"
	}
	return "if " + c.coq + " then\n" + indent(a) + "\nelse\n" + indent(b)
}

func (en *env) ifStmt(s *ast.IfStmt, rest []ast.Stmt, end func(*env) string) string {
	if s.Init != nil {
		refuse(s.Pos(), "if statement with an init clause: %s", src(s.Init))
	}
	c := en.cond(s.Cond)
	var els []ast.Stmt
	switch e := s.Else.(type) {
	case *ast.BlockStmt:
		els = e.List
	case *ast.IfStmt:
		els = []ast.Stmt{e}
	}
	if c.static != nil {
		if *c.static {
			if terminates(s.Body.List) {
				return en.stmts(s.Body.List, nil)
			}
			return en.stmts(concat(s.Body.List, rest), end)
		}
		if s.Else != nil && terminates(els) {
			return en.stmts(els, nil)
		}
		return en.stmts(concat(els, rest), end)
	}
	thenT, elseT := terminates(s.Body.List), s.Else != nil && terminates(els)
	enT, enF := en.branches(c)
	if thenT || elseT {
		if en.pure {
			refuse(s.Pos(), "return inside a conditional block that does not always return")
		}
		var a, b string
		if thenT {
			a = enT.stmts(s.Body.List, nil)
		} else {
			a = enT.stmts(concat(s.Body.List, rest), end)
		}
		if elseT {
			b = enF.stmts(els, nil)
		} else {
			b = enF.stmts(concat(els, rest), end)
		}
		return ite(c, a, b)
	}
	if containsReturn(s.Body) || (s.Else != nil && containsReturn(s.Else)) {
		refuse(s.Pos(), "a conditional block must either always return or never return")
	}
	enT.pure, enF.pure = true, true
	fin := func(e *env) string { return e.st(s) }
	a := enT.stmts(s.Body.List, fin)
	b := enF.stmts(els, fin)
	// facts that hold on both paths
	for k := range en.facts {
		delete(en.facts, k)
	}
	for k := range enT.facts {
		if enF.facts[k] {
			en.facts[k] = true
		}
	}
	st := en.st(s)
	return "let " + st + " := (" + ite(c, a, b) + ") in\n" + en.stmts(rest, end)
}

func (en *env) assign(s *ast.AssignStmt) string {
	if s.Tok != token.ASSIGN {
		refuse(s.Pos(), "unsupported assignment %s", src(s))
	}
	// rte.hself, rte.hall = applyRouteMiddleware(rte.mws, handler)
	if len(s.Lhs) == 2 && len(s.Rhs) == 1 && en.arity == 2 {
		r1, s1, ok1 := en.fieldSel(s.Lhs[0])
		r2, s2, ok2 := en.fieldSel(s.Lhs[1])
		c, okc := s.Rhs[0].(*ast.CallExpr)
		if ok1 && ok2 && okc && r1 == "route" && r2 == "route" && en.writable == "route" && s1.Sel.Name == "hself" && s2.Sel.Name == "hall" && len(c.Args) == 2 {
			if id, ok := c.Fun.(*ast.Ident); ok && id.Name == "applyRouteMiddleware" && en.sameField(c.Args[0], "route", "mws") {
				if v := en.varOf(c.Args[1]); v != nil && v.kind == kFn {
					return "let st := set_rt_unobserved F_hself_hall " + en.st(s) + " in"
				}
			}
		}
		refuse(s.Pos(), "unsupported assignment %s", src(s))
	}
	if len(s.Lhs) != 1 || len(s.Rhs) != 1 {
		refuse(s.Pos(), "unsupported assignment %s", src(s))
	}
	lhs := unparen(s.Lhs[0])
	// map store  <route>.annots[key] = value
	if ix, ok := lhs.(*ast.IndexExpr); ok {
		rec, sel, ok := en.fieldSel(ix.X)
		if !ok {
			refuse(s.Pos(), "unsupported assignment %s", src(s))
		}
		en.mustWrite(rec, s)
		g, mf := en.read(rec, sel)
		k, v := en.varOf(ix.Index), en.varOf(s.Rhs[0])
		if mf.kind != kAnnots || k == nil || k.kind != kAkey || v == nil || v.kind != kAval {
			refuse(s.Pos(), "unsupported map store %s", src(s))
		}
		if !en.facts["mapnonnil:"+rec+"."+sel.Sel.Name] {
			refuse(s.Pos(), "%s: the map is not known to be non-nil here (a store into a nil map panics)", src(s))
		}
		if !en.facts["nonnil:"+k.coq] {
			refuse(s.Pos(), "%s: the key is not known to be non-nil here (the model has no slot for a nil key)", src(s))
		}
		if !en.facts["comparable:"+k.coq] {
			refuse(s.Pos(), "%s: the key is not known to be comparable here (a store with an unhashable key panics)", src(s))
		}
		st := en.st(s)
		return "let " + st + " := " + mf.set + " (annots_store " + k.coq + " " + v.coq + " " + g + ") " + st + " in"
	}
	rec, sel, ok := en.fieldSel(lhs)
	if !ok {
		refuse(s.Pos(), "unsupported assignment %s (only fields of the router / route record)", src(s))
	}
	en.mustWrite(rec, s)
	st := en.st(s)
	mf := fieldOf(rec, sel.Sel, sel)
	if mf.unobs != "" {
		en.harmless(s.Rhs[0])
		return "let " + st + " := set_g_unobserved " + mf.unobs + " " + st + " in"
	}
	v := en.value(s.Rhs[0], mf.kind, rec, sel.Sel.Name)
	key := rec + "." + sel.Sel.Name
	en.facts["assigned:"+key] = true
	delete(en.facts, "mapnonnil:"+key)
	if mf.kind == kAnnots && v == "annots_make" {
		en.facts["mapnonnil:"+key] = true
	}
	return "let " + st + " := " + mf.set + " " + paren(v) + " " + st + " in"
}

func (en *env) mustWrite(rec string, at ast.Node) {
	en.live(rec, at)
	if rec != en.writable {
		refuse(at.Pos(), "%s writes the %s record, which is read-only here", src(at), rec)
	}
}

func (en *env) exprStmt(s *ast.ExprStmt) string {
	// r.tree.Store(r.newTree())
	if c, ok := s.X.(*ast.CallExpr); ok && len(c.Args) == 1 && en.arity == 2 && en.writable == "router" {
		if f, ok := c.Fun.(*ast.SelectorExpr); ok && f.Sel.Name == "Store" {
			if t, ok := f.X.(*ast.SelectorExpr); ok && t.Sel.Name == "tree" {
				if rec, ok := en.rec(t.X); ok && rec == "router" {
					if a, ok := c.Args[0].(*ast.CallExpr); ok && len(a.Args) == 0 {
						if nf, ok := a.Fun.(*ast.SelectorExpr); ok && nf.Sel.Name == "newTree" {
							if rec2, ok := en.rec(nf.X); ok && rec2 == "router" {
								return "let st := set_g_unobserved F_tree " + en.st(s) + " in"
							}
						}
					}
				}
			}
		}
	}
	refuse(s.Pos(), "unsupported statement: %s", src(s))
	return ""
}

// ---------------------------------------------------------------- loops

func (en *env) loopBinders(skip types.Object) (string, string) {
	var bs, as []string
	if en.sh.oracles != "" {
		bs, as = append(bs, en.sh.oracles), append(as, en.sh.oracleAp)
	}
	for i, o := range en.sh.objs {
		if o == skip {
			continue
		}
		bs = append(bs, en.sh.binders[i])
		as = append(as, en.sh.names[i])
	}
	return strings.Join(bs, " "), strings.Join(as, " ")
}

func (en *env) rangeStmt(s *ast.RangeStmt, rest []ast.Stmt, end func(*env) string) string {
	if en.pure {
		refuse(s.Pos(), "loop inside a conditional block that falls through")
	}
	if en.inLoop {
		refuse(s.Pos(), "nested loop")
	}
	if en.arity == 2 {
		return en.optLoop(s, rest, end)
	}
	xs, ok := unparen(s.X).(*ast.Ident)
	if !ok || en.vars[obj(xs)] == nil || en.vars[obj(xs)].kind != kFnList || s.Tok != token.DEFINE {
		refuse(s.Pos(), "only `for i := range <variadic middleware parameter>` is accepted, not %s", src(s.X))
	}
	lv := en.vars[obj(xs)]
	en.sh.nloop++
	name := fmt.Sprintf("%s_loop%d", en.def, en.sh.nloop)
	b := en.fork()
	for k := range b.facts {
		delete(b.facts, k)
	}
	b.inLoop = true
	delete(b.vars, obj(xs))
	elem, tail := lv.coq+"_i", lv.coq+"_rest"
	if key, ok := s.Key.(*ast.Ident); ok && key.Name != "_" {
		b.elemS, b.elemI, b.elemV = obj(xs), obj(key), elem
	} else if s.Key != nil && !(ok && key.Name == "_") {
		refuse(s.Pos(), "unsupported range key")
	}
	if s.Value != nil {
		v, ok := s.Value.(*ast.Ident)
		if !ok {
			refuse(s.Pos(), "unsupported range value")
		}
		if v.Name != "_" {
			b.vars[obj(v)] = &gvar{elem, kFn}
		}
	}
	bind, args := en.loopBinders(obj(xs))
	st := en.st(s)
	T := en.sh.stType
	body := b.stmts(s.Body.List, func(e *env) string { return name + sp(args) + " " + tail + " " + e.st(s) })
	en.sh.aux = append(en.sh.aux, fmt.Sprintf("Fixpoint %s%s (l : list bool) (%s : %s) {struct l} : option %s :=\n  match l with\n  | [] => Some %s\n  | %s :: %s =>\n%s\n  end.\n",
		name, sp(bind), st, T, T, st, elem, tail, indent(indent(body))))
	for k := range en.facts {
		if !strings.HasPrefix(k, "assigned:") {
			delete(en.facts, k)
		}
	}
	return "match " + name + sp(args) + " " + lv.coq + " " + st + " with\n| None => None\n| Some " + st + " =>\n" + indent(en.stmts(rest, end)) + "\nend"
}

// optLoop: for _, opt := range opts { if err := opt.applyGlob(sealedOption{router: r}); err != nil { return nil, err } }
func (en *env) optLoop(s *ast.RangeStmt, rest []ast.Stmt, end func(*env) string) string {
	bad := func() { refuse(s.Pos(), "unsupported loop (only the option loop of New / NewRoute): %s", src(s)) }
	xs, ok := unparen(s.X).(*ast.Ident)
	if !ok || en.vars[obj(xs)] == nil || s.Tok != token.DEFINE || s.Value == nil || len(s.Body.List) != 1 {
		bad()
	}
	if k, ok := s.Key.(*ast.Ident); !ok || k.Name != "_" {
		bad()
	}
	lv := en.vars[obj(xs)]
	method, field, oty := "applyGlob", "router", "gopt"
	if lv.kind == kOptsR {
		method, field, oty = "applyRoute", "route", "ropt"
	} else if lv.kind != kOptsG {
		bad()
	}
	if field != en.writable {
		bad()
	}
	opt, ok := s.Value.(*ast.Ident)
	ifs, ok2 := s.Body.List[0].(*ast.IfStmt)
	if !ok || !ok2 || ifs.Else != nil || ifs.Init == nil {
		bad()
	}
	as, ok := ifs.Init.(*ast.AssignStmt)
	if !ok || len(as.Lhs) != 1 || len(as.Rhs) != 1 {
		bad()
	}
	errId, ok := as.Lhs[0].(*ast.Ident)
	call, ok2 := as.Rhs[0].(*ast.CallExpr)
	if !ok || !ok2 || len(call.Args) != 1 || typeStr(info.Types[call].Type) != "error" {
		bad()
	}
	f, ok := call.Fun.(*ast.SelectorExpr)
	if !ok || f.Sel.Name != method {
		bad()
	}
	if id, ok := unparen(f.X).(*ast.Ident); !ok || obj(id) != obj(opt) {
		bad()
	}
	lit, ok := call.Args[0].(*ast.CompositeLit)
	if !ok || typeStr(info.Types[lit].Type) != "fox.sealedOption" || len(lit.Elts) != 1 {
		refuse(call.Pos(), "the option must be applied to sealedOption{%s: <the record>} and nothing else, not %s", field, src(call.Args[0]))
	}
	kv, ok := lit.Elts[0].(*ast.KeyValueExpr)
	if !ok || kv.Key.(*ast.Ident).Name != field {
		refuse(call.Pos(), "the option must be applied to sealedOption{%s: <the record>}, not %s", field, src(lit))
	}
	if rec, ok := en.rec(kv.Value); !ok || rec != field {
		refuse(call.Pos(), "the option must be applied to the %s being built, not %s", field, src(kv.Value))
	}
	// err != nil { return nil, err }
	be, ok := ifs.Cond.(*ast.BinaryExpr)
	if !ok || be.Op != token.NEQ || !isNil(be.Y) || len(ifs.Body.List) != 1 {
		bad()
	}
	if id, ok := be.X.(*ast.Ident); !ok || obj(id) != obj(errId) {
		bad()
	}
	rs, ok := ifs.Body.List[0].(*ast.ReturnStmt)
	if !ok || len(rs.Results) != 2 || !isNil(rs.Results[0]) {
		bad()
	}
	if id, ok := rs.Results[1].(*ast.Ident); !ok || obj(id) != obj(errId) {
		bad()
	}
	en.needAssigned(s)
	en.sh.nloop++
	name := fmt.Sprintf("%s_loop%d", en.def, en.sh.nloop)
	T := en.sh.stType
	st := en.st(s)
	en.sh.aux = append(en.sh.aux, fmt.Sprintf("Fixpoint %s (%s : %s -> %s -> option %s) (l : list %s) (%s : %s) {struct l} : outcome %s :=\n  match l with\n  | [] => Ok %s\n  | opt :: l_rest =>\n      match %s opt %s with\n      | None => Err ErrInvalidConfig\n      | Some %s => %s %s l_rest %s\n      end\n  end.\n",
		name, method, oty, T, T, oty, st, T, T, st, method, st, st, name, method, st))
	return "match " + name + " " + method + " " + lv.coq + " " + st + " with\n| Err e => Err e\n| Panic => Panic\n| Ok " + st + " =>\n" + indent(en.stmts(rest, end)) + "\nend"
}

// ---------------------------------------------------------------- := in New / NewRoute

func (en *env) define(s *ast.AssignStmt, rest []ast.Stmt, end func(*env) string) string {
	// r := new(Router)
	if len(s.Lhs) == 1 && len(s.Rhs) == 1 {
		id, _ := s.Lhs[0].(*ast.Ident)
		if c, ok := s.Rhs[0].(*ast.CallExpr); ok && id != nil && isBuiltin(c.Fun, "new") && len(c.Args) == 1 &&
			typeStr(info.Types[c.Args[0]].Type) == "fox.Router" && en.writable == "router" && en.recVar["router"] == "" {
			en.recObj[obj(id)] = "router"
			en.recVar["router"] = "st"
			return "let st := router_zero in\n" + en.stmts(rest, end)
		}
		// rte := &Route{ k: v, ... }
		if u, ok := s.Rhs[0].(*ast.UnaryExpr); ok && id != nil && u.Op == token.AND && en.writable == "route" && en.recVar["route"] == "" {
			if lit, ok := u.X.(*ast.CompositeLit); ok && typeStr(info.Types[lit].Type) == "fox.Route" {
				out := []string{"let st := route_zero in"}
				seen := map[string]bool{}
				for _, el := range lit.Elts {
					kv, ok := el.(*ast.KeyValueExpr)
					if !ok {
						refuse(el.Pos(), "the Route literal must be keyed")
					}
					k := kv.Key.(*ast.Ident)
					mf := fieldOf("route", k, kv)
					if mf.unobs != "" {
						refuse(kv.Pos(), "unsupported field %s in the Route literal", k.Name)
					}
					seen[k.Name] = true
					out = append(out, "let st := "+mf.set+" "+paren(en.value(kv.Value, mf.kind, "route", k.Name))+" st in")
				}
				if !seen["clientip"] {
					refuse(lit.Pos(), "the Route literal does not set clientip (its zero value, nil, is not representable)")
				}
				en.facts["assigned:route.clientip"] = true
				en.recObj[obj(id)] = "route"
				en.recVar["route"] = "st"
				return strings.Join(out, "\n") + "\n" + en.stmts(rest, end)
			}
		}
	}
	// n, endHost, err := fox.parseRoute(pattern); if err != nil { return nil, err }
	if len(s.Lhs) == 3 && len(s.Rhs) == 1 && len(rest) > 0 {
		c, ok := s.Rhs[0].(*ast.CallExpr)
		if ok && len(c.Args) == 1 {
			if f, ok := c.Fun.(*ast.SelectorExpr); ok && f.Sel.Name == "parseRoute" {
				rec, okr := en.rec(f.X)
				arg := en.varOf(c.Args[0])
				n, ok1 := s.Lhs[0].(*ast.Ident)
				eh, ok2 := s.Lhs[1].(*ast.Ident)
				er, ok3 := s.Lhs[2].(*ast.Ident)
				if okr && rec == "router" && arg != nil && arg.kind == kBytes && ok1 && ok2 && ok3 && tupleIs(info.Types[c].Type, "uint32", "int", "error") {
					ifs, ok := rest[0].(*ast.IfStmt)
					if ok && ifs.Init == nil && ifs.Else == nil && len(ifs.Body.List) == 1 {
						be, okb := ifs.Cond.(*ast.BinaryExpr)
						rs, okr := ifs.Body.List[0].(*ast.ReturnStmt)
						if okb && okr && be.Op == token.NEQ && isNil(be.Y) && len(rs.Results) == 2 && isNil(rs.Results[0]) {
							x, okx := be.X.(*ast.Ident)
							y, oky := rs.Results[1].(*ast.Ident)
							if okx && oky && obj(x) == obj(er) && obj(y) == obj(er) {
								en.vars[obj(n)] = &gvar{coqName(n.Name), kNat}
								en.vars[obj(eh)] = &gvar{coqName(eh.Name), kNat}
								return "match parseRoute " + en.live("router", c) + " " + arg.coq + " with\n| Err e => Err e\n| Panic => Panic\n| Ok (" +
									coqName(n.Name) + ", " + coqName(eh.Name) + ") =>\n" + indent(en.stmts(rest[1:], end)) + "\nend"
							}
						}
					}
				}
			}
		}
	}
	refuse(s.Pos(), "unsupported statement: %s", src(s))
	return ""
}

// ---------------------------------------------------------------- definitions

func newEnv(def string, fd *ast.FuncDecl, want []param, stType string) *env {
	en := &env{def: def, vars: map[types.Object]*gvar{}, recObj: map[types.Object]string{}, recVar: map[string]string{},
		facts: map[string]bool{}, nonnil: map[types.Object]string{}, sh: &shared{stType: stType}, writable: stType}
	sig := info.Defs[fd.Name].Type().(*types.Signature)
	if sig.Params().Len() != len(want) {
		refuse(fd.Pos(), "%s has %d parameters, the model's option has %d", fd.Name.Name, sig.Params().Len(), len(want))
	}
	for i, w := range want {
		p := sig.Params().At(i)
		if typeStr(p.Type()) != w.goType {
			refuse(fd.Pos(), "parameter %s of %s has type %s, expected %s", p.Name(), fd.Name.Name, typeStr(p.Type()), w.goType)
		}
		if p.Name() == "" || p.Name() == "_" {
			refuse(fd.Pos(), "unnamed parameter of %s", fd.Name.Name)
		}
		n := coqName(p.Name())
		en.vars[p] = &gvar{n, w.kind}
		en.sh.binders = append(en.sh.binders, fmt.Sprintf("(%s : %s)", n, coqType[w.kind]))
		en.sh.names = append(en.sh.names, n)
		en.sh.kinds = append(en.sh.kinds, w.kind)
		en.sh.objs = append(en.sh.objs, p)
	}
	return en
}

func sp(s string) string {
	if s == "" {
		return ""
	}
	return " " + s
}

func transOption(od optDir, fd *ast.FuncDecl, side string) string {
	def := "gen_" + od.Go + "_" + side
	en := newEnv(def, fd, od.Params, side)
	en.arity = 1
	if len(fd.Body.List) != 1 {
		refuse(fd.Pos(), "the body of %s must be a single `return <wrapper>(func(s sealedOption) error {..})`", od.Go)
	}
	rs, ok := fd.Body.List[0].(*ast.ReturnStmt)
	if !ok || len(rs.Results) != 1 {
		refuse(fd.Pos(), "the body of %s must be a single return of the wrapped closure", od.Go)
	}
	call, ok := rs.Results[0].(*ast.CallExpr)
	if !ok || len(call.Args) != 1 || !info.Types[call.Fun].IsType() {
		refuse(rs.Pos(), "the result of %s is not a closure converted to an option type", od.Go)
	}
	w := typeStr(info.Types[call.Fun].Type)
	if w != "fox."+od.Wrapper {
		refuse(rs.Pos(), "%s wraps its closure as %s; the model (Types.v) has it as %s, i.e. applicable to other records", od.Go, w, od.Wrapper)
	}
	lit, ok := call.Args[0].(*ast.FuncLit)
	if !ok || len(lit.Type.Params.List) != 1 || len(lit.Type.Params.List[0].Names) != 1 {
		refuse(rs.Pos(), "the argument of %s is not a function literal with one named parameter", od.Wrapper)
	}
	en.sParam = info.Defs[lit.Type.Params.List[0].Names[0]]
	en.recVar[side] = "st"
	body := en.stmts(lit.Body.List, nil)
	var sb strings.Builder
	for _, a := range en.sh.aux {
		sb.WriteString(a)
	}
	bs := strings.Join(en.sh.binders, " ")
	fmt.Fprintf(&sb, "Definition %s%s (st : %s) : option %s :=\n%s.\n", def, sp(bs), side, side, indent(body))
	if len(en.sh.mw) > 0 {
		fmt.Fprintf(&sb, "(* (scope, global flag) of the middleware literals appended, in source order *)\nDefinition %s_mw%s : list (N * bool) := [%s].\n", def, sp(bs), strings.Join(en.sh.mw, "; "))
	}
	return sb.String()
}

func transNew(fd *ast.FuncDecl) string {
	en := newEnv("gen_New", fd, []param{{"[]fox.GlobalOption", kOptsG}}, "router")
	en.arity = 2
	if r := typeStr(info.Defs[fd.Name].Type().(*types.Signature).Results()); r != "(*fox.Router, error)" {
		refuse(fd.Pos(), "New returns %s", r)
	}
	en.sh.oracles, en.sh.oracleAp = "(applyGlob : gopt -> router -> option router)", "applyGlob"
	body := en.stmts(fd.Body.List, nil)
	var sb strings.Builder
	for _, a := range en.sh.aux {
		sb.WriteString(a)
	}
	fmt.Fprintf(&sb, "Definition gen_New %s %s : outcome router :=\n%s.\n", en.sh.oracles, strings.Join(en.sh.binders, " "), indent(body))
	return sb.String()
}

func transNewRoute(fd *ast.FuncDecl) string {
	en := newEnv("gen_NewRoute", fd, []param{{"string", kBytes}, {"fox.HandlerFunc", kFn}, {"[]fox.RouteOption", kOptsR}}, "route")
	en.arity = 2
	sig := info.Defs[fd.Name].Type().(*types.Signature)
	if r := typeStr(sig.Results()); r != "(*fox.Route, error)" {
		refuse(fd.Pos(), "NewRoute returns %s", r)
	}
	if sig.Recv() == nil || typeStr(sig.Recv().Type()) != "*fox.Router" || sig.Recv().Name() == "" {
		refuse(fd.Pos(), "NewRoute is not a method of *Router with a named receiver")
	}
	en.recObj[sig.Recv()] = "router"
	en.recVar["router"] = "fox"
	en.sh.oracles = "(parseRoute : router -> bytes -> outcome (nat * nat)) (applyRoute : ropt -> route -> option route) (fox : router)"
	en.sh.oracleAp = "parseRoute applyRoute fox"
	body := en.stmts(fd.Body.List, nil)
	var sb strings.Builder
	for _, a := range en.sh.aux {
		sb.WriteString(a)
	}
	fmt.Fprintf(&sb, "Definition gen_NewRoute %s %s : outcome route :=\n%s.\n", en.sh.oracles, strings.Join(en.sh.binders, " "), indent(body))
	return sb.String()
}

func tupleIs(t types.Type, want ...string) bool {
	tu, ok := t.(*types.Tuple)
	if !ok || tu.Len() != len(want) {
		return false
	}
	for i, w := range want {
		if typeStr(tu.At(i).Type()) != w {
			return false
		}
	}
	return true
}
