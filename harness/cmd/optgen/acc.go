package main

import (
	"fmt"
	"go/ast"
	"go/token"
	"go/types"
	"strings"
)

// accessors of *Route (route.go): `return <expr>` over the fields, plus the one shape of ClientIPResolver.
type accDir struct {
	Name   string
	Params []param
	Res    string // Go result type
	Coq    string // Coq result type
}

var accDirs = []accDir{
	{"Pattern", nil, "string", "bytes"},
	{"Hostname", nil, "string", "option bytes"}, // None = the slice expression is out of range (panic)
	{"Path", nil, "string", "option bytes"},
	{"Annotation", []param{{"any", kAkey}}, "any", "option (option nat)"}, // None = the map lookup panics (unhashable key)
	{"RedirectTrailingSlashEnabled", nil, "bool", "bool"},
	{"IgnoreTrailingSlashEnabled", nil, "bool", "bool"},
	{"ClientIPResolver", nil, "fox.ClientIPResolver", "option nat"}, // None = nil
	{"ParamsLen", nil, "int", "nat"},
}

func transAccessor(ad accDir, fd *ast.FuncDecl) string {
	def := "gen_Route_" + ad.Name
	en := newEnv(def, fd, ad.Params, "route")
	sig := info.Defs[fd.Name].Type().(*types.Signature)
	if sig.Recv() == nil || typeStr(sig.Recv().Type()) != "*fox.Route" || sig.Recv().Name() == "" || sig.Recv().Name() == "_" {
		refuse(fd.Pos(), "%s is not a method of *Route with a named receiver", ad.Name)
	}
	if sig.Results().Len() != 1 || typeStr(sig.Results().At(0).Type()) != ad.Res {
		refuse(fd.Pos(), "Route.%s returns %s, expected %s", ad.Name, typeStr(sig.Results()), ad.Res)
	}
	en.recObj[sig.Recv()] = "route"
	en.recVar["route"] = "rt"
	en.writable = "" // read-only
	var body string
	list := fd.Body.List
	switch {
	case len(list) == 1:
		rs, ok := list[0].(*ast.ReturnStmt)
		if !ok || len(rs.Results) != 1 {
			refuse(fd.Pos(), "the body of Route.%s is not a single return", ad.Name)
		}
		body = en.accExpr(rs.Results[0], ad)
	case len(list) == 2 && ad.Coq == "option nat":
		body = en.sentinelShape(list, ad)
	default:
		refuse(fd.Pos(), "unsupported body of Route.%s", ad.Name)
	}
	bs := strings.Join(en.sh.binders, " ")
	return fmt.Sprintf("Definition %s (rt : route)%s : %s :=\n  %s.\n", def, sp(bs), ad.Coq, body)
}

func (en *env) accExpr(e ast.Expr, ad accDir) string {
	e = unparen(e)
	switch x := e.(type) {
	case *ast.SelectorExpr:
		if rec, sel, ok := en.fieldSel(x); ok {
			g, mf := en.read(rec, sel)
			if coqType[mf.kind] == ad.Coq {
				return g
			}
		}
	case *ast.CallExpr:
		// int(r.psLen)
		if tv := info.Types[x.Fun]; tv.IsType() && len(x.Args) == 1 && typeStr(tv.Type) == "int" && ad.Coq == "nat" {
			if rec, sel, ok := en.fieldSel(x.Args[0]); ok {
				g, mf := en.read(rec, sel)
				if mf.kind == kNat && mf.goType == "uint32" {
					return g
				}
			}
		}
	case *ast.SliceExpr:
		rec, sel, ok := en.fieldSel(x.X)
		if !ok || x.Slice3 || ad.Coq != "option bytes" {
			break
		}
		g, mf := en.read(rec, sel)
		if mf.kind != kBytes {
			break
		}
		bound := func(b ast.Expr) string {
			r2, s2, ok := en.fieldSel(b)
			if !ok {
				refuse(b.Pos(), "unsupported slice bound %s", src(b))
			}
			gb, mb := en.read(r2, s2)
			if mb.kind != kNat || mb.goType != "int" {
				refuse(b.Pos(), "unsupported slice bound %s", src(b))
			}
			return gb
		}
		switch {
		case x.Low == nil && x.High != nil:
			return "str_slice_to " + g + " " + bound(x.High)
		case x.Low != nil && x.High == nil:
			return "str_slice_from " + g + " " + bound(x.Low)
		}
	case *ast.IndexExpr:
		rec, sel, ok := en.fieldSel(x.X)
		if !ok || ad.Coq != "option (option nat)" {
			break
		}
		g, mf := en.read(rec, sel)
		k := en.varOf(x.Index)
		if mf.kind == kAnnots && k != nil && k.kind == kAkey {
			return "annots_lookup " + k.coq + " " + g
		}
	}
	refuse(e.Pos(), "unsupported accessor expression %s", src(e))
	return ""
}

// if _, ok := r.clientip.(noClientIPResolver); ok { return nil }; return r.clientip
func (en *env) sentinelShape(list []ast.Stmt, ad accDir) string {
	bad := func() { refuse(list[0].Pos(), "unsupported body of Route.%s: %s", ad.Name, src(list[0])) }
	ifs, ok := list[0].(*ast.IfStmt)
	rs, ok2 := list[1].(*ast.ReturnStmt)
	if !ok || !ok2 || ifs.Init == nil || ifs.Else != nil || len(rs.Results) != 1 || len(ifs.Body.List) != 1 {
		bad()
	}
	as, ok := ifs.Init.(*ast.AssignStmt)
	if !ok || as.Tok != token.DEFINE || len(as.Lhs) != 2 || len(as.Rhs) != 1 {
		bad()
	}
	blank, ok1 := as.Lhs[0].(*ast.Ident)
	okv, ok2 := as.Lhs[1].(*ast.Ident)
	ta, ok3 := as.Rhs[0].(*ast.TypeAssertExpr)
	if !ok1 || !ok2 || !ok3 || blank.Name != "_" || ta.Type == nil || typeStr(info.Types[ta.Type].Type) != "fox.noClientIPResolver" {
		bad()
	}
	rec, sel, ok := en.fieldSel(ta.X)
	if !ok {
		bad()
	}
	g, mf := en.read(rec, sel)
	if mf.kind != kResolver {
		bad()
	}
	c, ok := unparen(ifs.Cond).(*ast.Ident)
	if !ok || obj(c) != obj(okv) {
		bad()
	}
	r1, ok := ifs.Body.List[0].(*ast.ReturnStmt)
	if !ok || len(r1.Results) != 1 || !isNil(r1.Results[0]) {
		bad()
	}
	if !en.sameField(rs.Results[0], rec, sel.Sel.Name) {
		bad()
	}
	// on the second return the value is not the sentinel: a user resolver
	return "match " + g + " with RNone => None | RSome i => Some i end"
}
