// optgen (tie A for C19): translates the option constructors of options.go and the parts of
// New / NewRoute (fox.go) that coq/C19/Model.v describes into Gallina functions over Model.v's
// records (coq/C19/GenOpt.v), on every run, from the tree under test.
//
// For every option constructor of the directive table the body of its
//
//	return <wrapper>(func(s sealedOption) error { ... })
//
// closure is specialised to the two ways fox calls it - applyGlob(sealedOption{router: r}) in New,
// applyRoute(sealedOption{route: rte}) in NewRoute - and translated statement by statement, IN
// SOURCE ORDER, into nested lets:
//
//	gen_<opt>_router : <args> -> router -> option router      (None = the returned ErrInvalidConfig)
//	gen_<opt>_route  : <args> -> route  -> option route
//
// Only a whitelist of statement and expression shapes is accepted (see stmt.go / expr.go and
// docs/GenOpt.md); anything else is REFUSED: the definition is replaced by a
// `(* REFUSED gen_X: reason *)` comment, the exit status is 1 and coq/C19/BridgeOpt.v no longer
// compiles.  A tree that does not parse or type-check is refused as a whole (stub file).
// Meaning of the emitted primitives: coq/C19/OptSem.v.
//
// usage: optgen repo=<fox tree> out=<GenOpt.v>
package main

import (
	"bytes"
	"crypto/sha256"
	"fmt"
	"go/ast"
	"go/importer"
	"go/parser"
	"go/printer"
	"go/token"
	"go/types"
	"os"
	"path/filepath"
	"sort"
	"strings"
)

var (
	fset = token.NewFileSet()
	info *types.Info
	pkg  *types.Package
)

type refusal struct{ msg string }

func refuse(pos token.Pos, format string, a ...any) {
	p := fset.Position(pos)
	panic(refusal{fmt.Sprintf("%s:%d: %s", filepath.Base(p.Filename), p.Line, fmt.Sprintf(format, a...))})
}

func src(n ast.Node) string {
	var b bytes.Buffer
	printer.Fprint(&b, fset, n)
	return strings.Join(strings.Fields(b.String()), " ")
}

// ---------------------------------------------------------------- directive table

// how a Go parameter is represented in the model (coq/C19/OptSem.v, header)
type vkind int

const (
	kBool     vkind = iota // bool
	kFn                    // HandlerFunc / MiddlewareFunc: bool "not nil"
	kFnList                // ...MiddlewareFunc: list bool
	kIface                 // ClientIPResolver parameter: option nat (None = nil)
	kResolver              // ClientIPResolver known not to be nil: resolver
	kN                     // HandlerScope, uint16: N
	kNat                   // int / uint32 results of parseRoute: nat
	kBytes                 // string: bytes
	kAkey                  // annotation key: akey
	kAval                  // annotation value: option nat
	kMws                   // []middleware: nat (length)
	kAnnots                // map[any]any: association list
	kOptsG                 // ...GlobalOption: list gopt
	kOptsR                 // ...RouteOption: list ropt
)

var coqType = map[vkind]string{kBool: "bool", kFn: "bool", kFnList: "list bool", kIface: "option nat", kResolver: "resolver",
	kN: "N", kNat: "nat", kBytes: "bytes", kAkey: "akey", kAval: "option nat", kMws: "nat", kAnnots: "list (nat * option nat)",
	kOptsG: "list gopt", kOptsR: "list ropt"}

type param struct {
	goType string // expected Go type as printed by types.TypeString with package names
	kind   vkind
}

type optDir struct {
	Go      string  // constructor in options.go
	G, R    string  // constructors of Types.gopt / Types.ropt ("" = the model has none: that side must not exist)
	Params  []param // expected signature
	Wrapper string  // expected wrapper type: optionFunc (both sides), globOptionFunc, routeOptionFunc
}

var pBool = param{"bool", kBool}
var pHandler = param{"fox.HandlerFunc", kFn}
var pMws = param{"[]fox.MiddlewareFunc", kFnList}

var optDirs = []optDir{
	{Go: "WithRedirectTrailingSlash", G: "GRedirectTS", R: "ORedirectTS", Params: []param{pBool}, Wrapper: "optionFunc"},
	{Go: "WithIgnoreTrailingSlash", G: "GIgnoreTS", R: "OIgnoreTS", Params: []param{pBool}, Wrapper: "optionFunc"},
	{Go: "WithClientIPResolver", G: "GClientIP", R: "OClientIP", Params: []param{{"fox.ClientIPResolver", kIface}}, Wrapper: "optionFunc"},
	{Go: "WithAnnotation", R: "OAnnot", Params: []param{{"any", kAkey}, {"any", kAval}}, Wrapper: "routeOptionFunc"},
	{Go: "WithMiddleware", G: "GMw", R: "OMw", Params: []param{pMws}, Wrapper: "optionFunc"},
	{Go: "WithMiddlewareFor", G: "GMwFor", Params: []param{{"fox.HandlerScope", kN}, pMws}, Wrapper: "globOptionFunc"},
	{Go: "WithNoRouteHandler", G: "GNoRouteH", Params: []param{pHandler}, Wrapper: "globOptionFunc"},
	{Go: "WithNoMethodHandler", G: "GNoMethodH", Params: []param{pHandler}, Wrapper: "globOptionFunc"},
	{Go: "WithOptionsHandler", G: "GOptionsH", Params: []param{pHandler}, Wrapper: "globOptionFunc"},
	{Go: "WithNoMethod", G: "GNoMethod", Params: []param{pBool}, Wrapper: "globOptionFunc"},
	{Go: "WithAutoOptions", G: "GAutoOptions", Params: []param{pBool}, Wrapper: "globOptionFunc"},
	{Go: "DefaultOptions", G: "GDefault", Params: nil, Wrapper: "globOptionFunc"},
	{Go: "WithMaxRouteParams", G: "GMaxParams", Params: []param{{"uint16", kN}}, Wrapper: "globOptionFunc"},
}

// fields of Router / Route: what the model knows about them
type mfield struct {
	goType string
	kind   vkind
	set    string // setter of OptSem.v
	get    string // projection of Model.v
	unobs  string // != "": a field Model.v deliberately does not observe (constructor of OptSem.gfield / rfield)
}

var routerFields = map[string]mfield{
	"redirectTrailingSlash":  {"bool", kBool, "set_g_redirect", "g_redirect", ""},
	"ignoreTrailingSlash":    {"bool", kBool, "set_g_ignore", "g_ignore", ""},
	"clientip":               {"fox.ClientIPResolver", kResolver, "set_g_clientip", "g_clientip", ""},
	"handleMethodNotAllowed": {"bool", kBool, "set_g_noMethod", "g_noMethod", ""},
	"handleOptions":          {"bool", kBool, "set_g_autoOptions", "g_autoOptions", ""},
	"mws":                    {"[]fox.middleware", kMws, "set_g_mws", "g_mws", ""},
	"maxParams":              {"uint16", kN, "set_g_maxParams", "g_maxParams", ""},
	"noRouteBase":            {"fox.HandlerFunc", kFn, "", "", "F_noRouteBase"},
	"noRoute":                {"fox.HandlerFunc", kFn, "", "", "F_noRoute"},
	"noMethod":               {"fox.HandlerFunc", kFn, "", "", "F_noMethod"},
	"tsrRedirect":            {"fox.HandlerFunc", kFn, "", "", "F_tsrRedirect"},
	"autoOptions":            {"fox.HandlerFunc", kFn, "", "", "F_autoOptions"},
	"maxParamKeyBytes":       {"uint16", kN, "", "", "F_maxParamKeyBytes"},
}

var routeFields = map[string]mfield{
	"pattern":               {"string", kBytes, "set_rt_pattern", "rt_pattern", ""},
	"hostSplit":             {"int", kNat, "set_rt_hostSplit", "rt_hostSplit", ""},
	"psLen":                 {"uint32", kNat, "set_rt_psLen", "rt_psLen", ""},
	"redirectTrailingSlash": {"bool", kBool, "set_rt_redirect", "rt_redirect", ""},
	"ignoreTrailingSlash":   {"bool", kBool, "set_rt_ignore", "rt_ignore", ""},
	"clientip":              {"fox.ClientIPResolver", kResolver, "set_rt_clientip", "rt_clientip", ""},
	"annots":                {"map[any]any", kAnnots, "set_rt_annots", "rt_annots", ""},
	"mws":                   {"[]fox.middleware", kMws, "set_rt_mws", "rt_mws", ""},
	"hbase":                 {"fox.HandlerFunc", kFn, "set_rt_handler", "rt_handler", ""},
}

func typeStr(t types.Type) string {
	return types.TypeString(t, func(p *types.Package) string { return p.Name() })
}

// ---------------------------------------------------------------- output

type definition struct {
	name   string // gen_...
	header string
	text   string // "" when refused
	reason string
}

func header(what string, n ast.Node) string {
	p0, p1 := fset.Position(n.Pos()), fset.Position(n.End())
	data, err := os.ReadFile(p0.Filename)
	txt := ""
	if err == nil && p1.Offset <= len(data) {
		txt = string(data[p0.Offset:p1.Offset])
	}
	return fmt.Sprintf("(* %s - %s:%d-%d  sha256=%x *)\n", what, filepath.Base(p0.Filename), p0.Line, p1.Line, sha256.Sum256([]byte(txt)))
}

func writeOut(out, text string) {
	old, _ := os.ReadFile(out)
	if string(old) == text {
		return
	}
	if err := os.WriteFile(out, []byte(text), 0o644); err != nil {
		fmt.Fprintln(os.Stderr, "optgen:", err)
		os.Exit(2)
	}
}

const prologue = `(* GENERATED by harness/cmd/optgen from options.go and fox.go of the tree under test - do not edit.
   Statement-by-statement translation of the option closures (specialised to s = {router: r} and to
   s = {route: rte}), of New and of NewRoute; primitives: OptSem.v; bridge to Model.v: BridgeOpt.v. *)
From FoxBase Require Import Bytes.
From FoxC19 Require Import GenC19 Types Pattern Model OptSem.

`

func stub(out, why string) {
	writeOut(out, "(* GENERATED by harness/cmd/optgen - do not edit. *)\n(* REFUSED: "+strings.ReplaceAll(why, "*)", "* )")+" *)\n")
	fmt.Fprintln(os.Stderr, "optgen: REFUSED:", why)
	os.Exit(1)
}

func main() {
	repo, out := os.Getenv("VERIF_REPO"), ""
	for _, a := range os.Args[1:] {
		switch {
		case strings.HasPrefix(a, "repo="):
			repo = a[5:]
		case strings.HasPrefix(a, "out="):
			out = a[4:]
		}
	}
	if repo == "" {
		repo = "/repo"
	}
	if out == "" {
		fmt.Fprintln(os.Stderr, "usage: optgen repo=<fox tree> out=<GenOpt.v>")
		os.Exit(2)
	}
	repo, _ = filepath.Abs(repo)
	out, _ = filepath.Abs(out)
	pkgs, err := parser.ParseDir(fset, repo, func(fi os.FileInfo) bool {
		n := fi.Name()
		return !strings.HasSuffix(n, "_test.go") && !strings.HasPrefix(n, "verif_")
	}, 0)
	if err != nil {
		stub(out, "the tree does not parse: "+err.Error())
	}
	p := pkgs["fox"]
	if p == nil {
		stub(out, "package fox not found in "+repo)
	}
	names := make([]string, 0, len(p.Files))
	for n := range p.Files {
		names = append(names, n)
	}
	sort.Strings(names)
	var files []*ast.File
	for _, n := range names {
		files = append(files, p.Files[n])
	}
	if err := os.Chdir(repo); err != nil {
		stub(out, err.Error())
	}
	var terrs []string
	conf := types.Config{Importer: importer.ForCompiler(fset, "source", nil), Error: func(err error) { terrs = append(terrs, err.Error()) }}
	info = &types.Info{Uses: map[*ast.Ident]types.Object{}, Defs: map[*ast.Ident]types.Object{},
		Selections: map[*ast.SelectorExpr]*types.Selection{}, Types: map[ast.Expr]types.TypeAndValue{}}
	pkg, _ = conf.Check("github.com/tigerwill90/fox", fset, files, info)
	if len(terrs) > 0 {
		stub(out, "package fox does not type-check: "+terrs[0])
	}

	funcs := map[string]*ast.FuncDecl{}
	for _, f := range files {
		for _, d := range f.Decls {
			if fd, ok := d.(*ast.FuncDecl); ok && fd.Body != nil {
				funcs[qual(fd)] = fd
			}
		}
	}

	var defs []definition
	try := func(name string, n ast.Node, what string, f func() string) {
		d := definition{name: name}
		if n != nil {
			d.header = header(what, n)
		}
		func() {
			defer func() {
				if r := recover(); r != nil {
					rf, ok := r.(refusal)
					if !ok {
						panic(r)
					}
					d.reason = rf.msg
				}
			}()
			d.text = f()
		}()
		defs = append(defs, d)
	}

	// the wrapper types must just call the closure
	try("wrappers", nil, "", func() string { checkWrappers(funcs); return "" })

	for _, od := range optDirs {
		od := od
		fd := funcs[od.Go]
		if fd == nil {
			try("gen_"+od.Go, nil, "", func() string { refuse(token.NoPos, "function %s not found", od.Go); return "" })
			continue
		}
		if od.G != "" {
			try("gen_"+od.Go+"_router", fd, od.Go+" (router side, Types."+od.G+")", func() string { return transOption(od, fd, "router") })
		}
		if od.R != "" {
			try("gen_"+od.Go+"_route", fd, od.Go+" (route side, Types."+od.R+")", func() string { return transOption(od, fd, "route") })
		}
	}
	if fd := funcs["New"]; fd != nil {
		try("gen_New", fd, "New", func() string { return transNew(fd) })
	} else {
		try("gen_New", nil, "", func() string { refuse(token.NoPos, "function New not found"); return "" })
	}
	if fd := funcs["Router.NewRoute"]; fd != nil {
		try("gen_NewRoute", fd, "Router.NewRoute", func() string { return transNewRoute(fd) })
	} else {
		try("gen_NewRoute", nil, "", func() string { refuse(token.NoPos, "method Router.NewRoute not found"); return "" })
	}

	for _, ad := range accDirs {
		ad := ad
		if fd := funcs["Route."+ad.Name]; fd != nil {
			try("gen_Route_"+ad.Name, fd, "Route."+ad.Name, func() string { return transAccessor(ad, fd) })
		} else {
			try("gen_Route_"+ad.Name, nil, "", func() string { refuse(token.NoPos, "method Route.%s not found", ad.Name); return "" })
		}
	}

	var sb strings.Builder
	sb.WriteString(prologue)
	nref := 0
	for _, d := range defs {
		if d.reason != "" {
			nref++
			fmt.Fprintf(&sb, "(* REFUSED %s: %s *)\n\n", d.name, strings.ReplaceAll(d.reason, "*)", "* )"))
			fmt.Fprintf(os.Stderr, "optgen: REFUSED %s: %s\n", d.name, d.reason)
			continue
		}
		if d.text == "" {
			continue
		}
		sb.WriteString(d.header)
		sb.WriteString(d.text)
		sb.WriteString("\n")
	}
	writeOut(out, sb.String())
	fmt.Printf("optgen: %d definitions, %d refused -> %s\n", len(defs)-1-nref, nref, out)
	if nref > 0 {
		os.Exit(1)
	}
}

func qual(fd *ast.FuncDecl) string {
	if fd.Recv == nil || len(fd.Recv.List) == 0 {
		return fd.Name.Name
	}
	t := fd.Recv.List[0].Type
	if st, ok := t.(*ast.StarExpr); ok {
		t = st.X
	}
	if id, ok := t.(*ast.Ident); ok {
		return id.Name + "." + fd.Name.Name
	}
	return "?." + fd.Name.Name
}

// checkWrappers: optionFunc / globOptionFunc / routeOptionFunc are func(sealedOption) error and their
// applyGlob / applyRoute methods are `return o(s)`; sealedOption is {router *Router; route *Route}.
func checkWrappers(funcs map[string]*ast.FuncDecl) {
	want := map[string][]string{"optionFunc": {"applyGlob", "applyRoute"}, "globOptionFunc": {"applyGlob"}, "routeOptionFunc": {"applyRoute"}}
	for tn, ms := range want {
		obj := pkg.Scope().Lookup(tn)
		if obj == nil {
			refuse(token.NoPos, "type %s not found", tn)
		}
		if typeStr(obj.Type().Underlying()) != "func(fox.sealedOption) error" {
			refuse(obj.Pos(), "type %s is %s, expected func(sealedOption) error", tn, typeStr(obj.Type().Underlying()))
		}
		nm := 0
		for q, fd := range funcs {
			if !strings.HasPrefix(q, tn+".") {
				continue
			}
			nm++
			okm := false
			for _, m := range ms {
				if fd.Name.Name == m {
					okm = true
				}
			}
			if !okm {
				refuse(fd.Pos(), "unexpected method %s", q)
			}
			recv := fd.Recv.List[0]
			if len(recv.Names) != 1 || len(fd.Type.Params.List) != 1 || len(fd.Type.Params.List[0].Names) != 1 {
				refuse(fd.Pos(), "unexpected signature of %s", q)
			}
			want := fmt.Sprintf("{ return %s(%s) }", recv.Names[0].Name, fd.Type.Params.List[0].Names[0].Name)
			if src(fd.Body) != want {
				refuse(fd.Pos(), "%s is not `return o(s)`: %s", q, src(fd.Body))
			}
		}
		if nm != len(ms) {
			refuse(obj.Pos(), "type %s has %d methods, expected %v", tn, nm, ms)
		}
	}
	so := pkg.Scope().Lookup("sealedOption")
	if so == nil || typeStr(so.Type().Underlying()) != "struct{router *fox.Router; route *fox.Route}" {
		refuse(token.NoPos, "sealedOption is not struct{router *Router; route *Route}")
	}
	mw := pkg.Scope().Lookup("middleware")
	if mw == nil || typeStr(mw.Type().Underlying()) != "struct{m fox.MiddlewareFunc; scope fox.HandlerScope; g bool}" {
		refuse(token.NoPos, "middleware is not struct{m MiddlewareFunc; scope HandlerScope; g bool}")
	}
}
