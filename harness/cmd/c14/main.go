// c14: drives fox's ResponseWriter (the recorder of response_writer.go, obtained
// through the public API: a handler's c.Writer() under ServeHTTP, or
// fox.NewTestContext) and the Context helpers String/Blob/Stream/Redirect with
// call sequences over a recording underlying http.ResponseWriter of a chosen
// kind (which optional interfaces it offers) and failure behaviour, observes
// Status/Written/Size, the returned count and error class, the calls the
// underlying writer received and the header keys after EVERY call, and writes
// Coq case files compared with the model (FoxC14.Model / ModelFixed) and the
// specification (FoxC14.Spec) by FoxC14.Corr.
package main

import (
	"bufio"
	"bytes"
	"errors"
	"fmt"
	"io"
	"log"
	"net"
	"net/http"
	"net/http/httptest"
	"os"
	"strings"
	"time"

	"foxverif/hx"

	"github.com/tigerwill90/fox"
)

// ---------------------------------------------------------------- underlying writer

var (
	errUw  = errors.New("underlying write failed")
	errCap = errors.New("underlying optional method failed")
	errSrc = errors.New("source failed")
)

type ev struct {
	kind byte // 'H' header, 'D' body, 'K' capability
	code int
	data string
	cap  string
}

func (e ev) coq() string {
	switch e.kind {
	case 'H':
		return fmt.Sprintf("H %s", zlit(e.code))
	case 'D':
		return "D " + hx.Bytes(e.data)
	default:
		return "K " + e.cap
	}
}
func (e ev) String() string {
	switch e.kind {
	case 'H':
		return fmt.Sprintf("WriteHeader(%d)", e.code)
	case 'D':
		return fmt.Sprintf("Write->%q", e.data)
	default:
		return e.cap
	}
}

func zlit(n int) string {
	if n < 0 {
		return fmt.Sprintf("(%d)", n)
	}
	return fmt.Sprint(n)
}

// core: the part every kind shares. It records every call it receives.
type core struct {
	h        http.Header
	log      []ev
	accepted int
	budget   int // total body bytes accepted before Write starts failing; -1 = unlimited
	capfail  bool
	hijacked bool
}

func (c *core) Header() http.Header { return c.h }
func (c *core) WriteHeader(code int) {
	c.log = append(c.log, ev{kind: 'H', code: code})
}
func (c *core) Write(b []byte) (int, error) {
	if c.hijacked {
		c.log = append(c.log, ev{kind: 'D'})
		return 0, http.ErrHijacked
	}
	n := len(b)
	var err error
	if c.budget >= 0 {
		left := c.budget - c.accepted
		if left < 0 {
			left = 0
		}
		if n > left {
			n, err = left, errUw
		}
	}
	c.log = append(c.log, ev{kind: 'D', data: string(b[:n])})
	c.accepted += n
	return n, err
}
func (c *core) capCall(name string) error {
	c.log = append(c.log, ev{kind: 'K', cap: name})
	if c.capfail {
		return errCap
	}
	return nil
}

type onlyW struct{ io.Writer }

type mRF struct{ c *core }

func (m mRF) ReadFrom(src io.Reader) (int64, error) { return io.Copy(onlyW{m.c}, src) }

type mSW struct{ c *core }

func (m mSW) WriteString(s string) (int, error) { return m.c.Write([]byte(s)) }

type mFl struct{ c *core }

func (m mFl) Flush() { _ = m.c.capCall("KFlush") }

type mFE struct{ c *core }

func (m mFE) FlushError() error { return m.c.capCall("KFlushError") }

type mHij struct{ c *core }

func (m mHij) Hijack() (net.Conn, *bufio.ReadWriter, error) {
	if err := m.c.capCall("KHijack"); err != nil {
		return nil, nil, err
	}
	m.c.hijacked = true
	return nil, nil, nil
}

type mPush struct{ c *core }

func (m mPush) Push(string, *http.PushOptions) error { return m.c.capCall("KPush") }

type mDl struct{ c *core }

func (m mDl) SetReadDeadline(time.Time) error  { return m.c.capCall("KRdl") }
func (m mDl) SetWriteDeadline(time.Time) error { return m.c.capCall("KWdl") }
func (m mDl) EnableFullDuplex() error          { return m.c.capCall("KDup") }

// kinds: static Go types, one per combination used. twin = same kind without
// io.ReaderFrom / io.StringWriter (-1 when the kind has neither).
type kind struct {
	name string
	rf   bool
	sw   bool
	fl   string // FNone FFlusher FFlushError FBoth
	hij  bool
	push bool
	dl   bool // SetReadDeadline, SetWriteDeadline and EnableFullDuplex together
	twin int
	mk   func(c *core) http.ResponseWriter
}

var kinds = []kind{
	{name: "kBare", fl: "FNone", twin: -1, mk: func(c *core) http.ResponseWriter { return c }},
	{name: "kRf", rf: true, fl: "FNone", twin: 0, mk: func(c *core) http.ResponseWriter {
		return struct {
			*core
			mRF
		}{c, mRF{c}}
	}},
	{name: "kRfSw", rf: true, sw: true, fl: "FNone", twin: 0, mk: func(c *core) http.ResponseWriter {
		return struct {
			*core
			mRF
			mSW
		}{c, mRF{c}, mSW{c}}
	}},
	{name: "kFl", fl: "FFlusher", twin: -1, mk: func(c *core) http.ResponseWriter {
		return struct {
			*core
			mFl
		}{c, mFl{c}}
	}},
	{name: "kRfFl", rf: true, fl: "FFlusher", twin: 3, mk: func(c *core) http.ResponseWriter {
		return struct {
			*core
			mRF
			mFl
		}{c, mRF{c}, mFl{c}}
	}},
	{name: "kFeHijPush", fl: "FFlushError", hij: true, push: true, twin: -1, mk: func(c *core) http.ResponseWriter {
		return struct {
			*core
			mFE
			mHij
			mPush
		}{c, mFE{c}, mHij{c}, mPush{c}}
	}},
	{name: "kRfSwFeHijPush", rf: true, sw: true, fl: "FFlushError", hij: true, push: true, twin: 5, mk: func(c *core) http.ResponseWriter {
		return struct {
			*core
			mRF
			mSW
			mFE
			mHij
			mPush
		}{c, mRF{c}, mSW{c}, mFE{c}, mHij{c}, mPush{c}}
	}},
	{name: "kAllNoFast", fl: "FBoth", hij: true, push: true, dl: true, twin: -1, mk: func(c *core) http.ResponseWriter {
		return struct {
			*core
			mFl
			mFE
			mHij
			mPush
			mDl
		}{c, mFl{c}, mFE{c}, mHij{c}, mPush{c}, mDl{c}}
	}},
	{name: "kAll", rf: true, sw: true, fl: "FBoth", hij: true, push: true, dl: true, twin: 7, mk: func(c *core) http.ResponseWriter {
		return struct {
			*core
			mRF
			mSW
			mFl
			mFE
			mHij
			mPush
			mDl
		}{c, mRF{c}, mSW{c}, mFl{c}, mFE{c}, mHij{c}, mPush{c}, mDl{c}}
	}},
	{name: "kSw", sw: true, fl: "FNone", twin: 0, mk: func(c *core) http.ResponseWriter {
		return struct {
			*core
			mSW
		}{c, mSW{c}}
	}},
}

func (k kind) coqDef() string {
	return fmt.Sprintf("Definition %s := mkcfg %s %s %s %s %s %s %s %s.\n", k.name,
		hx.Bool(k.rf), hx.Bool(k.sw), k.fl, hx.Bool(k.hij), hx.Bool(k.push), hx.Bool(k.dl), hx.Bool(k.dl), hx.Bool(k.dl))
}

// ---------------------------------------------------------------- sources

type srcSpec struct {
	data  string
	fail  bool
	chunk int
	wt    bool
	// impl selects the Go type handed to ReadFrom/Stream (the model only sees its behaviour, see eff()):
	//   ""               chunkReader, a plain io.Reader (or bytes.Reader when wt)
	//   "bytes.Reader" "strings.Reader" "bytes.Buffer"   standard sources with io.WriterTo (wt must be set)
	//   "limited"        *io.LimitedReader{R: chunkReader, N: limit}   (no WriterTo; io.Copy sizes its buffer to N)
	//   "eager"          plain io.Reader that returns the last chunk TOGETHER with io.EOF / the error
	impl  string
	limit int
}

// eff is the behaviour of the source as the model describes it (data, fail, chunk, wt).
func (s srcSpec) eff() srcSpec {
	e := srcSpec{data: s.data, fail: s.fail, chunk: s.chunk, wt: s.wt}
	if s.impl == "limited" {
		if s.limit <= len(s.data) { // the limit is reached before the inner reader can report its error
			e.data, e.fail = s.data[:s.limit], false
		}
	}
	if e.wt {
		e.fail, e.chunk = false, 0
	}
	return e
}

type chunkReader struct {
	data  []byte
	fail  bool
	chunk int
	eager bool
}

func (s *chunkReader) Read(p []byte) (int, error) {
	if s.eager && len(s.data) > 0 {
		n := len(s.data)
		if s.chunk > 0 && n > s.chunk {
			n = s.chunk
		}
		if n > len(p) {
			n = len(p)
		}
		copy(p, s.data[:n])
		s.data = s.data[n:]
		if len(s.data) == 0 {
			if s.fail {
				return n, errSrc
			}
			return n, io.EOF
		}
		return n, nil
	}
	if len(s.data) == 0 {
		if s.fail {
			return 0, errSrc
		}
		return 0, io.EOF
	}
	n := len(s.data)
	if s.chunk > 0 && n > s.chunk {
		n = s.chunk
	}
	if n > len(p) {
		n = len(p)
	}
	copy(p, s.data[:n])
	s.data = s.data[n:]
	return n, nil
}

func (s srcSpec) reader() io.Reader {
	switch s.impl {
	case "strings.Reader":
		return strings.NewReader(s.data)
	case "bytes.Buffer":
		return bytes.NewBufferString(s.data)
	case "limited":
		return &io.LimitedReader{R: &chunkReader{data: []byte(s.data), fail: s.fail, chunk: s.chunk}, N: int64(s.limit)}
	case "eager":
		return &chunkReader{data: []byte(s.data), fail: s.fail, chunk: s.chunk, eager: true}
	}
	if s.wt {
		return bytes.NewReader([]byte(s.data)) // implements io.WriterTo
	}
	return &chunkReader{data: []byte(s.data), fail: s.fail, chunk: s.chunk}
}
func (s srcSpec) coq() string {
	e := s.eff()
	return fmt.Sprintf("(mksrc %s %s %d%%nat %s)", hx.Bytes(e.data), hx.Bool(e.fail), e.chunk, hx.Bool(e.wt))
}
func (s srcSpec) String() string {
	impl := s.impl
	if impl == "" {
		impl = map[bool]string{true: "bytes.Reader", false: "plainReader"}[s.wt]
	}
	if impl == "limited" {
		impl = fmt.Sprintf("io.LimitedReader(N=%d)", s.limit)
	}
	return fmt.Sprintf("src{%s %q fail=%v chunk=%d writerTo=%v}", impl, s.data, s.fail, s.chunk, s.wt)
}

// ---------------------------------------------------------------- actions

type action struct {
	op   string // WriteHeader Write WriteString ReadFrom Flush Hijack Push SetReadDeadline SetWriteDeadline EnableFullDuplex Unwrap String Blob Stream Redirect
	code int
	data string
	ct   string
	src  srcSpec
	viaC bool // go through http.NewResponseController where it offers the method
	name string
	// String only: the format and the variadic arguments handed to c.String (format == "" with
	// noFmt == false means the legacy form c.String(code, "%s", data))
	format string
	fargs  []any
	isFmt  bool
}

// strCall returns the format and arguments of a String action.
func (a action) strCall() (string, []any) {
	if a.isFmt {
		return a.format, a.fargs
	}
	return "%s", []any{a.data}
}

// strExpected is the ORACLE for String: the bytes fmt produces for (format, args...), computed here,
// independently of fox. The model and the specification take it as the bytes String was given.
func (a action) strExpected() string {
	f, v := a.strCall()
	return fmt.Sprintf(f, v...)
}

func (a action) String() string {
	switch a.op {
	case "WriteHeader":
		return fmt.Sprintf("WriteHeader(%d)", a.code)
	case "Write", "WriteString":
		return fmt.Sprintf("%s(%q)", a.op, a.data)
	case "ReadFrom":
		return fmt.Sprintf("ReadFrom(%v)", a.src)
	case "String":
		f, v := a.strCall()
		return fmt.Sprintf("c.String(%d,%q,%d args %q)", a.code, f, len(v), fmt.Sprint(v...))
	case "Blob":
		return fmt.Sprintf("c.Blob(%d,%q,%q)", a.code, a.ct, a.data)
	case "Stream":
		return fmt.Sprintf("c.Stream(%d,%q,%v)", a.code, a.ct, a.src)
	case "Redirect":
		return fmt.Sprintf("c.Redirect(%d,%q)", a.code, a.data)
	}
	if a.viaC {
		return a.op + "[ResponseController]"
	}
	return a.op
}

var redirectReq = httptest.NewRequest(http.MethodGet, "/", nil)

// what net/http's Redirect writes for (url, code) on a GET without Content-Type: the oracle handed to the model
func redirectBody(url string, code int) string {
	if code < 100 || code > 999 {
		return ""
	}
	rec := httptest.NewRecorder()
	http.Redirect(rec, redirectReq, url, code)
	return rec.Body.String()
}

func (a action) coq() string {
	if a.name != "" {
		return a.name
	}
	switch a.op {
	case "WriteHeader":
		return "CWriteHeader " + zlit(a.code)
	case "Write":
		return "CWrite " + hx.Bytes(a.data)
	case "WriteString":
		return "CWriteString " + hx.Bytes(a.data)
	case "ReadFrom":
		return "CReadFrom " + a.src.coq()
	case "Flush":
		return "CFlushError"
	case "Hijack":
		return "CHijack"
	case "Push":
		return "CPush"
	case "SetReadDeadline":
		return "CSetReadDeadline"
	case "SetWriteDeadline":
		return "CSetWriteDeadline"
	case "EnableFullDuplex":
		return "CEnableFullDuplex"
	case "Unwrap":
		return "CUnwrap"
	case "String":
		return fmt.Sprintf("CString %s %s", zlit(a.code), hx.Bytes(a.strExpected()))
	case "Blob":
		return fmt.Sprintf("CBlob %s %s %s", zlit(a.code), hx.Bytes(a.ct), hx.Bytes(a.data))
	case "Stream":
		return fmt.Sprintf("CStream %s %s %s", zlit(a.code), hx.Bytes(a.ct), a.src.coq())
	case "Redirect":
		return fmt.Sprintf("CRedirect %s %s %s", zlit(a.code), hx.Bytes(a.data), hx.Bytes(redirectBody(a.data, a.code)))
	}
	panic("unknown op " + a.op)
}

func classify(err error) string {
	switch {
	case err == nil:
		return "ENil"
	case errors.Is(err, http.ErrHijacked):
		return "EHijacked"
	case errors.Is(err, http.ErrNotSupported):
		return "ENotSupported"
	case err == io.ErrShortWrite:
		return "EShortWrite"
	case err == errSrc:
		return "ESrc"
	case err == errUw:
		return "EUw"
	case err == errCap:
		return "ECap"
	case errors.Is(err, fox.ErrInvalidRedirectCode):
		return "EInvalidRedirect"
	}
	return "EOther"
}

// perform one action on the context; returns (count, error class)
func perform(c fox.Context, under http.ResponseWriter, a action) (n int64, cls string) {
	defer func() {
		if r := recover(); r != nil {
			n, cls = 0, "EOther"
		}
	}()
	w := c.Writer()
	var err error
	switch a.op {
	case "WriteHeader":
		w.WriteHeader(a.code)
	case "Write":
		var k int
		k, err = w.Write([]byte(a.data))
		n = int64(k)
	case "WriteString":
		var k int
		if a.viaC {
			k, err = io.WriteString(w, a.data)
		} else {
			k, err = w.WriteString(a.data)
		}
		n = int64(k)
	case "ReadFrom":
		n, err = w.ReadFrom(a.src.reader())
	case "Flush":
		if a.viaC {
			err = http.NewResponseController(w).Flush()
		} else {
			err = w.FlushError()
		}
	case "Hijack":
		if a.viaC {
			_, _, err = http.NewResponseController(w).Hijack()
		} else {
			_, _, err = w.Hijack()
		}
	case "Push":
		err = w.Push("/pushed", nil)
	case "SetReadDeadline":
		if a.viaC {
			err = http.NewResponseController(w).SetReadDeadline(time.Time{})
		} else {
			err = w.SetReadDeadline(time.Time{})
		}
	case "SetWriteDeadline":
		if a.viaC {
			err = http.NewResponseController(w).SetWriteDeadline(time.Time{})
		} else {
			err = w.SetWriteDeadline(time.Time{})
		}
	case "EnableFullDuplex":
		if a.viaC {
			err = http.NewResponseController(w).EnableFullDuplex()
		} else {
			err = w.EnableFullDuplex()
		}
	case "Unwrap":
		u, ok := w.(interface{ Unwrap() http.ResponseWriter })
		if !ok || u.Unwrap() != under {
			err = errors.New("Unwrap does not return the underlying writer")
		}
	case "String":
		f, v := a.strCall()
		err = c.String(a.code, f, v...)
	case "Blob":
		err = c.Blob(a.code, a.ct, []byte(a.data))
	case "Stream":
		err = c.Stream(a.code, a.ct, a.src.reader())
	case "Redirect":
		err = c.Redirect(a.code, a.data)
	default:
		panic("unknown op")
	}
	return n, classify(err)
}

// ---------------------------------------------------------------- running a sequence

type obs struct {
	status  int
	written bool
	size    int
	n       int64
	cls     string
	log     []ev
	hdr     [][2]string // (HContentType|HLocation, value)
}

func (o obs) coq() string {
	return fmt.Sprintf("O %s %s %d %d %s %s %s", zlit(o.status), hx.Bool(o.written), o.size, o.n, o.cls,
		hx.ListOf(o.log, func(e ev) string { return e.coq() }),
		hx.ListOf(o.hdr, func(h [2]string) string { return "(" + h[0] + ", " + hx.Bytes(h[1]) + ")" }))
}
func (o obs) String() string {
	return fmt.Sprintf("{Status=%d Written=%v Size=%d n=%d err=%s underlying%v hdr%v}", o.status, o.written, o.size, o.n, o.cls, o.log, o.hdr)
}

type pending struct {
	head    string
	o, twin []string
	hasTwin bool
	nested  bool // a case of the nested-router family (CorrNested.ncase)
}

func obsStrings(os []obs) []string {
	out := make([]string, len(os))
	for i, o := range os {
		out[i] = o.coq()
	}
	return out
}

type runner struct {
	router  *fox.Router
	pending func(c fox.Context)
	viaTest bool
}

func newRunner() *runner {
	r := &runner{}
	f, err := fox.New()
	hx.Fatal(err)
	_, err = f.Handle(http.MethodGet, "/", func(c fox.Context) { r.pending(c) })
	hx.Fatal(err)
	r.router = f
	return r
}

func hdrVal(h http.Header, k string) (string, bool) {
	v, ok := h[k]
	if !ok {
		return "", false
	}
	if len(v) == 0 {
		return "", true
	}
	return v[0], true
}

// run executes the sequence on a fresh underlying writer of kind k.
// useTestCtx: obtain the recorder from fox.NewTestContext instead of a handler under ServeHTTP.
func (r *runner) run(k kind, budget int, capfail bool, seq []action, useTestCtx bool) []obs {
	c := &core{h: http.Header{}, budget: budget, capfail: capfail}
	under := k.mk(c)
	var out []obs
	body := func(ctx fox.Context) {
		for _, a := range seq {
			before := len(c.log)
			ct0, hadCT0 := hdrVal(c.h, "Content-Type")
			loc0, hadLoc0 := hdrVal(c.h, "Location")
			n, cls := perform(ctx, under, a)
			o := obs{status: ctx.Writer().Status(), written: ctx.Writer().Written(), size: ctx.Writer().Size(), n: n, cls: cls}
			o.log = append(o.log, c.log[before:]...)
			if ct1, had := hdrVal(c.h, "Content-Type"); had && (!hadCT0 || ct1 != ct0) {
				o.hdr = append(o.hdr, [2]string{"HContentType", ct1})
			}
			if loc1, had := hdrVal(c.h, "Location"); had && (!hadLoc0 || loc1 != loc0) {
				o.hdr = append(o.hdr, [2]string{"HLocation", loc1})
			}
			out = append(out, o)
		}
	}
	req := httptest.NewRequest(http.MethodGet, "/", nil)
	if useTestCtx {
		_, tc := fox.NewTestContext(under, req)
		body(tc)
	} else {
		r.pending = body
		r.router.ServeHTTP(under, req)
	}
	return out
}

// ---------------------------------------------------------------- nested routers
//
// A fox Router served THROUGH another fox Context's Writer(): the child's recorder is stacked on the parent's
// recorder. The calls of one request are tagged with who makes them: a handler / middleware of the parent router
// on the parent's Context (before and after the child is mounted) or the child router's handler on the child's
// Context. After every call the PARENT's Status/Written/Size are read (what the parent's Logger, Recovery or
// metrics middleware see), the calls that reached the real underlying writer, the header changes, and for the
// child's calls the child's own answers as well.

// mounts: how the child gets the parent's Context.Writer(), and how the parent's Context is obtained
var mounts = []string{
	"parent.Handle(WrapH(child))", "parent.Handle(WrapF(child.ServeHTTP))", "child.ServeHTTP(c.Writer(),c.Request())",
	"NewTestContext(c.Writer(),c.Request())", "parent=NewTestContext;WrapH(child)(c)", "parent=NewTestContext;child.ServeHTTP(c.Writer(),c.Request())",
}

type nobs struct {
	o     obs // the PARENT's answers, what the call returned, log and header delta at the real writer
	child bool
	cst   int
	cw    bool
	csz   int
}

func (o nobs) coq() string {
	if !o.child {
		return "NP (" + o.o.coq() + ")"
	}
	return fmt.Sprintf("NC (%s) %s %s %d", o.o.coq(), zlit(o.cst), hx.Bool(o.cw), o.csz)
}
func (o nobs) String() string {
	if !o.child {
		return "parent" + o.o.String()
	}
	return fmt.Sprintf("parent%v child{Status=%d Written=%v Size=%d}", o.o, o.cst, o.cw, o.csz)
}

type nrunner struct {
	parent, child *fox.Router
	pre, post     func(c fox.Context) // the parent's middleware, around the mounted child
	childBody     func(c fox.Context) // the child's route handler
	direct        func(c fox.Context) // the parent's /d route handler
}

func newNRunner() *nrunner {
	n := &nrunner{}
	child, err := fox.New()
	hx.Fatal(err)
	_, err = child.Handle(http.MethodGet, "/*{rest}", func(c fox.Context) { n.childBody(c) })
	hx.Fatal(err)
	parent, err := fox.New(fox.WithMiddleware(func(next fox.HandlerFunc) fox.HandlerFunc {
		return func(c fox.Context) {
			n.pre(c)
			next(c)
			n.post(c)
		}
	}))
	hx.Fatal(err)
	_, err = parent.Handle(http.MethodGet, "/h/*{any}", fox.WrapH(child))
	hx.Fatal(err)
	_, err = parent.Handle(http.MethodGet, "/f/*{any}", fox.WrapF(child.ServeHTTP))
	hx.Fatal(err)
	_, err = parent.Handle(http.MethodGet, "/d/*{any}", func(c fox.Context) { n.direct(c) })
	hx.Fatal(err)
	n.parent, n.child = parent, child
	return n
}

// run serves one request on a fresh underlying writer of kind k: the parent's handlers make the calls pre, the
// mounted child's handler the calls mid, then the parent's handlers the calls post.
func (n *nrunner) run(k kind, budget int, capfail bool, pre, mid, post []action, mount int) []nobs {
	c := &core{h: http.Header{}, budget: budget, capfail: capfail}
	under := k.mk(c)
	var out []nobs
	var pctx fox.Context
	phase := func(ctx fox.Context, child bool, acts []action) {
		for _, a := range acts {
			before := len(c.log)
			ct0, hadCT0 := hdrVal(c.h, "Content-Type")
			loc0, hadLoc0 := hdrVal(c.h, "Location")
			below := under // what Unwrap must return
			if child {
				below = pctx.Writer()
			}
			cnt, cls := perform(ctx, below, a)
			pw := pctx.Writer()
			o := nobs{o: obs{status: pw.Status(), written: pw.Written(), size: pw.Size(), n: cnt, cls: cls}, child: child}
			if child {
				cw := ctx.Writer()
				o.cst, o.cw, o.csz = cw.Status(), cw.Written(), cw.Size()
			}
			o.o.log = append(o.o.log, c.log[before:]...)
			if ct1, had := hdrVal(c.h, "Content-Type"); had && (!hadCT0 || ct1 != ct0) {
				o.o.hdr = append(o.o.hdr, [2]string{"HContentType", ct1})
			}
			if loc1, had := hdrVal(c.h, "Location"); had && (!hadLoc0 || loc1 != loc0) {
				o.o.hdr = append(o.o.hdr, [2]string{"HLocation", loc1})
			}
			out = append(out, o)
		}
	}
	n.pre = func(ctx fox.Context) { pctx = ctx; phase(ctx, false, pre) }
	n.post = func(ctx fox.Context) { phase(ctx, false, post) }
	n.childBody = func(ctx fox.Context) { phase(ctx, true, mid) }
	path := []string{"/h/x", "/f/x", "/d/x", "/d/x", "/t/x", "/t/x"}[mount]
	req := httptest.NewRequest(http.MethodGet, path, nil)
	switch mount {
	case 0, 1:
		n.parent.ServeHTTP(under, req)
	case 2:
		n.direct = func(pc fox.Context) { n.child.ServeHTTP(pc.Writer(), pc.Request()) }
		n.parent.ServeHTTP(under, req)
	case 3:
		n.direct = func(pc fox.Context) {
			_, tc := fox.NewTestContext(pc.Writer(), pc.Request())
			n.childBody(tc)
		}
		n.parent.ServeHTTP(under, req)
	case 4:
		_, tc := fox.NewTestContext(under, req)
		n.pre(tc)
		fox.WrapH(n.child)(tc)
		n.post(tc)
	case 5:
		_, tc := fox.NewTestContext(under, req)
		n.pre(tc)
		n.child.ServeHTTP(tc.Writer(), tc.Request())
		n.post(tc)
	}
	return out
}

// ---------------------------------------------------------------- behaviour probe

// Which ReadFrom accounting does the tree under test have?  "cur": the pinned
// fast path (failing source leaves Written=false/Size=0, empty source marks
// written without a header); "fixed": proposed_fixes/C14_readfrom.patch (header
// first, bytes always counted); "other": neither.
func probe(r *runner) string {
	k := kinds[1] // kRf
	a := r.run(k, -1, false, []action{{op: "ReadFrom", src: srcSpec{data: "hello", fail: true}}}, true)[0]
	b := r.run(k, -1, false, []action{{op: "ReadFrom", src: srcSpec{}}}, true)[0]
	switch {
	case !a.written && a.size == 0 && len(a.log) == 1 && b.written && len(b.log) == 0:
		return "cur"
	case a.written && a.size == 5 && len(a.log) == 2 && a.log[0].kind == 'H' && b.written && len(b.log) == 1 && b.log[0].kind == 'H':
		return "fixed"
	}
	return "other"
}

// ---------------------------------------------------------------- main

func main() {
	log.SetOutput(io.Discard) // the recorder logs superfluous WriteHeader calls
	args := hx.Args()
	r := newRunner()
	behaviour := probe(r)
	if args["probe"] != "" {
		fmt.Println("behaviour=" + behaviour)
		return
	}
	out := args["out"]
	tier := args["tier"]
	shards := hx.Atoi(args["shards"], 8)
	rnd := hx.NewRand(hx.Seed())

	// the exhaustive alphabet (named terms keep the case files small)
	alpha := []action{
		{op: "WriteHeader", code: 100}, {op: "WriteHeader", code: 103}, {op: "WriteHeader", code: 101},
		{op: "WriteHeader", code: 200}, {op: "WriteHeader", code: 404},
		{op: "Write", data: ""}, {op: "Write", data: "abc"}, {op: "WriteString", data: "xyz"},
		{op: "ReadFrom", src: srcSpec{}}, {op: "ReadFrom", src: srcSpec{data: "hello"}},
		{op: "ReadFrom", src: srcSpec{data: "he", fail: true}},
		{op: "Flush"}, {op: "Hijack"}, {op: "Push"},
	}
	// the rest of the API, used in the wide length-2 enumeration and the random stream
	extra := []action{
		{op: "WriteString", data: ""}, {op: "SetReadDeadline"}, {op: "SetWriteDeadline"}, {op: "EnableFullDuplex"}, {op: "Unwrap"},
		{op: "ReadFrom", src: srcSpec{data: "hello", fail: true, chunk: 2}},
		{op: "ReadFrom", src: srcSpec{data: "hello", wt: true}},
		{op: "String", code: 201, data: "hi!"}, {op: "Blob", code: 202, ct: "application/x-c14", data: "blob"},
		{op: "Stream", code: 203, ct: "text/c14", src: srcSpec{data: "stream", chunk: 4}},
		{op: "Stream", code: 200, ct: "text/c14", src: srcSpec{data: "str", fail: true}},
		{op: "Stream", code: 200, ct: "text/c14", src: srcSpec{data: "wt", wt: true}},
		{op: "Redirect", code: 302, data: "/new"}, {op: "Redirect", code: 299, data: "/new"},
		{op: "Redirect", code: 308, data: "https://example.com/a?b=c"}, {op: "Redirect", code: 309, data: "/new"},
		// String with formats that fmt must process: no arguments (%% -> %, a stray verb -> %!d(MISSING)),
		// too few, matching and too many arguments, the empty format
		{op: "String", code: 200, isFmt: true, format: "100%% done"},
		{op: "String", code: 200, isFmt: true, format: "rate=%d"},
		{op: "String", code: 201, isFmt: true, format: "%s=%d", fargs: []any{"k", 7}},
		{op: "String", code: 200, isFmt: true, format: "%s and %s", fargs: []any{"a"}},
		{op: "String", code: 200, isFmt: true, format: "plain", fargs: []any{"extra"}},
		{op: "String", code: 204, isFmt: true, format: ""},
		// empty payloads and an empty content type
		{op: "Blob", code: 200, ct: "", data: ""},
		{op: "Stream", code: 200, ct: "text/c14", src: srcSpec{}},
		// an EMPTY source with io.WriterTo makes no Write at all: the status must still go out
		{op: "Stream", code: 200, ct: "text/c14", src: srcSpec{wt: true, impl: "strings.Reader"}},
		{op: "ReadFrom", src: srcSpec{wt: true, impl: "bytes.Buffer"}},
		{op: "String", code: 200, isFmt: true, format: ""},
	}
	var defs strings.Builder
	for _, k := range kinds {
		defs.WriteString(k.coqDef())
	}
	for i := range alpha {
		defs.WriteString(fmt.Sprintf("Definition a%d := %s.\n", i, alpha[i].coq()))
		alpha[i].name = fmt.Sprintf("a%d", i)
	}
	for i := range extra {
		defs.WriteString(fmt.Sprintf("Definition x%d := %s.\n", i, extra[i].coq()))
		extra[i].name = fmt.Sprintf("x%d", i)
	}

	mism, known := "xmismatches_cur", "Definition known_c14_readfrom_accounting := Eval vm_compute in xknown_cur cases.\nPrint known_c14_readfrom_accounting.\n"
	if behaviour == "fixed" {
		mism, known = "xmismatches_fixed", ""
	}
	cs := &hx.Cases{
		Header: "From FoxBase Require Import Bytes.\nFrom FoxC14 Require Import Types Spec Model ModelFixed Nested Corr CorrNested.\nOpen Scope Z_scope.\n" + defs.String(),
		Type:   "xcase",
		Footer: "Definition mism := Eval vm_compute in " + mism + " cases.\nPrint mism.\n" +
			"Definition viol := Eval vm_compute in xspec_violations cases.\nPrint viol.\n" +
			"Definition oof := Eval vm_compute in xfuel_outs cases.\nPrint oof.\n" + known,
	}
	st := &hx.Stats{Rule: "a case = (underlying writer kind, byte budget, capability failure flag, call sequence) run on the real recorder, plus the same sequence on the kind without ReaderFrom/StringWriter when the kind has them; " +
		"non-trivial = at least one call was refused or cut short (an error class other than nil, a WriteHeader the recorder did not forward, or fewer bytes accepted than offered); distinct = distinct (kind, budget, capfail, sequence)"}
	seen := map[string]bool{}
	nontrivial := 0
	var pend []pending
	var humans []string
	runs := 0

	add := func(ki int, budget int, capfail bool, seq []action, stream string, useTestCtx bool) {
		k := kinds[ki]
		key := fmt.Sprintf("%s|%d|%v|%v", k.name, budget, capfail, seq)
		if seen[key] {
			return
		}
		seen[key] = true
		o := r.run(k, budget, capfail, seq, useTestCtx)
		runs++
		var to []obs
		if k.twin >= 0 {
			to = r.run(kinds[k.twin], budget, capfail, seq, useTestCtx)
			runs++
		}
		b := "None"
		if budget >= 0 {
			b = fmt.Sprintf("(Some %d%%nat)", budget)
		}
		pend = append(pend, pending{head: fmt.Sprintf("mkcase %s %s %s %s", k.name, b, hx.Bool(capfail),
			hx.ListOf(seq, func(a action) string { return a.coq() })), o: obsStrings(o), twin: obsStrings(to), hasTwin: k.twin >= 0})
		var hs strings.Builder
		fmt.Fprintf(&hs, "underlying=%s budget=%d capfail=%v via=%s :", k.name, budget, capfail, map[bool]string{true: "NewTestContext", false: "ServeHTTP"}[useTestCtx])
		for i, a := range seq {
			fmt.Fprintf(&hs, " %v => %v", a, o[i])
			if to != nil && fmt.Sprint(to[i]) != fmt.Sprint(o[i]) {
				fmt.Fprintf(&hs, " [without fast paths: %v]", to[i])
			}
			hs.WriteString(";")
		}
		humans = append(humans, hs.String())
		st.Count("stream:" + stream)
		st.Count("kind:" + k.name)
		st.Count(fmt.Sprintf("budget:%d", budget))
		st.Count(fmt.Sprintf("len:%02d", len(seq)))
		nt := false
		for i, a := range seq {
			st.Count("op:" + a.op)
			if o[i].cls != "ENil" {
				nt = true
				st.Count("errclass:" + o[i].cls)
			}
			if a.op == "WriteHeader" && len(o[i].log) == 0 {
				nt = true
				st.Count("writeheader-not-forwarded")
			}
			if (a.op == "Write" || a.op == "WriteString") && int(o[i].n) < len(a.data) {
				nt = true
			}
		}
		if nt {
			nontrivial++
		}
		if len(st.Samples) < 10 && nt && len(seq) >= 3 && rnd.Pct(1) {
			st.Samples = append(st.Samples, hs.String())
		}
	}

	var enum func(al []action, depth int, prefix []action, f func([]action))
	enum = func(al []action, depth int, prefix []action, f func([]action)) {
		if depth == 0 {
			f(append([]action(nil), prefix...))
			return
		}
		for _, a := range al {
			enum(al, depth-1, append(prefix, a), f)
		}
	}

	budgets := []int{-1, 0, 2}
	exhKinds := []int{1, 4, 6, 7} // kRf(+kBare), kRfFl(+kFl), kRfSwFeHijPush(+kFeHijPush), kAllNoFast
	scopes := []string{}
	// 1. exhaustive: every sequence of exactly L calls over the 14-action alphabet (observed after
	//    every call, so every shorter sequence is covered as a prefix)
	L := 3
	if tier == "thorough" {
		L = 4
	}
	if tier == "thorough" {
		exhKinds = []int{1, 6} // length 4 on kRf(+kBare) and kRfSwFeHijPush(+kFeHijPush); length 3 on all four below
		for _, ki := range []int{4, 7} {
			for _, b := range budgets {
				enum(alpha, 3, nil, func(seq []action) { add(ki, b, false, seq, "exhaustive-len3", false) })
			}
		}
		scopes = append(scopes, "all 14^3 sequences of 3 calls over the 14-action alphabet x kinds {kRfFl,kAllNoFast} (+ twins) x budgets {inf,0,2}")
	}
	exhNames := []string{}
	for _, ki := range exhKinds {
		exhNames = append(exhNames, kinds[ki].name)
		for _, b := range budgets {
			if tier == "thorough" && ki == 1 && b == 0 {
				continue // kRf at length 4: budgets inf and 2 only (keeps the thorough tier within its time budget)
			}
			enum(alpha, L, nil, func(seq []action) { add(ki, b, false, seq, fmt.Sprintf("exhaustive-len%d", L), false) })
		}
	}
	scopes = append(scopes, fmt.Sprintf("all %d^%d sequences of %d calls over the 14-action alphabet x kinds %v (+ twins) x budgets {inf,0,2} (thorough: kRf without budget 0)", len(alpha), L, L, exhNames))
	// 2. exhaustive length 2 over the whole API (alphabet + the other methods and the helpers), all kinds,
	//    with and without failing capabilities, half of them through NewTestContext
	all := append(append([]action(nil), alpha...), extra...)
	wideKinds := []int{2, 8, 9}
	wideBudgets := []int{-1, 2}
	if tier == "thorough" {
		wideKinds = []int{0, 1, 2, 3, 4, 5, 6, 7, 8, 9}
		wideBudgets = []int{-1, 0, 2, 4}
	}
	for _, ki := range wideKinds {
		for _, b := range wideBudgets {
			for _, cf := range []bool{false, true} {
				if cf && !kinds[ki].hij && !kinds[ki].push && kinds[ki].fl == "FNone" {
					continue
				}
				enum(all, 2, nil, func(seq []action) { add(ki, b, cf, seq, "exhaustive-wide-len2", ki%2 == 0) })
			}
		}
	}
	scopes = append(scopes, fmt.Sprintf("all %d^2 sequences of 2 calls over the whole API incl. helpers x %d kinds x budgets %v x capability failure", len(all), len(wideKinds), wideBudgets))
	// 3. thorough only: exhaustive length 5 over the 8 actions that change the recorder state, on the
	//    full fast-path kind
	if tier == "thorough" {
		core8 := []action{alpha[1], alpha[4], alpha[6], alpha[8], alpha[9], alpha[10], alpha[11], alpha[12]}
		for _, b := range budgets {
			enum(core8, 5, nil, func(seq []action) { add(6, b, false, seq, "exhaustive-core8-len5", false) })
		}
		scopes = append(scopes, "all 8^5 sequences of 5 calls over {WriteHeader 103/404, Write abc, ReadFrom empty/hello/failing, Flush, Hijack} x kRfSwFeHijPush (+ twin) x budgets {inf,0,2}")
	}
	// 4. random sequences up to 20 calls, random parameters
	nrand := 1500
	if tier == "thorough" {
		nrand = 15000
	}
	codes := []int{100, 101, 102, 103, 199, 200, 201, 204, 301, 304, 404, 500, 0, 99, 1000}
	rstr := func(max int) string {
		n := rnd.Intn(max + 1)
		b := make([]byte, n)
		for i := range b {
			b[i] = byte('a' + rnd.Intn(26))
		}
		return string(b)
	}
	rsrc := func() srcSpec {
		s := srcSpec{data: rstr(8), fail: rnd.Pct(35), chunk: rnd.Intn(4)}
		if rnd.Pct(25) { // sizes 0 and 1 matter: an empty io.WriterTo source performs no Write at all
			s.data = s.data[:min(len(s.data), rnd.Intn(2))]
		}
		switch p := rnd.Intn(100); {
		case p < 30:
			s.fail, s.chunk, s.wt = false, 0, true
			s.impl = hx.Pick(rnd, []string{"bytes.Reader", "strings.Reader", "bytes.Buffer"})
		case p < 42:
			s.impl, s.limit = "limited", rnd.Intn(len(s.data)+3)
		case p < 54:
			s.impl = "eager"
		}
		return s
	}
	cts := []string{"text/plain", "application/json", "", "text/html; charset=utf-8"}
	sfmts := []string{"plain text", "100%% done", "rate=%d", "%d items", "%s=%d", "%s and %s", "%v%%", "", "%", "%s", "a%%b%%c", "%5.1f|%x"}
	urls := []string{"/new", "https://example.com/x", "/a/b/", "/q?x=1&y=<2>"}
	rcodes := []int{299, 300, 301, 302, 303, 304, 305, 306, 307, 308, 309, 200, 404}
	ract := func() action {
		var a action
		switch p := rnd.Intn(100); {
		case p < 18:
			a = action{op: "WriteHeader", code: hx.Pick(rnd, codes)}
		case p < 32:
			a = action{op: "Write", data: rstr(5)}
		case p < 42:
			a = action{op: "WriteString", data: rstr(5), viaC: rnd.Bool()}
		case p < 60:
			a = action{op: "ReadFrom", src: rsrc()}
		case p < 68:
			a = action{op: "Flush", viaC: rnd.Bool()}
		case p < 72:
			a = action{op: "Hijack", viaC: rnd.Bool()}
		case p < 75:
			a = action{op: "Push"}
		case p < 77:
			a = action{op: "SetReadDeadline", viaC: rnd.Bool()}
		case p < 79:
			a = action{op: "SetWriteDeadline", viaC: rnd.Bool()}
		case p < 81:
			a = action{op: "EnableFullDuplex", viaC: rnd.Bool()}
		case p < 82:
			a = action{op: "Unwrap"}
		case p < 86:
			a = action{op: "String", code: hx.Pick(rnd, codes[5:12]), data: rstr(6)}
			if rnd.Pct(70) {
				a.isFmt = true
				a.format = hx.Pick(rnd, sfmts)
				for k := rnd.Intn(3); k > 0; k-- {
					if rnd.Bool() {
						a.fargs = append(a.fargs, rstr(3))
					} else {
						a.fargs = append(a.fargs, rnd.Intn(100))
					}
				}
			}
			if rnd.Pct(15) {
				a.code = hx.Pick(rnd, codes)
			}
		case p < 90:
			a = action{op: "Blob", code: hx.Pick(rnd, codes[5:12]), ct: hx.Pick(rnd, cts), data: rstr(6)}
		case p < 95:
			a = action{op: "Stream", code: hx.Pick(rnd, codes[5:12]), ct: hx.Pick(rnd, cts), src: rsrc()}
		default:
			a = action{op: "Redirect", code: hx.Pick(rnd, rcodes), data: hx.Pick(rnd, urls)}
		}
		return a
	}
	for i := 0; i < nrand; i++ {
		n := rnd.Range(1, 20)
		if rnd.Pct(50) {
			n = rnd.Range(1, 6)
		}
		seq := make([]action, n)
		for j := range seq {
			seq[j] = ract()
		}
		b := -1
		if rnd.Pct(60) {
			b = rnd.Intn(13)
		}
		add(rnd.Intn(len(kinds)), b, rnd.Pct(15), seq, "random", rnd.Pct(30))
	}
	// 5. the witnesses of the known finding, always present
	add(1, -1, false, []action{{op: "ReadFrom", src: srcSpec{data: "hello", fail: true}}, {op: "WriteHeader", code: 500}}, "witness", true)
	add(1, -1, false, []action{{op: "ReadFrom", src: srcSpec{}}, {op: "WriteHeader", code: 500}}, "witness", true)

	// 6. status-code sweeps on fresh writers, every run: Redirect over EVERY code 0..1000 plus negative,
	//    large and wrapped values (the model/spec accept iff 300 <= code <= 308; error, Status, Location,
	//    Written and Size are all part of the observation), WriteHeader followed by a Write and
	//    String/Blob/Stream over every code 100..599 (informational vs final, 101)
	sweepCodes := []int{}
	for c := 0; c <= 1000; c++ {
		sweepCodes = append(sweepCodes, c)
	}
	sweepCodes = append(sweepCodes, -1, -300, -308, 1001, 1300, 1308, 3000, 30000, 65536+300, 65536+308, 1<<31+300, 1<<32+301, 1<<40)
	for i, c := range sweepCodes {
		u := "/new"
		if i%3 == 1 {
			u = "https://example.com/x?y=1"
		}
		add(i%len(kinds), -1, false, []action{{op: "Redirect", code: c, data: u}}, "sweep-redirect", i%2 == 0)
	}
	// accepted and neighbouring codes once more after a helper that already set a Content-Type (no HTML body then)
	for c := 295; c <= 312; c++ {
		add(c%len(kinds), -1, false, []action{{op: "Blob", code: 200, ct: "text/c14", data: "b"}, {op: "Redirect", code: c, data: "/new"}}, "sweep-redirect", false)
		add(c%len(kinds), 2, false, []action{{op: "Redirect", code: c, data: "/new"}, {op: "Redirect", code: c + 1, data: "/x"}}, "sweep-redirect", true)
	}
	for c := 100; c <= 599; c++ {
		k := c % len(kinds)
		add(k, -1, false, []action{{op: "WriteHeader", code: c}, {op: "Write", data: "x"}, {op: "WriteHeader", code: c + 1}}, "sweep-writeheader", c%2 == 0)
		add((k+1)%len(kinds), -1, false, []action{{op: "String", code: c, isFmt: true, format: "s%d", fargs: []any{c}}}, "sweep-helper-code", c%2 == 1)
		add((k+2)%len(kinds), -1, false, []action{{op: "Blob", code: c, ct: "application/x-c14", data: "b"}}, "sweep-helper-code", c%2 == 0)
		add((k+3)%len(kinds), -1, false, []action{{op: "Stream", code: c, ct: "text/c14", src: srcSpec{data: "st", chunk: 1}}}, "sweep-helper-code", c%2 == 1)
	}
	scopes = append(scopes, fmt.Sprintf("Redirect on a fresh writer for every code 0..1000 and %d negative/large/wrapped codes; WriteHeader;Write;WriteHeader, String, Blob, Stream for every code 100..599", len(sweepCodes)-1001))

	// 7. body sources as a dimension, every run: ReadFrom / Stream(200) / Stream(201) with every kind of source
	//    (plain reader, 1-byte chunks, eager EOF, bytes.Reader, strings.Reader, bytes.Buffer, io.LimitedReader
	//    with limits around the length, readers failing at once or midway) x sizes 0, 1, many, and zero-length
	//    String / Blob, each followed by WriteHeader(500) (what Recovery does when Written() is false):
	//    "the helper sends exactly the status it is given, even for an empty body"
	var srcs []srcSpec
	for _, d := range []string{"", "x", "hello world"} {
		for _, f := range []bool{false, true} {
			srcs = append(srcs, srcSpec{data: d, fail: f}, srcSpec{data: d, fail: f, chunk: 1}, srcSpec{data: d, fail: f, chunk: 3, impl: "eager"})
			for _, l := range []int{0, 1, len(d) - 1, len(d), len(d) + 5} {
				if l >= 0 {
					srcs = append(srcs, srcSpec{data: d, fail: f, chunk: 4, impl: "limited", limit: l})
				}
			}
		}
		for _, im := range []string{"bytes.Reader", "strings.Reader", "bytes.Buffer"} {
			srcs = append(srcs, srcSpec{data: d, wt: true, impl: im})
		}
	}
	after := action{op: "WriteHeader", code: 500}
	nsrc := 0
	for _, ki := range []int{1, 2, 8, 9} { // kRf(+kBare), kRfSw, kAll(+kAllNoFast), kSw
		for _, b := range []int{-1, 2} {
			for i, sp := range srcs {
				tc := (i+ki)%2 == 0
				add(ki, b, false, []action{{op: "ReadFrom", src: sp}, after}, "sweep-sources", tc)
				add(ki, b, false, []action{{op: "Stream", code: 200, ct: "text/c14", src: sp}, after}, "sweep-sources", tc)
				add(ki, b, false, []action{{op: "Stream", code: 201, ct: "text/c14", src: sp}, after}, "sweep-sources", !tc)
				add(ki, b, false, []action{{op: "WriteHeader", code: 103}, {op: "Stream", code: 200, ct: "", src: sp}, after}, "sweep-sources", !tc)
				nsrc++
			}
			for _, code := range []int{200, 201, 204, 404} {
				add(ki, b, false, []action{{op: "String", code: code, isFmt: true, format: ""}, after}, "sweep-sources", false)
				add(ki, b, false, []action{{op: "Blob", code: code, ct: "application/x-c14", data: ""}, after}, "sweep-sources", true)
				add(ki, b, false, []action{{op: "String", code: code, isFmt: true, format: "%s", fargs: []any{""}}, after}, "sweep-sources", true)
			}
		}
	}
	scopes = append(scopes, fmt.Sprintf("ReadFrom, Stream(200), Stream(201), WriteHeader(103);Stream(200) x %d sources (plain/1-byte chunks/eager EOF/bytes.Reader/strings.Reader/bytes.Buffer/io.LimitedReader; sizes 0, 1, 11; failing or not) and zero-length String/Blob x codes {200,201,204,404}, each followed by WriteHeader(500), x 4 kinds x budgets {inf,2}", len(srcs)))

	// 8. nested routers, every run: the same kinds of call sequences made by the handler of a CHILD fox router that a
	//    handler of a PARENT fox router serves through its own Context.Writer() (WrapH / WrapF routes, direct
	//    child.ServeHTTP(c.Writer(), r), NewTestContext(c.Writer(), r); parent Context from ServeHTTP or
	//    NewTestContext), optionally after calls by the parent's middleware and always followed by what a Recovery /
	//    logging middleware of the parent does (WriteHeader(500), a trailing Write). Observed: the PARENT's
	//    Status/Written/Size, the child's own, and everything that reached the real writer (CorrNested.v).
	nr := newNRunner()
	tag := func(child bool, as []action) []string {
		out := make([]string, len(as))
		for i, a := range as {
			if child {
				out[i] = "CC (" + a.coq() + ")"
			} else {
				out[i] = "PC (" + a.coq() + ")"
			}
		}
		return out
	}
	nobsStrings := func(os []nobs) []string {
		out := make([]string, len(os))
		for i, o := range os {
			out[i] = o.coq()
		}
		return out
	}
	addN := func(ki int, budget int, capfail bool, pre, mid, post []action, mount int, stream string) {
		k := kinds[ki]
		key := fmt.Sprintf("nested|%s|%d|%v|%v|%v|%v|%d", k.name, budget, capfail, pre, mid, post, mount)
		if seen[key] {
			return
		}
		seen[key] = true
		total := len(pre) + len(mid) + len(post)
		o := nr.run(k, budget, capfail, pre, mid, post, mount)
		runs++
		var to []nobs
		if k.twin >= 0 {
			to = nr.run(kinds[k.twin], budget, capfail, pre, mid, post, mount)
			runs++
		}
		b := "None"
		if budget >= 0 {
			b = fmt.Sprintf("(Some %d%%nat)", budget)
		}
		calls := append(append(tag(false, pre), tag(true, mid)...), tag(false, post)...)
		pend = append(pend, pending{head: fmt.Sprintf("mkncase %s %s %s %s", k.name, b, hx.Bool(capfail), hx.List(calls)),
			o: nobsStrings(o), twin: nobsStrings(to), hasTwin: k.twin >= 0, nested: true})
		var hs strings.Builder
		fmt.Fprintf(&hs, "NESTED ROUTERS mount=%s underlying=%s budget=%d capfail=%v :", mounts[mount], k.name, budget, capfail)
		if len(o) != total || (to != nil && len(to) != total) {
			fmt.Fprintf(&hs, " [only %d of %d calls were made: the child's handler or the parent's middleware did not run]", len(o), total)
		}
		i := 0
		for ph, as := range [][]action{pre, mid, post} {
			for _, a := range as {
				fmt.Fprintf(&hs, " [%s] %v", []string{"parent", "child", "parent"}[ph], a)
				if i < len(o) {
					fmt.Fprintf(&hs, " => %v", o[i])
					if to != nil && i < len(to) && fmt.Sprint(to[i]) != fmt.Sprint(o[i]) {
						fmt.Fprintf(&hs, " [without fast paths: %v]", to[i])
					}
				}
				hs.WriteString(";")
				i++
			}
		}
		humans = append(humans, hs.String())
		st.Count("stream:" + stream)
		st.Count("kind:" + k.name)
		st.Count(fmt.Sprintf("budget:%d", budget))
		st.Count("nested-mount:" + mounts[mount])
		nt := false
		for _, x := range o {
			if x.o.cls != "ENil" {
				nt = true
			}
		}
		if nt {
			nontrivial++
		}
	}
	recov := []action{{op: "WriteHeader", code: 500}, {op: "Write", data: "!"}}
	npres := [][]action{nil, {{op: "WriteHeader", code: 103}}, {{op: "Write", data: "pp"}}, {{op: "WriteHeader", code: 404}}, {{op: "Hijack"}}}
	nn := 0
	for ai, a := range all { // every action of the API as the child's only call, every kind
		for ki := range kinds {
			for _, b := range []int{-1, 2} {
				addN(ki, b, false, nil, []action{a}, recov, (ai+ki+nn)%len(mounts), "nested-single")
				nn++
			}
		}
		for _, ki := range []int{2, 5, 8} { // after the parent's middleware already used its writer
			for pi := 1; pi < len(npres); pi++ {
				addN(ki, -1, false, npres[pi], []action{a}, recov, (ai+ki+pi)%len(mounts), "nested-after-parent")
			}
		}
		for _, ki := range []int{6, 8} {
			addN(ki, -1, true, nil, []action{a}, recov, (ai+ki)%len(mounts), "nested-capfail")
		}
	}
	for _, ki := range []int{1, 6, 7} { // every pair over the 14-action alphabet as the child's calls
		for _, b := range []int{-1, 2} {
			enum(alpha, 2, nil, func(seq []action) {
				addN(ki, b, false, nil, seq, recov, nn%len(mounts), "nested-pairs")
				nn++
			})
		}
	}
	nnrand := 400
	if tier == "thorough" {
		nnrand = 4000
	}
	for i := 0; i < nnrand; i++ {
		rseq := func(lo, hi int) []action {
			s := make([]action, rnd.Range(lo, hi))
			for j := range s {
				s[j] = ract()
			}
			return s
		}
		b := -1
		if rnd.Pct(50) {
			b = rnd.Intn(13)
		}
		addN(rnd.Intn(len(kinds)), b, rnd.Pct(15), rseq(0, 2), rseq(1, 8), rseq(0, 3), rnd.Intn(len(mounts)), "nested-random")
	}
	scopes = append(scopes, fmt.Sprintf("nested routers (child router served through the parent's Context.Writer(), %d ways to mount): each of the %d API actions as the child's call x 10 kinds x budgets {inf,2}, after 4 parent preludes x 3 kinds, with failing capabilities x 2 kinds; all 14^2 child pairs x 3 kinds x budgets {inf,2}; each followed by the parent's WriteHeader(500);Write; %d random pre/child/post sequences", len(mounts), len(all), nnrand))

	// observations that occur often get a name in the header (keeps the case files small:
	// coqc spends its time elaborating the literals, not evaluating the model)
	freq := map[string]int{}
	for _, p := range pend {
		for _, x := range p.o {
			freq[x]++
		}
		for _, x := range p.twin {
			freq[x]++
		}
	}
	names := map[string]string{}
	var odefs strings.Builder
	for _, x := range hx.SortedKeys(freq) {
		if freq[x] >= 6+len(pend)/1500 {
			names[x] = fmt.Sprintf("o%d", len(names))
			odefs.WriteString("Definition " + names[x] + " := " + x + ".\n")
		}
	}
	cs.Header += odefs.String()
	ren := func(xs []string) string {
		return hx.ListOf(xs, func(x string) string {
			if n, ok := names[x]; ok {
				return n
			}
			return x
		})
	}
	for i, p := range pend {
		var term string
		switch {
		case !p.hasTwin:
			term = p.head + " " + ren(p.o) + " None"
		case strings.Join(p.o, ";") == strings.Join(p.twin, ";"):
			term = "let o := " + ren(p.o) + " in " + p.head + " o (Some o)"
		default:
			term = p.head + " " + ren(p.o) + " (Some " + ren(p.twin) + ")"
		}
		if p.nested {
			term = "N2 (" + term + ")"
		} else {
			term = "S1 (" + term + ")"
		}
		cs.Add(term, humans[i])
	}
	if len(st.Samples) == 0 {
		st.Samples = append(st.Samples, "(no sample drawn)")
	}
	st.Evaluations = cs.Len()
	st.DistinctNontrivial = nontrivial
	st.Exhaustive = false
	st.Extra = map[string]any{"exhaustive_scopes": scopes, "readfrom_behaviour_detected": behaviour,
		"runs_of_the_real_recorder": runs, "model_used": map[string]string{"cur": "Model.v (pinned code)", "fixed": "ModelFixed.v (patched code)", "other": "Model.v (pinned code)"}[behaviour]}
	hx.Fatal(cs.Write(out, shards))
	hx.Fatal(st.Write(out))
	fmt.Printf("c14: behaviour=%s, %d cases (%d runs) written to %s\n", behaviour, cs.Len(), runs, out)
	_ = os.Stdout.Sync()
}
