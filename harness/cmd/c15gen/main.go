// c15gen (tie A for C15): rewrites coq/C15/GenConsts.v from the fox sources.
//
//   - blacklistedHeader (http_consts.go): a `var blacklistedHeader = []string{...}` whose
//     elements are string literals or identifiers of string constants declared in the same
//     package (resolved to their values);
//   - scopeToString (recovery.go): `switch scope { case <HandlerScope const>: v = "lit" ...
//     default: v = "lit" }; return v` (or `return "lit"` in each clause);
//   - the HandlerScope constant block of fox.go (names only), to check that every case label is
//     a declared scope and that the Coq type FoxC15.Types.scope lists exactly those scopes.
//
// Any other shape => exit 1 (reported by bin/check as a broken tie).
//
// usage: c15gen repo=<fox tree> out=<GenConsts.v>
package main

import (
	"bytes"
	"fmt"
	"go/ast"
	"go/parser"
	"go/token"
	"os"
	"path/filepath"
	"strconv"
	"strings"
)

func die(format string, a ...any) {
	fmt.Fprintf(os.Stderr, "c15gen: "+format+"\n", a...)
	os.Exit(1)
}

func coqBytes(s string) string {
	for i := 0; i < len(s); i++ {
		if s[i] < 0x20 || s[i] > 0x7e {
			die("non printable byte in constant %q", s)
		}
	}
	return "(S2B \"" + strings.ReplaceAll(s, "\"", "\"\"") + "\")"
}

func strLit(e ast.Expr) (string, bool) {
	if b, ok := e.(*ast.BasicLit); ok && b.Kind == token.STRING {
		s, err := strconv.Unquote(b.Value)
		if err == nil {
			return s, true
		}
	}
	return "", false
}

func main() {
	args := map[string]string{}
	for _, a := range os.Args[1:] {
		if i := strings.IndexByte(a, '='); i > 0 {
			args[a[:i]] = a[i+1:]
		}
	}
	repo, out := args["repo"], args["out"]
	if repo == "" || out == "" {
		die("usage: c15gen repo=<dir> out=<file>")
	}
	fset := token.NewFileSet()
	pkgs, err := parser.ParseDir(fset, repo, func(fi os.FileInfo) bool {
		return !strings.HasSuffix(fi.Name(), "_test.go")
	}, 0)
	if err != nil {
		die("%v", err)
	}
	pkg := pkgs["fox"]
	if pkg == nil {
		die("package fox not found in %s", repo)
	}

	// ---- string constants of the package; HandlerScope constant block ----
	consts := map[string]string{}
	var scopes []string
	var blackExpr *ast.CompositeLit
	var blackFile string
	var scopeFn *ast.FuncDecl
	for fname, f := range pkg.Files {
		for _, d := range f.Decls {
			switch x := d.(type) {
			case *ast.GenDecl:
				if x.Tok == token.CONST {
					isScopeBlock := false
					for _, sp := range x.Specs {
						vs := sp.(*ast.ValueSpec)
						if id, ok := vs.Type.(*ast.Ident); ok && id.Name == "HandlerScope" {
							isScopeBlock = true
						}
						if isScopeBlock && vs.Type == nil && len(vs.Values) == 0 || isScopeBlock && vs.Type != nil {
							for _, n := range vs.Names {
								scopes = append(scopes, n.Name)
							}
						}
						for i, n := range vs.Names {
							if i < len(vs.Values) {
								if s, ok := strLit(vs.Values[i]); ok {
									consts[n.Name] = s
								}
							}
						}
					}
				}
				if x.Tok == token.VAR {
					for _, sp := range x.Specs {
						vs := sp.(*ast.ValueSpec)
						for i, n := range vs.Names {
							if n.Name == "blacklistedHeader" {
								if i >= len(vs.Values) {
									die("blacklistedHeader has no initialiser")
								}
								cl, ok := vs.Values[i].(*ast.CompositeLit)
								if !ok {
									die("blacklistedHeader is not a composite literal")
								}
								at, ok := cl.Type.(*ast.ArrayType)
								if !ok || at.Len != nil {
									die("blacklistedHeader is not a slice literal")
								}
								if id, ok := at.Elt.(*ast.Ident); !ok || id.Name != "string" {
									die("blacklistedHeader is not a []string")
								}
								blackExpr, blackFile = cl, filepath.Base(fname)
							}
						}
					}
				}
			case *ast.FuncDecl:
				if x.Recv == nil && x.Name.Name == "scopeToString" {
					scopeFn = x
				}
			}
		}
	}
	if blackExpr == nil {
		die("var blacklistedHeader not found")
	}
	var black []string
	for _, e := range blackExpr.Elts {
		if s, ok := strLit(e); ok {
			black = append(black, s)
			continue
		}
		if id, ok := e.(*ast.Ident); ok {
			if s, ok := consts[id.Name]; ok {
				black = append(black, s)
				continue
			}
			die("blacklistedHeader element %s is not a string constant of the package", id.Name)
		}
		die("blacklistedHeader element of unsupported shape %T", e)
	}
	// the Coq type FoxC15.Types.scope is hand-written: it must list exactly these names
	wantScopes := []string{"RouteHandler", "NoRouteHandler", "NoMethodHandler", "RedirectHandler", "OptionsHandler"}
	if strings.Join(scopes, ",") != strings.Join(wantScopes, ",") {
		die("HandlerScope constants are %v, the model knows %v", scopes, wantScopes)
	}

	// ---- scopeToString ----
	if scopeFn == nil {
		die("func scopeToString not found")
	}
	if len(scopeFn.Type.Params.List) != 1 || len(scopeFn.Type.Params.List[0].Names) != 1 {
		die("scopeToString: expected one parameter")
	}
	param := scopeFn.Type.Params.List[0].Names[0].Name
	var sw *ast.SwitchStmt
	resultVar := ""
	for _, st := range scopeFn.Body.List {
		switch x := st.(type) {
		case *ast.DeclStmt: // var strScope string
			gd, ok := x.Decl.(*ast.GenDecl)
			if !ok || gd.Tok != token.VAR || len(gd.Specs) != 1 {
				die("scopeToString: unsupported declaration")
			}
			vs := gd.Specs[0].(*ast.ValueSpec)
			if len(vs.Names) != 1 || len(vs.Values) != 0 {
				die("scopeToString: unsupported declaration")
			}
			resultVar = vs.Names[0].Name
		case *ast.SwitchStmt:
			if sw != nil {
				die("scopeToString: more than one switch")
			}
			sw = x
		case *ast.ReturnStmt:
			if len(x.Results) != 1 {
				die("scopeToString: unsupported return")
			}
			if id, ok := x.Results[0].(*ast.Ident); !ok || id.Name != resultVar {
				die("scopeToString: returns something else than the switch variable")
			}
		default:
			die("scopeToString: unsupported statement %T", st)
		}
	}
	if sw == nil || sw.Init != nil {
		die("scopeToString: no plain switch")
	}
	if id, ok := sw.Tag.(*ast.Ident); !ok || id.Name != param {
		die("scopeToString: switch is not over the parameter")
	}
	clauseValue := func(body []ast.Stmt) string {
		if len(body) != 1 {
			die("scopeToString: clause body is not a single statement")
		}
		switch x := body[0].(type) {
		case *ast.AssignStmt:
			if len(x.Lhs) == 1 && len(x.Rhs) == 1 && x.Tok == token.ASSIGN {
				if id, ok := x.Lhs[0].(*ast.Ident); ok && id.Name == resultVar && resultVar != "" {
					if s, ok := strLit(x.Rhs[0]); ok {
						return s
					}
				}
			}
		case *ast.ReturnStmt:
			if len(x.Results) == 1 {
				if s, ok := strLit(x.Results[0]); ok {
					return s
				}
			}
		}
		die("scopeToString: unsupported clause body")
		return ""
	}
	type clause struct{ scope, val string }
	var clauses []clause
	def := ""
	hasDef := false
	seen := map[string]bool{}
	for _, st := range sw.Body.List {
		cc := st.(*ast.CaseClause)
		if cc.List == nil {
			def, hasDef = clauseValue(cc.Body), true
			continue
		}
		v := clauseValue(cc.Body)
		for _, e := range cc.List {
			id, ok := e.(*ast.Ident)
			if !ok {
				die("scopeToString: case label is not an identifier")
			}
			known := false
			for _, s := range wantScopes {
				known = known || s == id.Name
			}
			if !known || seen[id.Name] {
				die("scopeToString: case label %s is not a (fresh) HandlerScope constant", id.Name)
			}
			seen[id.Name] = true
			clauses = append(clauses, clause{id.Name, v})
		}
	}
	if !hasDef {
		die("scopeToString: no default clause (the zero string would be returned)")
	}

	var sb strings.Builder
	sb.WriteString("(* GENERATED by harness/cmd/c15gen on every run of bin/check C15 — do not edit.\n")
	fmt.Fprintf(&sb, "   blacklistedHeader: %s (identifiers resolved to the string constants they name);\n", blackFile)
	sb.WriteString("   scopeToString: recovery.go. *)\nFrom FoxBase Require Import Bytes.\nFrom FoxC15 Require Import Types.\n\n")
	sb.WriteString("Definition blacklistedHeader : list bytes :=\n  [")
	for i, b := range black {
		if i > 0 {
			sb.WriteString(";\n   ")
		}
		sb.WriteString(coqBytes(b))
	}
	sb.WriteString("].\n\nDefinition scopeToString (s : scope) : bytes :=\n")
	for _, c := range clauses {
		fmt.Fprintf(&sb, "  if scope_eqb s %s then %s else\n", c.scope, coqBytes(c.val))
	}
	fmt.Fprintf(&sb, "  %s.\n", coqBytes(def))
	newb := []byte(sb.String())
	if old, err := os.ReadFile(out); err == nil && bytes.Equal(old, newb) {
		fmt.Println("c15gen: GenConsts.v up to date")
		return
	}
	if err := os.WriteFile(out, newb, 0o644); err != nil {
		die("%v", err)
	}
	fmt.Println("c15gen: GenConsts.v rewritten")
}
