// Package rt: generators and Coq renderings shared by the routing-core
// harnesses (C01, C02, C03, C07, C08, C09, C16).
package rt

import (
	"fmt"
	"net/http"
	"net/http/httptest"
	"strings"

	"foxverif/hx"

	"github.com/tigerwill90/fox"
)

var Noop = func(c fox.Context) {}

// a Clone kept from the previous request served by Rec (checked at the next one)
var (
	keptClone        fox.Context
	keptCloneParams  [][2]string
	keptClonePattern string
)

// LastServed is what the recording handler saw on the last request it served (single goroutine).
var LastServed Obs

// Rec is a handler that records the pattern and parameters the handler observes through its Context.
// Every other way a handler can read the parameters (Param by name, the net/http adapters WrapF / WrapH
// with ParamsFromContext, a Clone) must show the same values: a disagreement is appended to the observation
// as an extra pseudo-parameter, so that it differs from every expectation.
var Rec = func(c fox.Context) {
	o := Obs{Found: true, Pattern: c.Pattern()}
	if keptClone != nil {
		// a Clone taken during an EARLIER request and kept past its handler must still show that request's values
		var now [][2]string
		for p := range keptClone.Params() {
			now = append(now, [2]string{p.Key, p.Value})
		}
		if fmt.Sprint(now) != fmt.Sprint(keptCloneParams) || keptClone.Pattern() != keptClonePattern {
			o.Params = append(o.Params, [2]string{"!kept-Clone-changed", fmt.Sprintf("%v %q -> %v %q", keptCloneParams, keptClonePattern, now, keptClone.Pattern())})
		}
		keptClone = nil
	}
	for p := range c.Params() {
		o.Params = append(o.Params, [2]string{p.Key, p.Value})
	}
	seen := map[string]bool{}
	for _, kv := range o.Params {
		if !seen[kv[0]] {
			seen[kv[0]] = true
			if got := c.Param(kv[0]); got != kv[1] {
				o.Params = append(o.Params, [2]string{"!Param(" + kv[0] + ")", got})
			}
		}
	}
	check := func(name string, ps fox.Params) {
		var got [][2]string
		for _, p := range ps {
			got = append(got, [2]string{p.Key, p.Value})
		}
		if fmt.Sprint(got) != fmt.Sprint(o.Params) {
			o.Params = append(o.Params, [2]string{"!" + name, fmt.Sprint(got)})
		}
	}
	if len(o.Params) > 0 {
		base := append([][2]string(nil), o.Params...)
		_ = base
		fox.WrapF(func(w http.ResponseWriter, r *http.Request) { check("WrapF", fox.ParamsFromContext(r.Context())) })(c)
		fox.WrapH(http.HandlerFunc(func(w http.ResponseWriter, r *http.Request) { check("WrapH", fox.ParamsFromContext(r.Context())) }))(c)
		var cl fox.Params
		clone := c.Clone()
		for p := range clone.Params() {
			cl = append(cl, p)
		}
		check("Clone", cl)
		if !strings.Contains(fmt.Sprint(o.Params), "!") {
			keptClone, keptClonePattern = clone, c.Pattern()
			keptCloneParams = append([][2]string(nil), o.Params...)
		}
	}
	LastServed = o
}

// ---------- pattern generation ----------

var pathSegs = []string{"a", "b", "ab", "abc", "{x}", "{y}", "a{x}", "ab{y}", "*{w}", "*{v}", "b*{w}", "a*{v}", "c", "{x}"}
var hostLabels = []string{"a", "b", "ab", "{h}", "{g}", "a{h}", "example", "com", "c"}

// static segments / labels made of the less common legal bytes: bytes sorting before '*' and '/',
// between the digits and the letters, upper case, and after 'z' (edge order inside a node depends on them)
var oddSegs = []string{"$m", "!a", "(x)", "'q", "&", "+p", ",", ";s", "=", "~z", "-a", ".b", "_", "A", "Z9", "0", "$", "!", "%41", "a$", "{x}", "*{w}", "a", "$m{x}", "(*{w}"}
var oddLabels = []string{"A", "Ex-9", "a-b", "0", "9z", "API", "{h}", "a", "x-{g}"}

// Pattern draws a random (usually valid) pattern. hostPct = probability of a hostname.
func Pattern(r *hx.Rand, hostPct int) string {
	var sb strings.Builder
	pathSegs, hostLabels := pathSegs, hostLabels
	if r.Pct(12) {
		pathSegs, hostLabels = oddSegs, oddLabels
	}
	if r.Pct(hostPct) {
		n := r.Range(1, 3)
		for i := 0; i < n; i++ {
			if i > 0 {
				sb.WriteByte('.')
			}
			sb.WriteString(hx.Pick(r, hostLabels))
		}
	}
	n := r.Range(0, 4)
	if n == 0 {
		sb.WriteByte('/')
		return sb.String()
	}
	for i := 0; i < n; i++ {
		sb.WriteByte('/')
		sb.WriteString(hx.Pick(r, pathSegs))
	}
	if r.Pct(25) {
		sb.WriteByte('/')
	}
	return sb.String()
}

var values = []string{"a", "b", "ab", "abc", "x", "c", "ba", "1", "a", "b", "ab", "abc", "x", "c", "ba", "1", "*abc", "*", "{z}", "a*b", "{", "ab*",
	"$other", "!", "(", "A", "Z", "~", "-", "$m", "0"}

// Instantiate replaces wildcards of a pattern by values; catch-alls get 1-3 segments.
func Instantiate(r *hx.Rand, pat string, inHost bool) string {
	var sb strings.Builder
	for i := 0; i < len(pat); {
		switch {
		case pat[i] == '{':
			j := strings.IndexByte(pat[i:], '}')
			if j < 0 {
				sb.WriteString(pat[i:])
				return sb.String()
			}
			sb.WriteString(hx.Pick(r, values))
			i += j + 1
		case pat[i] == '*' && i+1 < len(pat) && pat[i+1] == '{':
			j := strings.IndexByte(pat[i:], '}')
			if j < 0 {
				sb.WriteString(pat[i:])
				return sb.String()
			}
			n := r.Range(1, 3)
			for k := 0; k < n; k++ {
				if k > 0 {
					sb.WriteByte('/')
				}
				sb.WriteString(hx.Pick(r, values))
			}
			i += j + 1
		default:
			sb.WriteByte(pat[i])
			i++
		}
	}
	return sb.String()
}

func SplitPattern(p string) (host, path string) {
	i := strings.IndexByte(p, '/')
	if i < 0 {
		return p, ""
	}
	return p[:i], p[i:]
}

// Perturb applies one small edit to a path.
func PerturbPath(r *hx.Rand, p string) string {
	switch r.Intn(7) {
	case 0: // toggle trailing slash
		if strings.HasSuffix(p, "/") && len(p) > 1 {
			return p[:len(p)-1]
		}
		return p + "/"
	case 1: // change a byte
		if len(p) > 1 {
			i := r.Range(1, len(p)-1)
			return p[:i] + hx.Pick(r, []string{"a", "b", "c", "/", "x"}) + p[i+1:]
		}
	case 2: // add a segment
		return strings.TrimSuffix(p, "/") + "/" + hx.Pick(r, values)
	case 3: // remove last segment
		if i := strings.LastIndexByte(strings.TrimSuffix(p, "/"), '/'); i > 0 {
			return p[:i]
		}
	case 4: // insert a byte
		i := r.Range(1, len(p))
		return p[:i] + hx.Pick(r, []string{"a", "b", "/"}) + p[i:]
	case 5: // delete a byte
		if len(p) > 2 {
			i := r.Range(1, len(p)-1)
			return p[:i] + p[i+1:]
		}
	}
	return p
}

func PerturbHost(r *hx.Rand, h string) string {
	if h == "" {
		return hx.Pick(r, []string{"", "a", "a.b", "example.com", "x.y.z"})
	}
	switch r.Intn(20) {
	case 15: // empty label: leading dot
		return "." + h
	case 16, 17: // empty label in the middle: double a dot, or blank out one label
		if i := strings.IndexByte(h, '.'); i >= 0 {
			if r.Bool() {
				return h[:i] + "." + h[i:]
			}
			j := strings.IndexByte(h[i+1:], '.')
			if j < 0 {
				return h[:i+1]
			}
			return h[:i+1] + h[i+1+j:]
		}
		return "." + h
	case 18:
		if i := strings.IndexByte(h, '.'); i >= 0 {
			return h[i:]
		}
	case 19: // a Host containing '/' (never a hostname): must fall back to the path-only routes
		return hx.Pick(r, []string{"/x", "/a", h + "/a", "a/b", "/", h + "/"})
	case 10:
		return h + ":"
	case 11:
		return "[" + h + "]:80"
	case 12:
		return hx.Pick(r, []string{"[::1]:80", "[::1]", "::1", "127.0.0.1:80", ".", ":80", "a.b..", "[a.b.]:1", "a]:80", "a:b:80", "a.b.:"})
	case 13:
		return h + ".."
	case 14:
		return h + ".:8080"
	case 0:
		return h + ":8080"
	case 1:
		return h + "."
	case 2:
		return h + ".evil.org"
	case 3:
		return h + "x"
	case 4:
		return "x" + h
	case 5:
		return "sub." + h
	case 6:
		if len(h) > 1 {
			return h[:len(h)-1]
		}
	case 7:
		return strings.ToUpper(h)
	case 8:
		return h + ".:80"
	}
	return h
}

func HasEmptySegment(path string) bool {
	return strings.Contains(path, "//")
}

// ---------- tree rendering ----------

// NodeTerm renders a dumped node as a Coq term of type node. rid gives route ids (nil = 0).
func NodeTerm(v *fox.VerifNode, rid func(*fox.VerifNode) uint64) string {
	var sb strings.Builder
	writeNode(&sb, v, rid)
	return sb.String()
}

func writeNode(sb *strings.Builder, v *fox.VerifNode, rid func(*fox.VerifNode) uint64) {
	sb.WriteString("(Node ")
	sb.WriteString(hx.Bytes(v.Key))
	if v.Leaf {
		id := uint64(0)
		if rid != nil {
			id = rid(v)
		}
		sb.WriteString(" (Some {| rpat := " + hx.Bytes(v.Pattern) + "; rid := " + hx.N(id) + " |}) [")
	} else {
		sb.WriteString(" None [")
	}
	for i, c := range v.Children {
		if i > 0 {
			sb.WriteString("; ")
		}
		writeNode(sb, c, rid)
	}
	sb.WriteString("])")
}

func RootsTerm(t *fox.VerifTree, rid func(*fox.VerifNode) uint64) string {
	items := make([]string, len(t.Roots))
	for i, r := range t.Roots {
		items[i] = NodeTerm(r, rid)
	}
	return hx.List(items)
}

// ---------- observations ----------

type Obs struct {
	Panic   string // non-empty: the implementation panicked
	Found   bool
	Pattern string
	Tsr     bool
	Params  [][2]string
}

func (o Obs) Term() string {
	if o.Panic != "" {
		return "OPanic"
	}
	if !o.Found {
		return "ONone"
	}
	ps := make([]string, len(o.Params))
	for i, p := range o.Params {
		ps[i] = hx.Pair(hx.Bytes(p[0]), hx.Bytes(p[1]))
	}
	return "(OFound " + hx.Bytes(o.Pattern) + " " + hx.Bool(o.Tsr) + " " + hx.List(ps) + ")"
}

func NewRequest(method, host, path string) *http.Request {
	req := httptest.NewRequest(method, "/", nil)
	req.Method = method
	req.Host = host
	req.URL.Path = path
	req.URL.RawPath = ""
	return req
}

// Lookup observes Router.Lookup (non-lazy: params recorded).
func Lookup(f *fox.Router, method, host, path string) (o Obs) {
	defer func() {
		if r := recover(); r != nil {
			o = Obs{Panic: fmt.Sprint(r)}
		}
	}()
	w := httptest.NewRecorder()
	_, c := fox.NewTestContext(w, NewRequest(method, host, path))
	rte, cc, tsr := f.Lookup(c.Writer(), NewRequest(method, host, path))
	if rte == nil {
		return Obs{}
	}
	o = Obs{Found: true, Pattern: rte.Pattern(), Tsr: tsr}
	for p := range cc.Params() {
		o.Params = append(o.Params, [2]string{p.Key, p.Value})
	}
	cc.Close()
	return o
}

// Serve observes ServeHTTP: status and the Allow header as a sorted set.
func Serve(f *fox.Router, method, host, path string) (int, string) {
	w := httptest.NewRecorder()
	func() {
		defer func() { _ = recover() }()
		f.ServeHTTP(w, NewRequest(method, host, path))
	}()
	allow := strings.Split(w.Header().Get("Allow"), ", ")
	sortStrings(allow)
	return w.Code, strings.Join(allow, ",")
}

func sortStrings(a []string) {
	for i := 1; i < len(a); i++ {
		for j := i; j > 0 && a[j] < a[j-1]; j-- {
			a[j], a[j-1] = a[j-1], a[j]
		}
	}
}

// OverlapSet builds a family of patterns that all match long prefixes of one
// target path (static segment, positional parameter {pI}, mid-segment parameter,
// a wrong static, or a catch-all), so that a lookup of the target needs nested
// backtracking with parameters captured before each backtrack.
func OverlapSet(r *hx.Rand, n int) (pats []string, target string) {
	depth := r.Range(3, 6)
	segs := make([]string, depth)
	for i := range segs {
		segs[i] = hx.Pick(r, []string{"a", "b", "ab", "c", "abc", "1"})
		target += "/" + segs[i]
	}
	for k := 0; k < n; k++ {
		var sb strings.Builder
		for i := 0; i < depth; i++ {
			sb.WriteByte('/')
			switch x := r.Intn(100); {
			case x < 36:
				sb.WriteString(segs[i])
			case x < 66:
				sb.WriteString("{p" + string(rune('0'+i)) + "}")
			case x < 74 && len(segs[i]) > 1:
				sb.WriteString(segs[i][:1] + "{q" + string(rune('0'+i)) + "}")
			case x < 80:
				sb.WriteString(hx.Pick(r, []string{"x", "y", "zz"}))
			case x < 86:
				sb.WriteString("*{w" + string(rune('0'+i)) + "}")
				if r.Pct(60) {
					i = depth
				}
			default:
				sb.WriteString(segs[i])
				i = depth // shorter pattern: ends here
			}
		}
		if r.Pct(10) {
			sb.WriteByte('/')
		}
		pats = append(pats, sb.String())
	}
	return
}

// OtherEntryPoints reports whether Txn.Lookup, Txn.Reverse, Iter.Reverse (router and
// transaction) and ServeHTTP select the same route / tsr (/ params) as Router.Lookup did.
func OtherEntryPoints(f *fox.Router, method, host, path string, want Obs, ignoreTS bool) (ok bool, detail string) {
	defer func() {
		if r := recover(); r != nil {
			ok, detail = false, "panic: "+fmt.Sprint(r)
		}
	}()
	if want.Panic != "" {
		return false, "Lookup panicked"
	}
	txn := f.Txn(false)
	defer txn.Abort()
	// Txn.Lookup
	w := httptest.NewRecorder()
	_, c := fox.NewTestContext(w, NewRequest(method, host, path))
	rte, cc, tsr := txn.Lookup(c.Writer(), NewRequest(method, host, path))
	got := Obs{}
	if rte != nil {
		got = Obs{Found: true, Pattern: rte.Pattern(), Tsr: tsr}
		for p := range cc.Params() {
			got.Params = append(got.Params, [2]string{p.Key, p.Value})
		}
		cc.Close()
	}
	if fmtObs(got) != fmtObs(want) {
		return false, "Txn.Lookup=" + fmtObs(got)
	}
	rr, rtsr := txn.Reverse(method, host, path)
	if (rr != nil) != want.Found || (rr != nil && (rr.Pattern() != want.Pattern || rtsr != want.Tsr)) {
		return false, "Txn.Reverse differs"
	}
	one := func(yield func(string) bool) { yield(method) }
	for name, it := range map[string]fox.Iter{"Router.Iter": f.Iter(), "Txn.Iter": txn.Iter()} {
		var pat string
		found := false
		for _, r := range it.Reverse(one, host, path) {
			found, pat = true, r.Pattern()
		}
		// Iter.Reverse yields trailing-slash matches only for routes with a trailing-slash option
		wantFound := want.Found && (!want.Tsr || ignoreTS)
		if found != wantFound || (found && pat != want.Pattern) {
			return false, name + ".Reverse differs"
		}
	}
	// ServeHTTP: the handler must observe the same route and parameters (trailing-slash matches are
	// served because every route ignores trailing slashes in this harness)
	if ignoreTS && method != "CONNECT" && method != "OPTIONS" {
		LastServed = Obs{}
		rec := httptest.NewRecorder()
		f.ServeHTTP(rec, NewRequest(method, host, path))
		got := LastServed
		exp := want
		if want.Found && want.Tsr && path == "/" {
			exp = Obs{} // URL.Path "/" never gets a trailing-slash action
		}
		got.Tsr = exp.Tsr
		if fmtObs(got) != fmtObs(exp) {
			return false, "ServeHTTP handler saw " + fmtObs(got)
		}
	}
	return true, ""
}

func fmtObs(o Obs) string {
	if !o.Found {
		return "none"
	}
	s := o.Pattern
	if o.Tsr {
		s += " tsr"
	}
	for _, p := range o.Params {
		s += " " + p[0] + "=" + p[1]
	}
	return s
}

// TxnEntryPoints observes Txn.Lookup (params), Txn.Reverse and Txn.Iter().Reverse on an OPEN write
// transaction and reports whether they agree with each other.
func TxnEntryPoints(txn *fox.Txn, method, host, path string) (lookup Obs, reverse Obs, ok bool, detail string) {
	defer func() {
		if r := recover(); r != nil {
			lookup, ok, detail = Obs{Panic: fmt.Sprint(r)}, false, "panic: "+fmt.Sprint(r)
		}
	}()
	w := httptest.NewRecorder()
	_, c := fox.NewTestContext(w, NewRequest(method, host, path))
	rte, cc, tsr := txn.Lookup(c.Writer(), NewRequest(method, host, path))
	if rte != nil {
		lookup = Obs{Found: true, Pattern: rte.Pattern(), Tsr: tsr}
		for p := range cc.Params() {
			lookup.Params = append(lookup.Params, [2]string{p.Key, p.Value})
		}
		cc.Close()
	}
	if rr, rtsr := txn.Reverse(method, host, path); rr != nil {
		reverse = Obs{Found: true, Pattern: rr.Pattern(), Tsr: rtsr}
	}
	ok = true
	one := func(yield func(string) bool) { yield(method) }
	found, pat := false, ""
	for _, r := range txn.Iter().Reverse(one, host, path) {
		found, pat = true, r.Pattern()
	}
	if found != lookup.Found || (found && pat != lookup.Pattern) {
		ok, detail = false, "Txn.Iter().Reverse differs"
	}
	for _, r := range txn.Iter().Routes(one, lookup.Pattern) {
		if lookup.Found && r.Pattern() != lookup.Pattern {
			ok, detail = false, "Txn.Iter().Routes differs"
		}
	}
	return
}

// ServeObs serves the request through ServeHTTP and returns what the recording handler saw.
func ServeObs(f *fox.Router, method, host, path string) (o Obs) {
	defer func() {
		if r := recover(); r != nil {
			o = Obs{Panic: fmt.Sprint(r)}
		}
	}()
	LastServed = Obs{}
	f.ServeHTTP(httptest.NewRecorder(), NewRequest(method, host, path))
	return LastServed
}

// ExpectServed is what the handler must see given the Lookup observation (all routes ignore
// trailing slashes; "/" never gets a trailing-slash action; CONNECT never does).
func ExpectServed(want Obs, method, path string) string {
	if want.Found && want.Tsr && (path == "/" || method == "CONNECT") {
		return "none"
	}
	w := want
	w.Tsr = false
	return fmtObs(w)
}

func FmtObs(o Obs) string { return fmtObs(o) }
