module foxverif

go 1.24

toolchain go1.24.0

require github.com/tigerwill90/fox v0.0.0

replace github.com/tigerwill90/fox => /repo
