// Package hx holds what every correspondence harness shares: one PRNG state
// derived from VERIF_SEED, emitters for Coq terms, sharded case files and a
// small JSON stats file read back by bin/check.
package hx

import (
	"encoding/json"
	"fmt"
	"os"
	"path/filepath"
	"sort"
	"strconv"
	"strings"
)

// ---------- PRNG (splitmix64): every random choice derives from Seed ----------

type Rand struct{ s uint64 }

// NewRand scrambles the seed (splitmix64 finaliser) so that nearby seeds give unrelated
// streams; the state then advances by the golden-ratio increment.
func NewRand(seed uint64) *Rand {
	z := seed + 0x9E3779B97F4A7C15
	z = (z ^ (z >> 30)) * 0xBF58476D1CE4E5B9
	z = (z ^ (z >> 27)) * 0x94D049BB133111EB
	return &Rand{s: z ^ (z >> 31)}
}

func (r *Rand) U64() uint64 {
	r.s += 0x9E3779B97F4A7C15
	z := r.s
	z = (z ^ (z >> 30)) * 0xBF58476D1CE4E5B9
	z = (z ^ (z >> 27)) * 0x94D049BB133111EB
	return z ^ (z >> 31)
}
func (r *Rand) Intn(n int) int {
	if n <= 0 {
		return 0
	}
	return int(r.U64() % uint64(n))
}
func (r *Rand) Bool() bool          { return r.U64()&1 == 1 }
func (r *Rand) Pct(p int) bool      { return r.Intn(100) < p }
func (r *Rand) Range(a, b int) int  { return a + r.Intn(b-a+1) }
func Pick[T any](r *Rand, xs []T) T { return xs[r.Intn(len(xs))] }
func (r *Rand) Fork() *Rand         { return NewRand(r.U64()) }

func Seed() uint64 {
	if s := os.Getenv("VERIF_SEED"); s != "" {
		if v, err := strconv.ParseUint(s, 10, 64); err == nil {
			return v
		}
		if v, err := strconv.ParseInt(s, 10, 64); err == nil {
			return uint64(v)
		}
	}
	return 1
}

// ---------- Coq term emitters ----------

// Bytes renders a Go string as a Coq term of type bytes: (S2B "...") when it is
// printable ASCII, (B [..]%N) otherwise.
func Bytes(s string) string {
	printable := true
	for i := 0; i < len(s); i++ {
		if s[i] < 0x20 || s[i] > 0x7e {
			printable = false
			break
		}
	}
	if printable {
		return "(S2B \"" + strings.ReplaceAll(s, "\"", "\"\"") + "\")"
	}
	var sb strings.Builder
	sb.WriteString("(B [")
	for i := 0; i < len(s); i++ {
		if i > 0 {
			sb.WriteByte(';')
		}
		sb.WriteString(strconv.Itoa(int(s[i])))
	}
	sb.WriteString("]%N)")
	return sb.String()
}

func Bool(b bool) string {
	if b {
		return "true"
	}
	return "false"
}

func Nat(n int) string { return strconv.Itoa(n) }

// Z renders an integer as a Coq Z literal usable without scopes opened.
func Z(n int64) string { return fmt.Sprintf("(%d)%%Z", n) }

// N renders a non-negative integer as a Coq N literal.
func N(n uint64) string { return fmt.Sprintf("(%d)%%N", n) }

func List(items []string) string { return "[" + strings.Join(items, "; ") + "]" }

func ListOf[T any](xs []T, f func(T) string) string {
	items := make([]string, len(xs))
	for i, x := range xs {
		items[i] = f(x)
	}
	return List(items)
}

func Opt(present bool, v string) string {
	if present {
		return "(Some " + v + ")"
	}
	return "None"
}

func Pair(a, b string) string { return "(" + a + ", " + b + ")" }

// ---------- sharded case files ----------

// Cases collects Coq terms (one per case) plus a human-readable rendering, and
// writes them as shard files  <dir>/cases_<k>.v  each defining
//
//	Definition cases : list <ty> := [ ... ].
//
// followed by the footer (which computes and prints the verdict lists).
type Cases struct {
	Header string // Require lines
	Type   string // Coq type of one case
	Footer string // commands evaluated after `cases` is defined
	terms  []string
	human  []string
	defs   [][2]string // optional (name, term) definition a case refers to; emitted once per shard
}

// AddWithDef adds a case whose term refers to the Coq constant defName (of
// body defTerm); the definition is written once in every shard that uses it.
func (c *Cases) AddWithDef(defName, defTerm, term, human string) {
	for len(c.defs) < len(c.terms) {
		c.defs = append(c.defs, [2]string{})
	}
	c.defs = append(c.defs, [2]string{defName, defTerm})
	c.terms = append(c.terms, term)
	c.human = append(c.human, human)
}

func (c *Cases) Add(term, human string) {
	c.terms = append(c.terms, term)
	c.human = append(c.human, human)
}
func (c *Cases) Len() int { return len(c.terms) }

// Write splits the cases in `shards` files and writes an index (cases.json)
// mapping (shard, local index) to the human rendering for replay files.
func (c *Cases) Write(dir string, shards int) error {
	if shards < 1 {
		shards = 1
	}
	if err := os.MkdirAll(dir, 0o755); err != nil {
		return err
	}
	old, _ := filepath.Glob(filepath.Join(dir, "cases_*"))
	for _, f := range old {
		os.Remove(f)
	}
	n := len(c.terms)
	per := (n + shards - 1) / shards
	if per == 0 {
		per = 1
	}
	type idx struct {
		Shard int      `json:"shard"`
		Human []string `json:"human"`
	}
	var index []idx
	for k := 0; k*per < n; k++ {
		lo, hi := k*per, min((k+1)*per, n)
		var sb strings.Builder
		sb.WriteString(c.Header)
		done := map[string]bool{}
		for i := lo; i < hi && i < len(c.defs); i++ {
			if d := c.defs[i]; d[0] != "" && !done[d[0]] {
				done[d[0]] = true
				sb.WriteString("\nDefinition " + d[0] + " := " + d[1] + ".")
			}
		}
		sb.WriteString("\nDefinition cases : list (" + c.Type + ") := [\n")
		for i := lo; i < hi; i++ {
			if i > lo {
				sb.WriteString(";\n")
			}
			sb.WriteString("  ")
			sb.WriteString(c.terms[i])
		}
		sb.WriteString("\n].\n")
		sb.WriteString(c.Footer)
		sb.WriteString("\n")
		if err := os.WriteFile(filepath.Join(dir, fmt.Sprintf("cases_%d.v", k)), []byte(sb.String()), 0o644); err != nil {
			return err
		}
		index = append(index, idx{Shard: k, Human: c.human[lo:hi]})
	}
	b, _ := json.Marshal(index)
	return os.WriteFile(filepath.Join(dir, "cases.json"), b, 0o644)
}

// ---------- stats ----------

// Stats is written as <dir>/stats.json: counts measured by the harness that go
// into the evidence file (input distribution, distinct non-trivial cases, ...).
type Stats struct {
	Evaluations        int            `json:"evaluations"`
	DistinctNontrivial int            `json:"distinct_nontrivial"`
	Rule               string         `json:"rule"`
	Distribution       map[string]int `json:"distribution"`
	Samples            []string       `json:"samples"`
	Exhaustive         bool           `json:"exhaustive"`
	Extra              map[string]any `json:"extra,omitempty"`
}

func (s *Stats) Count(key string) {
	if s.Distribution == nil {
		s.Distribution = map[string]int{}
	}
	s.Distribution[key]++
}

func (s *Stats) Write(dir string) error {
	b, _ := json.MarshalIndent(s, "", " ")
	return os.WriteFile(filepath.Join(dir, "stats.json"), b, 0o644)
}

// Distinct counts distinct strings.
func Distinct(xs []string) int {
	m := map[string]struct{}{}
	for _, x := range xs {
		m[x] = struct{}{}
	}
	return len(m)
}

func SortedKeys[V any](m map[string]V) []string {
	ks := make([]string, 0, len(m))
	for k := range m {
		ks = append(ks, k)
	}
	sort.Strings(ks)
	return ks
}

// Args parses "k=v" command line arguments.
func Args() map[string]string {
	m := map[string]string{}
	for _, a := range os.Args[1:] {
		if i := strings.IndexByte(a, '='); i > 0 {
			m[a[:i]] = a[i+1:]
		} else {
			m[a] = "1"
		}
	}
	return m
}

func Atoi(s string, def int) int {
	if v, err := strconv.Atoi(s); err == nil {
		return v
	}
	return def
}

func Fatal(err error) {
	if err != nil {
		fmt.Fprintln(os.Stderr, "harness error:", err)
		os.Exit(2)
	}
}

// Quote makes a byte string printable for human renderings.
func Quote(s string) string { return strconv.Quote(s) }
