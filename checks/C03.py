from lib import TieCheck


class C03(TieCheck):
    pid = "C03"
    area = "Route"
    props = ["Props_C03.v"]
    coq_targets = ["Heap2.vo", "HeapProofs.vo"]
    gentie = "C03"
    harness = "c03"
    extra_trust = [
        "model: coq/Route/Heap.v (copyOnWriteSearch, tXn.insert/update/remove/truncate/snapshot/clone/commit, node.clone/newNode/newNodeFromRef/updateEdge, root slice operations transliterated over an explicit heap of node and array objects; writable LRU = list with arbitrary eviction) run through Heap2.step (router, write transaction, snapshots); tied to /repo by graph isomorphism of the dumped object graph (addresses renamed in first-visit order on both sides) after every event",
        "specification (no model): digests of the full re-observation of every snapshot (All, Methods, Prefix, Routes, Has, Route, Reverse, Lookup with params, Len, structural dump) when taken vs after every later event, with range loops over the Seq-returning methods of newer iterators left early in between (an abandoned walk must yield the first items of its snapshot's frozen listing); identity + contents of every object reachable from a snapshot between consecutive dumps; the published routes and the open transaction's view vs an independent tracker built from the issued write calls and Begin/Commit/Abort only (the same history without its snapshot calls)",
        "pattern validity, psLen and hostSplit are taken from the real parseRoute (oracle input; parseRoute itself is C10); the hash used for the digests is FNV-1a 64",
    ]
    assumptions = [
        "derived node fields (childKeys, param/wildcard child index, params) are functions of key/route/children (checked by C01/C02 dumps); the inode chain is not a heap object of the model, the graph comparison checks that every node owns a fresh chain (one member per infix catch-all of its key) pointing at the node's own children array",
        "route listings in the model (countRoutes, getRouteConflict) use depth fuel 200; the refinement theorem assumes the tree is not deeper than the fuel",
    ]

    def extra(self, tier, seed, work, coverage):
        """"The state a request is being served from is frozen" also means ONE load of the published tree
        per request: tie A of the transaction protocol (regenerated synchronisation skeleton)."""
        import lib
        return lib.sync_skeleton_extra(coverage)


CHECK = C03()
