"""C11 (and the dispatch / redirect half of C08): ServeHTTP over an arbitrary matcher.

The Location clause of C08 is checked here too (harness c11 is the only one that
observes the redirect response).  Its pinned deviation is the finding
C08_location, filed under property "C08" in findings.d/C08_location.json; this
check must recognise it although its own id is C11, so the finding lookup of
checks/lib.py is wrapped (for this check only) to include that one entry.
"""
import lib
import DispTie
from lib import TieCheck

_orig_known = lib.known_findings


def _known(pid):
    out = _orig_known(pid)
    if pid == "C11":
        out = out + [f for f in _orig_known("C08") if f.get("id") == "C08_location"]
    return out


class C11(TieCheck):
    pid = "C11"
    area = "Dispatch"
    props = "Props_C11.v"
    extra_props = [("Compose", "Props_Compose.v"), ("Compose", "Props_Compose2.v")] + DispTie.PROPS
    gentie = "C11"
    # tie A for ServeHTTP itself (docs/GenServe.md): the three files of the tie are built by DispTie.tie and
    # re-checked as extra_props; the rest of the area is built on its own, so that a refused / no longer
    # provable ServeHTTP leaves the model, the specification and the correspondence usable
    coq_targets = DispTie.other_targets()
    harness = "c11"
    extra_trust = [
        DispTie.TRUST,
        "model: coq/Dispatch/Dispatch.v transliterates Router.ServeHTTP (fox.go:531-653) with tree.lookup as a parameter; "
        "coq/Dispatch/Redirect.v transliterates defaultRedirectTrailingSlashHandler, localRedirect (Location/status), "
        "hexEscapeNonASCII, FixTrailingSlash and path.Base; specs: coq/Dispatch/DispatchSpec.v, coq/Dispatch/Uri.v (RFC 3986 5.2)",
        "the lookup table of each case is read through Router.Lookup/Router.Reverse (the matcher itself is the subject of C01/C08, not of this check)",
        "coq/Dispatch/Uri.v url_view models net/url (unescape, escape, setPath, go1.24); compared with net/http's request parser on every generated request",
        "CleanPath inside the model is FoxC17.Model.cleanpath (correspondence-checked by C17)",
    ]
    assumptions = [
        "tree.lookup reports tsr only together with a node (tree.go:38); method keys are non-empty (txn.go:100)",
        "the Location clause is evaluated for requests whose wire path and query are ASCII without '?' (path) and '#' (both), i.e. what an RFC 3986 client can send",
        "special handlers are fox's defaults (404/405/200) wrapped by one observing middleware per scope",
    ]

    def gen(self, tier):
        """Regenerate coq/Dispatch/GenServe.v from (*Router).ServeHTTP of the tree under test and re-prove it
        equal to Dispatch.serve_http; a refusal or a broken bridge is a "generated-model" problem."""
        return DispTie.tie()

    def run(self, tier, seed, replay=None):
        if replay:
            # a replay file written by this check names the tier and seed that generated the failing
            # cases; the generators are deterministic, so re-running with them reproduces the input
            try:
                import json
                rp = json.load(open(replay))
                tier, seed = rp.get("tier", tier), int(rp.get("seed", seed))
            except Exception:
                pass
        # case files of ~600 cases keep each coqc under ~0.5 GB (a 5000-case file needs 2.4 GB)
        self.shards = lib.NCPU if tier == "quick" else 8 * lib.NCPU
        lib.known_findings = _known
        try:
            return super().run(tier, seed, replay)
        finally:
            lib.known_findings = _orig_known
            DispTie.restore()   # a refused / unprovable GenServe.v must not break the builds of other checks


CHECK = C11()
