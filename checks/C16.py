"""C16 — Routing a matching request allocates nothing.

PARTIAL by nature.  Proved (coq/Route/Alloc*.v, Props_C16.v): the buffer logic of the matcher.
Measured, not proved (harness/cmd/c16): heap allocations of the real ServeHTTP after warm-up.
Escape analysis, sync.Pool retention across GC cycles and the allocator are Go-runtime behaviour
that no Gallina model exhibits.
"""
import os
import re

import lib
from lib import TieCheck, COQ, Lock, go_env, sh


def broken_lemmas(log, area="Route"):
    """'File "./BridgeAlloc.v", line 57' -> 'BridgeAlloc.v: updateMaxParams_eq (line 57)'."""
    out = []
    for m in re.finditer(r'File "\./([A-Za-z0-9_]+\.v)", line (\d+)', log):
        f, ln = m.group(1), int(m.group(2))
        try:
            src = open(os.path.join(COQ, area, f)).read().splitlines()[:ln]
        except OSError:
            continue
        name = None
        for line in src:
            mm = re.match(r"\s*(?:Lemma|Theorem|Corollary|Example|Fact|Definition|Fixpoint)\s+([A-Za-z0-9_']+)", line)
            if mm:
                name = mm.group(1)
        item = "%s: %s (line %d)" % (f, name, ln)
        if item not in out:
            out.append(item)
    return out

# add-only hook (build tag verif) the harness needs since round 7: which tree owns a context. /repo holds a copy
# (/repo/verif_c16_owner.go); a scratch tree under test created from the last commit of /repo may not have it yet,
# so the check installs it there (a new file, nothing existing is touched).
OWNER_HOOK = "verif_c16_owner.go"
OWNER_HOOK_SRC = '''//go:build verif

// Read-only hook for the C16 verification harness in /verif (allocation-free
// routing): which tree owns a context. Only compiled with -tags verif; touches
// no existing code. (The master copy lives in /verif/checks/C16.py, which
// installs it into a scratch tree under test that does not have it yet.)

package fox

// VerifCtxOwner reports about a context handed out by this router (to a
// handler by ServeHTTP, by Lookup, by CloneWith): whether the tree it belongs
// to (c.tree: the tree whose pool it was taken from and whose maxParams /
// depth sized its buffers in allocateContext) is the tree currently published,
// and the current capacities of its three buffers. ok is false for a Context
// that is not a router context. It allocates nothing.
func (fox *Router) VerifCtxOwner(c Context) (owned bool, params, tsrParams, skipNds int, ok bool) {
	cc, is := c.(*cTx)
	if !is || cc == nil {
		return
	}
	return cc.tree == fox.getRoot(), cap(*cc.params), cap(*cc.tsrParams), cap(*cc.skipNds), true
}
'''


class C16(TieCheck):
    pid = "C16"
    area = "Route"
    props = ["Props_C16.v"]
    gentie = "C16"
    # tie A for the context sizing code (docs/GenC16.md): Props_GenAlloc.v is re-checked with the property files
    extra_props = [("Compose", "Props_Compose2.v"), ("Route", "Props_GenAlloc.v")]
    harness = "c16"
    # shared area: build only this property's closure (Node Lookup Tree Alloc Alloc2 Props_C16).  The tie-A files
    # (AllocSem / GenAlloc / BridgeAlloc / Props_GenAlloc) are deliberately NOT among these targets: gen_alloc() builds
    # them, a broken tie is reported as a "generated-model" problem, and the cases are still evaluated against the
    # hand-written model, which is what yields a concrete failing input
    coq_targets = ["Alloc.vo", "Alloc2.vo", "AllocHist.vo", "AllocHist2.vo"]
    extra_trust = [
        "model: coq/Route/Alloc.v = M1 (coq/Route/Lookup.v, transliteration of lookupByPath / lookupByDomain / roots.lookup, node.go:85-600) "
        "with one accumulator for the high-water marks of len(params), len(tsrParams), len(skipNds) over the main context and all sub-contexts; "
        "lookupI_simulates proves the instrumented functions return exactly M1's result; capacities as allocateContext sets them (tree.go:704-708)",
        "growth-event semantics of append / slices.Grow / copyWithResize (context.go:384-393): the runtime allocates iff the length to reach exceeds the capacity, "
        "and the capacity afterwards is at least that length and persists in the pooled context (trusted reading of the Go spec/runtime; "
        "tested two-sidedly per buffer on every cold run through fox.VerifCtxCaps)",
        "coq/Route/GenAlloc.v is regenerated from tree.go / context.go on every run by harness/cmd/allocgen (iTree.allocateContext, iTree.txn, tXn.clone / commit / "
        "updateMaxParams / updateMaxDepth, the counter statements of tXn.insert / update / remove / truncate, copyWithResize); coq/Route/BridgeAlloc.v proves "
        "Alloc.txn_caps, the counter updates of Tree.insert / update / remove / truncate and the growth predicate equal to it for all inputs; trusted: allocgen itself, "
        "the primitives of coq/Route/AllocSem.v, and BridgeAlloc.ins_site (which result type / result.depth / result.charsMatched an insertion meets: tie B) (docs/GenC16.md)",
        "add-only hook /repo/verif_c16.go (build tag verif): reads cap(params), cap(tsrParams), cap(skipNds) of the pooled contexts of the published tree",
        "add-only hook /repo/verif_c16_owner.go (build tag verif): for a context handed to a handler, whether its tree (c.tree) is the published tree, and its three capacities; "
        "asked on every handler call of every case (AllocHist.x_handed_ok: owned, and at least as large as allocateContext of the routed tree makes it)",
        "history scenarios: the writes are issued by the harness in one goroutine (no concurrent writer); 'in flight across a write' is produced by holding a Lookup / Txn.Lookup / CloneWith "
        "context or an Iter over a Handle / Update / Delete / committed or aborted transaction and closing it afterwards (or before: control)",
        "allocation counts: runtime.MemStats.Mallocs deltas around ServeHTTP (GOMAXPROCS 1, GC disabled, minimum of 3 repetitions of 10 calls after 8 warm-up calls) "
        "with an allocation-free handler / ResponseWriter and a pre-built *http.Request: a measurement, bounded by the generators, not a proof",
    ]
    assumptions = [
        "PARTIAL: no theorem speaks about heap allocation itself; escape analysis, inlining, sync.Pool hit rate (the pool is emptied by two GC cycles and is per-P), "
        "and the allocator are runtime behaviour outside the model. The theorems cover only the buffer logic: how long the three per-context slices get",
        "steady state = the request (or any request with marks at least as high) has been served before by every pooled context that takes part, and no GC cycle has "
        "dropped the pool since; the handler, the ResponseWriter and middleware are allocation-free (the harness registers none, "
        "except in the history scenarios, which are measured on a plain router and on one whose only middleware hands on a CloneWith copy, documented as allocation free)",
        "the stripped host is an oracle input of the model (netutil.StripHostPort, modelled and checked in properties C09/C01)",
        "params_bounded assumes the tree invariant 'no root-to-leaf path holds more wildcards than maxParams' (wroots <= t_maxparams): proved preserved by Tree.insert "
        "(insert_keeps_wroots) when psLen is the number of wildcards of the pattern, and evaluated on every dumped tree by the case files (a_bounds_ok)",
    ]

    def harness_args(self, tier):
        return ["tier=" + tier]

    def gen(self, tier):
        dst = os.path.join(lib.REPO, OWNER_HOOK)
        if not os.path.exists(dst):
            try:
                with open(dst, "w") as fh:
                    fh.write(OWNER_HOOK_SRC)
            except OSError as ex:
                return False, "cannot install %s: %s" % (dst, ex)
        return self.gen_alloc()

    def gen_alloc(self):
        """tie A for the context sizing code: allocgen rewrites coq/Route/GenAlloc.v from the tree under test, then
        BridgeAlloc.v / Props_GenAlloc.v are rebuilt.  A refusal or a bridge lemma that no longer compiles is a broken
        tie; the lemma is named."""
        exe, o = lib.build_harness("allocgen")
        if exe is None:
            return False, "allocgen build failed:\n" + o[-2000:]
        with Lock("coq.Route"):
            rc, og = sh([exe, "repo=" + lib.REPO, "out=" + os.path.join(COQ, "Route", "GenAlloc.v")], env=go_env(), timeout=300)
        refused = "\n".join(l for l in og.splitlines() if "REFUSED" in l)
        okb, lb = lib.coq_build("Route", targets=["Props_GenAlloc.vo"])
        if rc == 0 and okb:
            return True, og
        bl = broken_lemmas(lb) if not okb else []
        named = ("broken bridge lemma: " + ", ".join(bl)) if bl else ""
        k = lb.find('File "./')
        err = "" if okb else (lb[k:k + 1200] if k >= 0 else lb[-1200:])
        head = ("tie A (allocgen, docs/GenC16.md): the context sizing code of %s (allocateContext, the counters size / maxParams / depth, "
                "copyWithResize) is no longer proved equal to coq/Route/Alloc.v / Tree.v" % lib.REPO)
        msg = "\n".join(x for x in [head, refused[:900], named, err, ("==> " + named) if named else "", ("==> " + refused[:600]) if refused else ""] if x)
        return False, msg


CHECK = C16()
