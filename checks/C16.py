"""C16 — Routing a matching request allocates nothing.

PARTIAL by nature.  Proved (coq/Route/Alloc*.v, Props_C16.v): the buffer logic of the matcher.
Measured, not proved (harness/cmd/c16): heap allocations of the real ServeHTTP after warm-up.
Escape analysis, sync.Pool retention across GC cycles and the allocator are Go-runtime behaviour
that no Gallina model exhibits.
"""
from lib import TieCheck


class C16(TieCheck):
    pid = "C16"
    area = "Route"
    props = ["Props_C16.v"]
    gentie = "C16"
    extra_props = [("Compose", "Props_Compose2.v")]
    harness = "c16"
    # shared area: build only this property's closure (Node Lookup Tree Alloc Alloc2 Props_C16)
    coq_targets = ["Alloc.vo", "Alloc2.vo"]
    extra_trust = [
        "model: coq/Route/Alloc.v = M1 (coq/Route/Lookup.v, transliteration of lookupByPath / lookupByDomain / roots.lookup, node.go:85-600) "
        "with one accumulator for the high-water marks of len(params), len(tsrParams), len(skipNds) over the main context and all sub-contexts; "
        "lookupI_simulates proves the instrumented functions return exactly M1's result; capacities as allocateContext sets them (tree.go:704-708)",
        "growth-event semantics of append / slices.Grow / copyWithResize (context.go:384-393): the runtime allocates iff the length to reach exceeds the capacity, "
        "and the capacity afterwards is at least that length and persists in the pooled context (trusted reading of the Go spec/runtime; "
        "tested two-sidedly per buffer on every cold run through fox.VerifCtxCaps)",
        "add-only hook /repo/verif_c16.go (build tag verif): reads cap(params), cap(tsrParams), cap(skipNds) of the pooled contexts of the published tree",
        "allocation counts: runtime.MemStats.Mallocs deltas around ServeHTTP (GOMAXPROCS 1, GC disabled, minimum of 3 repetitions of 10 calls after 8 warm-up calls) "
        "with an allocation-free handler / ResponseWriter and a pre-built *http.Request: a measurement, bounded by the generators, not a proof",
    ]
    assumptions = [
        "PARTIAL: no theorem speaks about heap allocation itself; escape analysis, inlining, sync.Pool hit rate (the pool is emptied by two GC cycles and is per-P), "
        "and the allocator are runtime behaviour outside the model. The theorems cover only the buffer logic: how long the three per-context slices get",
        "steady state = the request (or any request with marks at least as high) has been served before by every pooled context that takes part, and no GC cycle has "
        "dropped the pool since; the handler, the ResponseWriter and middleware are allocation-free (the harness registers none)",
        "the stripped host is an oracle input of the model (netutil.StripHostPort, modelled and checked in properties C09/C01)",
        "params_bounded assumes the tree invariant 'no root-to-leaf path holds more wildcards than maxParams' (wroots <= t_maxparams): proved preserved by Tree.insert "
        "(insert_keeps_wroots) when psLen is the number of wildcards of the pattern, and evaluated on every dumped tree by the case files (a_bounds_ok)",
    ]

    def harness_args(self, tier):
        return ["tier=" + tier]


CHECK = C16()
