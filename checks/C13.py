import os
import re

import lib
from lib import TieCheck, BIN, HARNESS, COQ, REPO, Lock, go_env, sh


def broken_lemmas(log):
    """'File "./BridgeMw.v", line 57' -> 'BridgeMw.v: gen_new_eq_l (line 57)'."""
    out = []
    for m in re.finditer(r'File "\./([A-Za-z0-9_]+\.v)", line (\d+)', log):
        f, ln = m.group(1), int(m.group(2))
        try:
            src = open(os.path.join(COQ, "C13", f)).read().splitlines()[:ln]
        except OSError:
            continue
        name = None
        for line in src:
            mm = re.match(r"\s*(?:Lemma|Theorem|Corollary|Example|Fact|Definition|Fixpoint)\s+([A-Za-z0-9_']+)", line)
            if mm:
                name = mm.group(1)
        item = "%s: %s (line %d)" % (f, name, ln)
        if item not in out:
            out.append(item)
    return out


class C13(TieCheck):
    pid = "C13"
    area = "C13"
    props = "Props_C13.v"
    harness = "c13"
    # the check's own theorems and the correspondence are built without the tie-A files (MwSem / GenMw / BridgeMw): a
    # broken tie is reported as such (gen) and the cases are still evaluated, which yields a concrete failing input
    coq_targets = ["Corr.vo"]
    # tie A (docs/GenC13.md): middleware composition regenerated from the tree under test, proved equal to Model.v
    extra_props = [("C13", "Props_GenMw.v")]
    race = True     # the harness runs concurrent NewRoute calls in child processes under the race detector
    extra_trust = [
        "model: coq/C13/Model.v (options.go 119-156, 285-294; fox.go New/NewRoute/applyMiddleware/applyRouteMiddleware; txn.go Handle/Update) over coq/C13/GoSlice.v (Go slices and append with an arbitrary growth policy); coq/C13/Conc.v (two NewRoute calls interleaved at single append / single read granularity); spec: coq/C13/Spec.v",
        "coq/C13/GenConsts.v is regenerated from fox.go's HandlerScope constants on every run by harness/cmd/c13gen (go/ast; refuses unknown shapes)",
        "coq/C13/GenMw.v is regenerated from fox.go / route.go on every run by harness/cmd/mwgen (applyMiddleware, applyRouteMiddleware, the handler and middleware fields of New and NewRoute, Route.Handle, Route.HandleMiddleware); coq/C13/BridgeMw.v proves Model.apply_middleware / apply_route_middleware / new / new_route equal to it for all inputs; trusted: mwgen itself, the primitives of coq/C13/MwSem.v and the reading of the two option loops (BridgeMw.model_gopts / model_ropts; the option closures are C19's tie, docs/GenOpt.md) (docs/GenC13.md)",
        "add-only hook /repo/verif_c13.go (build tag verif): read-only dump of Router.mws / Route.mws (scope, g, function code pointer, len, cap, array identity)",
        "Go race detector (harness built with -race) for the concurrent NewRoute experiment",
    ]
    assumptions = [
        "a MiddlewareFunc acts on handlers as an arbitrary function (theorems chain_exact_special / chain_exact_route quantify over it); observation instantiates it with event-emitting wrappers; Recovery and Logger emit no events and are observed structurally through the hook",
        "which handler kind a request reaches (404 / 405 / redirect / OPTIONS / route) is taken from ServeHTTP's dispatch (properties C08, C11), the harness triggers each kind with a fixed request shape",
        "concurrent NewRoute calls are interleavings of atomic slice operations (sequentially consistent); Go's append growth is an arbitrary function with newcap >= needed length",
    ]

    def gen(self, tier):
        """tie A: regenerate GenConsts.v from the source tree under test."""
        os.makedirs(BIN, exist_ok=True)
        exe = os.path.join(BIN, "c13gen")
        with Lock("go"):
            rc, o = sh(["go", "build", "-o", exe, "./cmd/c13gen"], cwd=HARNESS, env=go_env(), timeout=600)
        if rc != 0:
            return False, "c13gen build failed:\n" + o
        env = go_env()
        env["VERIF_REPO"] = REPO
        with Lock("coq.C13"):
            rc, o = sh([exe, "out=" + os.path.join(COQ, "C13", "GenConsts.v")], env=env, timeout=120)
        if rc != 0:
            return False, o
        ok2, o2 = self.gen_mw()
        return ok2, o + o2

    def gen_mw(self):
        """tie A for middleware composition: mwgen rewrites coq/C13/GenMw.v from the tree under test, then
        BridgeMw.v / Props_GenMw.v are rebuilt.  A refusal or a bridge lemma that no longer compiles is a broken
        tie; the lemma is named."""
        exe, o = lib.build_harness("mwgen")
        if exe is None:
            return False, "mwgen build failed:\n" + o[-2000:]
        with Lock("coq.C13"):
            rc, og = sh([exe, "repo=" + REPO, "out=" + os.path.join(COQ, "C13", "GenMw.v")], env=go_env(), timeout=300)
        refused = "\n".join(l for l in og.splitlines() if "REFUSED" in l)
        okb, lb = lib.coq_build("C13", targets=["Props_GenMw.vo"])
        if rc == 0 and okb:
            return True, og
        bl = broken_lemmas(lb) if not okb else []
        named = ("broken bridge lemma: " + ", ".join(bl)) if bl else ""
        k = lb.find('File "./')
        err = "" if okb else (lb[k:k + 1200] if k >= 0 else lb[-1200:])
        head = "tie A (mwgen, docs/GenC13.md): middleware composition of %s is no longer proved equal to coq/C13/Model.v" % REPO
        msg = "\n".join(x for x in [head, refused[:900], named, err, ("==> " + named) if named else "", ("==> " + refused[:600]) if refused else ""] if x)
        return False, msg


CHECK = C13()
