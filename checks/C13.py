import os

from lib import TieCheck, BIN, HARNESS, COQ, REPO, Lock, go_env, sh


class C13(TieCheck):
    pid = "C13"
    area = "C13"
    props = "Props_C13.v"
    harness = "c13"
    race = True     # the harness runs concurrent NewRoute calls in child processes under the race detector
    extra_trust = [
        "model: coq/C13/Model.v (options.go 119-156, 285-294; fox.go New/NewRoute/applyMiddleware/applyRouteMiddleware; txn.go Handle/Update) over coq/C13/GoSlice.v (Go slices and append with an arbitrary growth policy); coq/C13/Conc.v (two NewRoute calls interleaved at single append / single read granularity); spec: coq/C13/Spec.v",
        "coq/C13/GenConsts.v is regenerated from fox.go's HandlerScope constants on every run by harness/cmd/c13gen (go/ast; refuses unknown shapes)",
        "add-only hook /repo/verif_c13.go (build tag verif): read-only dump of Router.mws / Route.mws (scope, g, function code pointer, len, cap, array identity)",
        "Go race detector (harness built with -race) for the concurrent NewRoute experiment",
    ]
    assumptions = [
        "a MiddlewareFunc acts on handlers as an arbitrary function (theorems chain_exact_special / chain_exact_route quantify over it); observation instantiates it with event-emitting wrappers; Recovery and Logger emit no events and are observed structurally through the hook",
        "which handler kind a request reaches (404 / 405 / redirect / OPTIONS / route) is taken from ServeHTTP's dispatch (properties C08, C11), the harness triggers each kind with a fixed request shape",
        "concurrent NewRoute calls are interleavings of atomic slice operations (sequentially consistent); Go's append growth is an arbitrary function with newcap >= needed length",
    ]

    def gen(self, tier):
        """tie A: regenerate GenConsts.v from the source tree under test."""
        os.makedirs(BIN, exist_ok=True)
        exe = os.path.join(BIN, "c13gen")
        with Lock("go"):
            rc, o = sh(["go", "build", "-o", exe, "./cmd/c13gen"], cwd=HARNESS, env=go_env(), timeout=600)
        if rc != 0:
            return False, "c13gen build failed:\n" + o
        env = go_env()
        env["VERIF_REPO"] = REPO
        with Lock("coq.C13"):
            rc, o = sh([exe, "out=" + os.path.join(COQ, "C13", "GenConsts.v")], env=env, timeout=120)
        return rc == 0, o


CHECK = C13()
