from lib import TieCheck


class C02(TieCheck):
    pid = "C02"
    area = "Route"
    props = ["Props_C02.v", "Props_C02_tree.v"]
    coq_targets = ["CorrHist.vo", "CorrIter.vo", "CorrWF.vo"]
    extra_props = [("Compose", "Props_Compose.v")]
    gentie = "C02"
    harness = "c02"
    extra_trust = ["model: coq/Route/Tree.v (insert / update / remove / truncate of tree.go on pure trees) run through CorrHist.hstep (router + transaction); specification: coq/Route/MapSpec.v (sequential map keyed by (method, pattern), conflict rule on token lists)",
                   "pattern validity (ErrInvalidRoute), psLen and hostSplit are taken from the real parseRoute (oracle input; parseRoute itself is C10)"]
    assumptions = ["handlers are non-nil and options valid in generated histories (their rejection is C19)"]

    def harness_args(self, tier):
        return ["tier=" + tier, "prop=C02"]


CHECK = C02()
