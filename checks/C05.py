import os
import re

from C04 import TxnAreaCheck


class C05(TxnAreaCheck):
    pid = "C05"
    props = "Props_C05.v"
    harness = "c05"
    race = True          # the stress binary is built with -race
    extra_trust = [
        "model: coq/Txn/Protocol.v (interleaving semantics of Lock/Load/Store/Unlock with any number of threads over an ABSTRACT sequential map semantics); "
        "theorems are about this protocol model",
        "tie A: harness/cmd/syncgen (go/ast + go/types) regenerates coq/Txn/GenSync.v from the sources; the Examples in Props_C05.v compare the "
        "source order of Lock/Load/Store/Unlock events (txnWith, Commit, Abort, Updates, View, helpers, every read entry point, and the list of ALL sites "
        "touching Router.mu/Router.tree) with coq/Txn/Skeleton.v",
        "SAMPLED, NOT PROVED: data-race freedom under the Go memory model, absence of panics, sync.Pool/atomic.Pointer/sync.Mutex internals and the schedules "
        "the Go runtime produces are runtime behaviour; they are exercised by harness/cmd/c05 (go build -race, GORACE=halt_on_error=1, varied GOMAXPROCS and "
        "writer/reader ratios) and every recorded call/return history is judged by Protocol.history_ok, proved complete (no false alarm) and sound for "
        "lost/duplicated/phantom writes and stale reads",
        "the harness's reading of version stamps: a multi-route transaction writes (version read inside the transaction)+1 on every route of its group; "
        "single-operation writers own their key and number their writes; timestamps come from one atomic counter",
    ]
    assumptions = [
        "sync.Mutex provides mutual exclusion and atomic.Pointer Load/Store are sequentially consistent (Go memory model); the model's Lock/Load/Store/Unlock steps are atomic",
        "linearizability is proved of the protocol model; the source is tied to it by event ORDER (tie A) and by sampled histories (tie B)",
    ]

    _run_tier = None

    def harness_args(self, tier):
        a = ["tier=" + tier]
        if os.environ.get("VERIF_C05_SECONDS"):
            a.append("seconds=" + os.environ["VERIF_C05_SECONDS"])
        elif tier == "thorough" and self._run_tier == "quick":
            # The fallback search of a QUICK run (TieCheck.run step 2b: an obligation broke, e.g. tie A, and the run has no
            # concrete failing input) asks for the thorough generators; unbounded that is 300 s of stress + 900 k events
            # for coqc (~20 min). Thorough-sized rounds, but a bounded run: 60 s of stress, <= 60 k events (2-4 min on the
            # loaded machine; C05-B measured 5.7 min with 90 s / 120 k).
            a += ["seconds=" + os.environ.get("VERIF_C05_SEARCH_SECONDS", "60"), "events=" + os.environ.get("VERIF_C05_SEARCH_EVENTS", "60000")]
        return a

    def run(self, tier, seed, replay=None):
        os.environ["GORACE"] = "halt_on_error=1"
        self._run_tier = tier
        return super().run(tier, seed, replay)

    def extra(self, tier, seed, work, coverage):
        """A race-detector report or a crash of the stress binary is a violation; the report is the replay."""
        out = []
        try:
            log = open(os.path.join(work, "harness.log"), errors="replace").read()
        except OSError:
            return out
        if "DATA RACE" in log:
            m = re.search(r"WARNING: DATA RACE.*?(?:={18}|\Z)", log, re.S)
            rep = (m.group(0) if m else log)[:6000]
            out.append(("Go race detector report during the C05 stress run (seed %s):\n%s" % (seed, rep), rep))
        elif re.search(r"(?m)^(panic:|fatal error:)", log):
            m = re.search(r"(?ms)^(panic:|fatal error:).*", log)
            rep = m.group(0)[:6000]
            # a fatal runtime error (e.g. 'sync: unlock of unlocked mutex') kills the process before the histories are
            # written: the scripted scenario it was executing (left behind by the harness) and the failures it had
            # already printed are the failing input
            ctx = "\n".join(l for l in log.splitlines() if l.startswith("c05: FAILURE"))[:3000]
            cur = os.path.join(work, "c05_current_scenario.txt")
            if os.path.exists(cur):
                ctx = "while executing the scenario: " + open(cur, errors="replace").read()[:2000] + "\n" + ctx
                os.remove(cur)
            out.append(("the C05 stress binary crashed (seed %s):\n%s%s" % (seed, ctx + "\n" if ctx else "", rep), ctx + "\n" + rep))
        coverage["race_detector"] = "go build -race; GORACE=halt_on_error=1; reports: %d" % len(out)
        return out


CHECK = C05()
