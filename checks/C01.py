import os
import re

import lib
from lib import TieCheck, COQ, REPO, Lock, go_env, sh


def broken_lemmas(log, area="Route"):
    """'File "./BridgeEntry.v", line 57' -> 'BridgeEntry.v: gen_Txn_Route_eq (line 57)'."""
    out = []
    for m in re.finditer(r'File "\./([A-Za-z0-9_]+\.v)", line (\d+)', log):
        f, ln = m.group(1), int(m.group(2))
        try:
            src = open(os.path.join(COQ, area, f)).read().splitlines()[:ln]
        except OSError:
            continue
        name = None
        for line in src:
            mm = re.match(r"\s*(?:Lemma|Theorem|Corollary|Example|Fact|Definition|Fixpoint)\s+([A-Za-z0-9_']+)", line)
            if mm:
                name = mm.group(1)
        item = "%s: %s (line %d)" % (f, name, ln)
        if item not in out:
            out.append(item)
    return out


class C01(TieCheck):
    pid = "C01"
    area = "Route"
    props = ["Props_C01.v", "Props_C01_spec.v", "Props_C01_lazy.v", "Props_C01_static.v", "Props_C01_e2e.v", "Props_C01_single.v", "Props_C09_e2e.v"]
    # the check's own theorems and the correspondence are built without the tie-A files (EntrySem / GenEntry / BridgeEntry):
    # a broken tie is reported as such (gen) and the cases are still evaluated / searched for a failing input
    coq_targets = ["Corr.vo"]
    # tie A for the entry points (docs/GenC01.md): Props_GenEntry.v is re-checked with the property files
    extra_props = [("Compose", "Props_Compose.v"), ("Route", "Props_GenEntry.v")]
    gentie = "C01"
    harness = "c01"
    extra_trust = ["model M1: coq/Route/Lookup.v transliterates lookupByPath / lookupByDomain / roots.lookup (node.go:85-600) over pure trees (coq/Route/Node.v); specification S: coq/Route/Spec.v (matcher over the list of registered patterns)",
                   "the tree each case is evaluated on is the dump of the real router (verif_export.go); the stripped host is taken from netutil.StripHostPort (oracle input)",
                   "coq/Route/GenEntry.v is regenerated from fox.go / txn.go / iter.go / tree.go / context.go on every run by harness/cmd/entrygen (Router and Txn Lookup / Reverse / Route / Has, Iter.Reverse, iTree.lookup, getRoot, resetNil / resetWithWriter / Close); coq/Route/BridgeEntry.v proves the entry-point models of LazyProofs2.v equal to it for all inputs; trusted: entrygen itself and the primitives of coq/Route/EntrySem.v (docs/GenC01.md)"]
    assumptions = ["request paths without empty segments are in the specification's domain (C01 text); others are compared implementation-vs-model only"]

    def harness_args(self, tier):
        return ["tier=" + tier, "prop=C01"]

    def gen(self, tier):
        ok0, o0 = TieCheck.gen(self, tier)
        ok1, o1 = self.gen_entry()
        return ok0 and ok1, (o0 or "") + o1

    def gen_entry(self):
        """tie A for the entry-point wrappers: entrygen rewrites coq/Route/GenEntry.v from the tree under test, then
        BridgeEntry.v / Props_GenEntry.v are rebuilt.  A refusal or a bridge lemma that no longer compiles is a broken
        tie; the lemma is named."""
        exe, o = lib.build_harness("entrygen")
        if exe is None:
            return False, "entrygen build failed:\n" + o[-2000:]
        with Lock("coq.Route"):
            rc, og = sh([exe, "repo=" + REPO, "out=" + os.path.join(COQ, "Route", "GenEntry.v")], env=go_env(), timeout=300)
        refused = "\n".join(l for l in og.splitlines() if "REFUSED" in l)
        okb, lb = lib.coq_build("Route", targets=["Props_GenEntry.vo"])
        if rc == 0 and okb:
            return True, og
        bl = broken_lemmas(lb) if not okb else []
        named = ("broken bridge lemma: " + ", ".join(bl)) if bl else ""
        k = lb.find('File "./')
        err = "" if okb else (lb[k:k + 1200] if k >= 0 else lb[-1200:])
        head = "tie A (entrygen, docs/GenC01.md): the entry-point wrappers of %s are no longer proved equal to the models of coq/Route/LazyProofs2.v" % REPO
        msg = "\n".join(x for x in [head, refused[:900], named, err, ("==> " + named) if named else "", ("==> " + refused[:600]) if refused else ""] if x)
        return False, msg


CHECK = C01()
