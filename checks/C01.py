from lib import TieCheck


class C01(TieCheck):
    pid = "C01"
    area = "Route"
    props = ["Props_C01.v", "Props_C01_spec.v", "Props_C01_lazy.v", "Props_C01_static.v", "Props_C01_e2e.v", "Props_C01_single.v", "Props_C09_e2e.v"]
    coq_targets = ["Corr.vo"]
    extra_props = [("Compose", "Props_Compose.v")]
    gentie = "C01"
    harness = "c01"
    extra_trust = ["model M1: coq/Route/Lookup.v transliterates lookupByPath / lookupByDomain / roots.lookup (node.go:85-600) over pure trees (coq/Route/Node.v); specification S: coq/Route/Spec.v (matcher over the list of registered patterns)",
                   "the tree each case is evaluated on is the dump of the real router (verif_export.go); the stripped host is taken from netutil.StripHostPort (oracle input)"]
    assumptions = ["request paths without empty segments are in the specification's domain (C01 text); others are compared implementation-vs-model only"]

    def harness_args(self, tier):
        return ["tier=" + tier, "prop=C01"]


CHECK = C01()
