import os

import lib
from lib import TieCheck


class C18(TieCheck):
    pid = "C18"
    area = "C18"
    props = "Props_C18.v"
    harness = "c18"
    # tie A (checks/GenTie.py, docs/Gen.md): netutil.SplitHostZone is regenerated into coq/Gen/GenWild.v (BridgeWild.v:
    # gen_SplitHostZone = ParseIP.split_host_zone) and clientip.trimMatchedEnds into coq/Gen/GenEsc.v (BridgeEsc.v:
    # = ParseIP.trim_matched_ends); GenTie.props("C18") = Props_Gen.v, Props_Gen_wild.v, Props_Gen_esc.v
    gentie = "C18"
    extra_trust = [
        "tie A: coq/C18/GenRanges.v is rewritten on every run by harness/cmd/c18gen (go/ast over clientip/clientip.go; "
        "refuses unknown shapes; uses the same net.ParseCIDR as the code)",
        "coq/C18/Iana.v: the IANA special-purpose registry blocks transcribed by hand from RFC 6890 and updates (blocks taken whole)",
        "coq/C18/GoStd.v + ParseIP.v: unverified Gallina mirrors of strings.TrimSpace, strings.EqualFold(_, \"for\"), "
        "net.SplitHostPort, net.ParseIP (go1.24) and of clientip.ParseIPAddr; compared with the real functions on every run; "
        "the specification uses the same parse function as its oracle of what text is an address",
        "model: coq/C18/Entries.v, Strategies.v, Model.v transliterate clientip.go:88-583 and internal/iterutil; spec: coq/C18/Spec.v + Corr.spec_resolve",
    ]
    assumptions = [
        "header values and RemoteAddr are finite byte strings; http.Header lookup with the canonical key is a map lookup",
        "resolver parameters are those the exported constructors accept (count > 0, limit > 0); trusted ranges given to "
        "RightmostTrustedRange are net.IPNet values with canonical masks (as AddressesAndRangesToIPNets / net.ParseCIDR produce)",
        "errors are compared by kind (sentinel + which message), not by text",
    ]

    def harness_args(self, tier):
        # thorough: many small shards keep each coqc under ~1 GB (16 run at a time)
        return ["tier=" + tier] + (["shards=64"] if tier == "thorough" else [])

    def gen(self, tier):
        """Tie A: regenerate coq/C18/GenRanges.v from $VERIF_REPO/clientip/clientip.go."""
        hb, lg = lib.build_harness("c18gen")
        if hb is None:
            return False, "c18gen does not build:\n" + lg
        out = os.path.join(lib.COQ, self.area, "GenRanges.v")
        with lib.Lock("coq." + self.area):
            rc, o = lib.sh([hb, "repo=" + os.path.abspath(lib.REPO), "out=" + out], env=lib.go_env(), timeout=300)
        return rc == 0, "c18gen: " + o

    def run(self, tier, seed, replay=None):
        # Keep the cases evaluable when only a proof file (e.g. the range audit over a
        # regenerated table) no longer compiles: fall back to building the model closure
        # (Corr.vo).  The broken proof is still reported, by the coqc run on Props_C18.v.
        orig = lib.coq_build
        area = self.area

        def build(a, clean=False, _seen=None, **kw):
            ok, lg = orig(a, clean, _seen, **kw)
            if not ok and a == area:
                with lib.Lock("coq." + a):
                    rc, o = lib.sh(["make", "Corr.vo"], cwd=os.path.join(lib.COQ, a), timeout=3000)
                if rc == 0:
                    lib.log("-- coq build of %s failed; model closure (Corr.vo) built, cases will be evaluated:\n%s" % (a, lg[-1500:]))
                    return True, lg
            return ok, lg

        lib.coq_build = build
        try:
            return super().run(tier, seed, replay)
        finally:
            lib.coq_build = orig


CHECK = C18()
