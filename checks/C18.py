import os
import re

import lib
from lib import TieCheck


def broken_lemmas(log, area="C18"):
    """'File "./BridgeStrat.v", line 57' -> 'BridgeStrat.v: gen_Chain_eq (line 57)'."""
    out = []
    for m in re.finditer(r'File "\./([A-Za-z0-9_]+\.v)", line (\d+)', log):
        f, ln = m.group(1), int(m.group(2))
        try:
            src = open(os.path.join(lib.COQ, area, f)).read().splitlines()[:ln]
        except OSError:
            continue
        name = None
        for line in src:
            mm = re.match(r"\s*(?:Lemma|Theorem|Corollary|Example|Fact|Definition|Fixpoint)\s+([A-Za-z0-9_']+)", line)
            if mm:
                name = mm.group(1)
        item = "%s: %s (line %d)" % (f, name, ln)
        if item not in out:
            out.append(item)
    return out


class C18(TieCheck):
    pid = "C18"
    area = "C18"
    props = "Props_C18.v"
    harness = "c18"
    # tie A (checks/GenTie.py, docs/Gen.md): netutil.SplitHostZone is regenerated into coq/Gen/GenWild.v (BridgeWild.v:
    # gen_SplitHostZone = ParseIP.split_host_zone) and clientip.trimMatchedEnds into coq/Gen/GenEsc.v (BridgeEsc.v:
    # = ParseIP.trim_matched_ends); GenTie.props("C18") = Props_Gen.v, Props_Gen_wild.v, Props_Gen_esc.v
    gentie = "C18"
    # the check's own theorems and the correspondence are built without the strategy tie-A files (StratSem / GenStrat /
    # BridgeStrat / Props_GenStrat): a broken tie is reported as such (gen) and the cases are still evaluated
    coq_targets = ["Corr.vo"]
    # tie A for the strategies (docs/GenC18.md): the ClientIP methods, lastHeader and the two sequence builders
    # regenerated from the tree under test, proved equal to Entries.v / Strategies.v / Model.resolve for all inputs
    extra_props = [("C18", "Props_GenStrat.v")]
    extra_trust = [
        "tie A: coq/C18/GenRanges.v is rewritten on every run by harness/cmd/c18gen (go/ast over clientip/clientip.go; "
        "refuses unknown shapes; uses the same net.ParseCIDR as the code)",
        "coq/C18/Iana.v: the IANA special-purpose registry blocks transcribed by hand from RFC 6890 and updates (blocks taken whole)",
        "coq/C18/GoStd.v + ParseIP.v: unverified Gallina mirrors of strings.TrimSpace, strings.EqualFold(_, \"for\"), "
        "net.SplitHostPort, net.ParseIP (go1.24) and of clientip.ParseIPAddr; compared with the real functions on every run; "
        "the specification uses the same parse function as its oracle of what text is an address",
        "tie A: coq/C18/GenStrat.v is rewritten on every run by harness/cmd/stratgen (go/ast + go/types over clientip/clientip.go: "
        "the ClientIP methods of Chain, RemoteAddr, SingleIPHeader, LeftmostNonPrivate, RightmostNonPrivate, RightmostTrustedCount, "
        "RightmostTrustedRange, lastHeader, the iteration plumbing of ipAddrSeq / backwardIpAddrSeq); coq/C18/BridgeStrat.v proves "
        "Entries.ip_addr_seq / backward_ip_addr_seq, the strategy models of Strategies.v and Model.resolve equal to it for all inputs; "
        "trusted: stratgen itself and the primitives of coq/C18/StratSem.v (docs/GenC18.md); splitting, trimming and parsing of "
        "one entry (iterutil, parseForwardedListItem, ParseIPAddr) stay the hand-written mirrors",
        "model: coq/C18/Entries.v, Strategies.v, Model.v transliterate clientip.go:88-583 and internal/iterutil; spec: coq/C18/Spec.v + Corr.spec_resolve",
    ]
    assumptions = [
        "header values and RemoteAddr are finite byte strings; http.Header lookup with the canonical key is a map lookup",
        "resolver parameters are those the exported constructors accept (count > 0, limit > 0); trusted ranges given to "
        "RightmostTrustedRange are net.IPNet values with canonical masks (as AddressesAndRangesToIPNets / net.ParseCIDR produce)",
        "errors are compared by kind (sentinel + which message), not by text",
    ]

    def harness_args(self, tier):
        # thorough: many small shards keep each coqc under ~1 GB (16 run at a time)
        return ["tier=" + tier] + (["shards=64"] if tier == "thorough" else [])

    def gen(self, tier):
        """Tie A: regenerate coq/C18/GenRanges.v from $VERIF_REPO/clientip/clientip.go."""
        hb, lg = lib.build_harness("c18gen")
        if hb is None:
            return False, "c18gen does not build:\n" + lg
        out = os.path.join(lib.COQ, self.area, "GenRanges.v")
        with lib.Lock("coq." + self.area):
            rc, o = lib.sh([hb, "repo=" + os.path.abspath(lib.REPO), "out=" + out], env=lib.go_env(), timeout=300)
        ok2, o2 = self.gen_strategies()
        if rc == 0 and not ok2:
            return False, o2
        return rc == 0 and ok2, "c18gen: " + o + "\n" + o2

    def gen_strategies(self):
        """tie A for the strategies: stratgen rewrites coq/C18/GenStrat.v from the tree under test, then BridgeStrat.v /
        Props_GenStrat.v are rebuilt.  A refusal or a bridge lemma that no longer compiles is a broken tie; the lemma is
        named."""
        exe, o = lib.build_harness("stratgen")
        if exe is None:
            return False, "stratgen build failed:\n" + o[-2000:]
        with lib.Lock("coq." + self.area):
            rc, og = lib.sh([exe, "repo=" + os.path.abspath(lib.REPO), "out=" + os.path.join(lib.COQ, self.area, "GenStrat.v")],
                            env=lib.go_env(), timeout=300)
        refused = "\n".join(l for l in og.splitlines() if "REFUSED" in l)
        build = getattr(self, "_coq_build_orig", None) or lib.coq_build
        okb, lb = build(self.area, targets=["Props_GenStrat.vo"])
        if rc == 0 and okb:
            return True, og
        bl = broken_lemmas(lb, self.area) if not okb else []
        named = ("broken bridge lemma: " + ", ".join(bl)) if bl else ""
        k = lb.find('File "./')
        err = "" if okb else (lb[k:k + 600] if k >= 0 else lb[-600:])
        head = ("tie A (stratgen, docs/GenC18.md): the client-IP strategies of %s/clientip/clientip.go are no longer proved "
                "equal to coq/C18/Strategies.v / Entries.v" % lib.REPO)
        # the summary lines first: the framework prints the first 1500 characters of a problem
        msg = "\n".join(x for x in [head, ("==> " + refused[:500]) if refused else "", ("==> " + named[:300]) if named else "", err] if x)
        return False, msg

    def run(self, tier, seed, replay=None):
        # Keep the cases evaluable when only a proof file (e.g. the range audit over a
        # regenerated table) no longer compiles: fall back to building the model closure
        # (Corr.vo).  The broken proof is still reported, by the coqc run on Props_C18.v.
        orig = lib.coq_build
        self._coq_build_orig = orig
        area = self.area

        def build(a, clean=False, _seen=None, **kw):
            ok, lg = orig(a, clean, _seen, **kw)
            if not ok and a == area:
                with lib.Lock("coq." + a):
                    rc, o = lib.sh(["make", "Corr.vo"], cwd=os.path.join(lib.COQ, a), timeout=3000)
                if rc == 0:
                    lib.log("-- coq build of %s failed; model closure (Corr.vo) built, cases will be evaluated:\n%s" % (a, lg[-1500:]))
                    return True, lg
            return ok, lg

        lib.coq_build = build
        try:
            return super().run(tier, seed, replay)
        finally:
            lib.coq_build = orig


CHECK = C18()
