import DispTie
from lib import TieCheck


class C17(TieCheck):
    pid = "C17"
    area = "C17"
    props = "Props_C17.v"
    harness = "c17"
    extra_props = list(DispTie.PROPS)   # redirect clause: gen_redirect_only_if_clean / _canonical about the regenerated ServeHTTP
    gentie = "C17"          # tie A: CleanPath / bufApp regenerated into coq/Gen/GenPath.v, proved equal to Model.v (docs/Gen.md)
    extra_trust = ["model: coq/C17/Model.v transliterates CleanPath/bufApp (path.go:26-157); spec: coq/C17/Spec.v",
                   "tie A: harness/cmd/gotrans translates CleanPath and bufApp into coq/Gen/GenPath.v on every run; coq/Gen/BridgeC17.v proves, for every input, that the generated code (real buffer with capacity, both branches of the stackBufSize threshold) returns Model.cleanpath p = clean_spec p (Props_Gen_C17.v); trusted: gotrans, coq/Gen/GoSem.v (sampled against the real slice operations)"]
    extra_trust = extra_trust + [DispTie.TRUST]
    assumptions = ["Go strings are finite byte sequences; int arithmetic on lengths and indexes does not overflow (Z)"]

    def gen(self, tier):
        """redirect clause ("a trailing-slash redirect is only issued for canonical paths"): the caller of CleanPath,
        Router.ServeHTTP, is regenerated into coq/Dispatch/GenServe.v and proved equal to Dispatch.serve_http."""
        return DispTie.tie()

    def run(self, tier, seed, replay=None):
        try:
            return super().run(tier, seed, replay)
        finally:
            DispTie.restore()   # a refused / unprovable GenServe.v must not break the builds of other checks


CHECK = C17()
