from lib import TieCheck


class C17(TieCheck):
    pid = "C17"
    area = "C17"
    props = "Props_C17.v"
    harness = "c17"
    extra_trust = ["model: coq/C17/Model.v transliterates CleanPath/bufApp (path.go:26-157); spec: coq/C17/Spec.v"]
    assumptions = ["Go strings are finite byte sequences; the 128-byte stack buffer is an allocation detail the model abstracts (both branches allocate a zeroed buffer of the same length)"]


CHECK = C17()
