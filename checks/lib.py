"""Shared machinery for bin/check: builds, Coq obligations, case-file evaluation,
evidence, known findings, violation reporting.  Python 3 stdlib only.

Every check (checks/Cxx.py) exposes  run(tier, seed, replay=None) -> exit code
and is normally a thin instance of TieCheck below.
"""
import concurrent.futures as cf
import fcntl
import json
import hashlib
import os
import re
import shutil
import subprocess
import sys
import time

VERIF = os.path.dirname(os.path.dirname(os.path.abspath(__file__)))
REPO = os.environ.get("VERIF_REPO", "/repo")
WORKROOT = os.path.join(VERIF, ".work")
BIN = os.path.join(WORKROOT, "bin")
COQ = os.path.join(VERIF, "coq")
HARNESS = os.path.join(VERIF, "harness")
EVIDENCE = os.path.join(VERIF, "evidence")
NCPU = os.cpu_count() or 4

ALLOWED_AXIOMS = {
    # standard-library axioms the brief allows, if a proof ever needs them;
    # whatever Print Assumptions reports is copied into the evidence
    "functional_extensionality_dep", "proof_irrelevance", "classic",
    "JMeq_eq", "Eq_rect_eq.eq_rect_eq", "eq_rect_eq", "propositional_extensionality",
}

FORBIDDEN = re.compile(
    r"\b(Admitted|admit|Axiom|Axioms|Parameter|Parameters|Conjecture|Conjectures|"
    r"Admit Obligations|Unset Guard Checking|Unset Positivity Checking|"
    r"Unset Universe Checking|bypass_check|type-in-type|impredicative-set|"
    r"native_compute)\b")


def log(*a):
    print(*a, flush=True)


def go_env():
    e = dict(os.environ)
    e["GOFLAGS"] = "-mod=mod"
    e["GOPROXY"] = "off"
    e.pop("GOTOOLCHAIN", None)   # must stay 'auto': /repo needs the cached go1.24.0
    e.pop("GOSUMDB", None)
    return e


class Lock:
    """File lock so concurrently started checks serialise shared builds."""

    def __init__(self, name):
        os.makedirs(WORKROOT, exist_ok=True)
        self.path = os.path.join(WORKROOT, "lock." + name.replace("/", "_"))

    def __enter__(self):
        self.f = open(self.path, "w")
        fcntl.flock(self.f, fcntl.LOCK_EX)
        return self

    def __exit__(self, *a):
        fcntl.flock(self.f, fcntl.LOCK_UN)
        self.f.close()


def sh(cmd, cwd=None, env=None, timeout=3600):
    """Run a command, return (rc, combined output)."""
    try:
        p = subprocess.run(cmd, cwd=cwd, env=env, timeout=timeout, stdout=subprocess.PIPE,
                           stderr=subprocess.STDOUT, shell=isinstance(cmd, str))
        return p.returncode, p.stdout.decode("utf-8", "replace")
    except subprocess.TimeoutExpired as e:
        out = (e.stdout or b"").decode("utf-8", "replace")
        return 124, out + "\n[timeout after %ss]" % timeout


# ------------------------------------------------------------------ Go side

def build_harness(cmd, tags="verif", race=False):
    """go build harness/cmd/<cmd> against REPO's working tree. Returns (path, log) or (None, log)."""
    os.makedirs(BIN, exist_ok=True)
    # one binary per tree under test: checks of different scratch trees may run side by side
    key = "" if os.path.abspath(REPO) == "/repo" else "-" + hashlib.md5(os.path.abspath(REPO).encode()).hexdigest()[:8]
    out = os.path.join(BIN, cmd + ("-race" if race else "") + key)
    args = ["go", "build", "-tags", tags, "-o", out]
    if race:
        args.insert(2, "-race")
    with Lock("go"):
        if os.path.abspath(REPO) != "/repo":
            # alternate module file pointing at the scratch tree under test
            mod = open(os.path.join(HARNESS, "go.mod")).read().replace("=> /repo", "=> " + os.path.abspath(REPO))
            alt = os.path.join(WORKROOT, "alt%s.mod" % key)
            open(alt, "w").write(mod)
            shutil.copy(os.path.join(HARNESS, "go.sum"), os.path.join(WORKROOT, "alt%s.sum" % key))
            args += ["-modfile", alt]
        args.append("./cmd/" + cmd)
        rc, o = sh(args, cwd=HARNESS, env=go_env(), timeout=900)
    if rc != 0:
        return None, o
    return out, o


# ------------------------------------------------------------------ Coq side

def qflags(area, root=None):
    """-Q flags of an area's _CoqProject, with absolute paths."""
    d = os.path.join(root or COQ, area)
    flags = []
    for line in open(os.path.join(d, "_CoqProject")):
        t = line.split()
        if len(t) == 3 and t[0] in ("-Q", "-R"):
            flags += [t[0], os.path.normpath(os.path.join(d, t[1])), t[2]]
    return flags


def area_deps(area, root=None):
    """Other areas an area's _CoqProject refers to (built first)."""
    d = os.path.join(root or COQ, area)
    deps = []
    for line in open(os.path.join(d, "_CoqProject")):
        t = line.split()
        if len(t) == 3 and t[0] in ("-Q", "-R") and t[1] != ".":
            deps.append(os.path.basename(os.path.normpath(os.path.join(d, t[1]))))
    return deps


def non_tie_targets(d):
    """The .vo targets of the area in directory d minus its tie-A files (listed one per line in d/_TieFiles):
    generated definitions and their bridge proofs belong to ONE property's check, which builds them itself;
    a broken or refused tie must not fail the whole-area build that other properties' checks depend on."""
    tf = os.path.join(d, "_TieFiles")
    if not os.path.exists(tf):
        return None
    ties = set(l.strip() for l in open(tf) if l.strip() and not l.startswith("#"))
    vs = [l.strip() for l in open(os.path.join(d, "_CoqProject")) if l.strip().endswith(".v") and not l.startswith("-")]
    return [v[:-2] + ".vo" for v in vs if v not in ties]


def coq_build(area, clean=False, _seen=None, targets=None, root=None, with_ties=False):
    """Full .vo build of an area (and the areas it depends on). Returns (ok, log).
    targets: optional list of .vo files (closure built by make) instead of the whole area.
    Without targets the tie-A files of the area (_TieFiles) are left out unless with_ties is set (bin/setup)."""
    _seen = _seen if _seen is not None else set()
    if area in _seen:
        return True, ""
    _seen.add(area)
    logs = []
    for dep in area_deps(area, root):
        ok, lg = coq_build(dep, False, _seen, root=root, with_ties=with_ties)
        logs.append(lg)
        if not ok:
            return False, "\n".join(logs)
    d = os.path.join(root or COQ, area)
    with Lock("coq." + area + ("" if root is None else "." + os.path.basename(os.path.dirname(root)))):
        mk = os.path.join(d, "Makefile")
        cp = os.path.join(d, "_CoqProject")
        if not os.path.exists(mk) or os.path.getmtime(mk) < os.path.getmtime(cp):
            rc, o = sh(["coq_makefile", "-f", "_CoqProject", "-o", "Makefile"], cwd=d)
            if rc != 0:
                return False, o
        if clean:
            sh(["make", "clean"], cwd=d)
        if targets is None and not with_ties:
            targets = non_tie_targets(d)
        rc, o = sh(["make", "-j%d" % NCPU] + (targets or []), cwd=d, timeout=3000)
    o = "\n".join(l for l in o.splitlines() if not l.startswith("Warning:") and l.strip())
    logs.append("== make %s (rc=%d)\n%s" % (area, rc, o[-6000:]))
    return rc == 0, "\n".join(logs)


THM = re.compile(r"^\s*(Theorem|Lemma|Corollary|Example|Fact|Proposition)\s+([A-Za-z0-9_']+)", re.M)


def private_copy(area, dest):
    """Copy the sources (.v, _CoqProject) of an area and of the areas it depends on into dest/ for a
    from-clean build that cannot disturb (or be disturbed by) builds running in the shared tree."""
    if os.path.isdir(dest):
        shutil.rmtree(dest)
    for a in closure_areas(area):
        src = os.path.join(COQ, a)
        dst = os.path.join(dest, a)
        os.makedirs(dst)
        for f in os.listdir(src):
            if f.endswith(".v") or f in ("_CoqProject", "_TieFiles"):
                shutil.copy(os.path.join(src, f), dst)
    return dest


def props_obligations(area, props_file, root=None, lock=True):
    """Re-run coqc on the property file; list theorems, which were accepted, and
    the assumptions Print Assumptions reported for each.
    Returns dict(theorems=[...], discharged=[...], axioms={thm:[...]}, ok, log, cmd)."""
    d = os.path.join(root or COQ, area)
    src = open(os.path.join(d, props_file)).read()
    thms = [(m.group(2), src.count("\n", 0, m.start()) + 1) for m in THM.finditer(src)]
    cmd = ["coqc"] + qflags(area, root) + [props_file]
    if lock:
        with Lock("coq." + area + ("" if root is None else ".private")):
            rc, o = sh(["timeout", "1200"] + cmd, cwd=d, timeout=1300)
    else:
        rc, o = sh(["timeout", "1200"] + cmd, cwd=d, timeout=1300)
    res = dict(theorems=[t for t, _ in thms], cmd=" ".join(cmd), log=o[-4000:], ok=rc == 0, axioms={})
    if rc == 0:
        res["discharged"] = [t for t, _ in thms]
    else:
        m = re.search(r'line (\d+), characters', o)
        bad = int(m.group(1)) if m else 0
        # a theorem is discharged if the next theorem starts before the failing line
        dis = []
        for i, (t, ln) in enumerate(thms):
            nxt = thms[i + 1][1] if i + 1 < len(thms) else 10 ** 9
            if nxt <= bad:
                dis.append(t)
        res["discharged"] = dis
    # Print Assumptions output, in order of the Print commands
    printed = re.findall(r"Print Assumptions\s+([A-Za-z0-9_']+)", src)
    blocks = re.split(r"(?m)^(?=Closed under the global context|Axioms:|Section Variables:)", o)
    blocks = [b for b in blocks if b.startswith(("Closed", "Axioms", "Section"))]
    for name, b in zip(printed, blocks):
        if b.startswith("Closed"):
            res["axioms"][name] = []
        else:
            res["axioms"][name] = re.findall(r"(?m)^([A-Za-z0-9_.']+)\s*:", b)
    return res


def hygiene(areas):
    """Forbidden vernacular anywhere in the given areas' .v files."""
    hits = []
    for a in areas:
        d = os.path.join(COQ, a)
        for root, _, files in os.walk(d):
            for f in files:
                if f.endswith(".v"):
                    p = os.path.join(root, f)
                    txt = re.sub(r"\(\*.*?\*\)", "", open(p, errors="replace").read(), flags=re.S)
                    for i, line in enumerate(txt.splitlines(), 1):
                        if FORBIDDEN.search(line):
                            hits.append("%s:%d: %s" % (os.path.relpath(p, VERIF), i, line.strip()[:120]))
    return hits


def closure_areas(area):
    out, todo = [], [area]
    while todo:
        a = todo.pop()
        if a not in out:
            out.append(a)
            todo += area_deps(a)
    return out


LISTDEF = re.compile(r"(?s)^([A-Za-z0-9_']+)\s*=\s*(.*?)\s*:\s*list\s")


def parse_coq_prints(out):
    """Parse `name = [1; 2] : list nat` blocks printed by Print."""
    res = {}
    chunks = re.split(r"(?m)^(?=[A-Za-z0-9_']+ =)", out)
    for ch in chunks:
        m = LISTDEF.match(ch)
        if m:
            res[m.group(1)] = [int(x) for x in re.findall(r"\d+", m.group(2))]
    return res


def eval_cases(casedir, area, timeout=1500):
    """coqc every cases_<k>.v in parallel; returns (results, errors) where results maps
    list-name -> [(shard, idx), ...] and errors is a list of (shard, log)."""
    flags = qflags(area)
    shards = sorted(int(re.match(r"cases_(\d+)\.v$", f).group(1))
                    for f in os.listdir(casedir) if re.match(r"cases_(\d+)\.v$", f))

    def one(k):
        rc, o = sh(["timeout", str(timeout), "coqc"] + flags + ["cases_%d.v" % k], cwd=casedir, timeout=timeout + 60)
        return k, rc, o

    results, errors = {}, []
    with cf.ThreadPoolExecutor(max_workers=NCPU) as ex:
        for k, rc, o in ex.map(one, shards):
            if rc != 0:
                errors.append((k, o[-3000:]))
                continue
            for name, idxs in parse_coq_prints(o).items():
                results.setdefault(name, []).extend((k, i) for i in idxs)
    for f in os.listdir(casedir):
        if f.endswith((".vo", ".vok", ".vos", ".glob", ".aux")):
            os.remove(os.path.join(casedir, f))
    return results, errors


def human_case(casedir, shard, idx):
    try:
        for e in json.load(open(os.path.join(casedir, "cases.json"))):
            if e["shard"] == shard:
                return e["human"][idx]
    except Exception as ex:  # noqa
        return "<case %d/%d: %s>" % (shard, idx, ex)
    return "<case %d/%d>" % (shard, idx)


# ------------------------------------------------------------------ findings / evidence

def known_findings(pid):
    out = []
    paths = [os.path.join(VERIF, "KNOWN_FINDINGS.json")]
    fd = os.path.join(VERIF, "findings.d")
    if os.path.isdir(fd):
        paths += [os.path.join(fd, f) for f in sorted(os.listdir(fd)) if f.endswith(".json")]
    for p in paths:
        if os.path.exists(p):
            out += [f for f in json.load(open(p)).get("findings", [])
                    if f.get("property") == pid or pid in f.get("also_properties", [])]
    return out


def write_replay(pid, name, payload):
    d = os.path.join(WORKROOT, pid, "replay")
    os.makedirs(d, exist_ok=True)
    p = os.path.join(d, name)
    with open(p, "w") as f:
        if isinstance(payload, str):
            f.write(payload)
        else:
            json.dump(payload, f, indent=1)
    return p


def violation(pid, replay_path, not_found=False):
    log("VIOLATION property=%s replay=%s%s" % (pid, replay_path, " no-failing-input-found" if not_found else ""))


def write_evidence(pid, tier, seed, coverage, assumptions, wall_s, violations, level="proof"):
    global EVIDENCE
    if os.path.abspath(REPO) != "/repo":
        # a run against a scratch tree (seeded change under test) must not replace the evidence of /repo
        EVIDENCE = os.path.join(WORKROOT, "evidence_scratch")
    os.makedirs(EVIDENCE, exist_ok=True)
    ev = dict(property_id=pid, tier=tier, seed=int(seed), level=level, coverage=coverage,
              assumptions=assumptions, wall_s=round(wall_s, 2), violations=int(violations))
    tmp = os.path.join(EVIDENCE, pid + ".json.tmp")
    with open(tmp, "w") as f:
        json.dump(ev, f, indent=1)
    os.replace(tmp, os.path.join(EVIDENCE, pid + ".json"))


BASE_TRUST = [
    "Coq 8.16.1 kernel (coqc), vm_compute used for witness/case evaluation; no native_compute",
    "hand-written Gallina model of the anchored Go code; tied to /repo by the correspondence check (differential testing, bounded by its generators)",
    "Go harness (harness/), bin/check + checks/lib.py (diffing, parsing of coqc output), verif-tagged export hook in /repo",
]


def dispatch_extra(work, coverage, tier="quick"):
    """Run the dispatch harness (c11: ServeHTTP over the recorded lookup table) against the Dispatch
    model and specification; every disagreement is returned as a failing input.  Used by the checks
    of properties whose statement includes what ServeHTTP does with the matcher's answer (C08, C09)."""
    out = []
    ok, lg = coq_build("Dispatch", targets=["Corr.vo"])
    hb, hl = build_harness("c11")
    if not ok or hb is None:
        return [("dispatch half: model or harness does not build: " + (lg if not ok else hl)[-800:], {"no_input": True, "kind": "build"})]
    d = os.path.join(work, "cases_dispatch")
    if os.path.isdir(d):
        shutil.rmtree(d)
    rc, o = sh([hb, "out=" + d, "shards=%d" % NCPU, "tier=quick"], cwd=work, env=go_env(), timeout=1500)
    if rc != 0:
        return [("dispatch harness failed: " + o[-800:], {})]
    res, errs = eval_cases(d, "Dispatch")
    for k, e in errs:
        out.append(("dispatch case evaluation failed (shard %d): %s" % (k, e[-400:]), {}))
    bad = list(dict.fromkeys(res.get("mism", []) + res.get("viol", [])))
    attributed = set()
    for name, idxs in res.items():
        if name.startswith("known_"):
            attributed.update(idxs)
    bad = [c for c in bad if c not in attributed or c in res.get("mism", [])]
    for c in bad[:10]:
        out.append(("dispatch: " + human_case(d, *c)[:700], {}))
    try:
        st = json.load(open(os.path.join(d, "stats.json")))
        coverage["dispatch_evaluations"] = int(st.get("evaluations", 0))
        coverage["dispatch_mismatches"] = len(res.get("mism", []))
        coverage["dispatch_spec_failures"] = len(res.get("viol", []))
    except Exception:
        pass
    return out


def sync_skeleton_extra(coverage):
    """Tie A of the transaction protocol (C04/C05): regenerate coq/Txn/GenSync.v from the sources and
    re-check the Examples that compare it with the expected skeletons (exactly one Load of the tree per
    read entry point, lock before load, store before unlock, ...)."""
    import C04
    with Lock("area.Txn.run"):
        ok, lg = C04.run_syncgen()
        if not ok:
            return [("tie A (syncgen): " + lg[-1500:], {"no_input": True, "kind": "generator"})]
        okb, lgb = coq_build("Txn")
        o1 = props_obligations("Txn", "Props_C05.v", lock=False)
    coverage["sync_skeleton_obligations"] = "%d/%d" % (len(o1["discharged"]), len(o1["theorems"]))
    if not okb or not o1["ok"]:
        return [("tie A: the synchronisation skeleton regenerated from the sources no longer equals the expected one "
                 "(e.g. a read entry point loads the published tree more than once, so one request can be served from two "
                 "different states):\n" + (lgb if not okb else o1["log"])[-1500:], {"no_input": True, "kind": "proof"})]
    return []


class TieCheck:
    """Generic check: proof obligations (Coq) + correspondence (impl vs model) +
    spec oracle (impl vs spec) on harness-generated cases.

    Subclasses / instances configure:
      pid, area, props (file name in the area), harness (cmd name),
      harness_args(tier) -> list of 'k=v', shards,
      lists: names printed by the case files:
         'mism'  impl != model     (correspondence)
         'viol'  impl fails spec   (oracle)
         'oof'   model out of fuel (must be empty)
         'known' (optional) subset of viol attributed to a listed finding: the case
                 files print  known_<findingid> lists; anything in viol not in some
                 listed known_* list is an unlisted violation.
      gen(tier): optional callable run before the Coq build (tie A: regenerate files)
    """
    pid = area = props = harness = None
    coq_targets = None      # None: build the whole area; else extra .vo targets besides the props files
    extra_props = []        # [(area, props_file)]: property theorem files living in another area
    gentie = None           # property id for checks/GenTie.py: small Go functions regenerated into
                            # coq/Gen/GenFuns.v on every run and proved equal to the hand-written models
    shards = NCPU
    race = False
    extra_trust = []
    assumptions = []
    level_text = ""

    def harness_args(self, tier):
        return ["tier=" + tier]

    def gen(self, tier):
        return True, ""

    def extra(self, tier, seed, work, coverage):
        """Optional extra runtime experiments; return list of (description, replay-payload) violations."""
        return []

    def run(self, tier, seed, replay=None):
        t0 = time.time()
        pid = self.pid
        work = os.path.join(WORKROOT, pid)
        casedir = os.path.join(work, "cases")
        os.makedirs(work, exist_ok=True)
        os.environ["VERIF_SEED"] = str(seed)
        problems = []       # (kind, text) — things that no longer check
        failing = []        # concrete failing inputs (human strings)
        coverage = {}

        # 1. tie A (regenerated files), then proof obligations
        ok, lg = self.gen(tier)
        if not ok:
            problems.append(("generated-model", lg[-3000:]))
        xprops = list(self.extra_props)
        if self.gentie:
            import GenTie
            okg, lgg = GenTie.tie(self.gentie)
            if not okg:
                problems.append(("generated-model", "tie A (gotrans / bridge lemmas, see docs/Gen.md):\n" + lgg[-3000:]))
            xprops += [x for x in GenTie.props(self.gentie) if x not in xprops]
        plist0 = self.props if isinstance(self.props, (list, tuple)) else [self.props]
        targets = None
        if self.coq_targets is not None:
            targets = [p[:-2] + ".vo" for p in plist0] + list(self.coq_targets)
        ok, lg = coq_build(self.area, targets=targets)
        proot = None
        if tier == "thorough" and os.environ.get("VERIF_NO_CLEAN") != "1":
            # from-clean rebuild of the whole closure in a private copy (obligations and coqchk use it)
            proot = private_copy(self.area, os.path.join(work, "coqclean"))
            okp, lgp = coq_build(self.area, targets=targets, root=proot)
            coverage["clean_rebuild"] = "ok" if okp else "FAILED"
            if not okp:
                ok, lg = False, lgp
        if not ok:
            problems.append(("coq-build", lg[-3000:]))
        plist = self.props if isinstance(self.props, (list, tuple)) else [self.props]
        ob = dict(theorems=[], discharged=[], axioms={}, ok=True, cmd="", log="")
        jobs = [(self.area, pf, proot) for pf in plist]
        for xa, xpf in xprops:
            okx, lgx = (True, "") if xa == "Gen" else coq_build(xa, targets=[xpf[:-2] + ".vo"])
            if not okx:
                problems.append(("coq-build", lgx[-3000:]))
            jobs.append((xa, xpf, None))
        # the property files are independent of each other: re-check them in parallel
        with cf.ThreadPoolExecutor(max_workers=min(8, max(1, len(jobs)))) as ex:
            outs = list(ex.map(lambda j: props_obligations(j[0], j[1], root=j[2], lock=False), jobs))
        for (ja, jpf, _), o1 in zip(jobs, outs):
            ob["theorems"] += o1["theorems"]
            ob["discharged"] += o1["discharged"]
            ob["axioms"].update(o1["axioms"])
            ob["cmd"] = (ob["cmd"] + " ; " if ob["cmd"] else "") + o1["cmd"]
            if not o1["ok"]:
                ob["ok"] = False
                ob["log"] += o1["log"]
                problems.append(("proof-obligation", "coqc %s/%s failed:\n%s" % (ja, jpf, o1["log"])))
        axioms = sorted({a for l in ob["axioms"].values() for a in l})
        bad_ax = [a for a in axioms if a.split(".")[-1] not in ALLOWED_AXIOMS and a not in ALLOWED_AXIOMS]
        if bad_ax:
            problems.append(("axioms", "non-standard assumptions: %s" % bad_ax))
        hy = hygiene(sorted(set(closure_areas(self.area) + [a for xa, _ in xprops for a in closure_areas(xa)])))
        if hy:
            problems.append(("hygiene", "\n".join(hy)))
        checker = ["make -C coq/%s (full .vo)" % self.area, ob["cmd"]]
        if tier == "thorough" and os.environ.get("VERIF_NO_COQCHK") != "1" and not problems:
            lib = None
            qf = qflags(self.area, proot)
            for i, t in enumerate(qf):
                if t == os.path.join(proot or COQ, self.area):
                    lib = qf[i + 1]
            cmd = ["coqchk", "-silent", "-o"] + qf + ["%s.%s" % (lib, pf[:-2]) for pf in plist]
            rc, o = sh(["timeout", "3000"] + cmd, cwd=os.path.join(proot or COQ, self.area), timeout=3100)
            checker.append(" ".join(cmd))
            coverage["coqchk"] = "ok" if rc == 0 else "FAILED"
            coverage["coqchk_output_tail"] = o[-1500:]
            if rc != 0:
                problems.append(("coqchk", o[-3000:]))
        coverage.update(obligations=len(ob["theorems"]), discharged=len(ob["discharged"]) if not problems or ob["ok"] else len(ob["discharged"]),
                        theorems=ob["theorems"], checker_cmd=" ; ".join(checker),
                        trusted_base=BASE_TRUST + self.extra_trust + ["axioms reported by Print Assumptions on this run: %s" % (axioms or "none (Closed under the global context)")])

        # 2. correspondence + oracle
        stats = {}
        results = {}
        hb = None
        if self.harness:
            hb, lg = build_harness(self.harness, race=self.race)
            if hb is None:
                problems.append(("harness-build", lg[-3000:]))
            else:
                if os.path.isdir(casedir):
                    shutil.rmtree(casedir)
                nshards = self.shards if tier == "quick" else max(self.shards, 64)   # small shards: coqc memory
                args = [hb, "out=" + casedir, "shards=%d" % nshards] + self.harness_args(tier)
                if replay:
                    args.append("replay=" + replay)
                rc, o = sh(args, cwd=work, env=go_env(), timeout=3000)
                open(os.path.join(work, "harness.log"), "w").write(o)
                if rc != 0:
                    problems.append(("harness-run", o[-3000:]))
                else:
                    try:
                        stats = json.load(open(os.path.join(casedir, "stats.json")))
                    except Exception:
                        stats = {}
                    corr_ok = ok
                    if not ok:
                        # a proof no longer builds: the model / correspondence files may still build on
                        # their own, and evaluating the cases is what yields a concrete failing input
                        corr_ok, _lg = coq_build(self.area, targets=list(self.coq_targets or ["Corr.vo"]))
                    if corr_ok:
                        results, errs = eval_cases(casedir, self.area)
                        for k, e in errs:
                            problems.append(("case-eval", "shard %d: %s" % (k, e)))
                    else:
                        problems.append(("case-eval", "model did not build; cases not evaluated"))

        mism = results.get("mism", [])
        viol = results.get("viol", [])
        oof = results.get("oof", [])
        listed = {f["id"]: f for f in known_findings(pid) if f.get("status") == "known"}
        known_hits = {}
        attributed = set()
        for name, idxs in results.items():
            if name.startswith("known_"):
                fid = name[len("known_"):]
                if fid in listed:
                    known_hits[fid] = len(idxs)
                    attributed.update(idxs)
        # pinned behaviour (impl == model) that fails the spec through a listed site is the known finding;
        # anything else failing the spec is a new violation
        new_viol = [c for c in viol if c not in attributed or c in mism]
        for c in new_viol[:20]:
            failing.append(human_case(casedir, *c))
        if oof:
            problems.append(("out-of-fuel", "%d model evaluations ran out of fuel, e.g. %s" % (len(oof), human_case(casedir, *oof[0]))))
        if mism:
            problems.append(("correspondence", "%d cases where implementation != model, e.g.\n%s" % (
                len(mism), "\n".join(human_case(casedir, *c) for c in mism[:10]))))

        # 2b. something no longer checks but this run has no concrete failing input:
        #     search wider (thorough generators, fresh seed) for an input on which
        #     the implementation fails the specification
        if problems and not failing and self.harness and hb is not None and ok and tier == "quick" and not replay \
                and os.environ.get("VERIF_NO_SEARCH") != "1":
            sdir = os.path.join(work, "search")
            if os.path.isdir(sdir):
                shutil.rmtree(sdir)
            env = go_env()
            env["VERIF_SEED"] = str(int(seed) + 7919)
            rc, o = sh([hb, "out=" + sdir, "shards=%d" % self.shards] + self.harness_args("thorough"),
                       cwd=work, env=env, timeout=3000)
            if rc == 0:
                sres, _ = eval_cases(sdir, self.area)
                sattr = set()
                for name, idxs in sres.items():
                    if name.startswith("known_") and name[len("known_"):] in listed:
                        sattr.update(idxs)
                for c in [c for c in sres.get("viol", []) if c not in sattr or c in sres.get("mism", [])][:20]:
                    failing.append("(found by search) " + human_case(sdir, *c))
                coverage["search_evaluations"] = sum(len(e["human"]) for e in json.load(open(os.path.join(sdir, "cases.json"))))

        # 3. optional runtime experiments
        for desc, payload in self.extra(tier, seed, work, coverage):
            if isinstance(payload, dict) and payload.get("no_input"):
                # an obligation that no longer checks, without a concrete failing input
                problems.append((payload.get("kind", "obligation"), desc))
                continue
            failing.append(desc if isinstance(desc, str) else json.dumps(desc))
            problems.append(("experiment", desc))

        # 4. evidence
        coverage.update(
            evaluations=int(stats.get("evaluations", 0)),
            distinct_nontrivial=int(stats.get("distinct_nontrivial", 0)),
            rule=stats.get("rule", ""),
            samples=stats.get("samples", []) or ["(no sample recorded)"],
            exhaustive=bool(stats.get("exhaustive", False)),
            distribution=stats.get("distribution", {}),
            extra=stats.get("extra", {}),
            impl_vs_model_mismatches=len(mism), impl_vs_spec_failures=len(viol),
            attributed_to_known_findings=known_hits, unlisted_spec_failures=len(new_viol),
            model_out_of_fuel=len(oof),
            traces_validated_against_impl=int(stats.get("evaluations", 0)),
            repo=REPO,
        )
        nviol = (1 if (problems or failing) else 0)
        write_evidence(pid, tier, seed, coverage,
                       self.assumptions + ["axioms: %s" % (axioms or "none")], time.time() - t0, nviol)

        # 5. verdict
        for fid, f in listed.items():
            log("KNOWN-FINDING: property=%s %s: %s" % (pid, fid, f.get("what", "")))
        if not problems and not failing:
            log("OK property=%s tier=%s obligations=%d/%d cases=%d wall=%.1fs" % (
                pid, tier, coverage["discharged"], coverage["obligations"], coverage["evaluations"], time.time() - t0))
            return 0
        payload = dict(property=pid, tier=tier, seed=seed, repo=REPO,
                       failing_inputs=failing, no_longer_checks=[dict(kind=k, detail=t) for k, t in problems])
        rp = write_replay(pid, "violation_%s_%s.json" % (tier, seed), payload)
        for k, t in problems:
            log("-- %s: %s" % (k, t[:1500]))
        for f in failing[:10]:
            log("-- failing input: %s" % f)
        violation(pid, rp, not_found=not failing)
        return 1
