"""Tie A for small pure functions (helper module, NOT a property check).

harness/cmd/gotrans translates a fixed list of small Go functions of the tree under test
($VERIF_REPO) into coq/Gen/GenFuns.v on every run; coq/Gen/Bridge*.v prove the hand-written models
used by the property proofs EQUAL to the regenerated definitions; coq/Gen/Props_Gen*.v state it.
Any edit to one of those Go functions changes GenFuns.v and re-opens the obligation, even when no
generated test case would notice.  Notes: docs/Gen.md.

Use from a check (checks/<ID>.py):

    import GenTie
    class C09(TieCheck):
        extra_props = GenTie.props("C09")          # theorems recorded in the evidence, re-checked by coqc
        def gen(self, tier):                        # regenerate + build; a failure is a broken tie
            return GenTie.tie("C09")                # (combine with the check's own generator if it has one)

gen()        -> (ok, log)   run gotrans only (rewrites coq/Gen/GenFuns.v, GenSemCheck.v)
build(pid)   -> (ok, log)   build the .vo closure of the property files of pid (only the imported
                            .vo of coq/Route and coq/Dispatch are made, never those whole areas)
props(pid)   -> [("Gen", "Props_Gen....v"), ...]     pid None: all
tie(pid)     -> (ok, log)   gen + build + coqc on each property file of pid
"""
import os

import lib

AREA = "Gen"

# property files, and the properties whose models they tie to the source
FILES = {
    "Props_Gen.v": None,  # semantics samples of the Go primitives: always included
    "Props_Gen_tree.v": ("C01", "C02", "C03", "C04", "C07", "C08", "C09", "C16"),   # node.go / tree.go: Route/Node.v, Route/Tree.v
    "Props_Gen_host.v": ("C09", "C01"),                       # internal/netutil: Route/HostPort.v, Route/Iter.v
    "Props_Gen_C08.v": ("C08", "C11", "C17"),                 # FixTrailingSlash (Dispatch/Redirect.v), Context.Redirect guard
    "Props_Gen_C14.v": ("C14",),                              # informational guard of recorder.WriteHeader
    "Props_Gen_C15.v": ("C15", "C13"),                        # scopeToString, HandlerScope constants
    "Props_Gen_C20.v": ("C20",),                              # level
}

# the only .vo of other areas the Gen area imports
DEPS = [
    ("Route", ["Node.vo", "Tree.vo", "HostPort.vo", "Iter.vo", "HostEquiv.vo", "Props_C09_host.vo"]),
    ("Dispatch", ["Redirect.vo"]),
]


def props(pid=None):
    return [(AREA, f) for f, pids in FILES.items() if pids is None or pid is None or pid in pids]


def gen():
    """Regenerate coq/Gen/GenFuns.v (+ GenSemCheck.v) from the sources under test."""
    hb, lg = lib.build_harness("gotrans")
    if hb is None:
        return False, "gotrans does not build:\n" + lg
    d = os.path.join(lib.COQ, AREA)
    with lib.Lock("coq." + AREA):
        rc, o = lib.sh([hb, "repo=" + os.path.abspath(lib.REPO), "out=" + os.path.join(d, "GenFuns.v"),
                        "sem=" + os.path.join(d, "GenSemCheck.v")], env=lib.go_env(), timeout=600)
    if rc != 0:
        return False, "gotrans refused the sources (outside the accepted Go subset) rc=%d:\n%s" % (rc, o)
    return True, o


def build(pid=None):
    logs = []
    seen = set()
    for area, targets in DEPS:
        ok, lg = lib.coq_build(area, targets=targets)
        logs.append(lg)
        seen.add(area)
        seen.update(lib.area_deps(area))
        if not ok:
            return False, "\n".join(logs)
    targets = [f[:-2] + ".vo" for _, f in props(pid)]
    ok, lg = lib.coq_build(AREA, _seen=seen, targets=targets)
    logs.append(lg)
    return ok, "\n".join(logs)


def tie(pid=None):
    """gen + build + obligations of the property files relevant to pid. Returns (ok, log)."""
    with lib.Lock("area.Gen.run"):
        ok, lg = gen()
        if not ok:
            # a refused function is dropped from GenFuns.v: build anyway so the log names the bridges it breaks
            _, lb = build(pid)
            return False, lg + "\n" + lb[-2500:]
        ok, lb = build(pid)
        if not ok:
            return False, "bridge proofs no longer hold for the regenerated functions (coq/Gen):\n" + lb[-3000:]
        out = [lg.strip()]
        for area, pf in props(pid):
            o1 = lib.props_obligations(area, pf)
            if not o1["ok"]:
                return False, "coqc %s/%s failed:\n%s" % (area, pf, o1["log"][-3000:])
            bad = {t: a for t, a in o1["axioms"].items() if a}
            if bad:
                return False, "%s: theorems with assumptions: %s" % (pf, bad)
            out.append("%s: %d theorems closed under the global context" % (pf, len(o1["axioms"])))
        return True, "\n".join(out)


if __name__ == "__main__":
    import sys
    ok, lg = tie(sys.argv[1] if len(sys.argv) > 1 else None)
    print(lg)
    sys.exit(0 if ok else 1)
