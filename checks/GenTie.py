"""Tie A for small pure functions (helper module, NOT a property check).

harness/cmd/gotrans translates a fixed list of small Go functions of the tree under test
($VERIF_REPO) into coq/Gen/GenFuns.v on every run; coq/Gen/Bridge*.v prove the hand-written models
used by the property proofs EQUAL to the regenerated definitions; coq/Gen/Props_Gen*.v state it.
Any edit to one of those Go functions changes GenFuns.v and re-opens the obligation, even when no
generated test case would notice.  Notes: docs/Gen.md.

Use from a check (checks/<ID>.py):

    import GenTie
    class C09(TieCheck):
        extra_props = GenTie.props("C09")          # theorems recorded in the evidence, re-checked by coqc
        def gen(self, tier):                        # regenerate + build; a failure is a broken tie
            return GenTie.tie("C09")                # (combine with the check's own generator if it has one)

gen()        -> (ok, log)   run gotrans only (rewrites coq/Gen/GenFuns.v, GenPath.v, GenParse.v, GenWild.v, GenEsc.v, GenSemCheck.v)
build(pid)   -> (ok, log)   build the .vo closure of the property files of pid (only the imported
                            .vo of coq/Route and coq/Dispatch are made, never those whole areas)
props(pid)   -> [("Gen", "Props_Gen....v"), ...]     pid None: all
tie(pid)     -> (ok, log)   gen + build + coqc on each property file of pid
"""
import os

import lib

AREA = "Gen"

# property files, and the properties whose models they tie to the source
FILES = {
    "Props_Gen.v": None,  # semantics samples of the Go primitives: always included
    "Props_Gen_tree.v": ("C01", "C02", "C03", "C04", "C07", "C08", "C09", "C16"),   # node.go / tree.go: Route/Node.v, Route/Tree.v
    "Props_Gen_host.v": ("C09", "C01"),                       # internal/netutil: Route/HostPort.v, Route/Iter.v
    "Props_Gen_C08.v": ("C08", "C11", "C17"),                 # FixTrailingSlash (Dispatch/Redirect.v), Context.Redirect guard
    "Props_Gen_C14.v": ("C14",),                              # informational guard of recorder.WriteHeader
    "Props_Gen_C15.v": ("C15", "C13"),                        # scopeToString, HandlerScope constants
    "Props_Gen_C20.v": ("C20",),                              # level
    "Props_Gen_C17.v": ("C17",),                              # CleanPath / bufApp (GenPath.v): C17/Model.v, C17/Spec.v
    "Props_Gen_C10.v": ("C10",),                              # Router.parseRoute (GenParse.v): Pattern/ParseRoute.v
    # GenWild.v: parseWildcard (Pattern/ParseWildcard.v), isBlacklistedHeader + blacklistedHeader (C15/Redact.v),
    # netutil.SplitHostZone (C18/ParseIP.v)
    "Props_Gen_wild.v": ("C10", "C01", "C15", "C18"),
    "Props_Gen_esc.v": ("C08", "C11", "C18"),                 # hexEscapeNonASCII (Dispatch/Redirect.v), clientip.trimMatchedEnds (C18/ParseIP.v): GenEsc.v
}

# the only .vo of other areas the Gen area imports: (area, targets, property files that need them; None = all)
DEPS = [
    ("Route", ["Node.vo", "Tree.vo", "HostPort.vo", "Iter.vo", "HostEquiv.vo", "Props_C09_host.vo"], None),
    ("Dispatch", ["Redirect.vo"], None),
    ("C17", ["Model.vo", "Spec.vo", "Proofs.vo", "ProofsModel.vo", "ProofsLen.vo"], ("Props_Gen_C17.v",)),   # BridgeC17.v
    ("Pattern", ["Props_C10.vo"], ("Props_Gen_C10.v",)),      # BridgeC10.v: the model and C10's own theorems
    # BridgeWild.v: the three models, C10's parseWildcard_never_panics, C15's sensitive_is_blacklisted
    ("Pattern", ["ParseWildcard.vo", "ProofsWild.vo"], ("Props_Gen_wild.v",)),
    ("C15", ["Redact.vo", "ProofsRedact.vo"], ("Props_Gen_wild.v",)),
    ("C18", ["ParseIP.vo"], ("Props_Gen_wild.v", "Props_Gen_esc.v")),   # also BridgeEsc.v: trim_matched_ends
]


# definitions that live in their own generated file: a refusal of one of them breaks only the ties
# of the property files named here (gotrans drops the definition, the other files are complete)
OWN_FILE = {"parseRoute": ("Props_Gen_C10.v",), "bufApp": ("Props_Gen_C17.v",), "CleanPath": ("Props_Gen_C17.v",),
            "parseWildcard": ("Props_Gen_wild.v",), "blacklistedHeader": ("Props_Gen_wild.v",),
            "isBlacklistedHeader": ("Props_Gen_wild.v",), "SplitHostZone": ("Props_Gen_wild.v",),
            "hexEscapeNonASCII": ("Props_Gen_esc.v",), "trimMatchedEnds": ("Props_Gen_esc.v",)}


def broken_lemmas(log):
    """Names of the lemmas in which coqc stopped: 'File "./BridgeC10.v", line 203' -> 'BridgeC10.v: sim_default'."""
    out = []
    for m in lib.re.finditer(r'File "\./([A-Za-z0-9_]+\.v)", line (\d+)', log):
        f, ln = m.group(1), int(m.group(2))
        try:
            src = open(os.path.join(lib.COQ, AREA, f)).read().splitlines()[:ln]
        except OSError:
            continue
        name = None
        for line in src:
            mm = lib.re.match(r"\s*(?:Lemma|Theorem|Corollary|Example|Fact|Definition|Fixpoint)\s+([A-Za-z0-9_']+)", line)
            if mm:
                name = mm.group(1)
        item = "%s: %s (line %d)" % (f, name, ln)
        if item not in out:
            out.append(item)
    return out


def props(pid=None):
    return [(AREA, f) for f, pids in FILES.items() if pids is None or pid is None or pid in pids]


def gen():
    """Regenerate coq/Gen/GenFuns.v (+ GenPath.v, GenParse.v and GenEsc.v, written next to it, + GenSemCheck.v) from the sources under test."""
    hb, lg = lib.build_harness("gotrans")
    if hb is None:
        return False, "gotrans does not build:\n" + lg
    d = os.path.join(lib.COQ, AREA)
    with lib.Lock("coq." + AREA):
        rc, o = lib.sh([hb, "repo=" + os.path.abspath(lib.REPO), "out=" + os.path.join(d, "GenFuns.v"),
                        "sem=" + os.path.join(d, "GenSemCheck.v")], env=lib.go_env(), timeout=600)
    # BridgeWild.v compares gen_blacklistedHeader with coq/C15/GenConsts.v, which c15gen regenerates from the
    # same source: regenerate it here too, or a harmless reordering of the table breaks the tie of every
    # consumer of Props_Gen_wild.v whose check does not run c15gen itself
    g15, lg15 = lib.build_harness("c15gen")
    if g15 is not None:
        with lib.Lock("coq.C15"):
            lib.sh([g15, "repo=" + os.path.abspath(lib.REPO), "out=" + os.path.join(lib.COQ, "C15", "GenConsts.v")],
                   env=lib.go_env(), timeout=300)
    if rc != 0:
        return False, "gotrans refused the sources (outside the accepted Go subset) rc=%d:\n%s" % (rc, o)
    return True, o


def build(pid=None):
    logs = []
    seen = set()
    wanted = [f for _, f in props(pid)]
    for area, targets, needed_by in DEPS:
        seen.add(area)
        seen.update(lib.area_deps(area))
        if needed_by is not None and not any(f in wanted for f in needed_by):
            continue        # not imported by the property files of pid: neither built nor required
        ok, lg = lib.coq_build(area, targets=targets)
        logs.append(lg)
        if not ok:
            return False, "\n".join(logs)
    targets = [f[:-2] + ".vo" for f in wanted]
    ok, lg = lib.coq_build(AREA, _seen=seen, targets=targets)
    logs.append(lg)
    return ok, "\n".join(logs)


def tie(pid=None):
    """gen + build + obligations of the property files relevant to pid. Returns (ok, log)."""
    with lib.Lock("area.Gen.run"):
        ok, lg = gen()
        if not ok:
            refused = lib.re.findall(r"REFUSED gen_([A-Za-z0-9_']+):", lg)
            mine = [f for _, f in props(pid)]
            if refused and all(r in OWN_FILE and not any(f in mine for f in OWN_FILE[r]) for r in refused):
                lg += "\n(refused definitions %s are not used by the property files of %s)" % (refused, pid)
            else:
                # a refused function is dropped from its file: build anyway so the log names the bridges it breaks
                _, lb = build(pid)
                bl = broken_lemmas(lb)
                named = "broken bridge lemma: " + ", ".join(bl) if bl else ""
                rl = "\n".join(l for l in lg.splitlines() if "REFUSED" in l)
                return False, lg + ("\n" + named if bl else "") + "\n" + lb[-2000:] + ("\n==> " + named if bl else "") + "\n==> " + rl[-600:]
        ok, lb = build(pid)
        if not ok:
            bl = broken_lemmas(lb)
            # callers keep the last 3000 characters and print the first 1500: lemma names first, then coqc's error
            k = lb.find('File "./')
            err = lb[k:k + 2400] if k >= 0 else lb[-2400:]
            named = "broken bridge lemma: " + ", ".join(bl) if bl else ""
            # callers keep the tail of the log: name the lemma first AND last
            return False, ("bridge proofs no longer hold for the regenerated functions (coq/Gen)" +
                           ("; " + named if bl else "") + ":\n" + err + ("\n==> " + named if bl else ""))
        out = [lg.strip()]
        for area, pf in props(pid):
            o1 = lib.props_obligations(area, pf)
            if not o1["ok"]:
                return False, "coqc %s/%s failed:\n%s" % (area, pf, o1["log"][-3000:])
            bad = {t: a for t, a in o1["axioms"].items() if a}
            if bad:
                return False, "%s: theorems with assumptions: %s" % (pf, bad)
            out.append("%s: %d theorems closed under the global context" % (pf, len(o1["axioms"])))
        return True, "\n".join(out)


if __name__ == "__main__":
    import sys
    ok, lg = tie(sys.argv[1] if len(sys.argv) > 1 else None)
    print(lg)
    sys.exit(0 if ok else 1)
