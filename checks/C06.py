"""C06 — Reads never wait for writers.

Tie A: harness/cmd/cggen regenerates coq/C06/GenCallGraph.v (guarded call graph of fox) from the
       source on every run; the theorems of coq/C06 are re-proved on it.
Tie B: harness/cmd/c06 runs parked-writer experiments on the real router (no Coq cases: the
       harness writes results.json, read back in extra()).
"""
import json
import os
import time

from lib import (COQ, WORKROOT, Lock, TieCheck, build_harness, go_env, parse_coq_prints, qflags, sh)

DIAG = """From Coq Require Import List Bool NArith.
From FoxC06 Require Import Graph GenCallGraph Entries Skeleton.
Import ListNotations.
Definition bad_reads := Eval vm_compute in
  map (fun e => N.to_nat (fst e)) (filter (fun e => reaches writer_blocking graph [e]) read_entries).
Print bad_reads.
Definition unclassified := Eval vm_compute in
  map N.to_nat (filter (fun m => negb (forallb (fun v => memb (m, v) (read_methods ++ write_methods))
                                                (bool_vectors (nslots m)))) exported_methods).
Print unclassified.
Definition write_locks := Eval vm_compute in
  match locks_from graph write_entries with Some l => map N.to_nat l | None => [] end.
Print write_locks.
Definition read_locks := Eval vm_compute in
  match locks_from graph read_entries with Some l => map N.to_nat l | None => [] end.
Print read_locks.
Definition unexpected_shared := Eval vm_compute in
  map N.to_nat (filter (fun k => memN k read_by_readers && negb (mem_str (fname k) expected_shared)) written_by_writers).
Print unexpected_shared.
Fixpoint idx_not_in {A} (p : A -> bool) (i : nat) (l : list A) : list nat :=
  match l with [] => [] | x :: r => (if p x then [] else [i]) ++ idx_not_in p (S i) r end.
Definition shape_changed := Eval vm_compute in
  idx_not_in (fun r => existsb (fun e => shapes_eqb [r] [e]) expected_shapes) 0 shape_table.
Print shape_changed.
Definition inventory_changed := Eval vm_compute in
  idx_not_in (fun x => mem_str x expected_sync_inventory) 0 sync_inventory.
Print inventory_changed.
Definition inventory_missing := Eval vm_compute in
  idx_not_in (fun x => mem_str x sync_inventory) 0 expected_sync_inventory.
Print inventory_missing.
Definition flag_sites_changed := Eval vm_compute in
  idx_not_in (fun x => mem_str x expected_flag_sites) 0 flag_sites.
Print flag_sites_changed.
Definition flag_sites_missing := Eval vm_compute in
  idx_not_in (fun x => mem_str x flag_sites) 0 expected_flag_sites.
Print flag_sites_missing.
Definition undisciplined := Eval vm_compute in
  idx_not_in (fun p => site_ok (N.of_nat (fst p)) (snd p)) 0 (combine (seq 0 (List.length graph)) graph).
Print undisciplined.
Definition pins_ok := Eval vm_compute in
  (if sync_inventory_b then [] else [1]) ++ (if shared_b then [] else [2]) ++ (if shapes_b then [] else [3])
  ++ (if flag_sites_b then [] else [4]) ++ (if lock_discipline_b then [] else [5]).
Print pins_ok.
"""

BLOCKING = ("Acquire(fox.Router.mu)", "ChanOp", "Select", "CondWait", "WaitGroupWait", "Sleep", "SpinLoad")


class C06(TieCheck):
    pid = "C06"
    area = "C06"
    props = "Props_C06.v"
    harness = "c06"
    shards = 1
    extra_trust = [
        "tie A generator harness/cmd/cggen (go/ast + go/types): its translation rules are trusted (docs/C06.md): "
        "closures are own nodes; calls through function values -> every address-taken function/closure/method value of identical signature; "
        "interface calls -> that method of every package type implementing the interface; calls leaving the analysed packages -> what the callee "
        "can call back through the static types it is handed; blocking leaves per lock object",
        "coq/C06/Entries.v: the hand classification of entry points into read / write (checked for coverage against the generated list of exported methods)",
        "coq/C06/Skeleton.v: hand-pinned sync inventory / shared fields / loop-atomic shapes; Sleep and SpinLoad leaves are lint-strength (direct calls only inside loops)",
        "harness/cmd/c06: parked-writer experiments are runtime sampling (timeouts), not proof",
    ]
    assumptions = [
        "user-supplied handlers, middleware, resolvers, io.Writers and ResponseWriters are outside the graph (only implementations inside package fox and its internal packages are followed)",
        "sync.Pool, sync.Once, sync/atomic, the allocator and the rest of the Go runtime / standard library never wait for a router writer; "
        "standard-library code is not analysed, only what it can call back into the package",
        "opaque-value policy of cggen: fmt calls only Error/String/Format/GoString and errors only Error/Is/As/Unwrap on `any` values; reflect, sync, sync/atomic, context, strings, "
        "strconv, bytes, slices, maps, sort, cmp, iter, time, regexp, net, net/url, path, math, unicode call no methods on them; slog.New only stores its handler; every other external callee is fully conservative",
        "a bool slot (parameter / never-assigned receiver field such as Txn.write) keeps its value during a call; reflection and unsafe are not used to call methods",
        "the protocol model abstracts a thread to a list of Acquire/Release/other instructions; its well-formedness hypotheses are exactly the two call-graph theorems",
    ]

    def run(self, tier, seed, replay=None):
        # the quick harness already enumerates every entry point x stage x option set: the generic
        # "search wider" pass of TieCheck has nothing more to find
        os.environ["VERIF_NO_SEARCH"] = "1"
        self._t0 = time.time()
        return TieCheck.run(self, tier, seed, replay)

    # ---- tie A: regenerate GenCallGraph.v
    def gen(self, tier):
        self._cg = None
        self._gen_ok = False
        hb, lg = build_harness("cggen")
        if hb is None:
            return False, "cggen does not build:\n" + lg
        work = os.path.join(WORKROOT, self.pid)
        os.makedirs(work, exist_ok=True)
        js = os.path.join(work, "cggen.json")
        if os.path.exists(js):
            os.remove(js)
        with Lock("coq." + self.area):
            rc, o = sh([hb, "out=" + os.path.join(COQ, self.area, "GenCallGraph.v"), "json=" + js],
                       env=go_env(), timeout=900)
        open(os.path.join(work, "cggen.log"), "w").write(o)
        if rc != 0:
            return False, "cggen refused / failed (rc=%d): the call graph could not be regenerated from the source\n%s" % (rc, o)
        try:
            self._cg = json.load(open(js))
        except Exception as ex:  # noqa
            return False, "cggen summary unreadable: %s" % ex
        self._gen_ok = True
        return True, o

    # ---- diagnostics when the graph theorems no longer hold: which entry, which path
    def _diagnose(self, work):
        out = []
        cg = self._cg
        if not cg:
            return out
        d = os.path.join(work, "diag")
        os.makedirs(d, exist_ok=True)
        open(os.path.join(d, "Diag.v"), "w").write(DIAG)
        with Lock("coq." + self.area):
            rc, o = sh(["timeout", "300", "coqc"] + qflags(self.area) + ["Diag.v"], cwd=d, timeout=330)
        if rc != 0:
            return out
        pr = parse_coq_prints(o)
        names = cg["names"]
        rows = {}
        for r in cg["entries"]:
            rows.setdefault(r["id"], []).append(r)
        bad = []
        for fid in sorted(set(pr.get("bad_reads", []))):
            hit = None
            for r in rows.get(fid, []):
                if "t" in r["known"]:
                    continue
                for h in r.get("hits") or []:
                    if h["leaf"] in BLOCKING:
                        hit = h
                        break
            nm = names[fid] if fid < len(names) else str(fid)
            if hit:
                bad.append((len(hit["path"]), "call graph: read entry point %s reaches %s: %s" % (nm, hit["leaf"], " -> ".join(hit["path"]))))
            else:
                bad.append((99, "call graph: read entry point %s reaches a writer-blocking operation" % nm))
        bad.sort()
        out += [b for _, b in bad[:8]]
        if len(bad) > 8:
            out.append("call graph: ... and %d more read entry points reach a writer-blocking operation (longer paths through the same functions)" % (len(bad) - 8))
        for fid in pr.get("unclassified", []):
            out.append("entry classification: exported method %s is neither a read nor a write entry point in coq/C06/Entries.v"
                       % (names[fid] if fid < len(names) else fid))
        flds = cg.get("fields", [])
        for k in pr.get("unexpected_shared", []):
            out.append("shared state: %s is written on the write path and read on the read path but is not one of the pinned shared fields "
                       "(coq/C06/Skeleton.v expected_shared): a new way for readers to observe writers" % (flds[k] if k < len(flds) else k))
        rows = cg.get("shape_rows") or []
        for k in pr.get("shape_changed", []):
            out.append("skeleton: the loop / atomic shape of a Router/Txn method differs from the pinned one (Skeleton.v expected_shapes): %s"
                       % (rows[k] if k < len(rows) else k))
        inv = cg.get("sync_inventory") or []
        for k in pr.get("inventory_changed", []):
            out.append("skeleton: new synchronisation / communication object, not in the pinned inventory (Skeleton.v expected_sync_inventory): %s"
                       % (inv[k] if k < len(inv) else k))
        if pr.get("inventory_missing"):
            out.append("skeleton: %d pinned synchronisation object(s) no longer exist in the source" % len(pr["inventory_missing"]))
        fl = cg.get("flag_sites") or []
        for k in pr.get("flag_sites_changed", []):
            out.append("skeleton: a mode flag of a shared structure is initialised at a site / with a value that is not pinned "
                       "(Skeleton.v expected_flag_sites; Txn.write decides who may touch the writer lock): %s" % (fl[k] if k < len(fl) else k))
        if pr.get("flag_sites_missing"):
            out.append("skeleton: %d pinned flag initialisation site(s) no longer exist in the source" % len(pr["flag_sites_missing"]))
        for k in pr.get("undisciplined", []):
            out.append("lock discipline: %s acquires / releases fox.Router.mu outside txnWith[write] / Txn.Commit|Abort[recv.write]"
                       % (names[k] if k < len(names) else k))
        if pr.get("pins_ok") and not (pr.get("flag_sites_changed") or pr.get("flag_sites_missing") or pr.get("undisciplined") or pr.get("unexpected_shared") or pr.get("shape_changed") or pr.get("inventory_changed") or pr.get("inventory_missing")):
            out.append("skeleton: a pinned table of coq/C06/Skeleton.v no longer matches the source (table(s) %s: 1 = sync inventory, 2 = shared fields, 3 = method shapes, 4 = flag initialisation sites, 5 = lock discipline)" % pr["pins_ok"])
        locks = cg.get("locks", [])
        wl = [locks[i] if i < len(locks) else str(i) for i in pr.get("write_locks", [])]
        rl = [locks[i] if i < len(locks) else str(i) for i in pr.get("read_locks", [])]
        if set(wl) & set(rl):
            out.append("lock sets: %s acquirable from both read and write entry points" % sorted(set(wl) & set(rl)))
        elif wl != ["fox.Router.mu"]:
            out.append("lock sets: write entry points acquire %s (expected exactly fox.Router.mu)" % wl)
        return out

    # ---- tie B results + evidence
    def extra(self, tier, seed, work, coverage):
        viol = []
        cg = self._cg
        if cg:
            reads = [r for r in cg["entries"]]
            coverage["call_graph"] = dict(
                packages=cg["packages"], functions=cg["functions"], edges=cg["edges"], blocking_leaves=cg["leaves"],
                lock_objects=cg["locks"], address_taken=cg["address_taken"], exported_methods=cg["exported_methods"],
                result_nodes=cg["result_nodes"],
                entry_states_explored_by_generator=sum(r["states"] for r in reads))
            coverage["states"] = sum(r["states"] for r in reads)
            coverage["call_graph_samples"] = [
                "%s[%s]: %s" % (r["entry"], r["known"], "; ".join(" -> ".join(h["path"]) for h in (r.get("hits") or [])) or "no blocking leaf reachable")
                for r in reads if r["entry"] in ("Router.Txn", "Router.ServeHTTP", "Router.Len", "Txn.Commit", "Router.Updates")]
        if coverage.get("discharged", 0) < coverage.get("obligations", 1) or not self._gen_ok:
            for dsc in self._diagnose(work):
                viol.append((dsc, dict(kind="call-graph", detail=dsc)))
        for sub in ("cases", "search"):
            p = os.path.join(work, sub, "results.json")
            if not os.path.exists(p) or os.path.getmtime(p) < self._t0:
                continue
            try:
                res = json.load(open(p))
            except Exception as ex:  # noqa
                viol.append(("harness results unreadable: %s" % ex, {}))
                continue
            groups = {}
            for v in res.get("violations") or []:
                groups.setdefault((v["kind"], v["entry"]), []).append(v)
            for (kind, entry), vs in sorted(groups.items()):
                v = vs[0]
                dsc = "%s: entry=%s router=%s stage=%s options=%s — %s" % (kind, entry, v.get("router_state", "?"), v["stage"], v["options"], v["detail"])
                if len(vs) > 1:
                    dsc += " [same entry point failed in %d setups: %s]" % (
                        len(vs), "; ".join("%s/%s/%s" % (x.get("router_state", "?"), x["stage"], x["options"]) for x in vs[1:6]))
                viol.append((dsc, dict(kind=kind, entry=entry, setups=vs)))
        return viol


CHECK = C06()
