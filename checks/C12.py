import json
import os
import re

import lib
from lib import TieCheck, build_harness, go_env, sh, WORKROOT

# tie A (docs/GenCtx.md): files of coq/C12 that exist only for the regenerated life-cycle methods
TIE_FILES = ["GenCtx.v", "BridgeCtx.v", "SrcCtx.v", "Props_GenCtx.v", "Props_GenCtx_src.v"]


class C12(TieCheck):
    pid = "C12"
    area = "C12"
    props = ["Props_C12.v", "Props_GenCtx.v", "Props_GenCtx_src.v"]
    harness = "c12"
    extra_trust = [
        "tie A: harness/cmd/ctxgen rewrites coq/C12/GenCtx.v on every run from context.go / response_writer.go of the tree under "
        "test ((*cTx).reset, resetNil, resetWithWriter, (*recorder).reset, copyWithResize, CloneWith, Param, Params, Clone; statement by "
        "statement through a whitelist of shapes, field lists of cTx / recorder / Param read from the type declarations; anything "
        "else is refused); coq/C12/BridgeCtx.v proves each generated definition equal to the hand-written one for all arguments; "
        "trusted: the translator and coq/C12/CtxSem.v (meaning of deref, index, range, yield, slices.Grow, 3-index reslice, copy, calls through the interface value c.w)",
        "model: coq/C12/Context.v (cTx with every field, reset/resetNil/resetWithWriter, ServeHTTP and Lookup branch "
        "assignments, getters (Params and, separately, Param(name)), Clone, CloneWith, copyWithResize, embedded recorder) over an explicit heap; coq/C12/Ops.v "
        "(histories); spec: coq/C12/Spec.v (the view derived from the current request only)",
        "which model of Clone is compared (after / before commit 036e194) is selected by the harness from what the "
        "regression witness shows on the tree under test; on a pre-fix tree the witness then fails the specification",
        "verif hook /repo/verif_c12.go (build tag verif): field dumps, unreset pool access, planting of leftovers",
    ]
    assumptions = [
        "sync.Pool hands an object to one goroutine at a time (so a pooled context is used by one request at a time and "
        "quantifying over all stale states of the acquired objects subsumes all earlier and concurrent histories)",
        "the matcher is an input of the model: its result (route, tsr flag, params) and its writes to the context; "
        "assumed of it: when it reports tsr it has overwritten tsrParams (lk_wf), correspondence-checked on every run",
        "http.Request.Clone and http.Header.Clone are deep copies of the data the getters expose; custom ResponseWriter "
        "implementations are out of scope (every fox.ResponseWriter in the model is a recorder)",
        "pool ownership invariant (pool_ok / sep): the two Params backing arrays of a pooled context are private to it",
    ]

    def gen(self, tier):
        """tie A: regenerate GenCtx.v from the tree under test, then build the bridge.  A refusal or a bridge
        lemma that no longer compiles is a generated-model problem; C12's own obligations (Props_C12.v) and the
        correspondence are then still checked, without the tie files."""
        area = os.path.join(lib.COQ, "C12")
        all_v = [l.strip() for l in open(os.path.join(area, "_CoqProject")) if l.strip().endswith(".v")]
        # default: the tie is broken (set back below when everything built)
        self.props = ["Props_C12.v"]
        self.coq_targets = [v[:-2] + ".vo" for v in all_v if v not in TIE_FILES and v != "Props_C12.v"]
        g, lg = build_harness("ctxgen")
        if g is None:
            return False, "ctxgen does not build:\n" + lg
        with lib.Lock("coq.C12"):
            rc, o = sh([g, "repo=" + os.path.abspath(lib.REPO), "out=" + os.path.join(area, "GenCtx.v")], env=go_env(), timeout=600)
        if rc != 0:
            return False, "ctxgen (harness/cmd/ctxgen, docs/GenCtx.md) rc=%d:\n%s" % (rc, o[-2500:])
        ok, lgb = lib.coq_build("C12", targets=[v[:-2] + ".vo" for v in TIE_FILES])
        if not ok:
            # make's log keeps only the tail of a long unification error: compile the tie files one by one
            # to name the file, the line and the lemma that no longer holds
            where, head = "", ""
            for v in TIE_FILES:
                with lib.Lock("coq.C12"):
                    rc1, o1 = sh(["timeout", "900", "coqc"] + lib.qflags("C12") + [v], cwd=area, timeout=1000)
                if rc1 != 0:
                    head = o1[:1500]
                    m = re.search(r'File "\./(\w+\.v)", line (\d+)', o1)
                    if m:
                        try:
                            src = open(os.path.join(area, m.group(1))).read().splitlines()[:int(m.group(2))]
                            names = re.findall(r"^\s*(?:Lemma|Theorem|Example|Definition|Corollary)\s+([A-Za-z0-9_']+)", "\n".join(src), re.M)
                            if names:
                                where = "%s: `%s` (line %s) no longer holds of the generated definitions\n" % (m.group(1), names[-1], m.group(2))
                        except Exception:  # noqa
                            pass
                    break
            return False, "tie A (ctxgen / bridge lemmas, docs/GenCtx.md): " + where + head + "\n...\n" + lgb[-1000:]
        self.props = ["Props_C12.v", "Props_GenCtx.v", "Props_GenCtx_src.v"]
        self.coq_targets = None
        return True, o

    def harness_args(self, tier):
        # thorough: many small case files (a coqc process on a 6 MB file needs several GB; 16 run in parallel)
        return ["tier=" + tier] + (["shards=128"] if tier == "thorough" else [])

    def run(self, tier, seed, replay=None):
        # a replay file names the seed and tier of the run that failed; the harness is deterministic in them
        if replay:
            try:
                d = json.load(open(replay))
                seed, tier = int(d.get("seed", seed)), d.get("tier", tier)
            except Exception:  # noqa
                pass
        return super().run(tier, seed, replay)

    def extra(self, tier, seed, work, coverage):
        """thorough tier: the concurrent part again under the Go race detector"""
        if tier != "thorough" or os.environ.get("VERIF_NO_RACE") == "1":
            return []
        hb, lg = build_harness(self.harness, race=True)
        if hb is None:
            return [("race build of the harness failed: " + lg[-500:], lg[-2000:])]
        rdir = os.path.join(work, "race")
        env = go_env()
        env["VERIF_SEED"] = str(seed)
        rc, o = sh([hb, "out=" + rdir, "shards=1", "tier=quick", "mode=race"], cwd=work, env=env, timeout=1500)
        coverage["race_detector"] = "clean" if (rc == 0 and "DATA RACE" not in o) else "REPORTED"
        if rc != 0 or "DATA RACE" in o:
            i = o.find("DATA RACE")
            return [("race detector report in concurrent ServeHTTP/Clone/CloneWith mix: " + o[max(0, i - 200):i + 1500], o[-4000:])]
        return []


CHECK = C12()
