import json
import os

from lib import TieCheck, build_harness, go_env, sh, WORKROOT


class C12(TieCheck):
    pid = "C12"
    area = "C12"
    props = "Props_C12.v"
    harness = "c12"
    extra_trust = [
        "model: coq/C12/Context.v (cTx with every field, reset/resetNil/resetWithWriter, ServeHTTP and Lookup branch "
        "assignments, getters (Params and, separately, Param(name)), Clone, CloneWith, copyWithResize, embedded recorder) over an explicit heap; coq/C12/Ops.v "
        "(histories); spec: coq/C12/Spec.v (the view derived from the current request only)",
        "which model of Clone is compared (after / before commit 036e194) is selected by the harness from what the "
        "regression witness shows on the tree under test; on a pre-fix tree the witness then fails the specification",
        "verif hook /repo/verif_c12.go (build tag verif): field dumps, unreset pool access, planting of leftovers",
    ]
    assumptions = [
        "sync.Pool hands an object to one goroutine at a time (so a pooled context is used by one request at a time and "
        "quantifying over all stale states of the acquired objects subsumes all earlier and concurrent histories)",
        "the matcher is an input of the model: its result (route, tsr flag, params) and its writes to the context; "
        "assumed of it: when it reports tsr it has overwritten tsrParams (lk_wf), correspondence-checked on every run",
        "http.Request.Clone and http.Header.Clone are deep copies of the data the getters expose; custom ResponseWriter "
        "implementations are out of scope (every fox.ResponseWriter in the model is a recorder)",
        "pool ownership invariant (pool_ok / sep): the two Params backing arrays of a pooled context are private to it",
    ]

    def harness_args(self, tier):
        # thorough: many small case files (a coqc process on a 6 MB file needs several GB; 16 run in parallel)
        return ["tier=" + tier] + (["shards=128"] if tier == "thorough" else [])

    def run(self, tier, seed, replay=None):
        # a replay file names the seed and tier of the run that failed; the harness is deterministic in them
        if replay:
            try:
                d = json.load(open(replay))
                seed, tier = int(d.get("seed", seed)), d.get("tier", tier)
            except Exception:  # noqa
                pass
        return super().run(tier, seed, replay)

    def extra(self, tier, seed, work, coverage):
        """thorough tier: the concurrent part again under the Go race detector"""
        if tier != "thorough" or os.environ.get("VERIF_NO_RACE") == "1":
            return []
        hb, lg = build_harness(self.harness, race=True)
        if hb is None:
            return [("race build of the harness failed: " + lg[-500:], lg[-2000:])]
        rdir = os.path.join(work, "race")
        env = go_env()
        env["VERIF_SEED"] = str(seed)
        rc, o = sh([hb, "out=" + rdir, "shards=1", "tier=quick", "mode=race"], cwd=work, env=env, timeout=1500)
        coverage["race_detector"] = "clean" if (rc == 0 and "DATA RACE" not in o) else "REPORTED"
        if rc != 0 or "DATA RACE" in o:
            i = o.find("DATA RACE")
            return [("race detector report in concurrent ServeHTTP/Clone/CloneWith mix: " + o[max(0, i - 200):i + 1500], o[-4000:])]
        return []


CHECK = C12()
