import os

import lib
from lib import TieCheck, build_harness, sh, go_env, REPO, COQ


class C20(TieCheck):
    pid = "C20"
    area = "C20"
    props = "Props_C20.v"
    gentie = "C20"
    harness = "c20"
    extra_trust = [
        "tie A: harness/cmd/c20gen translates func level (logger.go) into coq/C20/GenFuns.v on every run (tiny Go subset: tagless switch over integer comparisons returning slog.Level constants; anything else is refused)",
        "model: coq/C20/Logger.v transliterates LoggerWithHandler (logger.go:16-73), the recorder fields it reads (response_writer.go) and the resolver selection of Context.ClientIP / WithClientIPResolver; spec: coq/C20/Spec.v",
        "harness projections: slog level/message/attribute kinds (duration value dropped), underlying-writer digest equality with a Logger-less twin router, Go-side identity check of the panic value",
    ]
    assumptions = [
        "the wrapped handler is an arbitrary function of (writer state, event history) in the theorems; the harness drives the scripted family run_actions",
        "c.RemoteIP().String() and the resolver's answer are inputs of the model (hand-written expected strings in the harness)",
        "Location is read from the response header map as the handler left it (a Location set after the status line is logged although it is never sent; see docs/C20.md)",
    ]

    def gen(self, tier):
        g, lg = build_harness("c20gen")
        if g is None:
            return False, "c20gen does not build:\n" + lg
        rc, o = sh([g, "repo=" + os.path.abspath(REPO), "out=" + os.path.join(COQ, "C20", "GenFuns.v")], env=go_env())
        return rc == 0, o

    def run(self, tier, seed, replay=None):
        # A broken proof must not prevent the case files from being evaluated (they only need
        # the model, Corr.vo): when the area does not build completely, build Corr.vo alone and
        # let TieCheck go on; the broken proof is then reported by its proof-obligation step
        # (coqc Props_*.v fails) and a concrete failing input is still searched for.
        orig = lib.coq_build

        def build(area, *a, **kw):
            ok, lg = orig(area, *a, **kw)
            if not ok and area == self.area:
                with lib.Lock("coq." + area):
                    rc, _ = sh(["make", "Corr.vo"], cwd=os.path.join(COQ, area), timeout=1500)
                if rc == 0:
                    lib.log("-- coq-build: area %s does not build completely (model and Corr.vo do):\n%s" % (area, lg[-1500:]))
                    return True, lg
            return ok, lg

        lib.coq_build = build
        try:
            return super().run(tier, seed, replay)
        finally:
            lib.coq_build = orig


CHECK = C20()
