import os
import re

import lib
from lib import TieCheck, build_harness, sh, go_env, REPO, COQ, Lock


def broken_lemmas(log):
    """'File "./BridgeLogger.v", line 57' -> 'BridgeLogger.v: gen_logger_return_eq (line 57)'."""
    out = []
    for m in re.finditer(r'File "\./([A-Za-z0-9_]+\.v)", line (\d+)', log):
        f, ln = m.group(1), int(m.group(2))
        try:
            src = open(os.path.join(COQ, "C20", f)).read().splitlines()[:ln]
        except OSError:
            continue
        name = None
        for line in src:
            mm = re.match(r"\s*(?:Lemma|Theorem|Corollary|Example|Fact|Definition|Fixpoint)\s+([A-Za-z0-9_']+)", line)
            if mm:
                name = mm.group(1)
        item = "%s: %s (line %d)" % (f, name, ln)
        if item not in out:
            out.append(item)
    return out


class C20(TieCheck):
    pid = "C20"
    area = "C20"
    props = "Props_C20.v"
    gentie = "C20"
    harness = "c20"
    # the check's own theorems and the correspondence are built without the tie-A files of the middleware
    # (LogSem / GenLogger / BridgeLogger / Props_GenLogger): a broken tie is reported as such (gen) and the
    # cases are still evaluated
    coq_targets = ["Corr.vo"]
    # tie A for the middleware (docs/GenC20.md): the handler closure of LoggerWithHandler regenerated from the
    # tree under test, proved equal to Logger.logger for all inputs
    extra_props = [("C20", "Props_GenLogger.v")]
    extra_trust = [
        "tie A: harness/cmd/c20gen translates func level (logger.go) into coq/C20/GenFuns.v on every run (tiny Go subset: tagless switch over integer comparisons returning slog.Level constants; anything else is refused)",
        "tie A: harness/cmd/loggen translates the handler closure of LoggerWithHandler (logger.go) statement by statement into coq/C20/GenLogger.v on every run; coq/C20/BridgeLogger.v proves Logger.logger / emit / assemble equal to it for all inputs; trusted: loggen itself and the primitives of coq/C20/LogSem.v (docs/GenC20.md)",
        "model: coq/C20/Logger.v transliterates LoggerWithHandler (logger.go:16-73), the recorder fields it reads (response_writer.go) and the resolver selection of Context.ClientIP / WithClientIPResolver; spec: coq/C20/Spec.v",
        "harness projections: slog level/message/attribute kinds (duration value dropped), underlying-writer digest equality with a Logger-less twin router, Go-side identity check of the panic value",
    ]
    assumptions = [
        "the wrapped handler is an arbitrary function of (writer state, event history) in the theorems; the harness drives the scripted family run_actions",
        "c.RemoteIP().String() and the resolver's answer are inputs of the model (hand-written expected strings in the harness)",
        "Location is read from the response header map as the handler left it (a Location set after the status line is logged although it is never sent; see docs/C20.md)",
    ]

    _orig_build = None

    def gen(self, tier):
        g, lg = build_harness("c20gen")
        if g is None:
            ok1, o1 = False, "c20gen does not build:\n" + lg
        else:
            rc, o1 = sh([g, "repo=" + os.path.abspath(REPO), "out=" + os.path.join(COQ, "C20", "GenFuns.v")], env=go_env())
            ok1 = rc == 0
        ok2, o2 = self.gen_logger()
        return ok1 and ok2, o1 + "\n" + o2

    def gen_logger(self):
        """tie A for the middleware: loggen rewrites coq/C20/GenLogger.v from the tree under test, then
        BridgeLogger.v / Props_GenLogger.v are rebuilt.  A refusal or a bridge lemma that no longer compiles
        is a broken tie; the lemma is named."""
        exe, o = build_harness("loggen")
        if exe is None:
            return False, "loggen build failed:\n" + o[-2000:]
        with Lock("coq.C20"):
            rc, og = sh([exe, "repo=" + os.path.abspath(lib.REPO), "out=" + os.path.join(COQ, "C20", "GenLogger.v")],
                        env=go_env(), timeout=300)
        refused = "\n".join(l for l in og.splitlines() if "REFUSED" in l)
        okb, lb = (self._orig_build or lib.coq_build)("C20", targets=["Props_GenLogger.vo"])
        if rc == 0 and okb:
            return True, og
        bl = broken_lemmas(lb) if not okb else []
        named = ("broken bridge lemma: " + ", ".join(bl)) if bl else ""
        k = lb.find('File "./')
        # lib prints the first 1500 characters of a problem: keep the closing "==>" lines inside
        n = 250 if refused else 850
        err = "" if okb else (lb[k:k + n] if k >= 0 else lb[-n:])
        head = "tie A (loggen, docs/GenC20.md): the handler closure of LoggerWithHandler in %s is no longer proved equal to coq/C20/Logger.v" % lib.REPO
        msg = "\n".join(x for x in [head, refused[:400], named, err, ("==> " + named) if named else "", ("==> " + refused[:300]) if refused else ""] if x)
        return False, msg

    def run(self, tier, seed, replay=None):
        # A broken proof must not prevent the case files from being evaluated (they only need
        # the model, Corr.vo): when the area does not build completely, build Corr.vo alone and
        # let TieCheck go on; the broken proof is then reported by its proof-obligation step
        # (coqc Props_*.v fails) and a concrete failing input is still searched for.
        # (Not for the tie-A target Props_GenLogger.vo: a broken tie stays a reported build problem.)
        orig = lib.coq_build
        self._orig_build = orig

        def build(area, *a, **kw):
            ok, lg = orig(area, *a, **kw)
            tie = "Props_GenLogger.vo" in (kw.get("targets") or [])
            if not ok and area == self.area and not tie:
                with lib.Lock("coq." + area):
                    rc, _ = sh(["make", "Corr.vo"], cwd=os.path.join(COQ, area), timeout=1500)
                if rc == 0:
                    lib.log("-- coq-build: area %s does not build completely (model and Corr.vo do):\n%s" % (area, lg[-1500:]))
                    return True, lg
            return ok, lg

        lib.coq_build = build
        try:
            return super().run(tier, seed, replay)
        finally:
            lib.coq_build = orig
            self._orig_build = None


CHECK = C20()
