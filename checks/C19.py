import os

from lib import TieCheck, BIN, HARNESS, COQ, REPO, Lock, go_env, sh


class C19(TieCheck):
    pid = "C19"
    area = "C19"
    props = "Props_C19.v"
    harness = "c19"
    extra_trust = [
        "model: coq/C19/Model.v (options.go option closures, fox.go New/NewRoute/Stats, txn.go Handle/Update/HandleRoute, route.go accessors, context.go ClientIP); spec: coq/C19/Spec.v (last deciding option wins)",
        "coq/C19/Pattern.v keeps only parseRoute's brace handling and wildcard counter; full pattern validity is property C10's and is assumed for the token-built patterns the harness generates",
        "coq/C19/GenC19.v is regenerated from fox.go on every run by harness/cmd/c19gen (does NewRoute reject a nil handler)",
        "hook /repo/verif_c13.go (build tag verif) gives len(route.mws)",
    ]
    assumptions = [
        "resolvers, handlers, middleware and annotation keys are abstracted to identities / nil-ness / key kind (nil, hashable, comparable type with unhashable dynamic value, non-comparable type)",
        "which handler kind a request reaches is ServeHTTP's dispatch (C08 / C11), reproduced as dispatch_kind for routes registered under GET only",
        "a typed-nil resolver or a nil option value are outside the property's list of invalid options",
    ]

    def gen(self, tier):
        os.makedirs(BIN, exist_ok=True)
        exe = os.path.join(BIN, "c19gen")
        with Lock("go"):
            rc, o = sh(["go", "build", "-o", exe, "./cmd/c19gen"], cwd=HARNESS, env=go_env(), timeout=600)
        if rc != 0:
            return False, "c19gen build failed:\n" + o
        env = go_env()
        env["VERIF_REPO"] = REPO
        with Lock("coq.C19"):
            rc, o = sh([exe, "out=" + os.path.join(COQ, "C19", "GenC19.v")], env=env, timeout=120)
        return rc == 0, o


CHECK = C19()
