import os
import re

import lib
from lib import TieCheck, BIN, HARNESS, COQ, REPO, Lock, go_env, sh


def broken_lemmas(log):
    """'File "./BridgeOpt.v", line 57' -> 'BridgeOpt.v: WithIgnoreTrailingSlash_router_eq (line 57)'."""
    out = []
    for m in re.finditer(r'File "\./([A-Za-z0-9_]+\.v)", line (\d+)', log):
        f, ln = m.group(1), int(m.group(2))
        try:
            src = open(os.path.join(COQ, "C19", f)).read().splitlines()[:ln]
        except OSError:
            continue
        name = None
        for line in src:
            mm = re.match(r"\s*(?:Lemma|Theorem|Corollary|Example|Fact|Definition|Fixpoint)\s+([A-Za-z0-9_']+)", line)
            if mm:
                name = mm.group(1)
        item = "%s: %s (line %d)" % (f, name, ln)
        if item not in out:
            out.append(item)
    return out


class C19(TieCheck):
    pid = "C19"
    area = "C19"
    props = "Props_C19.v"
    harness = "c19"
    # the check's own theorems and the correspondence are built without the tie-A files (OptSem / GenOpt / BridgeOpt):
    # a broken tie is reported as such (gen) and the cases are still evaluated / searched for a failing input
    coq_targets = ["Corr.vo"]
    # tie A (docs/GenOpt.md): the option closures, New and NewRoute regenerated from the tree under test, proved equal
    # to Model.v for all inputs
    extra_props = [("C19", "Props_GenOpt.v")]
    extra_trust = [
        "model: coq/C19/Model.v (options.go option closures, fox.go New/NewRoute/Stats, txn.go Handle/Update/HandleRoute, route.go accessors, context.go ClientIP); spec: coq/C19/Spec.v (last deciding option wins)",
        "coq/C19/Pattern.v keeps only parseRoute's brace handling and wildcard counter; full pattern validity is property C10's and is assumed for the token-built patterns the harness generates",
        "coq/C19/GenC19.v is regenerated from fox.go on every run by harness/cmd/c19gen (does NewRoute reject a nil handler)",
        "coq/C19/GenOpt.v is regenerated from options.go / fox.go on every run by harness/cmd/optgen (every option closure on the router and on the route side, New, NewRoute); coq/C19/BridgeOpt.v proves Model.apply_glob / apply_ropt / new / new_route equal to it for all inputs; trusted: optgen itself and the primitives of coq/C19/OptSem.v (docs/GenOpt.md)",
        "hook /repo/verif_c13.go (build tag verif) gives len(route.mws)",
    ]
    assumptions = [
        "resolvers, handlers, middleware and annotation keys are abstracted to identities / nil-ness / key kind (nil, hashable, comparable type with unhashable dynamic value, non-comparable type)",
        "which handler kind a request reaches is ServeHTTP's dispatch (C08 / C11), reproduced as dispatch_kind for routes registered under GET only",
        "a typed-nil resolver or a nil option value are outside the property's list of invalid options",
    ]

    def gen(self, tier):
        os.makedirs(BIN, exist_ok=True)
        exe = os.path.join(BIN, "c19gen")
        with Lock("go"):
            rc, o = sh(["go", "build", "-o", exe, "./cmd/c19gen"], cwd=HARNESS, env=go_env(), timeout=600)
        if rc != 0:
            return False, "c19gen build failed:\n" + o
        env = go_env()
        env["VERIF_REPO"] = REPO
        with Lock("coq.C19"):
            rc, o = sh([exe, "out=" + os.path.join(COQ, "C19", "GenC19.v")], env=env, timeout=120)
        if rc != 0:
            return False, o
        ok2, o2 = self.gen_options()
        return ok2, o + o2

    def gen_options(self):
        """tie A for the option closures, New and NewRoute: optgen rewrites coq/C19/GenOpt.v from the tree under
        test, then BridgeOpt.v / Props_GenOpt.v are rebuilt.  A refusal or a bridge lemma that no longer compiles is a
        broken tie; the lemma is named."""
        exe, o = lib.build_harness("optgen")
        if exe is None:
            return False, "optgen build failed:\n" + o[-2000:]
        with Lock("coq.C19"):
            rc, og = sh([exe, "repo=" + REPO, "out=" + os.path.join(COQ, "C19", "GenOpt.v")], env=go_env(), timeout=300)
        refused = "\n".join(l for l in og.splitlines() if "REFUSED" in l)
        okb, lb = lib.coq_build("C19", targets=["Props_GenOpt.vo"])
        if rc == 0 and okb:
            return True, og
        bl = broken_lemmas(lb) if not okb else []
        named = ("broken bridge lemma: " + ", ".join(bl)) if bl else ""
        k = lb.find('File "./')
        err = "" if okb else (lb[k:k + 1200] if k >= 0 else lb[-1200:])
        head = "tie A (optgen, docs/GenOpt.md): the option closures / New / NewRoute of %s are no longer proved equal to coq/C19/Model.v" % REPO
        msg = "\n".join(x for x in [head, refused[:900], named, err, ("==> " + named) if named else "", ("==> " + refused[:600]) if refused else ""] if x)
        return False, msg


CHECK = C19()
