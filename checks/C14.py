"""C14: ResponseWriter status, size and written flag reflect what was really sent.

The check is correct on both the pinned tree and a tree carrying
proposed_fixes/C14_readfrom.patch: the harness replays the witness of the known
finding (probe=1) and reports which ReadFrom behaviour the tree under test has;
  cur   -> Model.v / Props_C14.v (full theorems where they hold, *_refuted + *_partial
           for the clauses the fast path breaks), spec failures attributed to
           c14_readfrom_accounting by Corr.known_readfrom => KNOWN-FINDING, exit 0
  fixed -> ModelFixed.v / Props_C14_fixed.v (all clauses at full strength), the
           finding suppresses nothing (any spec failure is a violation)
  other -> treated like cur (the correspondence check then reports the difference).
Both theorem files are compiled on every run (they are part of the area's build).

Tie A (docs/GenRec.md): at the start of every run harness/cmd/recgen re-translates the
bodies of the recorder's methods from $VERIF_REPO/response_writer.go into
coq/C14/GenRec.v; BridgeRec.v / BridgeRecFixed.v prove each generated method equal to
the hand-written model for all arguments and Props_GenRec.v restates the C14 theorems
over the recorder built from the generated methods only.  A refusal of recgen or a
bridge lemma that no longer checks is a "generated-model" problem (VIOLATION; the
correspondence check then looks for a concrete input).
  fixed -> Props_GenRec.v (ReadFrom bridged against ModelFixed.rec_read_from_fixed)
  cur   -> Props_GenRec_cur.v (every method but ReadFrom bridged; ReadFrom only shown to
           be one of the two bodies the models know; the fixed-model corollaries are skipped)
"""
import filecmp
import os
import re
import shutil
import time

import lib
from lib import TieCheck


FINDING = "c14_readfrom_accounting"


class C14(TieCheck):
    pid = "C14"
    area = "C14"
    props = "Props_C14.v"
    gentie = "C14"
    harness = "c14"
    extra_trust = [
        "model: coq/C14/Model.v transliterates recorder (response_writer.go:81-288) and String/Blob/Stream/Redirect (context.go:295-327); coq/C14/ModelFixed.v = the same with proposed_fixes/C14_readfrom.patch; spec: coq/C14/Spec.v",
        "tie A (docs/GenRec.md): the 15 methods of recorder are re-translated from response_writer.go on every run (harness/cmd/recgen -> coq/C14/GenRec.v) and proved equal to Model.v / ModelFixed.v for all arguments (BridgeRec.v, BridgeRecFixed.v, Props_GenRec.v); trusted there: recgen's whitelist of statement shapes and coq/C14/RecSem.v",
        "the underlying http.ResponseWriter is an explicit automaton with an arbitrary answer policy (universally quantified in the theorems); the harness instantiates it with recording writers of 10 kinds",
        "net/http's Redirect body and fmt.Fprintf formatting are oracles: the harness passes the bytes they produce to the model",
        "nested routers: coq/C14/Nested.v stacks the child's recorder (same transliteration) on the parent's recorder of Model.v; tied by the nested stream of the harness (child router served through the parent's Context.Writer(), observed from the parent's writer)",
    ]
    assumptions = [
        "an underlying io.ReaderFrom behaves like io.Copy onto its own Write (as net/http's response.ReadFrom does); an underlying io.StringWriter behaves like its Write",
        "sources are shorter than the 32 KiB copy buffer; chunking is modelled by the source's chunk size (arbitrary in the theorems)",
        "log output of the recorder (superfluous WriteHeader, write on hijacked connection) is not modelled",
    ]

    def harness_args(self, tier):
        return ["tier=" + tier]

    # ---- tie A: the recorder's methods regenerated from the source on every run
    TIE_FILES = ["GenRec.v", "BridgeRec.v", "ExamplesRec.v", "BridgeRecFixed.v", "Props_GenRec.v", "Props_GenRec_cur.v"]
    FIXED_ONLY = ["BridgeRecFixed.v", "Props_GenRec.v"]
    mode = "fixed"

    def area_files(self):
        d = os.path.join(lib.COQ, self.area)
        return [l.strip() for l in open(os.path.join(d, "_CoqProject")) if l.strip().endswith(".v")]

    def targets_without(self, excluded):
        return [f[:-2] + ".vo" for f in self.area_files() if f not in excluded]

    def broken_lemmas(self, log):
        """names of the lemmas / theorems in which coqc stopped"""
        out = []
        for f, ln in re.findall(r'File "\./([A-Za-z0-9_]+\.v)", line (\d+)', log):
            try:
                lines = open(os.path.join(lib.COQ, self.area, f)).read().splitlines()[:int(ln)]
            except OSError:
                continue
            for l in reversed(lines):
                m = re.match(r"\s*(Lemma|Theorem|Example|Definition)\s+([A-Za-z0-9_']+)", l)
                if m:
                    if f + ":" + m.group(2) not in out:
                        out.append(f + ":" + m.group(2))
                    break
        return out

    def gen(self, tier):
        ok0, lg0 = super().gen(tier)
        t0 = time.time()
        ok, lg = self.gen_rec()
        lib.log("C14: tie A (recgen + bridge): %s in %.1fs" % ("ok" if ok else "BROKEN", time.time() - t0))
        if not ok:
            # go on without the tie-A files: the rest of the check (model, theorems, correspondence,
            # search for a concrete input) is unaffected; the problem itself is reported as generated-model
            plist = self.props if isinstance(self.props, (list, tuple)) else [self.props]
            self.props = [p for p in plist if not p.startswith("Props_GenRec")]
            self.coq_targets = self.targets_without(self.TIE_FILES)
        return ok0 and ok, (lg0 + "\n" if lg0 else "") + lg

    def gen_rec(self):
        g, lg = lib.build_harness("recgen")
        dst = os.path.join(lib.COQ, self.area, "GenRec.v")
        if g is None:
            open(dst, "w").write("(* REFUSED: harness/cmd/recgen does not build *)\n")
            return False, "tie A: recgen does not build:\n" + lg[-2000:]
        work = os.path.join(lib.WORKROOT, self.pid)
        os.makedirs(work, exist_ok=True)
        new = os.path.join(work, "GenRec.v.new")
        rc, o = lib.sh([g, "repo=" + os.path.abspath(lib.REPO), "out=" + new], env=lib.go_env(), timeout=600)
        if not os.path.exists(new):
            open(new, "w").write("(* REFUSED: recgen wrote nothing (rc=%d) *)\n" % rc)
        with lib.Lock("coq." + self.area):
            # same text: keep the file (and its .vo) as it is; anything else replaces it -- never stale
            if not (os.path.exists(dst) and filecmp.cmp(new, dst, shallow=False)):
                shutil.copyfile(new, dst)
        tie = ["BridgeRec.vo", "ExamplesRec.vo", "Props_GenRec_cur.vo"]
        if self.mode == "fixed":
            tie += ["BridgeRecFixed.vo", "Props_GenRec.vo"]
        okb, lb = lib.coq_build(self.area, targets=tie)
        if rc != 0:
            refused = "\n".join(l for l in o.splitlines() if "REFUSED" in l)
            bl = self.broken_lemmas(lb)
            return False, ("tie A (docs/GenRec.md): recgen REFUSED the recorder of %s (rc=%d):\n%s\n"
                           "broken bridge lemmas: %s" % (lib.REPO, rc, refused[-1500:] or o[-1500:], ", ".join(bl) or "-"))
        if not okb:
            bl = self.broken_lemmas(lb)
            k = lb.find('File "./')
            return False, ("tie A (docs/GenRec.md): the recorder methods translated from %s are no longer equal to the "
                           "hand-written model; broken bridge lemma: %s\n%s" % (lib.REPO, ", ".join(bl) or "?", lb[k:k + 1500] if k >= 0 else lb[-1500:]))
        return True, o

    def detect(self):
        hb, lg = lib.build_harness(self.harness)
        if hb is None:
            return "cur"
        rc, o = lib.sh([hb, "probe=1"], env=lib.go_env(), timeout=120)
        for line in o.splitlines():
            if line.startswith("behaviour="):
                return line.split("=", 1)[1].strip()
        return "cur"

    def run(self, tier, seed, replay=None):
        self.shards = 64 if tier == "quick" else 768
        mode = self.detect()
        lib.log("C14: ReadFrom behaviour of %s: %s" % (lib.REPO, mode))
        orig = lib.known_findings
        self.mode = mode
        self.coq_targets = None
        if mode == "fixed":
            self.props = ["Props_C14_fixed.v", "Props_GenRec.v"]
            # the repaired tree must satisfy the specification outright: the finding suppresses nothing

            def filtered(pid):
                return [f for f in orig(pid) if f.get("id") != FINDING]
            lib.known_findings = filtered
            lib.log("C14: fix detected: finding %s no longer reproduces; checking ModelFixed.v / Props_C14_fixed.v at full strength" % FINDING)
        else:
            self.props = ["Props_C14.v", "Props_GenRec_cur.v"]
            # BridgeRecFixed.v / Props_GenRec.v are about the ReadFrom of the `fix:` commit: not built here
            self.coq_targets = self.targets_without(self.FIXED_ONLY)
            lib.log("C14: tie A: pre-fix ReadFrom: every recorder method except ReadFrom is bridged for all arguments "
                    "(Props_GenRec_cur.v); gen_rec_read_from is only shown to be one of the two modelled bodies; "
                    "the fixed-model corollaries of Props_GenRec.v are skipped")
        try:
            return super().run(tier, seed, replay)
        finally:
            lib.known_findings = orig


CHECK = C14()
