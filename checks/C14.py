"""C14: ResponseWriter status, size and written flag reflect what was really sent.

The check is correct on both the pinned tree and a tree carrying
proposed_fixes/C14_readfrom.patch: the harness replays the witness of the known
finding (probe=1) and reports which ReadFrom behaviour the tree under test has;
  cur   -> Model.v / Props_C14.v (full theorems where they hold, *_refuted + *_partial
           for the clauses the fast path breaks), spec failures attributed to
           c14_readfrom_accounting by Corr.known_readfrom => KNOWN-FINDING, exit 0
  fixed -> ModelFixed.v / Props_C14_fixed.v (all clauses at full strength), the
           finding suppresses nothing (any spec failure is a violation)
  other -> treated like cur (the correspondence check then reports the difference).
Both theorem files are compiled on every run (they are part of the area's build).
"""
import os

import lib
from lib import TieCheck


FINDING = "c14_readfrom_accounting"


class C14(TieCheck):
    pid = "C14"
    area = "C14"
    props = "Props_C14.v"
    gentie = "C14"
    harness = "c14"
    extra_trust = [
        "model: coq/C14/Model.v transliterates recorder (response_writer.go:81-288) and String/Blob/Stream/Redirect (context.go:295-327); coq/C14/ModelFixed.v = the same with proposed_fixes/C14_readfrom.patch; spec: coq/C14/Spec.v",
        "the underlying http.ResponseWriter is an explicit automaton with an arbitrary answer policy (universally quantified in the theorems); the harness instantiates it with recording writers of 10 kinds",
        "net/http's Redirect body and fmt.Fprintf formatting are oracles: the harness passes the bytes they produce to the model",
        "nested routers: coq/C14/Nested.v stacks the child's recorder (same transliteration) on the parent's recorder of Model.v; tied by the nested stream of the harness (child router served through the parent's Context.Writer(), observed from the parent's writer)",
    ]
    assumptions = [
        "an underlying io.ReaderFrom behaves like io.Copy onto its own Write (as net/http's response.ReadFrom does); an underlying io.StringWriter behaves like its Write",
        "sources are shorter than the 32 KiB copy buffer; chunking is modelled by the source's chunk size (arbitrary in the theorems)",
        "log output of the recorder (superfluous WriteHeader, write on hijacked connection) is not modelled",
    ]

    def harness_args(self, tier):
        return ["tier=" + tier]

    def detect(self):
        hb, lg = lib.build_harness(self.harness)
        if hb is None:
            return "cur"
        rc, o = lib.sh([hb, "probe=1"], env=lib.go_env(), timeout=120)
        for line in o.splitlines():
            if line.startswith("behaviour="):
                return line.split("=", 1)[1].strip()
        return "cur"

    def run(self, tier, seed, replay=None):
        self.shards = 64 if tier == "quick" else 768
        mode = self.detect()
        lib.log("C14: ReadFrom behaviour of %s: %s" % (lib.REPO, mode))
        orig = lib.known_findings
        if mode == "fixed":
            self.props = "Props_C14_fixed.v"
            # the repaired tree must satisfy the specification outright: the finding suppresses nothing

            def filtered(pid):
                return [f for f in orig(pid) if f.get("id") != FINDING]
            lib.known_findings = filtered
            lib.log("C14: fix detected: finding %s no longer reproduces; checking ModelFixed.v / Props_C14_fixed.v at full strength" % FINDING)
        else:
            self.props = "Props_C14.v"
        try:
            return super().run(tier, seed, replay)
        finally:
            lib.known_findings = orig


CHECK = C14()
