import os

import lib
from lib import TieCheck


def run_syncgen():
    """Tie A: regenerate coq/Txn/GenSync.v from the sources under test (VERIF_REPO)."""
    hb, lg = lib.build_harness("syncgen")
    if hb is None:
        return False, "syncgen does not build:\n" + lg
    with lib.Lock("coq.Txn"):
        rc, o = lib.sh([hb, "out=" + os.path.join(lib.COQ, "Txn", "GenSync.v")], env=lib.go_env(), timeout=600)
    if rc != 0:
        return False, "syncgen refused the sources (unknown synchronisation shape) rc=%d:\n%s" % (rc, o)
    return True, o


class TxnAreaCheck(TieCheck):
    """C04 and C05 share coq/Txn (and GenSync.v): serialise whole runs of the two checks."""
    area = "Txn"

    def gen(self, tier):
        return run_syncgen()

    run_tier = None

    def run(self, tier, seed, replay=None):
        self.run_tier = tier
        with lib.Lock("area.Txn.run"):
            return super().run(tier, seed, replay)


class C04(TxnAreaCheck):
    pid = "C04"
    props = "Props_C04.v"
    extra_props = [("Compose", "Props_Compose2.v")]
    harness = "c04"
    extra_trust = [
        "model: coq/Txn/TxnSeq.v (lifecycle of Txn / Updates / View / single-operation helpers over an ABSTRACT sequential map semantics); "
        "spec checker: coq/Txn/TxnCorr.v spec_ok (published = fold of committed transactions, read-your-writes), written independently of the model",
        "tie A: harness/cmd/syncgen (go/ast + go/types) regenerates coq/Txn/GenSync.v; the Examples skeleton_*_ok / sync_sites_ok in Props_C04.v compare it with coq/Txn/Skeleton.v",
        "SAMPLED, NOT PROVED: the commit-race stream (requests racing with a writer that commits multi-method transactions; every distinct answer must be "
        "the answer of one committed state, TxnCorr.req_model_agrees / req_spec_ok) exercises only the schedules the Go runtime produces during a few seconds",
        "the routing tree's map behaviour itself (Handle/Update/Delete/Truncate on a private root) is C02's subject; here it is a parameter, instantiated by the reference map in the harness comparison",
    ]
    assumptions = [
        "a Txn value is used by one goroutine at a time (documented requirement of fox); concurrent readers/writers are C05",
        "patterns used by the harness cannot conflict, so the reference map keyed by (method, pattern) is the exact oracle",
    ]

    def harness_args(self, tier):
        # TieCheck.run asks for the "thorough" generators in two situations: a thorough run, and the fallback
        # search of a QUICK run in which an obligation broke (e.g. tie A) while no generated input failed.
        # The second must stay within minutes: the harness has a bounded "search" size for it.
        if tier == "thorough" and self.run_tier == "quick":
            return ["tier=search"]
        return ["tier=" + tier]

    def extra(self, tier, seed, work, coverage):
        """A fatal runtime error of the harness (e.g. 'sync: unlock of unlocked mutex') kills the process:
        the history it was executing is the failing input."""
        cur = os.path.join(work, "c04_current_history.txt")
        try:
            log = open(os.path.join(work, "harness.log"), errors="replace").read()
        except OSError:
            return []
        if os.path.exists(cur) and ("fatal error:" in log or "panic:" in log):
            first = [l for l in log.splitlines() if l.startswith(("fatal error:", "panic:"))][:1]
            h = open(cur).read()
            os.remove(cur)
            return [("the router crashed (%s) while executing the history: %s" % ("; ".join(first), h[:6000]), h)]
        return []


CHECK = C04()
