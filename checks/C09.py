from lib import TieCheck


class C09(TieCheck):
    pid = "C09"
    area = "Route"
    props = ["Props_C09.v", "Props_C09_host.v", "Props_C09_guard.v", "Props_C09_e2e.v"]
    coq_targets = ["Corr.vo"]
    gentie = "C09"
    extra_props = [("Compose", "Props_Compose2.v")]
    harness = "c01"
    extra_trust = ["model M1: coq/Route/Lookup.v lbd/lookup_by_domain/roots_lookup; specification: Spec.spec_lookup (whole-host match, path-only fallback)",
                   "port / trailing-dot stripping is netutil.StripHostPort run by the harness (oracle input to model and spec)"]
    assumptions = []

    def harness_args(self, tier):
        return ["tier=" + tier, "prop=C09"]

    def extra(self, tier, seed, work, coverage):
        """The Host also decides the 404 / 405 / OPTIONS answers (every method's lookup uses it): the dispatch
        harness (hostname route sets, decorated Hosts) against the Dispatch model fed with the lookup table."""
        import lib
        return lib.dispatch_extra(work, coverage, tier)


CHECK = C09()
