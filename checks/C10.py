import json
import os
import shutil

import lib
from lib import TieCheck


class C10(TieCheck):
    pid = "C10"
    area = "Pattern"
    props = "Props_C10.v"
    extra_props = [("Compose", "Props_Compose.v")]
    # tie A (checks/GenTie.py, docs/Gen.md): gotrans regenerates coq/Gen/GenParse.v from Router.parseRoute on every
    # run; coq/Gen/BridgeC10.v proves it equal to ParseRoute.parseRoute on all inputs.  TieCheck.run calls
    # GenTie.tie("C10") (a refusal or a broken bridge lemma is a "generated-model" problem => VIOLATION) and adds
    # GenTie.props("C10") = Props_Gen.v, Props_Gen_C10.v to the property files re-checked with Props_C10.v.
    gentie = "C10"
    harness = "c10"
    shards = 32
    extra_trust = [
        "tie A: harness/cmd/gotrans translates Router.parseRoute (fox.go) into coq/Gen/GenParse.v on every run (Go subset and the meaning of the emitted primitives: docs/Gen.md, coq/Gen/GoSem.v, GoSemErr.v); coq/Gen/Props_Gen_C10.v: the generated definition equals ParseRoute.parseRoute on all inputs (limits in the uint16 range)",
        "model: coq/Pattern/ParseRoute.v transliterates Router.parseRoute (fox.go:662-854), coq/Pattern/ParseWildcard.v transliterates parseWildcard (node.go:876-930); "
        "spec: coq/Pattern/Grammar.v (syntax tree + well-formedness, written from the property text and README), coq/Pattern/Token.v",
        "thorough tier, lengths 6..7: observations are compared through a 61-bit polynomial digest per 4-byte prefix (a differing block is expanded into per-string cases)",
    ]
    assumptions = [
        "limits are naturals in the model (uint16 in Go); the model's paramCnt cannot wrap; the implementation's counter width is exercised by patterns with 65535..131072 wildcards (CCount cases: too long for the model, checked against the theorem accepted_within_limit: accepted -> n = number of wildcards <= maxParams)",
        "the routable clause is proved for the routing model in the Route area; here it is checked on the implementation for every accepted pattern generated (single route, instantiated request)",
    ]

    def run(self, tier, seed, replay=None):
        rc = super().run(tier, seed, replay)
        if rc != 0 and not replay:
            self.expand_blocks(tier, seed)
        return rc

    def expand_blocks(self, tier, seed):
        """A failing CBlock case only says which 4-byte prefix differs: expand the first
        such blocks into per-string cases to name the concrete failing pattern."""
        work = os.path.join(lib.WORKROOT, self.pid)
        rp = os.path.join(work, "replay", "violation_%s_%s.json" % (tier, seed))
        try:
            payload = json.load(open(rp))
        except Exception:
            return
        texts = list(payload.get("failing_inputs", [])) + [d.get("detail", "") for d in payload.get("no_longer_checks", [])]
        blocks = []
        for t in texts:
            for m in lib.re.finditer(r"replay=(block:[0-9a-f]*:\d+:\d+)", t):
                if m.group(1) not in blocks:
                    blocks.append(m.group(1))
        if not blocks:
            return
        hb = os.path.join(lib.BIN, self.harness)
        found = []
        for b in blocks[:3]:
            d = os.path.join(work, "expand")
            if os.path.isdir(d):
                shutil.rmtree(d)
            rc, o = lib.sh([hb, "out=" + d, "shards=8", "tier=" + tier, "replay=" + b], cwd=work, env=lib.go_env(), timeout=600)
            if rc != 0:
                continue
            res, _ = lib.eval_cases(d, self.area)
            for c in (res.get("viol", []) + res.get("mism", []))[:10]:
                h = lib.human_case(d, *c)
                if h not in found:
                    found.append(h)
        if found:
            payload["failing_inputs"] = found + payload.get("failing_inputs", [])
            json.dump(payload, open(rp, "w"), indent=1)
            for f in found[:10]:
                lib.log("-- failing input (block expanded): %s" % f)
            lib.log("VIOLATION property=%s replay=%s" % (self.pid, rp))


CHECK = C10()
