import os
import re

import lib
from lib import TieCheck, build_harness, sh, go_env, REPO, COQ


def broken_lemmas(log):
    """'File "./BridgeRecovery.v", line 57' -> 'BridgeRecovery.v: gen_connIsBroken_eq_l (line 57)'."""
    out = []
    for m in re.finditer(r'File "\./([A-Za-z0-9_]+\.v)", line (\d+)', log):
        f, ln = m.group(1), int(m.group(2))
        try:
            src = open(os.path.join(COQ, "C15", f)).read().splitlines()[:ln]
        except OSError:
            continue
        name = None
        for line in src:
            mm = re.match(r"\s*(?:Lemma|Theorem|Corollary|Example|Fact|Definition|Fixpoint)\s+([A-Za-z0-9_']+)", line)
            if mm:
                name = mm.group(1)
        item = "%s: %s (line %d)" % (f, name, ln)
        if item not in out:
            out.append(item)
    return out


class C15(TieCheck):
    pid = "C15"
    area = "C15"
    props = "Props_C15.v"
    gentie = "C15"
    harness = "c15"
    shards = 16
    # the check's own theorems and the correspondence are built without the tie-A files of recovgen (RecSem /
    # GenRecovery / BridgeRecovery): a broken tie is reported as such (gen) and the cases are still evaluated
    coq_targets = ["Corr.vo"]
    # tie A (docs/GenC15.md): the recovery path regenerated from the tree under test, proved equal to Recovery.v / Redact.v
    extra_props = [("C15", "Props_GenRecovery.v")]
    extra_trust = [
        "tie A: harness/cmd/c15gen rewrites coq/C15/GenConsts.v on every run from http_consts.go (blacklistedHeader, Header* constants resolved to their strings), recovery.go (scopeToString) and fox.go (HandlerScope names); unknown shapes are refused",
        "tie A: harness/cmd/recovgen rewrites coq/C15/GenRecovery.v on every run from recovery.go (middleware closure, recovery(), connIsBroken, DefaultHandleRecovery, statement by statement); coq/C15/BridgeRecovery.v proves Recovery.recovery_mw / connIsBroken / handle500 and the message and attributes of Recovery.record equal to it for all inputs; trusted: recovgen itself and the primitives of coq/C15/RecSem.v (docs/GenC15.md)",
        "model: coq/C15/Recovery.v (recovery(), connIsBroken, recorder, DefaultHandleRecovery), Redact.v (dump cut/split/redaction, ASCII EqualFold), Lifecycle.v (txnWith/Commit/Abort/Updates/View/write helpers over an abstract lock + route set); spec: coq/C15/Spec.v",
        "harness projections: slog message/attributes, underlying-writer digest at panic time vs at the end, Go-side identity check of the re-raised panic value, bounded-wait write probe (400 ms) for 'lock released'",
    ]
    assumptions = [
        "error values are trees over {ErrAbortHandler, leaf, Unwrap() error, Unwrap() []error, *net.OpError, *os.SyscallError}; no node defines its own Is/As method",
        "error texts and header names that reach the dump are ASCII (strings.ToLower / strings.EqualFold are modelled on ASCII; net/http drops header keys that are not HTTP tokens when dumping)",
        "the request dump (httputil.DumpRequest) and the stack text are inputs of the model; the redaction theorem is stated over dumps rendered from a request line and header lines free of CR",
        "routes are abstracted to a set of patterns and fox.mu to a boolean in the lifecycle model",
    ]

    def gen(self, tier):
        g, lg = build_harness("c15gen")
        if g is None:
            return False, "c15gen does not build:\n" + lg
        rc, o = sh([g, "repo=" + os.path.abspath(REPO), "out=" + os.path.join(COQ, "C15", "GenConsts.v")], env=go_env())
        if rc != 0:
            return False, o
        ok2, o2 = self.gen_recovery()
        return ok2, o + o2

    def gen_recovery(self):
        """tie A for the recovery path: recovgen rewrites coq/C15/GenRecovery.v from the tree under test, then
        BridgeRecovery.v / Props_GenRecovery.v are rebuilt.  A refusal or a bridge lemma that no longer compiles is a
        broken tie; the lemma is named."""
        exe, o = build_harness("recovgen")
        if exe is None:
            return False, "recovgen build failed:\n" + o[-2000:]
        with lib.Lock("coq.C15"):
            rc, og = sh([exe, "repo=" + os.path.abspath(REPO), "out=" + os.path.join(COQ, "C15", "GenRecovery.v")], env=go_env(), timeout=300)
        refused = "\n".join(l for l in og.splitlines() if "REFUSED" in l)
        okb, lb = lib.coq_build("C15", targets=["Props_GenRecovery.vo"])
        if rc == 0 and okb:
            return True, og
        bl = broken_lemmas(lb) if not okb else []
        named = ("broken bridge lemma: " + ", ".join(bl)) if bl else ""
        k = lb.find('File "./')
        err = "" if okb else (lb[k:k + 1200] if k >= 0 else lb[-1200:])
        head = "tie A (recovgen, docs/GenC15.md): the recovery path of %s is no longer proved equal to coq/C15/Recovery.v / Redact.v" % REPO
        msg = "\n".join(x for x in [head, refused[:900], named, err, ("==> " + named) if named else "", ("==> " + refused[:600]) if refused else ""] if x)
        return False, msg

    def run(self, tier, seed, replay=None):
        # A broken proof must not prevent the case files from being evaluated (they only need
        # the model, Corr.vo): when the area does not build completely, build Corr.vo alone and
        # let TieCheck go on; the broken proof is then reported by its proof-obligation step
        # (coqc Props_*.v fails) and a concrete failing input is still searched for.
        orig = lib.coq_build

        def build(area, *a, **kw):
            ok, lg = orig(area, *a, **kw)
            # (not for the tie-A files of recovgen: their failure is the result that gen_recovery reports)
            if not ok and area == self.area and "Props_GenRecovery.vo" not in (kw.get("targets") or []):
                with lib.Lock("coq." + area):
                    rc, _ = sh(["make", "Corr.vo"], cwd=os.path.join(COQ, area), timeout=1500)
                if rc == 0:
                    lib.log("-- coq-build: area %s does not build completely (model and Corr.vo do):\n%s" % (area, lg[-1500:]))
                    return True, lg
            return ok, lg

        lib.coq_build = build
        try:
            return super().run(tier, seed, replay)
        finally:
            lib.coq_build = orig


CHECK = C15()
