import os

import lib
from lib import TieCheck, build_harness, sh, go_env, REPO, COQ


class C15(TieCheck):
    pid = "C15"
    area = "C15"
    props = "Props_C15.v"
    gentie = "C15"
    harness = "c15"
    shards = 16
    extra_trust = [
        "tie A: harness/cmd/c15gen rewrites coq/C15/GenConsts.v on every run from http_consts.go (blacklistedHeader, Header* constants resolved to their strings), recovery.go (scopeToString) and fox.go (HandlerScope names); unknown shapes are refused",
        "model: coq/C15/Recovery.v (recovery(), connIsBroken, recorder, DefaultHandleRecovery), Redact.v (dump cut/split/redaction, ASCII EqualFold), Lifecycle.v (txnWith/Commit/Abort/Updates/View/write helpers over an abstract lock + route set); spec: coq/C15/Spec.v",
        "harness projections: slog message/attributes, underlying-writer digest at panic time vs at the end, Go-side identity check of the re-raised panic value, bounded-wait write probe (400 ms) for 'lock released'",
    ]
    assumptions = [
        "error values are trees over {ErrAbortHandler, leaf, Unwrap() error, Unwrap() []error, *net.OpError, *os.SyscallError}; no node defines its own Is/As method",
        "error texts and header names that reach the dump are ASCII (strings.ToLower / strings.EqualFold are modelled on ASCII; net/http drops header keys that are not HTTP tokens when dumping)",
        "the request dump (httputil.DumpRequest) and the stack text are inputs of the model; the redaction theorem is stated over dumps rendered from a request line and header lines free of CR",
        "routes are abstracted to a set of patterns and fox.mu to a boolean in the lifecycle model",
    ]

    def gen(self, tier):
        g, lg = build_harness("c15gen")
        if g is None:
            return False, "c15gen does not build:\n" + lg
        rc, o = sh([g, "repo=" + os.path.abspath(REPO), "out=" + os.path.join(COQ, "C15", "GenConsts.v")], env=go_env())
        return rc == 0, o

    def run(self, tier, seed, replay=None):
        # A broken proof must not prevent the case files from being evaluated (they only need
        # the model, Corr.vo): when the area does not build completely, build Corr.vo alone and
        # let TieCheck go on; the broken proof is then reported by its proof-obligation step
        # (coqc Props_*.v fails) and a concrete failing input is still searched for.
        orig = lib.coq_build

        def build(area, *a, **kw):
            ok, lg = orig(area, *a, **kw)
            if not ok and area == self.area:
                with lib.Lock("coq." + area):
                    rc, _ = sh(["make", "Corr.vo"], cwd=os.path.join(COQ, area), timeout=1500)
                if rc == 0:
                    lib.log("-- coq-build: area %s does not build completely (model and Corr.vo do):\n%s" % (area, lg[-1500:]))
                    return True, lg
            return ok, lg

        lib.coq_build = build
        try:
            return super().run(tier, seed, replay)
        finally:
            lib.coq_build = orig


CHECK = C15()
