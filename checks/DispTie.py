"""Tie A for Router.ServeHTTP (helper module, not a check; docs/GenServe.md).

harness/cmd/dispgen translates the body of (*Router).ServeHTTP (and (*cTx).reset) of the tree under test
into coq/Dispatch/GenServe.v on every run; coq/Dispatch/BridgeServe.v proves the generated definition equal
to the hand-written model Dispatch.serve_http for all arguments; coq/Dispatch/Props_GenServe.v states it
(and the corollaries C08 / C11 / C17 use).  A check calls

    ok, log = DispTie.tie()              # in gen(self, tier): not ok => "generated-model" problem
    extra_props += DispTie.PROPS         # Props_GenServe.v is re-checked with the check's own theorems

dispgen REFUSES every statement shape it does not know: GenServe.v is then a `(* REFUSED: .. *)` stub and
BridgeServe.v cannot compile (nothing stale is left)."""
import os
import shutil
import lib

AREA = "Dispatch"
PROPS = [(AREA, "Props_GenServe.v")]
# files of the tie: a check whose own area is Dispatch builds the others separately (other_targets), so that a
# broken tie does not take the model, the specification or the case evaluation down with it
TIE_FILES = ("GenServe.v", "BridgeServe.v", "Props_GenServe.v")
TRUST = ("tie A (dispatch): harness/cmd/dispgen translates the body of Router.ServeHTTP and cTx.reset statement by statement "
         "into coq/Dispatch/GenServe.v on every run; coq/Dispatch/BridgeServe.v proves gen_serve_http = Dispatch.serve_http "
         "for all arguments (Props_GenServe.v); trusted: dispgen, coq/Dispatch/ServeSem.v (meaning of the emitted primitives), "
         "the join-pattern abstraction of the Allow strings.Builder (checked syntactically by dispgen)")


GOOD = os.path.join(lib.WORKROOT, "GenServe.good.v")          # the last GenServe.v whose bridge compiled
REJECTED = os.path.join(lib.WORKROOT, "GenServe.rejected.v")  # the last one that was refused / not provable
_state = {"broken": False}


def other_targets():
    d = os.path.join(lib.COQ, AREA)
    files = [l.strip() for l in open(os.path.join(d, "_CoqProject")) if l.strip().endswith(".v")]
    return [f[:-2] + ".vo" for f in files if f not in TIE_FILES]


def broken_lemmas(log):
    """'File "./BridgeServe.v", line 130' -> 'BridgeServe.v: serve_eq (line 130)'."""
    out = []
    for m in lib.re.finditer(r'File "\./([A-Za-z0-9_]+\.v)", line (\d+)', log):
        f, ln = m.group(1), int(m.group(2))
        try:
            src = open(os.path.join(lib.COQ, AREA, f)).read().splitlines()[:ln]
        except OSError:
            continue
        name = None
        for line in src:
            mm = lib.re.match(r"\s*(?:Lemma|Theorem|Corollary|Example|Fact|Definition|Fixpoint)\s+([A-Za-z0-9_']+)", line)
            if mm:
                name = mm.group(1)
        item = "%s: %s (line %d)" % (f, name, ln)
        if item not in out:
            out.append(item)
    return out


def gen():
    """Regenerate coq/Dispatch/GenServe.v from the sources under test. Returns (ok, log)."""
    hb, lg = lib.build_harness("dispgen")
    if hb is None:
        return False, "dispgen does not build:\n" + lg
    d = os.path.join(lib.COQ, AREA)
    with lib.Lock("coq." + AREA):
        rc, o = lib.sh([hb, "repo=" + os.path.abspath(lib.REPO), "out=" + os.path.join(d, "GenServe.v")],
                       env=lib.go_env(), timeout=600)
    if rc != 0:
        return False, "dispgen refused Router.ServeHTTP (outside the accepted shapes, docs/GenServe.md) rc=%d:\n%s" % (rc, o)
    return True, o


def tie():
    """gen + build of the bridge and the property file. Returns (ok, log)."""
    gv = os.path.join(lib.COQ, AREA, "GenServe.v")
    with lib.Lock("area.Dispatch.genserve"):
        okg, lg = gen()
        ok, lb = lib.coq_build(AREA, targets=["Props_GenServe.vo"])
        if okg and ok:
            shutil.copy(gv, GOOD)
            _state["broken"] = False
            return True, lg.strip()
        _state["broken"] = True
        shutil.copy(gv, REJECTED)
        if not okg:
            rl = "\n".join(l for l in lg.splitlines() if "REFUSED" in l)
            return False, lg + "\n(GenServe.v is now a stub; coq/Dispatch/BridgeServe.v does not compile)\n==> " + rl[-800:]
        bl = broken_lemmas(lb)
        part = lib.re.search(r"Tactic failure:\s*([A-Za-z_]+):", lb)
        if bl and part:
            bl = [bl[0] + " / " + part.group(1)] + bl[1:]
        k = lb.find('File "./')
        err = lb[k:k + 2200] if k >= 0 else lb[-2200:]
        named = "broken bridge lemma: " + ", ".join(bl) if bl else ""
        return False, ("the regenerated ServeHTTP (coq/Dispatch/GenServe.v, copy in %s) is no longer proved equal to Dispatch.serve_http" % REJECTED
                       + ("; " + named if bl else "") + ":\n" + err + ("\n==> " + named if bl else ""))


def restore():
    """To be called when the run that called tie() has its verdict (finally: of run()).  coq/Dispatch is a
    dependency of coq/Compose, which many other checks build: a GenServe.v that is a stub or whose bridge does
    not compile would make THEIR builds fail until the next C08 / C11 / C17 run regenerates it.  So a broken
    GenServe.v is put aside (REJECTED) and the last one whose bridge compiled is put back.  Nothing can hide
    behind it: C08 / C11 / C17 regenerate the file at the start of every run and never read the restored one."""
    if _state["broken"] and os.path.exists(GOOD):
        with lib.Lock("coq." + AREA):
            shutil.copy(GOOD, os.path.join(lib.COQ, AREA, "GenServe.v"))
        _state["broken"] = False


if __name__ == "__main__":
    import sys
    ok, lg = tie()
    print(lg)
    if "keep" not in sys.argv[1:]:
        restore()           # `python3 checks/DispTie.py keep` leaves a refused / unprovable GenServe.v in place
    sys.exit(0 if ok else 1)
