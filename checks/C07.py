from lib import TieCheck


class C07(TieCheck):
    pid = "C07"
    area = "Route"
    props = ["Props_C07.v", "Props_C07_canon.v"]
    coq_targets = ["CorrHist.vo", "CorrIter.vo", "CorrWF.vo"]
    gentie = "C07"
    harness = "c02"
    extra_trust = ["model: coq/Route/Tree.v; each case compares router A (after a mutation history) with router B (fresh fill in random order): tree dumps, Lookup/ServeHTTP answers on probes, and the model tree built by inserting in B's order"]
    assumptions = ["both routers are created with the same options (405 + auto OPTIONS + redirect trailing slash)"]

    def harness_args(self, tier):
        return ["tier=" + tier, "prop=C07"]


CHECK = C07()
