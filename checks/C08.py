from lib import TieCheck


class C08(TieCheck):
    pid = "C08"
    area = "Route"
    props = ["Props_C08.v"]
    coq_targets = ["Corr.vo"]
    harness = "c01"
    extra_trust = ["model M1: coq/Route/Lookup.v (tsr detection sites and propagation); specification: Spec.spec_lookup = direct(host) > tsr(host) > direct(path) > tsr(path) on the slash-toggled path",
                   "dispatch/redirect half of C08 is checked in coq/Dispatch (see C11)"]
    assumptions = ["request paths without empty segments are in the specification's domain"]

    def harness_args(self, tier):
        return ["tier=" + tier, "prop=C08"]


CHECK = C08()
