from lib import TieCheck


class C08(TieCheck):
    pid = "C08"
    area = "Route"
    coq_targets = ["Corr.vo"]
    extra_props = [("Dispatch", "Props_C08_dispatch.v"), ("Compose", "Props_Compose.v"), ("Compose", "Props_Compose2.v")]
    props = ["Props_C08.v", "Props_C08_tsr.v", "Props_C09_e2e.v"]
    gentie = "C08"
    harness = "c01"
    extra_trust = ["model M1: coq/Route/Lookup.v (tsr detection sites and propagation); specification: Spec.spec_lookup = direct(host) > tsr(host) > direct(path) > tsr(path) on the slash-toggled path",
                   "dispatch/redirect half of C08 is checked in coq/Dispatch (see C11)"]
    assumptions = ["request paths without empty segments are in the specification's domain"]

    def harness_args(self, tier):
        return ["tier=" + tier, "prop=C08"]

    def extra(self, tier, seed, work, coverage):
        """Dispatch / redirect half of C08 (ignore serves, redirect only for clean non-root paths and
        never for CONNECT, 301/308, Location): run the dispatch harness (c11) against the Dispatch model
        and specification; every disagreement is a failing input of C08 as well."""
        import os, shutil, json
        import lib
        out = []
        ok, lg = lib.coq_build("Dispatch", targets=["Corr.vo"])
        hb, hl = lib.build_harness("c11")
        if not ok or hb is None:
            return [("dispatch half: model or harness does not build: " + (lg if not ok else hl)[-800:], {})]
        d = os.path.join(work, "cases_dispatch")
        if os.path.isdir(d):
            shutil.rmtree(d)
        rc, o = lib.sh([hb, "out=" + d, "shards=%d" % lib.NCPU, "tier=quick"], cwd=work, env=lib.go_env(), timeout=1500)
        if rc != 0:
            return [("dispatch harness failed: " + o[-800:], {})]
        res, errs = lib.eval_cases(d, "Dispatch")
        for k, e in errs:
            out.append(("dispatch case evaluation failed (shard %d): %s" % (k, e[-400:]), {}))
        bad = list(dict.fromkeys(res.get("mism", []) + res.get("viol", [])))
        attributed = set()
        for name, idxs in res.items():
            if name.startswith("known_"):
                attributed.update(idxs)
        bad = [c for c in bad if c not in attributed or c in res.get("mism", [])]
        for c in bad[:10]:
            out.append(("dispatch: " + lib.human_case(d, *c)[:700], {}))
        try:
            st = json.load(open(os.path.join(d, "stats.json")))
            coverage["dispatch_evaluations"] = int(st.get("evaluations", 0))
            coverage["dispatch_mismatches"] = len(res.get("mism", []))
            coverage["dispatch_spec_failures"] = len(res.get("viol", []))
        except Exception:
            pass
        return out


CHECK = C08()
