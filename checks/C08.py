import DispTie
from lib import TieCheck


class C08(TieCheck):
    pid = "C08"
    area = "Route"
    coq_targets = ["Corr.vo"]
    extra_props = [("Dispatch", "Props_C08_dispatch.v"), ("Compose", "Props_Compose.v"), ("Compose", "Props_Compose2.v")] + DispTie.PROPS
    props = ["Props_C08.v", "Props_C08_tsr.v", "Props_C09_e2e.v"]
    gentie = "C08"
    harness = "c01"
    extra_trust = ["model M1: coq/Route/Lookup.v (tsr detection sites and propagation); specification: Spec.spec_lookup = direct(host) > tsr(host) > direct(path) > tsr(path) on the slash-toggled path",
                   "dispatch/redirect half of C08 is checked in coq/Dispatch (see C11)", DispTie.TRUST]
    assumptions = ["request paths without empty segments are in the specification's domain"]

    def gen(self, tier):
        """tie A for the dispatch half: Router.ServeHTTP regenerated into coq/Dispatch/GenServe.v and proved equal
        to Dispatch.serve_http (docs/GenServe.md); a refusal or a broken bridge is a "generated-model" problem."""
        return DispTie.tie()

    def run(self, tier, seed, replay=None):
        try:
            return super().run(tier, seed, replay)
        finally:
            DispTie.restore()   # a refused / unprovable GenServe.v must not break the builds of other checks

    def harness_args(self, tier):
        return ["tier=" + tier, "prop=C08"]

    def extra(self, tier, seed, work, coverage):
        """Dispatch / redirect half of C08 (ignore serves, redirect only for clean non-root paths and never
        for CONNECT, 301/308, Location): the dispatch harness against the Dispatch model and specification."""
        import lib
        return lib.dispatch_extra(work, coverage, tier)


CHECK = C08()
