(* The part of Router.parseRoute (fox.go:662-855) this property needs: where the host ends and how
   many wildcards there are.  The full grammar is property C10's; this scanner keeps parseRoute's
   three states and the rejections that concern braces (missing '/', empty name, unclosed brace,
   illegal character inside a name or after '}', '*' without '{', catch-all in the host) and
   ASSUMES the rest (hostname label syntax, consecutive catch-alls, length limits) is fine: the
   harness only builds patterns from tokens for which that holds. *)
From FoxBase Require Import Bytes.
Open Scope char_scope.

Fixpoint index_slash (l : bytes) : option nat :=      (* strings.IndexByte(url, '/') *)
  match l with
  | [] => None
  | c :: r => if Ascii.eqb c "/" then Some 0 else option_map S (index_slash r)
  end.

Inductive pstate := SDefault | SParam (inparam : bool) | SCatch (inparam : bool).

(* [inhost] is  i < endHost ; the delimiter is '.' in the host and '/' in the path *)
Fixpoint scan (l : bytes) (st : pstate) (inhost : bool) (cnt : nat) : option nat :=
  match l with
  | [] => match st with SDefault => Some cnt | _ => None end
  | c :: r =>
      match st with
      | SParam inp =>
          if Ascii.eqb c "}" then
            if inp then
              match r with
              | [] => scan r SDefault inhost cnt
              | d :: _ => if Ascii.eqb d (if inhost then "." else "/") || Ascii.eqb d "/" then scan r SDefault inhost cnt else None
              end
            else None
          else if Ascii.eqb c (if inhost then "." else "/") || Ascii.eqb c "/" || Ascii.eqb c "*" || Ascii.eqb c "{" then None
          else scan r (SParam true) inhost cnt
      | SCatch inp =>
          if Ascii.eqb c "}" then
            if inp then
              match r with
              | [] => scan r SDefault inhost cnt
              | d :: _ => if Ascii.eqb d "/" then scan r SDefault inhost cnt else None
              end
            else None
          else if Ascii.eqb c "/" || Ascii.eqb c "*" || Ascii.eqb c "{" then None
          else scan r (SCatch true) inhost cnt
      | SDefault =>
          let inhost' := inhost && negb (Ascii.eqb c "/") in
          if Ascii.eqb c "{" then scan r (SParam false) inhost' (S cnt)
          else if Ascii.eqb c "*" then
            if inhost then None
            else match r with
                 | d :: r' => if Ascii.eqb d "{" then scan r' (SCatch false) inhost' (S cnt) else None
                 | [] => None
                 end
          else scan r SDefault inhost' cnt
      end
  end.

(* (paramCnt, endHost) or invalid *)
Definition parse_lite (p : bytes) : option (nat * nat) :=
  match index_slash p with
  | None => None
  | Some endHost =>
      match p with
      | c :: _ => if Ascii.eqb c "." || Ascii.eqb c "-" then None
                  else option_map (fun n => (n, endHost)) (scan p SDefault (negb (Nat.eqb endHost 0)) 0)
      | [] => None
      end
  end.

(* number of '{' *)
Fixpoint count_open (l : bytes) : nat :=
  match l with [] => 0 | c :: r => (if Ascii.eqb c "{" then 1 else 0) + count_open r end.
