(* C19 proofs. *)
From FoxBase Require Import Bytes.
From FoxC19 Require Import GenC19 Types Pattern Spec Model.
From Coq Require Import Lia.

Local Notation length := List.length.

(* ---------- last_sel: the last deciding option wins ---------- *)
Lemma last_sel_app {O V} (sel : O -> option V) l1 l2 d :
  last_sel sel (l1 ++ l2) d = last_sel sel l2 (last_sel sel l1 d).
Proof. revert d; induction l1 as [|o l1 IH]; intros d; simpl; auto. Qed.

Lemma last_sel_none {O V} (sel : O -> option V) l d :
  (forall o, In o l -> sel o = None) -> last_sel sel l d = d.
Proof.
  revert d; induction l as [|o l IH]; intros d Hn; simpl; auto.
  rewrite (Hn o) by (left; reflexivity). apply IH. intros o' Hin. apply Hn. right; assumption.
Qed.

Lemma last_sel_last {O V} (sel : O -> option V) l1 o l2 d v :
  sel o = Some v -> (forall o', In o' l2 -> sel o' = None) -> last_sel sel (l1 ++ o :: l2) d = v.
Proof. intros Ho Hn. rewrite last_sel_app. simpl. rewrite Ho. apply last_sel_none; assumption. Qed.

(* ---------- middleware counting ---------- *)
Lemma add_mws_spec n ms : add_mws n ms = if all_true ms then Some (n + length ms) else None.
Proof.
  unfold all_true. revert n; induction ms as [|b ms IH]; intros n; cbn [add_mws forallb length].
  - f_equal; lia.
  - destruct b; cbn [andb]; [|reflexivity]. rewrite IH. destruct (forallb _ ms); auto. f_equal; lia.
Qed.

(* ---------- router-wide options ---------- *)
Definition router_of (r : router) (opts : list gopt) : router :=
  mkRouter (last_sel g_sel_redirect opts (g_redirect r)) (last_sel g_sel_ignore opts (g_ignore r))
           (last_sel g_sel_resolver opts (g_clientip r)) (last_sel g_sel_nomethod opts (g_noMethod r))
           (last_sel g_sel_autooptions opts (g_autoOptions r)) (sum_map g_nmws opts + g_mws r)
           (last_sel g_sel_maxparams opts (g_maxParams r)).

Lemma apply_glob_spec r o :
  apply_glob r o = if g_valid o then Some (router_of r [o]) else None.
Proof.
  destruct r as [rd ig ci nm ao mw mx]. unfold router_of.
  destruct o as [[|]|[|]|[i|]|ms|sc ms|[|]|[|]|[|]|b|b| |n]; cbn -[Nat.add]; try reflexivity.
  all: try (rewrite add_mws_spec; destruct (all_true ms); cbn -[Nat.add]; [|reflexivity]; do 2 f_equal; lia).
Qed.

Lemma router_of_cons r o opts : router_of (router_of r [o]) opts = router_of r (o :: opts).
Proof. unfold router_of, sum_map; cbn -[Nat.add]. f_equal; try reflexivity. lia. Qed.

Lemma new_from_spec opts : forall r,
  new_from r opts = if forallb g_valid opts then Ok (router_of r opts) else Err ErrInvalidConfig.
Proof.
  induction opts as [|o opts IH]; intros r.
  - destruct r; reflexivity.
  - cbn [new_from forallb]. rewrite apply_glob_spec. destruct (g_valid o); cbn [andb]; auto.
    rewrite IH, router_of_cons. reflexivity.
Qed.

(* both trailing-slash modes are never on together *)
Lemma apply_glob_exclusive r o r' :
  g_redirect r && g_ignore r = false -> apply_glob r o = Some r' -> g_redirect r' && g_ignore r' = false.
Proof.
  destruct r as [rd ig ci nm ao mw mx]. intros Hex Ha.
  destruct o as [[|]|[|]|[i|]|ms|sc ms|[|]|[|]|[|]|b|b| |n]; cbn in *;
    try (inversion Ha; subst; cbn; auto; fail);
    try (destruct (add_mws mw ms); inversion Ha; subst; cbn; auto; fail); try discriminate.
  - inversion Ha; subst; cbn. destruct rd; auto.
Qed.

Lemma new_from_exclusive opts : forall r r',
  g_redirect r && g_ignore r = false -> new_from r opts = Ok r' -> g_redirect r' && g_ignore r' = false.
Proof.
  induction opts as [|o opts IH]; intros r r' Hex Hn; cbn in Hn.
  - inversion Hn; subst; assumption.
  - destruct (apply_glob r o) as [r1|] eqn:Ha; [|discriminate].
    eapply IH; [|eassumption]. eapply apply_glob_exclusive; eassumption.
Qed.

(* ---------- route options ---------- *)
Lemma annot_get_set k k' v l : annot_get k (annot_set k' v l) = if Nat.eqb k' k then v else annot_get k l.
Proof.
  induction l as [|[k0 v0] l IH]; simpl.
  - reflexivity.
  - destruct (Nat.eqb_spec k0 k') as [->|Hne]; simpl.
    + destruct (Nat.eqb k' k); reflexivity.
    + rewrite IH. destruct (Nat.eqb_spec k0 k) as [->|Hne2]; auto.
      destruct (Nat.eqb_spec k' k) as [->|]; [congruence|reflexivity].
Qed.

Definition same_shape (a b : route) : Prop :=
  rt_pattern a = rt_pattern b /\ rt_hostSplit a = rt_hostSplit b /\ rt_psLen a = rt_psLen b /\ rt_handler a = rt_handler b.

Definition ropts_rel (rt : route) (opts : list ropt) (rt' : route) : Prop :=
  same_shape rt' rt /\
  rt_redirect rt' = last_sel r_sel_redirect opts (rt_redirect rt) /\
  rt_ignore rt' = last_sel r_sel_ignore opts (rt_ignore rt) /\
  rt_clientip rt' = last_sel r_sel_resolver opts (rt_clientip rt) /\
  (forall k, annot_get k (rt_annots rt') = last_sel (r_sel_annot k) opts (annot_get k (rt_annots rt))) /\
  rt_mws rt' = sum_map r_nmws opts + rt_mws rt.

Lemma apply_ropt_spec rt o :
  match apply_ropt rt o with
  | None => r_valid o = false
  | Some rt' => r_valid o = true /\ ropts_rel rt [o] rt'
  end.
Proof.
  destruct rt as [pa hs ps rd ig ci an mw hd].
  destruct o as [[|]|[|]|[i|]|[|id|id|id] v|ms]; cbn -[Nat.add];
    try (split; [reflexivity|]; unfold ropts_rel, same_shape; cbn -[Nat.add]; repeat split; auto; fail);
    try reflexivity.
  - split; [reflexivity|]. unfold ropts_rel, same_shape; cbn -[Nat.add]. repeat split; auto.
    intros k. rewrite annot_get_set. destruct (Nat.eqb id k); reflexivity.
  - rewrite add_mws_spec. destruct (all_true ms); cbn -[Nat.add]; [|reflexivity].
    split; [reflexivity|]. unfold ropts_rel, same_shape; cbn -[Nat.add]. repeat split; auto. lia.
Qed.

Lemma apply_ropts_spec opts : forall rt,
  match apply_ropts rt opts with
  | None => forallb r_valid opts = false
  | Some rt' => forallb r_valid opts = true /\ ropts_rel rt opts rt'
  end.
Proof.
  induction opts as [|o opts IH]; intros rt; cbn [apply_ropts forallb].
  - split; [reflexivity|]. unfold ropts_rel, same_shape; cbn. repeat split; auto.
  - pose proof (apply_ropt_spec rt o) as Ho. destruct (apply_ropt rt o) as [rt1|]; [|rewrite Ho; reflexivity].
    destruct Ho as (Hv & (Hs1 & Hr1 & Hi1 & Hc1 & Ha1 & Hm1)). rewrite Hv. cbn [andb].
    pose proof (IH rt1) as Hr. destruct (apply_ropts rt1 opts) as [rt'|]; [|assumption].
    destruct Hr as (Hv' & (Hs & Hr2 & Hi2 & Hc2 & Ha2 & Hm2)). split; [assumption|].
    unfold ropts_rel. cbn [last_sel sum_map fold_right] in *.
    split; [unfold same_shape in *; intuition congruence|].
    rewrite Hr2, Hi2, Hc2, Hm2, Hr1, Hi1, Hc1, Hm1. repeat split; auto; [|unfold sum_map; lia].
    intros k. rewrite Ha2, Ha1. reflexivity.
Qed.

Lemma apply_ropt_exclusive rt o rt' :
  rt_redirect rt && rt_ignore rt = false -> apply_ropt rt o = Some rt' -> rt_redirect rt' && rt_ignore rt' = false.
Proof.
  destruct rt as [pa hs ps rd ig ci an mw hd]. intros Hex Ha.
  destruct o as [[|]|[|]|[i|]|[|id|id|id] v|ms]; cbn in *;
    try (inversion Ha; subst; cbn; auto; fail); try discriminate.
  - inversion Ha; subst; cbn. destruct rd; auto.
  - destruct (add_mws mw ms); inversion Ha; subst; cbn; auto.
Qed.

Lemma apply_ropts_exclusive opts : forall rt rt',
  rt_redirect rt && rt_ignore rt = false -> apply_ropts rt opts = Some rt' -> rt_redirect rt' && rt_ignore rt' = false.
Proof.
  induction opts as [|o opts IH]; intros rt rt' Hex Hn; cbn in Hn.
  - inversion Hn; subst; assumption.
  - destruct (apply_ropt rt o) as [rt1|] eqn:Ha; [|discriminate].
    eapply IH; [|eassumption]. eapply apply_ropt_exclusive; eassumption.
Qed.

(* ---------- patterns ---------- *)
Lemma index_slash_split p i :
  index_slash p = Some i -> i <= length p /\ firstn i p = before_slash p /\ skipn i p = from_slash p.
Proof.
  revert i; induction p as [|c p IH]; intros i Hi; simpl in *; [discriminate|].
  destruct (Ascii.eqb c "/"%char).
  - inversion Hi; subst. simpl. repeat split; auto. lia.
  - destruct (index_slash p) as [j|]; [|discriminate]. inversion Hi; subst.
    destruct (IH j eq_refl) as (H1 & H2 & H3). simpl. repeat split; [lia|congruence|assumption].
Qed.

Lemma before_from_slash p : before_slash p ++ from_slash p = p.
Proof. induction p as [|c p IH]; simpl; auto. destruct (Ascii.eqb c "/"%char); simpl; congruence. Qed.

Lemma scan_count n : forall l, length l <= n -> forall st inhost cnt m,
  scan l st inhost cnt = Some m -> m = cnt + count_open l.
Proof.
  induction n as [|n IH]; intros l Hlen st inhost cnt m Hs.
  - destruct l; [|simpl in Hlen; lia]. simpl in *. destruct st; inversion Hs; lia.
  - destruct l as [|c r]; [simpl in *; destruct st; inversion Hs; lia|].
    simpl in Hlen. assert (Hr : length r <= n) by lia.
    cbn [scan count_open] in *. destruct st as [|inp|inp].
    + destruct (Ascii.eqb c "{"%char) eqn:Ec.
      * apply (IH r Hr) in Hs. lia.
      * destruct (Ascii.eqb c "*"%char) eqn:Es.
        -- destruct inhost; [discriminate|]. destruct r as [|d r']; [discriminate|].
           destruct (Ascii.eqb d "{"%char) eqn:Ed; [|discriminate].
           simpl in Hr. apply (IH r') in Hs; [|lia]. cbn [count_open]. rewrite Ed. lia.
        -- apply (IH r Hr) in Hs. lia.
    + destruct (Ascii.eqb c "}"%char) eqn:Ec.
      * destruct inp; [|discriminate].
        assert (Ho : Ascii.eqb c "{"%char = false) by (apply Ascii.eqb_eq in Ec; subst; reflexivity).
        rewrite Ho. destruct r as [|d r'].
        -- apply (IH [] Hr) in Hs. lia.
        -- destruct (_ || _); [|discriminate]. apply (IH _ Hr) in Hs. lia.
      * destruct (Ascii.eqb c "{"%char) eqn:Eo.
        -- rewrite !orb_true_r in Hs. discriminate.
        -- destruct (_ || _); [discriminate|]. apply (IH r Hr) in Hs. lia.
    + destruct (Ascii.eqb c "}"%char) eqn:Ec.
      * destruct inp; [|discriminate].
        assert (Ho : Ascii.eqb c "{"%char = false) by (apply Ascii.eqb_eq in Ec; subst; reflexivity).
        rewrite Ho. destruct r as [|d r'].
        -- apply (IH [] Hr) in Hs. lia.
        -- destruct (Ascii.eqb d "/"%char); [|discriminate]. apply (IH _ Hr) in Hs. lia.
      * destruct (Ascii.eqb c "{"%char) eqn:Eo.
        -- rewrite !orb_true_r in Hs. discriminate.
        -- destruct (_ || _); [discriminate|]. apply (IH r Hr) in Hs. lia.
Qed.

Lemma parse_lite_spec p n e :
  parse_lite p = Some (n, e) -> n = count_open p /\ index_slash p = Some e.
Proof.
  unfold parse_lite. destruct (index_slash p) as [i|]; [|discriminate]. destruct p as [|c r]; [discriminate|].
  destruct (_ || _); [discriminate|].
  destruct (scan (c :: r) SDefault (negb (Nat.eqb i 0)) 0) as [m|] eqn:Hs; [|discriminate].
  intros Hp; inversion Hp; subst. apply (scan_count _ _ (le_n _)) in Hs. auto.
Qed.

(* ---------- NewRoute ---------- *)
(* well-formed and within the router's wildcard limit *)
Definition accepts (r : router) (p : bytes) : option (nat * nat) :=
  match parse_lite p with
  | Some (n, e) => if N.ltb (g_maxParams r) (N.of_nat n) then None else Some (n, e)
  | None => None
  end.

Lemma accepts_parse r p n e : accepts r p = Some (n, e) -> parse_lite p = Some (n, e).
Proof. unfold accepts. destruct (parse_lite p) as [[n' e']|]; [|discriminate]. destruct (N.ltb _ _); congruence. Qed.

Lemma accepts_valid g p :
  valid_pattern g p = match accepts (router_of router0 g) p with Some _ => true | None => false end.
Proof.
  unfold valid_pattern, accepts. destruct (parse_lite p) as [[n e]|] eqn:Hp; [|reflexivity].
  destruct (parse_lite_spec _ _ _ Hp) as (-> & _).
  change (g_maxParams (router_of router0 g)) with (max_params g).
  rewrite N.leb_antisym. destruct (N.ltb _ _); reflexivity.
Qed.

Definition base_route (r : router) (p : bytes) (n e : nat) (h : bool) : route :=
  mkRoute p e n (g_redirect r) (g_ignore r) (g_clientip r) [] (g_mws r) h.

Lemma new_route_spec chk r p h opts :
  match new_route chk r p h opts with
  | Panic => False
  | Err e =>
      (e = ErrInvalidRoute /\ ((chk = true /\ h = false) \/ accepts r p = None)) \/
      (e = ErrInvalidConfig /\ (chk = false \/ h = true) /\ accepts r p <> None /\ forallb r_valid opts = false)
  | Ok rt =>
      (chk = false \/ h = true) /\ forallb r_valid opts = true /\
      exists n e, accepts r p = Some (n, e) /\ ropts_rel (base_route r p n e h) opts rt
  end.
Proof.
  unfold new_route, accepts. destruct (chk && negb h) eqn:Hc.
  - left. split; auto. left. destruct chk, h; cbn in Hc; try discriminate; auto.
  - assert (Hch : chk = false \/ h = true) by (destruct chk, h; cbn in Hc; try discriminate; auto).
    destruct (parse_lite p) as [[n e]|] eqn:Hp; [|left; auto].
    destruct (N.ltb (g_maxParams r) (N.of_nat n)); [left; auto|].
    fold (base_route r p n e h). pose proof (apply_ropts_spec opts (base_route r p n e h)) as Ho.
    destruct (apply_ropts (base_route r p n e h) opts) as [rt|].
    + destruct Ho as (Hv & Hrel). repeat split; auto. exists n, e. auto.
    + right. repeat split; auto. discriminate.
Qed.

Lemma snapshot_of_created g r p n e h opts rt :
  parse_lite p = Some (n, e) -> ropts_rel (base_route r p n e h) opts rt ->
  r = router_of router0 g ->
  snapshot_of rt = Ok (spec_snapshot g (mkSRoute p opts)).
Proof.
  intros Hp (Hs & Hr & Hi & Hc & Ha & Hm) Hrt. destruct Hs as (S1 & S2 & S3 & S4). cbn in S1, S2, S3, S4.
  destruct (parse_lite_spec _ _ _ Hp) as (Hn & He). destruct (index_slash_split _ _ He) as (Hle & Hf & Hk).
  unfold snapshot_of, hostname, path. rewrite S1, S2.
  apply Nat.leb_le in Hle. rewrite Hle, Hf, Hk. unfold spec_snapshot, eff_redirect, eff_ignore, eff_resolver, client_ip_resolver.
  cbn [sr_pattern sr_opts]. rewrite S3, Hr, Hi, Hc, Hm, Hn. subst r. cbn -[Nat.add].
  f_equal. f_equal. lia.
Qed.

(* ---------- whole runs ---------- *)
Definition rel1 (g : list gopt) (a : nat * route) (b : nat * sroute) : Prop :=
  fst a = fst b /\
  snapshot_of (snd a) = Ok (spec_snapshot g (snd b)) /\
  rt_redirect (snd a) = eff_redirect g (snd b) /\ rt_ignore (snd a) = eff_ignore g (snd b) /\
  rt_clientip (snd a) = eff_resolver g (snd b) /\
  (forall k, annot_get k (rt_annots (snd a)) = last_sel (r_sel_annot k) (sr_opts (snd b)) None) /\
  rt_handler (snd a) = true.

Lemma lookup_rel g tab stab key :
  Forall2 (rel1 g) tab stab ->
  match lookup key tab, slookup key stab with
  | Some rt, Some srt => rel1 g (key, rt) (key, srt)
  | None, None => True
  | _, _ => False
  end.
Proof.
  induction 1 as [|[k rt] [k' srt] tab stab Hr _ IH]; simpl; auto.
  pose proof Hr as (Hk & _). cbn in Hk; subst k'. destruct (Nat.eqb_spec k key) as [->|]; auto.
Qed.

Lemma replace_rel g tab stab key rt srt :
  Forall2 (rel1 g) tab stab -> rel1 g (key, rt) (key, srt) ->
  Forall2 (rel1 g) (replace key rt tab) (sreplace key srt stab).
Proof.
  induction 1 as [|[k rt0] [k' v] tab stab Hr Hrest IH]; intros Hok; simpl; auto.
  pose proof Hr as (Hk & _). cbn in Hk; subst k'. destruct (Nat.eqb_spec k key) as [->|]; constructor; auto.
Qed.

(* an operation the code as it is mishandles: NewRoute with a nil handler *)
Definition nil_newroute (o : op) : bool :=
  match o with OCreate (VNewRoute | VOnly) _ false _ => true | _ => false end.

Lemma created_rel g r p n e opts rt key :
  r = router_of router0 g -> parse_lite p = Some (n, e) -> ropts_rel (base_route r p n e true) opts rt ->
  rel1 g (key, rt) (key, mkSRoute p opts).
Proof.
  intros Hr Hp Hrel. pose proof (snapshot_of_created g r p n e true opts rt Hp Hrel Hr) as Hsn.
  destruct Hrel as ((_ & _ & _ & S4) & Hrd & Hi & Hc & Ha & Hm).
  unfold rel1; cbn [fst snd]. subst r.
  repeat split; auto.
Qed.

Lemma run_op_spec chk g r pats tab stab o :
  r = router_of router0 g -> Forall2 (rel1 g) tab stab ->
  chk = true \/ nil_newroute o = false ->
  let '(tab', m) := run_op chk r pats tab o in
  let '(stab', b) := spec_op g pats stab o in
  Forall2 (rel1 g) tab' stab' /\ m = b.
Proof.
  intros Hr Htab Hg. destruct o as [v key h opts|key p|key k|key|e key adj mw]; cbn [run_op spec_op].
  - (* create *)
    unfold create. set (p := nth key pats []).
    pose proof (new_route_spec chk r p h opts) as Hn.
    pose proof (lookup_rel g _ _ key Htab) as Hl.
    rewrite (accepts_valid g p), <- Hr.
    destruct h; cbn [negb].
    + (* non-nil handler *)
      assert (Hcommon :
        match new_route chk r p true opts with
        | Err e => (if match accepts r p with Some _ => true | None => false end
                    then if forallb r_valid opts then False else e = ErrInvalidConfig else e = ErrInvalidRoute)
        | Panic => False
        | Ok rt => match accepts r p with Some _ => True | None => False end /\ forallb r_valid opts = true /\
                   rel1 g (key, rt) (key, mkSRoute p opts)
        end).
      { destruct (new_route chk r p true opts) as [rt|e|]; [| |contradiction].
        - destruct Hn as (_ & Hv & n & e & Hp & Hrel). rewrite Hp. split; [exact I|]. split; [assumption|].
          eapply created_rel; eauto using accepts_parse.
        - destruct Hn as [(-> & [(_ & Hf)|Hp])|(-> & _ & Hp & Hv)]; [discriminate|rewrite Hp; reflexivity|].
          destruct (accepts r p); [|congruence]. rewrite Hv. reflexivity. }
      destruct v.
      * destruct (new_route chk r p true opts) as [rt|e|]; [| |contradiction].
        -- destruct Hcommon as (Hp & Hv & Hrel). destruct (accepts r p); [|contradiction]. cbn [negb]. rewrite Hv. cbn [negb].
           destruct (lookup key tab) as [rt0|], (slookup key stab) as [srt0|]; try contradiction.
           ++ split; auto.
           ++ pose proof Hrel as (_ & Hsn & _). cbn [snd] in Hsn. rewrite Hsn. split; [constructor; auto|reflexivity].
        -- destruct (accepts r p); cbn [negb]; [|subst e; auto]. destruct (forallb r_valid opts); [contradiction|]. subst e. cbn [negb]. auto.
      * destruct (new_route chk r p true opts) as [rt|e|]; [| |contradiction].
        -- destruct Hcommon as (Hp & Hv & Hrel). destruct (accepts r p); [|contradiction]. cbn [negb]. rewrite Hv. cbn [negb].
           destruct (lookup key tab) as [rt0|], (slookup key stab) as [srt0|]; try contradiction.
           ++ pose proof Hrel as (_ & Hsn & _). cbn [snd] in Hsn. rewrite Hsn. split; [apply replace_rel; auto|reflexivity].
           ++ split; auto.
        -- destruct (accepts r p); cbn [negb]; [|subst e; auto]. destruct (forallb r_valid opts); [contradiction|]. subst e. cbn [negb]. auto.
      * destruct (new_route chk r p true opts) as [rt|e|]; [| |contradiction].
        -- destruct Hcommon as (Hp & Hv & Hrel). destruct (accepts r p); [|contradiction]. cbn [negb]. rewrite Hv. cbn [negb].
           destruct (lookup key tab) as [rt0|], (slookup key stab) as [srt0|]; try contradiction.
           ++ split; auto.
           ++ pose proof Hrel as (_ & Hsn & _). cbn [snd] in Hsn. rewrite Hsn. split; [constructor; auto|reflexivity].
        -- destruct (accepts r p); cbn [negb]; [|subst e; auto]. destruct (forallb r_valid opts); [contradiction|]. subst e. cbn [negb]. auto.
      * (* NewRoute alone *)
        destruct (new_route chk r p true opts) as [rt|e|]; [| |contradiction].
        -- destruct Hcommon as (Hp & Hv & Hrel). destruct (accepts r p); [|contradiction]. cbn [negb]. rewrite Hv. cbn [negb].
           pose proof Hrel as (_ & Hsn & _). cbn [snd] in Hsn. rewrite Hsn. split; auto.
        -- destruct (accepts r p); cbn [negb]; [|subst e; auto]. destruct (forallb r_valid opts); [contradiction|]. subst e. cbn [negb]. auto.
    + (* nil handler *)
      destruct v; auto; (destruct Hg as [->|Hf]; [|discriminate]); unfold new_route; cbn; auto.
  - (* probe *)
    split; auto. pose proof (lookup_rel g _ _ key Htab) as Hl.
    destruct (lookup key tab) as [rt|], (slookup key stab) as [srt|]; try contradiction.
    + destruct Hl as (_ & Hsn & Hrd & Hi & Hc & _ & Hh). cbn [snd] in *.
      assert (Hpat : rt_pattern rt = sr_pattern srt).
      { unfold snapshot_of in Hsn. destruct (hostname rt), (path rt); try discriminate.
        inversion Hsn. reflexivity. }
      rewrite Hrd, Hi, Hh. subst r. cbn [router_of g_noMethod g_autoOptions router0].
      set (k := dispatch_kind _ _ _ _ p). unfold view_of, clone, clone_with, client_ip. cbn [cx_route].
      destruct k; cbn [option_map router_of g_clientip router0]; rewrite ?Hc, ?Hpat; reflexivity.
    + subst r. unfold view_of, clone, clone_with, client_ip. cbn.
      destruct (last_sel g_sel_resolver g RNone); reflexivity.
  - (* Annotation *)
    split; auto. pose proof (lookup_rel g _ _ key Htab) as Hl.
    destruct (lookup key tab) as [rt|], (slookup key stab) as [srt|]; try contradiction; auto.
    destruct Hl as (_ & _ & _ & _ & _ & Ha & _). cbn [snd] in Ha. rewrite Ha. reflexivity.
  - (* accessors *)
    split; auto. pose proof (lookup_rel g _ _ key Htab) as Hl.
    destruct (lookup key tab) as [rt|], (slookup key stab) as [srt|]; try contradiction; auto.
    destruct Hl as (_ & Hsn & _). cbn [snd] in Hsn. rewrite Hsn. reflexivity.
  - (* Lookup + Handle / HandleMiddleware *)
    split; auto. pose proof (lookup_rel g _ _ key Htab) as Hl.
    destruct (lookup key tab) as [rt|], (slookup key stab) as [srt|]; try contradiction; auto.
    destruct Hl as (_ & Hsn & _ & _ & Hc & _ & Hh). cbn [snd] in *.
    assert (Hpat : rt_pattern rt = sr_pattern srt).
    { unfold snapshot_of in Hsn. destruct (hostname rt), (path rt); try discriminate. inversion Hsn. reflexivity. }
    rewrite Hh. unfold view_of, clone, clone_with, client_ip. cbn [cx_route option_map]. rewrite Hc, Hpat. reflexivity.
Qed.

Lemma run_ops_spec chk g r pats ops : forall tab stab,
  r = router_of router0 g -> Forall2 (rel1 g) tab stab ->
  chk = true \/ existsb nil_newroute ops = false ->
  run_ops chk r pats tab ops = spec_ops g pats stab ops.
Proof.
  induction ops as [|o ops IH]; intros tab stab Hr Htab Hg; cbn [run_ops spec_ops]; auto.
  assert (Hg1 : chk = true \/ nil_newroute o = false).
  { destruct Hg as [->|Hg]; auto. cbn in Hg. apply orb_false_iff in Hg. tauto. }
  assert (Hg2 : chk = true \/ existsb nil_newroute ops = false).
  { destruct Hg as [->|Hg]; auto. cbn in Hg. apply orb_false_iff in Hg. tauto. }
  pose proof (run_op_spec chk g r pats tab stab o Hr Htab Hg1) as Hop.
  destruct (run_op chk r pats tab o) as [tab' m]. destruct (spec_op g pats stab o) as [stab' b].
  destruct Hop as (Htab' & ->). f_equal. apply IH; auto.
Qed.

Theorem options_exact_gen chk g pats ops :
  chk = true \/ existsb nil_newroute ops = false ->
  run_model chk g pats ops = spec_run g pats ops.
Proof.
  intros Hg. unfold run_model, spec_run, new. rewrite new_from_spec.
  destruct (forallb g_valid g); cbn [negb]; auto.
  f_equal. apply run_ops_spec; auto.
Qed.

(* ================= named clauses ================= *)

Theorem router_config_exact_l g r : new g = Ok r -> forallb g_valid g = true /\ r = router_of router0 g.
Proof.
  unfold new. rewrite new_from_spec. destruct (forallb g_valid g); intros Hn; inversion Hn; auto.
Qed.

Theorem route_config_exact_l chk r p h opts rt :
  new_route chk r p h opts = Ok rt ->
  rt_pattern rt = p /\ rt_handler rt = h /\
  rt_redirect rt = last_sel r_sel_redirect opts (g_redirect r) /\
  rt_ignore rt = last_sel r_sel_ignore opts (g_ignore r) /\
  rt_clientip rt = last_sel r_sel_resolver opts (g_clientip r) /\
  (forall k, annot_get k (rt_annots rt) = last_sel (r_sel_annot k) opts None) /\
  rt_mws rt = sum_map r_nmws opts + g_mws r.
Proof.
  intros Hn. pose proof (new_route_spec chk r p h opts) as Hs. rewrite Hn in Hs.
  destruct Hs as (_ & _ & n & e & _ & ((S1 & _ & _ & S4) & Hr & Hi & Hc & Ha & Hm)). cbn in *. auto 10.
Qed.

Theorem route_inherits_l chk r p h opts rt :
  new_route chk r p h opts = Ok rt ->
  ((forall o, In o opts -> r_sel_redirect o = None) -> rt_redirect rt = g_redirect r) /\
  ((forall o, In o opts -> r_sel_ignore o = None) -> rt_ignore rt = g_ignore r) /\
  ((forall o, In o opts -> r_sel_resolver o = None) -> rt_clientip rt = g_clientip r) /\
  ((forall o, In o opts -> r_nmws o = 0) -> rt_mws rt = g_mws r).
Proof.
  intros Hn. destruct (route_config_exact_l _ _ _ _ _ _ Hn) as (_ & _ & Hr & Hi & Hc & _ & Hm).
  repeat split; intros Hnone.
  - rewrite Hr. apply last_sel_none; assumption.
  - rewrite Hi. apply last_sel_none; assumption.
  - rewrite Hc. apply last_sel_none; assumption.
  - rewrite Hm. assert (Hz : sum_map r_nmws opts = 0); [|lia].
    clear -Hnone. induction opts as [|o opts IH]; cbn; auto. rewrite (Hnone o) by (left; reflexivity).
    apply IH. intros o' Hin. apply Hnone. right; assumption.
Qed.

Theorem last_option_wins_route_l chk r p h l1 o l2 rt :
  new_route chk r p h (l1 ++ o :: l2) = Ok rt ->
  (forall v, r_sel_redirect o = Some v -> (forall o', In o' l2 -> r_sel_redirect o' = None) -> rt_redirect rt = v) /\
  (forall v, r_sel_ignore o = Some v -> (forall o', In o' l2 -> r_sel_ignore o' = None) -> rt_ignore rt = v) /\
  (forall v, r_sel_resolver o = Some v -> (forall o', In o' l2 -> r_sel_resolver o' = None) -> rt_clientip rt = v) /\
  (forall k v, r_sel_annot k o = Some v -> (forall o', In o' l2 -> r_sel_annot k o' = None) -> annot_get k (rt_annots rt) = v).
Proof.
  intros Hn. destruct (route_config_exact_l _ _ _ _ _ _ Hn) as (_ & _ & Hr & Hi & Hc & Ha & _).
  repeat split; intros.
  - rewrite Hr. apply last_sel_last; assumption.
  - rewrite Hi. apply last_sel_last; assumption.
  - rewrite Hc. apply last_sel_last; assumption.
  - rewrite Ha. apply last_sel_last; assumption.
Qed.

Theorem last_option_wins_router_l l1 o l2 r :
  new (l1 ++ o :: l2) = Ok r ->
  (forall v, g_sel_redirect o = Some v -> (forall o', In o' l2 -> g_sel_redirect o' = None) -> g_redirect r = v) /\
  (forall v, g_sel_ignore o = Some v -> (forall o', In o' l2 -> g_sel_ignore o' = None) -> g_ignore r = v) /\
  (forall v, g_sel_resolver o = Some v -> (forall o', In o' l2 -> g_sel_resolver o' = None) -> g_clientip r = v) /\
  (forall v, g_sel_nomethod o = Some v -> (forall o', In o' l2 -> g_sel_nomethod o' = None) -> g_noMethod r = v) /\
  (forall v, g_sel_autooptions o = Some v -> (forall o', In o' l2 -> g_sel_autooptions o' = None) -> g_autoOptions r = v).
Proof.
  intros Hn. destruct (router_config_exact_l _ _ Hn) as (_ & ->). unfold router_of; cbn [g_redirect g_ignore g_clientip g_noMethod g_autoOptions].
  repeat split; intros; apply last_sel_last; assumption.
Qed.

Theorem ts_modes_exclusive_l g r :
  new g = Ok r ->
  g_redirect r && g_ignore r = false /\
  forall chk p h opts rt, new_route chk r p h opts = Ok rt -> rt_redirect rt && rt_ignore rt = false.
Proof.
  intros Hn. assert (Hex : g_redirect r && g_ignore r = false) by (eapply new_from_exclusive; [|exact Hn]; reflexivity).
  split; [assumption|]. intros chk p h opts rt Hr. unfold new_route in Hr.
  destruct (chk && negb h); [discriminate|]. destruct (parse_lite p) as [[n e]|]; [|discriminate].
  destruct (N.ltb _ _); [discriminate|].
  destruct (apply_ropts _ opts) as [rt'|] eqn:Ha; [|discriminate]. inversion Hr; subst rt'.
  eapply apply_ropts_exclusive; [|exact Ha]. exact Hex.
Qed.

Theorem nil_resolver_means_none_l chk r p h l1 l2 rt :
  new_route chk r p h (l1 ++ OClientIP None :: l2) = Ok rt ->
  (forall o, In o l2 -> r_sel_resolver o = None) ->
  client_ip_resolver rt = None /\ client_ip r (Some rt) = CIPNone.
Proof.
  intros Hn Hnone. destruct (last_option_wins_route_l _ _ _ _ _ _ _ _ Hn) as (_ & _ & Hc & _).
  specialize (Hc RNone eq_refl Hnone). unfold client_ip_resolver, client_ip. rewrite Hc. auto.
Qed.

Theorem hostname_path_pattern_l chk r p h opts rt :
  new_route chk r p h opts = Ok rt ->
  exists hn pa, hostname rt = Some hn /\ path rt = Some pa /\ hn ++ pa = rt_pattern rt /\
                hn = before_slash (rt_pattern rt) /\ pa = from_slash (rt_pattern rt).
Proof.
  intros Hn. pose proof (new_route_spec chk r p h opts) as Hs. rewrite Hn in Hs.
  destruct Hs as (_ & _ & n & e & Hp & ((S1 & S2 & _) & _)). cbn in S1, S2.
  destruct (parse_lite_spec _ _ _ (accepts_parse _ _ _ _ Hp)) as (_ & He). destruct (index_slash_split _ _ He) as (Hle & Hf & Hk).
  unfold hostname, path. rewrite S1, S2. apply Nat.leb_le in Hle. rewrite Hle.
  exists (firstn e p), (skipn e p). rewrite firstn_skipn, Hf, Hk. auto.
Qed.

Theorem paramslen_counts_wildcards_l chk r p h opts rt :
  new_route chk r p h opts = Ok rt -> rt_psLen rt = count_open (rt_pattern rt).
Proof.
  intros Hn. pose proof (new_route_spec chk r p h opts) as Hs. rewrite Hn in Hs.
  destruct Hs as (_ & _ & n & e & Hp & ((S1 & _ & S3 & _) & _)). cbn in S1, S3.
  destruct (parse_lite_spec _ _ _ (accepts_parse _ _ _ _ Hp)) as (Hc & _). congruence.
Qed.

Theorem clientip_selection_l chk r pats tab key rt p :
  lookup key tab = Some rt -> rt_handler rt = true ->
  let k := dispatch_kind (rt_ignore rt) (rt_redirect rt) (g_noMethod r) (g_autoOptions r) p in
  let v := match k with
           | KRoute => (res_cip (rt_clientip rt), Some (rt_pattern rt))
           | _ => (res_cip (g_clientip r), None)
           end in
  run_op chk r pats tab (OProbe key p) = (tab, ObsProbe k v v v (match k with KRoute => Some v | _ => None end)).
Proof.
  intros Hl Hh k v. cbn [run_op]. rewrite Hl. fold k. unfold v, view_of, clone, clone_with, client_ip, res_cip. cbn [cx_route].
  rewrite Hh. destruct k; reflexivity.
Qed.

(* the secondary entry points: a route found by Lookup (directly or slash-adjusted) and run on the returned context *)
Theorem lookup_selection_l chk r pats tab e key rt adj mw :
  lookup key tab = Some rt -> rt_handler rt = true ->
  let v := (res_cip (rt_clientip rt), Some (rt_pattern rt)) in
  run_op chk r pats tab (OLookup e key adj mw) = (tab, ObsLookup adj v v v (Some v)).
Proof.
  intros Hl Hh v. cbn [run_op]. rewrite Hl, Hh. unfold v, view_of, clone, clone_with, client_ip, res_cip. reflexivity.
Qed.

(* copies of a context show what the context shows *)
Theorem clone_preserves_view_l r c : view_of r (clone c) = view_of r c /\ view_of r (clone_with c) = view_of r c.
Proof. split; reflexivity. Qed.

(* ---- invalid options ---- *)
Theorem invalid_global_options_rejected_l g :
  new g <> Panic /\ (forallb g_valid g = false -> new g = Err ErrInvalidConfig).
Proof.
  unfold new. rewrite new_from_spec. destruct (forallb g_valid g); split; try discriminate; auto.
Qed.

Theorem invalid_route_options_rejected_l chk r p h opts :
  new_route chk r p h opts <> Panic /\
  (h = true -> accepts r p <> None -> forallb r_valid opts = false -> new_route chk r p h opts = Err ErrInvalidConfig) /\
  (h = true -> accepts r p = None -> new_route chk r p h opts = Err ErrInvalidRoute).
Proof.
  pose proof (new_route_spec chk r p h opts) as Hs.
  destruct (new_route chk r p h opts) as [rt|e|]; [| |contradiction].
  - split; [discriminate|]. destruct Hs as (_ & Hv & n & e & Hp & _). split; intros; congruence.
  - split; [discriminate|]. split.
    + intros -> Hp Hv. destruct Hs as [(-> & [(_ & Hf)|Hn])|(-> & _)]; [discriminate|contradiction|reflexivity].
    + intros -> Hp. destruct Hs as [(-> & _)|(-> & _ & Hn & _)]; [reflexivity|contradiction].
Qed.

Theorem nil_handler_rejected_handle_update_l chk r pats t v key opts :
  v = VHandle \/ v = VUpdate -> create chk r pats t v key false opts = (t, ObsErr (Some ErrInvalidRoute) None).
Proof. intros [->| ->]; reflexivity. Qed.

(* more wildcards than the limit: rejected; and an accepted pattern has at most that many *)
Theorem too_many_params_rejected_l chk r p h opts :
  (forall n e, parse_lite p = Some (n, e) -> N.lt (g_maxParams r) (N.of_nat (count_open p)) ->
               new_route chk r p h opts = Err ErrInvalidRoute) /\
  (forall rt, new_route chk r p h opts = Ok rt -> N.le (N.of_nat (rt_psLen rt)) (g_maxParams r)).
Proof.
  split.
  - intros n e Hp Hlt. destruct (parse_lite_spec _ _ _ Hp) as (Hn & _). unfold new_route.
    destruct (chk && negb h); [reflexivity|]. rewrite Hp. rewrite <- Hn in Hlt. apply N.ltb_lt in Hlt. rewrite Hlt. reflexivity.
  - intros rt Hn. pose proof (new_route_spec chk r p h opts) as Hs. rewrite Hn in Hs.
    destruct Hs as (_ & _ & n & e & Hp & ((_ & _ & S3 & _) & _)). cbn in S3. rewrite S3.
    unfold accepts in Hp. destruct (parse_lite p) as [[n' e']|]; [|discriminate].
    destruct (N.ltb (g_maxParams r) (N.of_nat n')) eqn:Hl; [discriminate|]. inversion Hp; subst. apply N.ltb_ge in Hl. assumption.
Qed.

Lemma spec_ops_no_panic g pats ops : forall t, ~ In ObsPanic (spec_ops g pats t ops).
Proof.
  induction ops as [|o ops IH]; intros t; cbn [spec_ops]; [intros []|].
  destruct (spec_op g pats t o) as [t' b] eqn:Ho. intros [Hb|Hin]; [|eapply IH; eassumption].
  subst b. destruct o as [v key h opts|key p|key k|key|e key adj mw]; cbn [spec_op] in Ho.
  - destruct (negb h); [inversion Ho|].
    destruct (negb (valid_pattern _ _)); [inversion Ho|]. destruct (negb (forallb r_valid opts)); [inversion Ho|].
    destruct v, (slookup key t); inversion Ho.
  - destruct (slookup key t); inversion Ho.
  - destruct (slookup key t); inversion Ho.
  - inversion Ho.
  - destruct (slookup key t); inversion Ho.
Qed.

Theorem never_panic_partial_l chk g pats ops :
  chk = true \/ existsb nil_newroute ops = false ->
  run_model chk g pats ops <> RPanic /\
  forall info os, run_model chk g pats ops = RRun info os -> ~ In ObsPanic os.
Proof.
  intros Hg. rewrite (options_exact_gen chk g pats ops Hg). unfold spec_run.
  destruct (negb (forallb g_valid g)); split; try discriminate.
  intros info os Hr. inversion Hr; subst. apply spec_ops_no_panic.
Qed.

(* the code as it is: NewRoute accepts a nil handler, HandleRoute registers the route, the request panics *)
Definition w_pats : list bytes := [S2B "/a"].
Definition w_ops : list op := [OCreate VNewRoute 0 false []; OProbe 0 PExact].

Theorem nil_handler_newroute_refuted_l :
  newroute_checks_nil_handler = false ->
  (exists rt, new_route newroute_checks_nil_handler router0 (S2B "/a") false [] = Ok rt) /\
  exists info s, run_now [] w_pats w_ops = RRun info [ObsErr None (Some s); ObsPanic].
Proof.
  intros Hf. unfold run_now. rewrite Hf. split; eexists; [|eexists]; vm_compute; reflexivity.
Qed.

Theorem nil_handler_newroute_if_guarded_l :
  newroute_checks_nil_handler = true ->
  (forall r p opts, new_route newroute_checks_nil_handler r p false opts = Err ErrInvalidRoute) /\
  (forall g pats ops, run_now g pats ops = spec_run g pats ops).
Proof.
  intros Ht. split.
  - intros r p opts. unfold new_route. rewrite Ht. reflexivity.
  - intros g pats ops. unfold run_now. apply options_exact_gen. left; assumption.
Qed.

Theorem annotation_last_value_l chk r p h l1 l2 k v rt :
  new_route chk r p h (l1 ++ OAnnot (KHash k) v :: l2) = Ok rt ->
  (forall o, In o l2 -> r_sel_annot k o = None) ->
  annot_get k (rt_annots rt) = v.
Proof.
  intros Hn Hnone. destruct (last_option_wins_route_l _ _ _ _ _ _ _ _ Hn) as (_ & _ & _ & Ha).
  apply Ha; [|assumption]. cbn. rewrite Nat.eqb_refl. reflexivity.
Qed.
