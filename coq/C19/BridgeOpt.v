(* C19, tie A: the hand-written model of the options (Model.apply_glob / apply_ropt / new / new_route) is EQUAL, for
   every option value and every record, to the functions that harness/cmd/optgen regenerates from options.go and
   fox.go on every run (GenOpt.v).  One lemma per option constructor and side, so that a change in one closure breaks
   the lemma that carries its name. *)
From FoxBase Require Import Bytes.
From FoxC19 Require Import GenC19 Types Pattern Spec Model Proofs OptSem GenOpt.

(* ---- dispatch: which generated function an option value of the model stands for ---- *)
Definition gen_apply_glob (o : gopt) (r : router) : option router :=
  match o with
  | GRedirectTS b => gen_WithRedirectTrailingSlash_router b r
  | GIgnoreTS b => gen_WithIgnoreTrailingSlash_router b r
  | GClientIP x => gen_WithClientIPResolver_router x r
  | GMw ms => gen_WithMiddleware_router ms r
  | GMwFor scope ms => gen_WithMiddlewareFor_router scope ms r
  | GNoRouteH h => gen_WithNoRouteHandler_router h r
  | GNoMethodH h => gen_WithNoMethodHandler_router h r
  | GOptionsH h => gen_WithOptionsHandler_router h r
  | GNoMethod b => gen_WithNoMethod_router b r
  | GAutoOptions b => gen_WithAutoOptions_router b r
  | GDefault => gen_DefaultOptions_router r
  | GMaxParams n => gen_WithMaxRouteParams_router n r
  end.

Definition gen_apply_ropt (o : ropt) (rt : route) : option route :=
  match o with
  | ORedirectTS b => gen_WithRedirectTrailingSlash_route b rt
  | OIgnoreTS b => gen_WithIgnoreTrailingSlash_route b rt
  | OClientIP x => gen_WithClientIPResolver_route x rt
  | OAnnot k v => gen_WithAnnotation_route k v rt
  | OMw ms => gen_WithMiddleware_route ms rt
  end.

(* fox.New / Router.NewRoute as generated, with the generated options and Model.v's view of parseRoute plugged in *)
Definition gen_new (opts : list gopt) : outcome router := gen_New gen_apply_glob opts.
Definition gen_new_route (r : router) (p : bytes) (h : bool) (opts : list ropt) : outcome route :=
  gen_NewRoute model_parseRoute gen_apply_ropt r p h opts.

(* ---- router side, one lemma per constructor ---- *)
Lemma WithRedirectTrailingSlash_router_eq : forall b r, gen_WithRedirectTrailingSlash_router b r = apply_glob r (GRedirectTS b).
Proof. intros b [[] [] a3 [] [] a6 a7]; destruct b; reflexivity. Qed.

Lemma WithIgnoreTrailingSlash_router_eq : forall b r, gen_WithIgnoreTrailingSlash_router b r = apply_glob r (GIgnoreTS b).
Proof. intros b [[] [] a3 [] [] a6 a7]; destruct b; reflexivity. Qed.

Lemma WithClientIPResolver_router_eq : forall x r, gen_WithClientIPResolver_router x r = apply_glob r (GClientIP x).
Proof. intros x [a1 a2 a3 a4 a5 a6 a7]; destruct x; reflexivity. Qed.

Lemma WithMiddleware_router_loop : forall ms r,
  gen_WithMiddleware_router_loop1 ms r = option_map (fun n => set_g_mws n r) (add_mws (g_mws r) ms).
Proof.
  induction ms as [|m ms IH]; intros [a1 a2 a3 a4 a5 a6 a7]; [reflexivity|].
  destruct m; [|reflexivity].
  cbn [gen_WithMiddleware_router_loop1 go_fn_is_nil negb add_mws g_mws]. rewrite IH. reflexivity.
Qed.

Lemma WithMiddleware_router_eq : forall ms r, gen_WithMiddleware_router ms r = apply_glob r (GMw ms).
Proof.
  intros ms r. unfold gen_WithMiddleware_router. rewrite WithMiddleware_router_loop.
  destruct r as [a1 a2 a3 a4 a5 a6 a7]; cbn [apply_glob g_mws g_redirect g_ignore g_clientip g_noMethod g_autoOptions g_maxParams].
  destruct (add_mws a6 ms); reflexivity.
Qed.

Lemma WithMiddlewareFor_router_loop : forall scope ms r,
  gen_WithMiddlewareFor_router_loop1 scope ms r = option_map (fun n => set_g_mws n r) (add_mws (g_mws r) ms).
Proof.
  intros scope; induction ms as [|m ms IH]; intros [a1 a2 a3 a4 a5 a6 a7]; [reflexivity|].
  destruct m; [|reflexivity].
  cbn [gen_WithMiddlewareFor_router_loop1 go_fn_is_nil negb add_mws g_mws]. rewrite IH. reflexivity.
Qed.

Lemma WithMiddlewareFor_router_eq : forall scope ms r, gen_WithMiddlewareFor_router scope ms r = apply_glob r (GMwFor scope ms).
Proof.
  intros scope ms r. unfold gen_WithMiddlewareFor_router. rewrite WithMiddlewareFor_router_loop.
  destruct r as [a1 a2 a3 a4 a5 a6 a7]; cbn [apply_glob g_mws g_redirect g_ignore g_clientip g_noMethod g_autoOptions g_maxParams].
  destruct (add_mws a6 ms); reflexivity.
Qed.

Lemma WithNoRouteHandler_router_eq : forall h r, gen_WithNoRouteHandler_router h r = apply_glob r (GNoRouteH h).
Proof. intros h [[] [] a3 [] [] a6 a7]; destruct h; reflexivity. Qed.

Lemma WithNoMethodHandler_router_eq : forall h r, gen_WithNoMethodHandler_router h r = apply_glob r (GNoMethodH h).
Proof. intros h [[] [] a3 [] [] a6 a7]; destruct h; reflexivity. Qed.

Lemma WithOptionsHandler_router_eq : forall h r, gen_WithOptionsHandler_router h r = apply_glob r (GOptionsH h).
Proof. intros h [[] [] a3 [] [] a6 a7]; destruct h; reflexivity. Qed.

Lemma WithNoMethod_router_eq : forall b r, gen_WithNoMethod_router b r = apply_glob r (GNoMethod b).
Proof. intros b [a1 a2 a3 a4 a5 a6 a7]; reflexivity. Qed.

Lemma WithAutoOptions_router_eq : forall b r, gen_WithAutoOptions_router b r = apply_glob r (GAutoOptions b).
Proof. intros b [a1 a2 a3 a4 a5 a6 a7]; reflexivity. Qed.

Lemma DefaultOptions_router_eq : forall r, gen_DefaultOptions_router r = apply_glob r GDefault.
Proof. intros [a1 a2 a3 a4 a5 a6 a7]; reflexivity. Qed.

Lemma WithMaxRouteParams_router_eq : forall n r, gen_WithMaxRouteParams_router n r = apply_glob r (GMaxParams n).
Proof. intros n [a1 a2 a3 a4 a5 a6 a7]; reflexivity. Qed.

Lemma gen_apply_glob_eq_l : forall r o, apply_glob r o = gen_apply_glob o r.
Proof.
  intros r o; symmetry; destruct o; cbn [gen_apply_glob].
  - apply WithRedirectTrailingSlash_router_eq.
  - apply WithIgnoreTrailingSlash_router_eq.
  - apply WithClientIPResolver_router_eq.
  - apply WithMiddleware_router_eq.
  - apply WithMiddlewareFor_router_eq.
  - apply WithNoRouteHandler_router_eq.
  - apply WithNoMethodHandler_router_eq.
  - apply WithOptionsHandler_router_eq.
  - apply WithNoMethod_router_eq.
  - apply WithAutoOptions_router_eq.
  - apply DefaultOptions_router_eq.
  - apply WithMaxRouteParams_router_eq.
Qed.

(* ---- route side ---- *)
Lemma WithRedirectTrailingSlash_route_eq : forall b rt, gen_WithRedirectTrailingSlash_route b rt = apply_ropt rt (ORedirectTS b).
Proof. intros b [a1 a2 a3 [] [] a6 a7 a8 []]; destruct b; reflexivity. Qed.

Lemma WithIgnoreTrailingSlash_route_eq : forall b rt, gen_WithIgnoreTrailingSlash_route b rt = apply_ropt rt (OIgnoreTS b).
Proof. intros b [a1 a2 a3 [] [] a6 a7 a8 []]; destruct b; reflexivity. Qed.

Lemma WithClientIPResolver_route_eq : forall x rt, gen_WithClientIPResolver_route x rt = apply_ropt rt (OClientIP x).
Proof. intros x [a1 a2 a3 a4 a5 a6 a7 a8 a9]; destruct x; reflexivity. Qed.

Lemma WithAnnotation_route_eq : forall k v rt, gen_WithAnnotation_route k v rt = apply_ropt rt (OAnnot k v).
Proof. intros k v [a1 a2 a3 a4 a5 a6 a7 a8 a9]; destruct k; try reflexivity; destruct a7; reflexivity. Qed.

Lemma WithMiddleware_route_loop : forall ms rt,
  gen_WithMiddleware_route_loop1 ms rt = option_map (fun n => set_rt_mws n rt) (add_mws (rt_mws rt) ms).
Proof.
  induction ms as [|m ms IH]; intros [a1 a2 a3 a4 a5 a6 a7 a8 a9]; [reflexivity|].
  destruct m; [|reflexivity].
  cbn [gen_WithMiddleware_route_loop1 go_fn_is_nil negb add_mws rt_mws]. rewrite IH. reflexivity.
Qed.

Lemma WithMiddleware_route_eq : forall ms rt, gen_WithMiddleware_route ms rt = apply_ropt rt (OMw ms).
Proof.
  intros ms rt. unfold gen_WithMiddleware_route. rewrite WithMiddleware_route_loop.
  destruct rt as [a1 a2 a3 a4 a5 a6 a7 a8 a9];
    cbn [apply_ropt rt_mws rt_pattern rt_hostSplit rt_psLen rt_redirect rt_ignore rt_clientip rt_annots rt_handler].
  destruct (add_mws a8 ms); reflexivity.
Qed.

Lemma gen_apply_ropt_eq_l : forall rt o, apply_ropt rt o = gen_apply_ropt o rt.
Proof.
  intros rt o; symmetry; destruct o; cbn [gen_apply_ropt].
  - apply WithRedirectTrailingSlash_route_eq.
  - apply WithIgnoreTrailingSlash_route_eq.
  - apply WithClientIPResolver_route_eq.
  - apply WithAnnotation_route_eq.
  - apply WithMiddleware_route_eq.
Qed.

(* ---- the middleware literals: which scope / global flag each option appends with.
        RouteHandler = 1 << 7 = 128, AllHandlers = 128|64|32|16|8 = 248 (fox.go); the length-only view of Model.v
        cannot see them, so they are pinned here (scope filtering itself is property C13's) ---- *)
Lemma gen_mw_entries_expected_l :
  (forall ms, gen_WithMiddleware_router_mw ms = [(248%N, true)]) /\
  (forall ms, gen_WithMiddleware_route_mw ms = [(128%N, false)]) /\
  (forall scope ms, gen_WithMiddlewareFor_router_mw scope ms = [(scope, true)]) /\
  gen_DefaultOptions_router_mw = [(128%N, true); (248%N, true)].
Proof. repeat split. Qed.

(* ---- fox.New ---- *)
Lemma New_loop : forall opts r, gen_New_loop1 gen_apply_glob opts r = new_from r opts.
Proof.
  induction opts as [|o opts IH]; intros r; [reflexivity|].
  cbn [gen_New_loop1 new_from]. rewrite <- gen_apply_glob_eq_l. destruct (apply_glob r o); [apply IH|reflexivity].
Qed.

Lemma gen_new_eq_l : forall opts, gen_new opts = new opts.
Proof.
  intros opts. unfold gen_new, gen_New, new. rewrite New_loop.
  (* the defaults, assignment by assignment, are router0 *)
  cbv [set_g_unobserved set_g_redirect set_g_ignore set_g_clientip set_g_noMethod set_g_autoOptions set_g_mws set_g_maxParams
       router_zero g_redirect g_ignore g_clientip g_noMethod g_autoOptions g_mws g_maxParams].
  fold router0.
  destruct (new_from router0 opts); reflexivity.
Qed.

(* ---- Router.NewRoute ---- *)
Lemma NewRoute_loop : forall opts rt,
  gen_NewRoute_loop1 gen_apply_ropt opts rt = match apply_ropts rt opts with None => Err ErrInvalidConfig | Some rt' => Ok rt' end.
Proof.
  induction opts as [|o opts IH]; intros rt; [reflexivity|].
  cbn [gen_NewRoute_loop1 apply_ropts]. rewrite <- gen_apply_ropt_eq_l. destruct (apply_ropt rt o); [apply IH|reflexivity].
Qed.

Lemma gen_new_route_eq_l : forall r p h opts, gen_new_route r p h opts = new_route newroute_checks_nil_handler r p h opts.
Proof.
  intros r p h opts. unfold gen_new_route, gen_NewRoute, new_route, model_parseRoute, newroute_checks_nil_handler, go_fn_is_nil.
  cbn [andb].
  (* the nil-handler guard: present on both sides, or (GenC19 regenerated as false) on neither *)
  try (destruct (negb h); [reflexivity|]).
  destruct (parse_lite p) as [[n e]|]; [|reflexivity].
  destruct (N.ltb (g_maxParams r) (N.of_nat n)); [reflexivity|].
  rewrite NewRoute_loop.
  (* the Route literal, field by field, is the route Model.new_route starts from *)
  cbv [set_rt_unobserved set_rt_pattern set_rt_hostSplit set_rt_psLen set_rt_redirect set_rt_ignore set_rt_clientip set_rt_annots
       set_rt_mws set_rt_handler route_zero mws_clip rt_pattern rt_hostSplit rt_psLen rt_redirect rt_ignore rt_clientip rt_annots
       rt_mws rt_handler].
  destruct (apply_ropts _ opts); reflexivity.
Qed.

(* ---- C19's theorems, restated over the generated functions ---- *)
Lemma gen_last_option_wins_router_l :
  forall (l1 : list gopt) (o : gopt) (l2 : list gopt) (r : router),
    gen_new (l1 ++ o :: l2) = Ok r ->
    (forall v, g_sel_redirect o = Some v -> (forall o', In o' l2 -> g_sel_redirect o' = None) -> g_redirect r = v) /\
    (forall v, g_sel_ignore o = Some v -> (forall o', In o' l2 -> g_sel_ignore o' = None) -> g_ignore r = v) /\
    (forall v, g_sel_resolver o = Some v -> (forall o', In o' l2 -> g_sel_resolver o' = None) -> g_clientip r = v) /\
    (forall v, g_sel_nomethod o = Some v -> (forall o', In o' l2 -> g_sel_nomethod o' = None) -> g_noMethod r = v) /\
    (forall v, g_sel_autooptions o = Some v -> (forall o', In o' l2 -> g_sel_autooptions o' = None) -> g_autoOptions r = v).
Proof. intros l1 o l2 r H. rewrite gen_new_eq_l in H. exact (last_option_wins_router_l l1 o l2 r H). Qed.

Lemma gen_last_option_wins_route_l :
  forall (r : router) (p : bytes) (h : bool) (l1 : list ropt) (o : ropt) (l2 : list ropt) (rt : route),
    gen_new_route r p h (l1 ++ o :: l2) = Ok rt ->
    (forall v, r_sel_redirect o = Some v -> (forall o', In o' l2 -> r_sel_redirect o' = None) -> rt_redirect rt = v) /\
    (forall v, r_sel_ignore o = Some v -> (forall o', In o' l2 -> r_sel_ignore o' = None) -> rt_ignore rt = v) /\
    (forall v, r_sel_resolver o = Some v -> (forall o', In o' l2 -> r_sel_resolver o' = None) -> rt_clientip rt = v) /\
    (forall k v, r_sel_annot k o = Some v -> (forall o', In o' l2 -> r_sel_annot k o' = None) -> annot_get k (rt_annots rt) = v).
Proof. intros r p h l1 o l2 rt H. rewrite gen_new_route_eq_l in H. exact (last_option_wins_route_l _ r p h l1 o l2 rt H). Qed.

Lemma gen_ts_modes_exclusive_l :
  forall (g : list gopt) (r : router),
    gen_new g = Ok r ->
    g_redirect r && g_ignore r = false /\
    forall p h opts rt, gen_new_route r p h opts = Ok rt -> rt_redirect rt && rt_ignore rt = false.
Proof.
  intros g r H. rewrite gen_new_eq_l in H. destruct (ts_modes_exclusive_l g r H) as [H1 H2]. split; [exact H1|].
  intros p h opts rt Hr. rewrite gen_new_route_eq_l in Hr. exact (H2 _ p h opts rt Hr).
Qed.

(* one step: each generated trailing-slash option keeps the two modes exclusive, on a router and on a route *)
Lemma gen_ts_step_exclusive_l :
  (forall b r r', g_redirect r && g_ignore r = false ->
     (gen_WithRedirectTrailingSlash_router b r = Some r' \/ gen_WithIgnoreTrailingSlash_router b r = Some r') ->
     g_redirect r' && g_ignore r' = false) /\
  (forall b rt rt', rt_redirect rt && rt_ignore rt = false ->
     (gen_WithRedirectTrailingSlash_route b rt = Some rt' \/ gen_WithIgnoreTrailingSlash_route b rt = Some rt') ->
     rt_redirect rt' && rt_ignore rt' = false).
Proof.
  split.
  - intros b [a1 a2 a3 a4 a5 a6 a7] r' H [E|E]; destruct b; inversion E; subst; cbn in *;
      try reflexivity; try exact H; destruct a1, a2; try reflexivity; discriminate H.
  - intros b [a1 a2 a3 a4 a5 a6 a7 a8 a9] r' H [E|E]; destruct b; inversion E; subst; cbn in *;
      try reflexivity; try exact H; destruct a4, a5; try reflexivity; discriminate H.
Qed.

Lemma gen_nil_resolver_means_none_l :
  forall (r : router) (p : bytes) (h : bool) (l1 l2 : list ropt) (rt : route),
    gen_new_route r p h (l1 ++ OClientIP None :: l2) = Ok rt ->
    (forall o, In o l2 -> r_sel_resolver o = None) ->
    client_ip_resolver rt = None /\ client_ip r (Some rt) = CIPNone.
Proof. intros r p h l1 l2 rt H. rewrite gen_new_route_eq_l in H. exact (nil_resolver_means_none_l _ r p h l1 l2 rt H). Qed.

Lemma gen_route_inherits_l :
  forall (r : router) (p : bytes) (h : bool) (opts : list ropt) (rt : route),
    gen_new_route r p h opts = Ok rt ->
    ((forall o, In o opts -> r_sel_redirect o = None) -> rt_redirect rt = g_redirect r) /\
    ((forall o, In o opts -> r_sel_ignore o = None) -> rt_ignore rt = g_ignore r) /\
    ((forall o, In o opts -> r_sel_resolver o = None) -> rt_clientip rt = g_clientip r) /\
    ((forall o, In o opts -> r_nmws o = 0) -> rt_mws rt = g_mws r).
Proof. intros r p h opts rt H. rewrite gen_new_route_eq_l in H. exact (route_inherits_l _ r p h opts rt H). Qed.

(* ---- accessors of *Route (route.go) ---- *)
Lemma Route_Pattern_eq : forall rt, gen_Route_Pattern rt = rt_pattern rt.
Proof. reflexivity. Qed.
Lemma Route_Hostname_eq : forall rt, gen_Route_Hostname rt = hostname rt.
Proof. reflexivity. Qed.
Lemma Route_Path_eq : forall rt, gen_Route_Path rt = path rt.
Proof. reflexivity. Qed.
Lemma Route_Annotation_eq : forall rt k, gen_Route_Annotation rt (KHash k) = Some (annot_get k (rt_annots rt)).
Proof. reflexivity. Qed.
Lemma Route_RedirectTrailingSlashEnabled_eq : forall rt, gen_Route_RedirectTrailingSlashEnabled rt = rt_redirect rt.
Proof. reflexivity. Qed.
Lemma Route_IgnoreTrailingSlashEnabled_eq : forall rt, gen_Route_IgnoreTrailingSlashEnabled rt = rt_ignore rt.
Proof. reflexivity. Qed.
Lemma Route_ClientIPResolver_eq : forall rt, gen_Route_ClientIPResolver rt = client_ip_resolver rt.
Proof. reflexivity. Qed.
Lemma Route_ParamsLen_eq : forall rt, gen_Route_ParamsLen rt = rt_psLen rt.
Proof. reflexivity. Qed.

(* what the harness reads off a route, through the generated accessors (len(mws) comes from the hook verif_c13.go) *)
Definition gen_snapshot_of (rt : route) : outcome snapshot :=
  match gen_Route_Hostname rt, gen_Route_Path rt with
  | Some h, Some p =>
      Ok (mkSnap (gen_Route_Pattern rt) h p (gen_Route_ParamsLen rt) (gen_Route_RedirectTrailingSlashEnabled rt)
                 (gen_Route_IgnoreTrailingSlashEnabled rt) (gen_Route_ClientIPResolver rt) (rt_mws rt))
  | _, _ => Panic
  end.

Lemma gen_snapshot_eq_l : forall rt, gen_snapshot_of rt = snapshot_of rt.
Proof.
  intros rt. unfold gen_snapshot_of, snapshot_of.
  rewrite Route_Hostname_eq, Route_Path_eq, Route_Pattern_eq, Route_ParamsLen_eq, Route_RedirectTrailingSlashEnabled_eq,
    Route_IgnoreTrailingSlashEnabled_eq, Route_ClientIPResolver_eq. reflexivity.
Qed.

Lemma gen_hostname_path_pattern_l :
  forall (r : router) (p : bytes) (h : bool) (opts : list ropt) (rt : route),
    gen_new_route r p h opts = Ok rt ->
    exists hn pa, gen_Route_Hostname rt = Some hn /\ gen_Route_Path rt = Some pa /\ hn ++ pa = gen_Route_Pattern rt /\
                  hn = before_slash (gen_Route_Pattern rt) /\ pa = from_slash (gen_Route_Pattern rt).
Proof.
  intros r p h opts rt H. rewrite gen_new_route_eq_l in H.
  rewrite Route_Hostname_eq, Route_Path_eq, Route_Pattern_eq. exact (hostname_path_pattern_l _ r p h opts rt H).
Qed.
