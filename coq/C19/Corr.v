(* C19 correspondence: functions evaluated by the case files the harness writes.
   A case is (global options, patterns by key, operations, observed result). *)
From FoxBase Require Import Bytes.
From FoxC19 Require Import GenC19 Types Pattern Spec Model.

(* b repeated n times: lets the harness write patterns with tens of thousands of wildcards compactly *)
Definition brep (n : N) (b : bytes) : bytes := N.iter n (app b) [].

Inductive case := Case (g : list gopt) (pats : list bytes) (ops : list op) (observed : result).

Definition model_agrees (c : case) : bool :=
  let '(Case g pats ops observed) := c in result_eqb (run_now g pats ops) observed.

Definition spec_ok (c : case) : bool :=
  let '(Case g pats ops observed) := c in result_eqb (spec_run g pats ops) observed.

(* call site fox.go NewRoute: a nil handler is not rejected *)
Definition nil_newroute (o : op) : bool :=
  match o with OCreate (VNewRoute | VOnly) _ false _ => true | _ => false end.
Definition known_nil_newroute (c : case) : bool :=
  let '(Case g pats ops observed) := c in
  model_agrees c && negb (spec_ok c) && existsb nil_newroute ops && negb newroute_checks_nil_handler.

Definition mismatches (cs : list case) : list nat := true_idx (map (fun c => negb (model_agrees c)) cs).
Definition spec_violations (cs : list case) : list nat := true_idx (map (fun c => negb (spec_ok c)) cs).
Definition fuel_outs (cs : list case) : list nat := [].   (* the model uses no fuel *)
Definition known_newroute_nil_handler (cs : list case) : list nat := true_idx (map known_nil_newroute cs).
