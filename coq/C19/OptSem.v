(* C19, tie A: meaning of the primitives that harness/cmd/optgen emits into GenOpt.v (hand-written, trusted).
   The generated functions work on Model.v's records [router] and [route]; a Go field assignment
   `s.router.F = E` becomes  let st := set_g_F E st in ..  with the setters below (one per field the model knows).
   Representation of Go values (the abstraction of Model.v / Types.v, nothing new):
     bool                          bool
     HandlerFunc, MiddlewareFunc   bool      "the function value is not nil"
     ...MiddlewareFunc             list bool
     ClientIPResolver (parameter)  option nat  None = nil interface, Some i = user resolver number i
     ClientIPResolver (field)      resolver    RNone = noClientIPResolver{}; a nil interface in a field is NOT
                                               representable: optgen refuses every assignment that could store one
     HandlerScope, uint16          N
     []middleware                  nat       its length (what C19 observes; order / scope filtering is C13's)
     annotation key / value        akey / option nat;  map[any]any = association list over hashable key ids *)
From FoxBase Require Import Bytes.
From FoxC19 Require Import GenC19 Types Pattern Model.

(* ---- Router fields known to the model ---- *)
Definition set_g_redirect (v : bool) (r : router) : router :=
  mkRouter v (g_ignore r) (g_clientip r) (g_noMethod r) (g_autoOptions r) (g_mws r) (g_maxParams r).
Definition set_g_ignore (v : bool) (r : router) : router :=
  mkRouter (g_redirect r) v (g_clientip r) (g_noMethod r) (g_autoOptions r) (g_mws r) (g_maxParams r).
Definition set_g_clientip (v : resolver) (r : router) : router :=
  mkRouter (g_redirect r) (g_ignore r) v (g_noMethod r) (g_autoOptions r) (g_mws r) (g_maxParams r).
Definition set_g_noMethod (v : bool) (r : router) : router :=
  mkRouter (g_redirect r) (g_ignore r) (g_clientip r) v (g_autoOptions r) (g_mws r) (g_maxParams r).
Definition set_g_autoOptions (v : bool) (r : router) : router :=
  mkRouter (g_redirect r) (g_ignore r) (g_clientip r) (g_noMethod r) v (g_mws r) (g_maxParams r).
Definition set_g_mws (v : nat) (r : router) : router :=
  mkRouter (g_redirect r) (g_ignore r) (g_clientip r) (g_noMethod r) (g_autoOptions r) v (g_maxParams r).
Definition set_g_maxParams (v : N) (r : router) : router :=
  mkRouter (g_redirect r) (g_ignore r) (g_clientip r) (g_noMethod r) (g_autoOptions r) (g_mws r) v.

(* Router fields that exist in the struct declaration and that Model.v deliberately does not observe
   (handler values: C11 / C13; the key-length limit: C10; the tree).  An assignment to one of them is emitted,
   so that it stays visible in the generated text, and means nothing for the model. *)
Inductive gfield := F_noRouteBase | F_noRoute | F_noMethod | F_tsrRedirect | F_autoOptions | F_maxParamKeyBytes | F_tree.
Definition set_g_unobserved (f : gfield) (r : router) : router := r.

(* new(Router): every field zero.  The zero value of the interface field clientip is nil, which [resolver] cannot
   express; optgen accepts `new(Router)` only when clientip is assigned before the record is used. *)
Definition router_zero : router := mkRouter false false RNone false false 0 0%N.

(* ---- Route fields ---- *)
Definition set_rt_pattern (v : bytes) (t : route) : route :=
  mkRoute v (rt_hostSplit t) (rt_psLen t) (rt_redirect t) (rt_ignore t) (rt_clientip t) (rt_annots t) (rt_mws t) (rt_handler t).
Definition set_rt_hostSplit (v : nat) (t : route) : route :=
  mkRoute (rt_pattern t) v (rt_psLen t) (rt_redirect t) (rt_ignore t) (rt_clientip t) (rt_annots t) (rt_mws t) (rt_handler t).
Definition set_rt_psLen (v : nat) (t : route) : route :=
  mkRoute (rt_pattern t) (rt_hostSplit t) v (rt_redirect t) (rt_ignore t) (rt_clientip t) (rt_annots t) (rt_mws t) (rt_handler t).
Definition set_rt_redirect (v : bool) (t : route) : route :=
  mkRoute (rt_pattern t) (rt_hostSplit t) (rt_psLen t) v (rt_ignore t) (rt_clientip t) (rt_annots t) (rt_mws t) (rt_handler t).
Definition set_rt_ignore (v : bool) (t : route) : route :=
  mkRoute (rt_pattern t) (rt_hostSplit t) (rt_psLen t) (rt_redirect t) v (rt_clientip t) (rt_annots t) (rt_mws t) (rt_handler t).
Definition set_rt_clientip (v : resolver) (t : route) : route :=
  mkRoute (rt_pattern t) (rt_hostSplit t) (rt_psLen t) (rt_redirect t) (rt_ignore t) v (rt_annots t) (rt_mws t) (rt_handler t).
Definition set_rt_annots (v : list (nat * option nat)) (t : route) : route :=
  mkRoute (rt_pattern t) (rt_hostSplit t) (rt_psLen t) (rt_redirect t) (rt_ignore t) (rt_clientip t) v (rt_mws t) (rt_handler t).
Definition set_rt_mws (v : nat) (t : route) : route :=
  mkRoute (rt_pattern t) (rt_hostSplit t) (rt_psLen t) (rt_redirect t) (rt_ignore t) (rt_clientip t) (rt_annots t) v (rt_handler t).
Definition set_rt_handler (v : bool) (t : route) : route :=
  mkRoute (rt_pattern t) (rt_hostSplit t) (rt_psLen t) (rt_redirect t) (rt_ignore t) (rt_clientip t) (rt_annots t) (rt_mws t) v.

(* hself / hall: the composed handlers (C13) *)
Inductive rfield := F_hself_hall.
Definition set_rt_unobserved (f : rfield) (t : route) : route := t.

(* &Route{}: every field zero (clientip: as for router_zero, must be given in the literal) *)
Definition route_zero : route := mkRoute [] 0 0 false false RNone [] 0 false.

(* ---- expressions ---- *)
(* f == nil for a HandlerFunc / MiddlewareFunc *)
Definition go_fn_is_nil (nonnil : bool) : bool := negb nonnil.

(* cmp.Or(x, d): the first argument that is not the zero value; x an interface parameter, d a non-nil resolver *)
Definition go_cmp_or (x : option nat) (d : resolver) : resolver :=
  match x with Some i => RSome i | None => d end.

(* middleware{m, scope, g} *)
Definition mw_entry (m : bool) (scope : N) (g : bool) : bool * N * bool := (m, scope, g).
(* append(mws, e): one element longer *)
Definition mws_append (n : nat) (e : bool * N * bool) : nat := S n.
(* append([]middleware{e1, .., ek}, mws...) *)
Definition mws_prepend (es : list (bool * N * bool)) (n : nat) : nat := List.length es + n.
(* s[:len(s):len(s)]: same elements, capacity clipped (so that appends by route options copy: C13) *)
Definition mws_clip (n : nat) : nat := n.

(* map[any]any: nil and empty are both [] (reads agree; optgen refuses a store into a map that is not known to be
   non-nil, which would panic) *)
Definition annots_is_nil (l : list (nat * option nat)) : bool := match l with [] => true | _ => false end.
Definition annots_make : list (nat * option nat) := [].
(* m[key] = value.  optgen emits it only where key is known to be non-nil and reflect-comparable, i.e. [KHash _];
   the other cases cannot be reached there (an unhashable key would panic, a nil key has no slot in the model) *)
Definition annots_store (k : akey) (v : option nat) (l : list (nat * option nat)) : list (nat * option nat) :=
  match k with KHash id => annot_set id v l | _ => l end.

(* ---- callees that are oracles of the generated New / NewRoute ---- *)
(* fox.parseRoute(pattern) as Model.new_route sees it: Pattern.parse_lite, then the wildcard limit; every error of
   parseRoute is in the class ErrInvalidRoute *)
Definition model_parseRoute (fox : router) (pattern : bytes) : outcome (nat * nat) :=
  match parse_lite pattern with
  | None => Err ErrInvalidRoute
  | Some (n, endHost) => if N.ltb (g_maxParams fox) (N.of_nat n) then Err ErrInvalidRoute else Ok (n, endHost)
  end.

(* ---- accessors (route.go) ---- *)
(* s[:k] / s[k:] on a string: out of range panics = None *)
Definition str_slice_to (s : bytes) (k : nat) : option bytes := if Nat.leb k (List.length s) then Some (firstn k s) else None.
Definition str_slice_from (s : bytes) (k : nat) : option bytes := if Nat.leb k (List.length s) then Some (skipn k s) else None.
(* m[key] as an expression: nil (None) when absent, also on a nil map and for the nil key, which is never stored;
   a key that is not hashable panics = None *)
Definition annots_lookup (k : akey) (l : list (nat * option nat)) : option (option nat) :=
  match k with KHash id => Some (annot_get id l) | KNil => Some None | KUnhashDyn _ | KNonComp _ => None end.
