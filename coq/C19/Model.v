(* C19 model: transliteration of
     options.go   every option closure (53-294), applied in order to the router or the route
     fox.go       New (139-162), NewRoute (338-363), Stats (427-438)
     txn.go       Handle (25-49), Update (88-114), HandleRoute (60-75)
     route.go     accessors (30-74)        context.go  ClientIP (194-201)
     fox.go       ServeHTTP: the context's route is set only before a route handler runs
   State passing over two records; mutation of *Router / *Route becomes a new record. *)
From FoxBase Require Import Bytes.
From FoxC19 Require Import GenC19 Types Pattern.

Inductive outcome (A : Type) := Ok (a : A) | Err (e : err) | Panic.
Arguments Ok {A} a. Arguments Err {A} e. Arguments Panic {A}.

Record router := mkRouter {
  g_redirect : bool; g_ignore : bool; g_clientip : resolver;
  g_noMethod : bool; g_autoOptions : bool; g_mws : nat (* len(router.mws) *);
  g_maxParams : N }.

(* new(Router) + the defaults set at fox.go:142-147 *)
Definition router0 : router := mkRouter false false RNone false false 0 65535%N.       (* r.maxParams = math.MaxUint16 *)

(* for i := range m { if m[i] == nil { return ErrInvalidConfig }; mws = append(mws, ...) } *)
Fixpoint add_mws (n : nat) (ms : list bool) : option nat :=
  match ms with
  | [] => Some n
  | true :: r => add_mws (S n) r
  | false :: _ => None
  end.

(* opt.applyGlob(sealedOption{router: r}); None = the option returned ErrInvalidConfig *)
Definition apply_glob (r : router) (o : gopt) : option router :=
  match o with
  | GRedirectTS b =>
      Some (mkRouter b (if b then false else g_ignore r) (g_clientip r) (g_noMethod r) (g_autoOptions r) (g_mws r) (g_maxParams r))
  | GIgnoreTS b =>
      Some (mkRouter (if b then false else g_redirect r) b (g_clientip r) (g_noMethod r) (g_autoOptions r) (g_mws r) (g_maxParams r))
  | GClientIP None => Some r                                            (* if s.router != nil && resolver != nil *)
  | GClientIP (Some i) =>
      Some (mkRouter (g_redirect r) (g_ignore r) (RSome i) (g_noMethod r) (g_autoOptions r) (g_mws r) (g_maxParams r))
  | GMw ms | GMwFor _ ms =>                                             (* the nil check does not look at the scope *)
      option_map (fun n => mkRouter (g_redirect r) (g_ignore r) (g_clientip r) (g_noMethod r) (g_autoOptions r) n (g_maxParams r)) (add_mws (g_mws r) ms)
  | GNoRouteH nn => if nn then Some r else None
  | GNoMethodH nn =>
      if nn then Some (mkRouter (g_redirect r) (g_ignore r) (g_clientip r) true (g_autoOptions r) (g_mws r) (g_maxParams r)) else None
  | GOptionsH nn =>
      if nn then Some (mkRouter (g_redirect r) (g_ignore r) (g_clientip r) (g_noMethod r) true (g_mws r) (g_maxParams r)) else None
  | GNoMethod b => Some (mkRouter (g_redirect r) (g_ignore r) (g_clientip r) b (g_autoOptions r) (g_mws r) (g_maxParams r))
  | GAutoOptions b => Some (mkRouter (g_redirect r) (g_ignore r) (g_clientip r) (g_noMethod r) b (g_mws r) (g_maxParams r))
  | GDefault => Some (mkRouter (g_redirect r) (g_ignore r) (g_clientip r) (g_noMethod r) true (2 + g_mws r) (g_maxParams r))
  | GMaxParams n => Some (mkRouter (g_redirect r) (g_ignore r) (g_clientip r) (g_noMethod r) (g_autoOptions r) (g_mws r) n)
  end.

(* fox.New: for _, opt := range opts { if err := opt.applyGlob(...); err != nil { return nil, err } } *)
Fixpoint new_from (r : router) (opts : list gopt) : outcome router :=
  match opts with
  | [] => Ok r
  | o :: rest => match apply_glob r o with None => Err ErrInvalidConfig | Some r' => new_from r' rest end
  end.
Definition new (opts : list gopt) : outcome router := new_from router0 opts.

Record route := mkRoute {
  rt_pattern : bytes; rt_hostSplit : nat; rt_psLen : nat;
  rt_redirect : bool; rt_ignore : bool; rt_clientip : resolver;
  rt_annots : list (nat * option nat);      (* map[any]any restricted to the keys that got in *)
  rt_mws : nat;                              (* len(route.mws) *)
  rt_handler : bool }.                       (* hbase != nil *)

Fixpoint annot_set (k : nat) (v : option nat) (l : list (nat * option nat)) : list (nat * option nat) :=
  match l with
  | [] => [(k, v)]
  | (k', v') :: r => if Nat.eqb k' k then (k, v) :: r else (k', v') :: annot_set k v r
  end.
Fixpoint annot_get (k : nat) (l : list (nat * option nat)) : option nat :=     (* r.annots[key]: nil when absent *)
  match l with
  | [] => None
  | (k', v') :: r => if Nat.eqb k' k then v' else annot_get k r
  end.

(* reflect.ValueOf(key).Comparable() for a non-nil key *)
Definition value_comparable (k : akey) : bool := match k with KHash _ => true | _ => false end.
Definition key_is_nil (k : akey) : bool := match k with KNil => true | _ => false end.

(* opt.applyRoute(sealedOption{route: rte}) *)
Definition apply_ropt (rt : route) (o : ropt) : option route :=
  match o with
  | ORedirectTS b =>
      Some (mkRoute (rt_pattern rt) (rt_hostSplit rt) (rt_psLen rt) b (if b then false else rt_ignore rt)
                    (rt_clientip rt) (rt_annots rt) (rt_mws rt) (rt_handler rt))
  | OIgnoreTS b =>
      Some (mkRoute (rt_pattern rt) (rt_hostSplit rt) (rt_psLen rt) (if b then false else rt_redirect rt) b
                    (rt_clientip rt) (rt_annots rt) (rt_mws rt) (rt_handler rt))
  | OClientIP r =>
      (* s.route.clientip = cmp.Or(resolver, ClientIPResolver(noClientIPResolver{})) *)
      Some (mkRoute (rt_pattern rt) (rt_hostSplit rt) (rt_psLen rt) (rt_redirect rt) (rt_ignore rt)
                    (match r with Some i => RSome i | None => RNone end) (rt_annots rt) (rt_mws rt) (rt_handler rt))
  | OAnnot k v =>
      if key_is_nil k || negb (value_comparable k) then None
      else match k with
           | KHash id => Some (mkRoute (rt_pattern rt) (rt_hostSplit rt) (rt_psLen rt) (rt_redirect rt) (rt_ignore rt)
                                       (rt_clientip rt) (annot_set id v (rt_annots rt)) (rt_mws rt) (rt_handler rt))
           | _ => None
           end
  | OMw ms =>
      option_map (fun n => mkRoute (rt_pattern rt) (rt_hostSplit rt) (rt_psLen rt) (rt_redirect rt) (rt_ignore rt)
                                   (rt_clientip rt) (rt_annots rt) n (rt_handler rt)) (add_mws (rt_mws rt) ms)
  end.

Fixpoint apply_ropts (rt : route) (opts : list ropt) : option route :=
  match opts with
  | [] => Some rt
  | o :: rest => match apply_ropt rt o with None => None | Some rt' => apply_ropts rt' rest end
  end.

Section WithGuard.
(* does NewRoute begin by rejecting a nil handler?  Instantiated below with the value regenerated from fox.go *)
Variable chk : bool.

(* Router.NewRoute *)
Definition new_route (r : router) (pattern : bytes) (handler : bool) (opts : list ropt) : outcome route :=
  if chk && negb handler then Err ErrInvalidRoute else
  match parse_lite pattern with
  | None => Err ErrInvalidRoute
  | Some (n, endHost) =>
      (* parseRoute: if paramCnt > uint32(fox.maxParams) -> ErrInvalidRoute (ErrTooManyParams); checked on the running
         count in the code, which only grows, so on the final count here (same error class either way) *)
      if N.ltb (g_maxParams r) (N.of_nat n) then Err ErrInvalidRoute else
      let rte := mkRoute pattern endHost n (g_redirect r) (g_ignore r) (g_clientip r) [] (g_mws r) handler in
      match apply_ropts rte opts with
      | None => Err ErrInvalidConfig
      | Some rte' => Ok rte'
      end
  end.

(* ---- accessors (route.go); slicing outside the string would panic ---- *)
Definition hostname (rt : route) : option bytes :=
  if Nat.leb (rt_hostSplit rt) (List.length (rt_pattern rt)) then Some (firstn (rt_hostSplit rt) (rt_pattern rt)) else None.
Definition path (rt : route) : option bytes :=
  if Nat.leb (rt_hostSplit rt) (List.length (rt_pattern rt)) then Some (skipn (rt_hostSplit rt) (rt_pattern rt)) else None.
Definition client_ip_resolver (rt : route) : option nat :=       (* nil for the sentinel *)
  match rt_clientip rt with RNone => None | RSome i => Some i end.

Definition snapshot_of (rt : route) : outcome snapshot :=
  match hostname rt, path rt with
  | Some h, Some p => Ok (mkSnap (rt_pattern rt) h p (rt_psLen rt) (rt_redirect rt) (rt_ignore rt) (client_ip_resolver rt) (rt_mws rt))
  | _, _ => Panic
  end.

(* ---- registered routes ---- *)
Definition table := list (nat * route).
Fixpoint lookup (key : nat) (t : table) : option route :=
  match t with [] => None | (k, v) :: r => if Nat.eqb k key then Some v else lookup key r end.
Fixpoint replace (key : nat) (v : route) (t : table) : table :=
  match t with [] => [] | (k, w) :: r => if Nat.eqb k key then (k, v) :: r else (k, w) :: replace key v r end.

(* Context.ClientIP: c.route == nil -> c.fox.clientip, else c.route.clientip; the sentinel returns ErrNoClientIPResolver *)
Definition client_ip (r : router) (ctx_route : option route) : cip :=
  match (match ctx_route with None => g_clientip r | Some rt => rt_clientip rt end) with
  | RNone => CIPNone
  | RSome i => CIP i
  end.

(* the part of cTx this property needs *)
Record ctx := mkCtx { cx_route : option route }.
Definition clone (c : ctx) : ctx := mkCtx (cx_route c).          (* Clone: route: c.route (context.go:340) *)
Definition clone_with (c : ctx) : ctx := mkCtx (cx_route c).     (* CloneWith: cp.route = c.route (context.go:380) *)
(* ClientIP() and Route().Pattern() on a context *)
Definition view_of (r : router) (c : ctx) : view := (client_ip r (cx_route c), option_map rt_pattern (cx_route c)).

Definition create (r : router) (pats : list bytes) (t : table) (v : via) (key : nat) (handler : bool) (opts : list ropt)
  : table * obs :=
  let p := nth key pats [] in
  match v with
  | VHandle | VUpdate =>
      if negb handler then (t, ObsErr (Some ErrInvalidRoute) None)            (* txn.go:33 / 97 *)
      else match new_route r p handler opts with
           | Err e => (t, ObsErr (Some e) None)
           | Panic => (t, ObsPanic)
           | Ok rt =>
               match v, lookup key t with
               | VUpdate, None => (t, ObsErr (Some ErrRouteNotFound) None)
               | VUpdate, Some _ => (replace key rt t, match snapshot_of rt with Ok s => ObsErr None (Some s) | _ => ObsPanic end)
               | _, Some _ => (t, ObsErr (Some ErrRouteExist) None)
               | _, None => ((key, rt) :: t, match snapshot_of rt with Ok s => ObsErr None (Some s) | _ => ObsPanic end)
               end
           end
  | VOnly =>
      match new_route r p handler opts with
      | Err e => (t, ObsErr (Some e) None)
      | Panic => (t, ObsPanic)
      | Ok rt => (t, match snapshot_of rt with Ok s => ObsErr None (Some s) | _ => ObsPanic end)
      end
  | VNewRoute =>
      match new_route r p handler opts with
      | Err e => (t, ObsErr (Some e) None)
      | Panic => (t, ObsPanic)
      | Ok rt =>                                                                (* HandleRoute: only route == nil is checked *)
          match lookup key t with
          | Some _ => (t, ObsErr (Some ErrRouteExist) None)
          | None => ((key, rt) :: t, match snapshot_of rt with Ok s => ObsErr None (Some s) | _ => ObsPanic end)
          end
      end
  end.

Definition run_op (r : router) (pats : list bytes) (t : table) (o : op) : table * obs :=
  match o with
  | OCreate v key handler opts => create r pats t v key handler opts
  | OProbe key p =>
      (t, match lookup key t with
          | None => let v := view_of r (mkCtx None) in ObsProbe KNoRoute v (view_of r (clone (mkCtx None))) (view_of r (clone_with (mkCtx None))) None
          | Some rt =>
              let k := dispatch_kind (rt_ignore rt) (rt_redirect rt) (g_noMethod r) (g_autoOptions r) p in
              (* ServeHTTP: c.route = n.route before n.route.hall(c); c.route = nil before every other handler *)
              let c := mkCtx (match k with KRoute => Some rt | _ => None end) in
              (* the probing middleware reads c, c.Clone(), c.CloneWith(..) and calls next with the CloneWith copy *)
              let cw := clone_with c in
              match k with
              | KRoute => if rt_handler rt then ObsProbe k (view_of r c) (view_of r (clone c)) (view_of r cw) (Some (view_of r cw))
                          else ObsPanic                                                     (* calling a nil HandlerFunc *)
              | _ => ObsProbe k (view_of r c) (view_of r (clone c)) (view_of r cw) None
              end
          end)
  | OAnnotGet key k =>
      (t, match lookup key t with None => ObsSnap None | Some rt => ObsAnnot (annot_get k (rt_annots rt)) end)
  | OAccess key =>
      (t, match lookup key t with
          | None => ObsSnap None
          | Some rt => match snapshot_of rt with Ok s => ObsSnap (Some s) | _ => ObsPanic end
          end)
  | OLookup _ key adj _ =>
      (* Router.Lookup (fox.go:313-332) and Txn.Lookup (txn.go:246-269) are the same code over the router's or the
         transaction's tree: n found (tsr or not) => c.route = n.route; c.tsr = tsr; return n.route, c, tsr.
         The tree reports tsr for a slash-adjusted match whatever the route's trailing-slash mode is.
         Then route.Handle(cc) / route.HandleMiddleware(cc) call hbase / hself with cc. *)
      (t, match lookup key t with
          | None => ObsLookupNone
          | Some rt =>
              let c := mkCtx (Some rt) in
              if rt_handler rt then ObsLookup adj (view_of r c) (view_of r (clone c)) (view_of r (clone_with c)) (Some (view_of r c))
              else ObsPanic                                                                 (* calling a nil HandlerFunc *)
          end)
  end.

Fixpoint run_ops (r : router) (pats : list bytes) (t : table) (ops : list op) : list obs :=
  match ops with
  | [] => []
  | o :: rest => let '(t', b) := run_op r pats t o in b :: run_ops r pats t' rest
  end.

(* Router.Stats() *)
Definition info_of (r : router) : bool * bool * bool * bool * bool :=
  (g_redirect r, g_ignore r, match g_clientip r with RNone => false | RSome _ => true end, g_noMethod r, g_autoOptions r).

Definition run_model (g : list gopt) (pats : list bytes) (ops : list op) : result :=
  match new g with
  | Err e => RNewErr e
  | Panic => RPanic
  | Ok r => RRun (info_of r) (run_ops r pats [] ops)
  end.
End WithGuard.

(* the code as it is now *)
Definition run_now : list gopt -> list bytes -> list op -> result := run_model newroute_checks_nil_handler.
