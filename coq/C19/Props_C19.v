(* C19 property theorems: statements only, each closed by [exact]. *)
From FoxBase Require Import Bytes.
From FoxC19 Require Import GenC19 Types Pattern Spec Model Proofs.

(* the whole property at once, for the code with a nil-handler guard in NewRoute [chk = true] or for
   operation sequences that do not call NewRoute with a nil handler: every sequence of global options,
   every table of patterns, every sequence of Handle / Update / NewRoute+HandleRoute / requests /
   accessor reads shows exactly what the specification prescribes *)
Theorem options_exact :
  forall (chk : bool) (g : list gopt) (pats : list bytes) (ops : list op),
    chk = true \/ existsb Proofs.nil_newroute ops = false ->
    run_model chk g pats ops = spec_run g pats ops.
Proof. exact options_exact_gen. Qed.
Print Assumptions options_exact.

Theorem router_config_exact :
  forall (g : list gopt) (r : router), new g = Ok r -> forallb g_valid g = true /\ r = router_of router0 g.
Proof. exact router_config_exact_l. Qed.
Print Assumptions router_config_exact.

(* a route carries the router's settings unless its own options decide them, and nothing else *)
Theorem route_inherits_at_creation :
  forall (chk : bool) (r : router) (p : bytes) (h : bool) (opts : list ropt) (rt : route),
    new_route chk r p h opts = Ok rt ->
    ((forall o, In o opts -> r_sel_redirect o = None) -> rt_redirect rt = g_redirect r) /\
    ((forall o, In o opts -> r_sel_ignore o = None) -> rt_ignore rt = g_ignore r) /\
    ((forall o, In o opts -> r_sel_resolver o = None) -> rt_clientip rt = g_clientip r) /\
    ((forall o, In o opts -> r_nmws o = 0) -> rt_mws rt = g_mws r).
Proof. exact route_inherits_l. Qed.
Print Assumptions route_inherits_at_creation.

Theorem route_config_exact :
  forall (chk : bool) (r : router) (p : bytes) (h : bool) (opts : list ropt) (rt : route),
    new_route chk r p h opts = Ok rt ->
    rt_pattern rt = p /\ rt_handler rt = h /\
    rt_redirect rt = last_sel r_sel_redirect opts (g_redirect r) /\
    rt_ignore rt = last_sel r_sel_ignore opts (g_ignore r) /\
    rt_clientip rt = last_sel r_sel_resolver opts (g_clientip r) /\
    (forall k, annot_get k (rt_annots rt) = last_sel (r_sel_annot k) opts None) /\
    rt_mws rt = sum_map r_nmws opts + g_mws r.
Proof. exact route_config_exact_l. Qed.
Print Assumptions route_config_exact.

(* [last_sel] is what its name says: an option that decides a setting and is followed by none that does, wins *)
Theorem last_option_wins :
  forall (O V : Type) (sel : O -> option V) (l1 : list O) (o : O) (l2 : list O) (d v : V),
    sel o = Some v -> (forall o', In o' l2 -> sel o' = None) -> last_sel sel (l1 ++ o :: l2) d = v.
Proof. exact @last_sel_last. Qed.
Print Assumptions last_option_wins.

Theorem last_option_wins_route :
  forall (chk : bool) (r : router) (p : bytes) (h : bool) (l1 : list ropt) (o : ropt) (l2 : list ropt) (rt : route),
    new_route chk r p h (l1 ++ o :: l2) = Ok rt ->
    (forall v, r_sel_redirect o = Some v -> (forall o', In o' l2 -> r_sel_redirect o' = None) -> rt_redirect rt = v) /\
    (forall v, r_sel_ignore o = Some v -> (forall o', In o' l2 -> r_sel_ignore o' = None) -> rt_ignore rt = v) /\
    (forall v, r_sel_resolver o = Some v -> (forall o', In o' l2 -> r_sel_resolver o' = None) -> rt_clientip rt = v) /\
    (forall k v, r_sel_annot k o = Some v -> (forall o', In o' l2 -> r_sel_annot k o' = None) -> annot_get k (rt_annots rt) = v).
Proof. exact last_option_wins_route_l. Qed.
Print Assumptions last_option_wins_route.

Theorem last_option_wins_router :
  forall (l1 : list gopt) (o : gopt) (l2 : list gopt) (r : router),
    new (l1 ++ o :: l2) = Ok r ->
    (forall v, g_sel_redirect o = Some v -> (forall o', In o' l2 -> g_sel_redirect o' = None) -> g_redirect r = v) /\
    (forall v, g_sel_ignore o = Some v -> (forall o', In o' l2 -> g_sel_ignore o' = None) -> g_ignore r = v) /\
    (forall v, g_sel_resolver o = Some v -> (forall o', In o' l2 -> g_sel_resolver o' = None) -> g_clientip r = v) /\
    (forall v, g_sel_nomethod o = Some v -> (forall o', In o' l2 -> g_sel_nomethod o' = None) -> g_noMethod r = v) /\
    (forall v, g_sel_autooptions o = Some v -> (forall o', In o' l2 -> g_sel_autooptions o' = None) -> g_autoOptions r = v).
Proof. exact last_option_wins_router_l. Qed.
Print Assumptions last_option_wins_router.

Theorem ts_modes_exclusive :
  forall (g : list gopt) (r : router),
    new g = Ok r ->
    g_redirect r && g_ignore r = false /\
    forall chk p h opts rt, new_route chk r p h opts = Ok rt -> rt_redirect rt && rt_ignore rt = false.
Proof. exact ts_modes_exclusive_l. Qed.
Print Assumptions ts_modes_exclusive.

Theorem nil_resolver_means_none :
  forall (chk : bool) (r : router) (p : bytes) (h : bool) (l1 l2 : list ropt) (rt : route),
    new_route chk r p h (l1 ++ OClientIP None :: l2) = Ok rt ->
    (forall o, In o l2 -> r_sel_resolver o = None) ->
    client_ip_resolver rt = None /\ client_ip r (Some rt) = CIPNone.
Proof. exact nil_resolver_means_none_l. Qed.
Print Assumptions nil_resolver_means_none.

Theorem annotation_last_value :
  forall (chk : bool) (r : router) (p : bytes) (h : bool) (l1 l2 : list ropt) (k : nat) (v : option nat) (rt : route),
    new_route chk r p h (l1 ++ OAnnot (KHash k) v :: l2) = Ok rt ->
    (forall o, In o l2 -> r_sel_annot k o = None) ->
    annot_get k (rt_annots rt) = v.
Proof. exact annotation_last_value_l. Qed.
Print Assumptions annotation_last_value.

Theorem hostname_path_pattern :
  forall (chk : bool) (r : router) (p : bytes) (h : bool) (opts : list ropt) (rt : route),
    new_route chk r p h opts = Ok rt ->
    exists hn pa, hostname rt = Some hn /\ path rt = Some pa /\ hn ++ pa = rt_pattern rt /\
                  hn = before_slash (rt_pattern rt) /\ pa = from_slash (rt_pattern rt).
Proof. exact hostname_path_pattern_l. Qed.
Print Assumptions hostname_path_pattern.

Theorem paramslen_counts_wildcards :
  forall (chk : bool) (r : router) (p : bytes) (h : bool) (opts : list ropt) (rt : route),
    new_route chk r p h opts = Ok rt -> rt_psLen rt = count_open (rt_pattern rt).
Proof. exact paramslen_counts_wildcards_l. Qed.
Print Assumptions paramslen_counts_wildcards.

(* the wildcard limit (WithMaxRouteParams, 65535 by default): more wildcards are refused, whatever their number, and
   ParamsLen of an accepted route never exceeds it *)
Theorem too_many_params_rejected :
  forall (chk : bool) (r : router) (p : bytes) (h : bool) (opts : list ropt),
    (forall n e, parse_lite p = Some (n, e) -> N.lt (g_maxParams r) (N.of_nat (count_open p)) ->
                 new_route chk r p h opts = Err ErrInvalidRoute) /\
    (forall rt, new_route chk r p h opts = Ok rt -> N.le (N.of_nat (rt_psLen rt)) (g_maxParams r)).
Proof. exact too_many_params_rejected_l. Qed.
Print Assumptions too_many_params_rejected.

(* the matched route's resolver inside route handlers, the router-wide one in every other handler *)
Theorem clientip_selection :
  forall (chk : bool) (r : router) (pats : list bytes) (tab : table) (key : nat) (rt : route) (p : probe),
    lookup key tab = Some rt -> rt_handler rt = true ->
    let k := dispatch_kind (rt_ignore rt) (rt_redirect rt) (g_noMethod r) (g_autoOptions r) p in
    let v := match k with
             | KRoute => (res_cip (rt_clientip rt), Some (rt_pattern rt))
             | _ => (res_cip (g_clientip r), None)
             end in
    (* the same on the handler's context, on its Clone, on its CloneWith copy, and downstream of a middleware that
       hands the CloneWith copy to the route handler *)
    run_op chk r pats tab (OProbe key p) = (tab, ObsProbe k v v v (match k with KRoute => Some v | _ => None end)).
Proof. exact clientip_selection_l. Qed.
Print Assumptions clientip_selection.

(* ... and the same through Router.Lookup / Txn.Lookup followed by Route.Handle / Route.HandleMiddleware, for direct and
   slash-adjusted matches alike *)
Theorem lookup_selection :
  forall (chk : bool) (r : router) (pats : list bytes) (tab : table) (e : entry) (key : nat) (rt : route) (adj mw : bool),
    lookup key tab = Some rt -> rt_handler rt = true ->
    let v := (res_cip (rt_clientip rt), Some (rt_pattern rt)) in
    run_op chk r pats tab (OLookup e key adj mw) = (tab, ObsLookup adj v v v (Some v)).
Proof. exact lookup_selection_l. Qed.
Print Assumptions lookup_selection.

Theorem clone_preserves_view :
  forall (r : router) (c : ctx), view_of r (clone c) = view_of r c /\ view_of r (clone_with c) = view_of r c.
Proof. exact clone_preserves_view_l. Qed.
Print Assumptions clone_preserves_view.

(* ---- invalid options are rejected, nothing panics ---- *)
(* the full statement *)
Definition invalid_options_rejected_never_panic_statement : Prop :=
  forall (g : list gopt) (pats : list bytes) (ops : list op),
    run_now g pats ops = spec_run g pats ops.

(* proved: everything except NewRoute with a nil handler, whatever the code does there ... *)
Theorem invalid_options_rejected_never_panic_partial :
  (forall g, new g <> Panic /\ (forallb g_valid g = false -> new g = Err ErrInvalidConfig)) /\
  (forall chk r p h opts,
      new_route chk r p h opts <> Panic /\
      (h = true -> accepts r p <> None -> forallb r_valid opts = false -> new_route chk r p h opts = Err ErrInvalidConfig) /\
      (h = true -> accepts r p = None -> new_route chk r p h opts = Err ErrInvalidRoute)) /\
  (forall chk r pats t v key opts,
      v = VHandle \/ v = VUpdate -> create chk r pats t v key false opts = (t, ObsErr (Some ErrInvalidRoute) None)) /\
  (forall chk g pats ops,
      chk = true \/ existsb Proofs.nil_newroute ops = false ->
      run_model chk g pats ops <> RPanic /\
      forall info os, run_model chk g pats ops = RRun info os -> ~ In ObsPanic os).
Proof.
  exact (conj invalid_global_options_rejected_l
        (conj invalid_route_options_rejected_l
        (conj nil_handler_rejected_handle_update_l never_panic_partial_l))).
Qed.
Print Assumptions invalid_options_rejected_never_panic_partial.

(* ... the full statement as soon as NewRoute has the guard (GenC19 is regenerated from fox.go on every run) ... *)
Theorem invalid_options_rejected_never_panic_if_guarded :
  newroute_checks_nil_handler = true ->
  (forall r p opts, new_route newroute_checks_nil_handler r p false opts = Err ErrInvalidRoute) /\
  invalid_options_rejected_never_panic_statement.
Proof. exact nil_handler_newroute_if_guarded_l. Qed.
Print Assumptions invalid_options_rejected_never_panic_if_guarded.

(* ... and refuted while it has not: NewRoute(pattern, nil) succeeds, HandleRoute registers it, the request panics *)
Theorem invalid_options_rejected_never_panic_refuted :
  newroute_checks_nil_handler = false ->
  (exists rt, new_route newroute_checks_nil_handler router0 (S2B "/a") false [] = Ok rt) /\
  exists info s, run_now [] w_pats w_ops = RRun info [ObsErr None (Some s); ObsPanic].
Proof. exact nil_handler_newroute_refuted_l. Qed.
Print Assumptions invalid_options_rejected_never_panic_refuted.

(* non-vacuity: contradictory, repeated and nil options on router and route, a hostname pattern with two wildcards *)
Example options_example :
  spec_run [GRedirectTS true; GClientIP (Some 1); GIgnoreTS true; GClientIP None; GMw [true; true]; GNoMethod true]
           [S2B "a.{b}.com/x/*{y}"]
           [OCreate VHandle 0 true [OIgnoreTS false; ORedirectTS true; OAnnot (KHash 3) (Some 5); OClientIP None;
                                    OAnnot (KHash 3) (Some 6); OMw [true]];
            OAnnotGet 0 3; OProbe 0 PExact; OProbe 0 PWrongMethod;
            OCreate VUpdate 0 true [OAnnot KNil None]; OCreate VHandle 0 false []]
  = RRun (false, true, true, true, false)
         [ObsErr None (Some (mkSnap (S2B "a.{b}.com/x/*{y}") (S2B "a.{b}.com") (S2B "/x/*{y}") 2 true false None 3));
          ObsAnnot (Some 6);
          ObsProbe KRoute (CIPNone, Some (S2B "a.{b}.com/x/*{y}")) (CIPNone, Some (S2B "a.{b}.com/x/*{y}"))
                   (CIPNone, Some (S2B "a.{b}.com/x/*{y}")) (Some (CIPNone, Some (S2B "a.{b}.com/x/*{y}")));
          ObsProbe KNoMethod (CIP 1, None) (CIP 1, None) (CIP 1, None) None;
          ObsErr (Some ErrInvalidConfig) None; ObsErr (Some ErrInvalidRoute) None].
Proof. vm_compute. reflexivity. Qed.
