(* C19 specification, from the property text.  A route carries exactly the configuration in force
   when it was created: for each setting the LAST option that decides it wins, route options
   after router options (inheritance at creation); enabling one trailing-slash mode disables the
   other; a nil per-route resolver means none; Annotation returns the last value set for the key;
   Hostname() ++ Path() = Pattern() and ParamsLen() = number of wildcards; ClientIP uses the
   route's resolver inside route handlers and the router's elsewhere; nil handlers / middleware
   and annotation keys that cannot be map keys are rejected (ErrInvalidRoute / ErrInvalidConfig),
   never a panic. *)
From FoxBase Require Import Bytes.
From FoxC19 Require Import Types Pattern.

(* the value given by the last option for which [sel] says something, [d] if there is none *)
Fixpoint last_sel {O V : Type} (sel : O -> option V) (l : list O) (d : V) : V :=
  match l with
  | [] => d
  | o :: r => last_sel sel r (match sel o with Some v => v | None => d end)
  end.

(* ---- router-wide settings ---- *)
Definition g_sel_redirect (o : gopt) : option bool :=
  match o with GRedirectTS b => Some b | GIgnoreTS true => Some false | _ => None end.
Definition g_sel_ignore (o : gopt) : option bool :=
  match o with GIgnoreTS b => Some b | GRedirectTS true => Some false | _ => None end.
Definition g_sel_resolver (o : gopt) : option resolver :=
  match o with GClientIP (Some i) => Some (RSome i) | _ => None end.    (* a nil global resolver changes nothing *)
Definition g_sel_nomethod (o : gopt) : option bool :=
  match o with GNoMethod b => Some b | GNoMethodH true => Some true | _ => None end.
Definition g_sel_autooptions (o : gopt) : option bool :=
  match o with GAutoOptions b => Some b | GOptionsH true => Some true | GDefault => Some true | _ => None end.

Definition all_true (l : list bool) : bool := forallb (fun b => b) l.
Definition g_valid (o : gopt) : bool :=
  match o with
  | GMw ms | GMwFor _ ms => all_true ms      (* whatever the scope is, even one that includes no handler *)
  | GNoRouteH nn | GNoMethodH nn | GOptionsH nn => nn
  | _ => true
  end.
Definition g_nmws (o : gopt) : nat :=
  match o with GMw ms | GMwFor _ ms => List.length ms | GDefault => 2 | _ => 0 end.

(* ---- per-route settings ---- *)
Definition r_sel_redirect (o : ropt) : option bool :=
  match o with ORedirectTS b => Some b | OIgnoreTS true => Some false | _ => None end.
Definition r_sel_ignore (o : ropt) : option bool :=
  match o with OIgnoreTS b => Some b | ORedirectTS true => Some false | _ => None end.
Definition r_sel_resolver (o : ropt) : option resolver :=
  match o with OClientIP (Some i) => Some (RSome i) | OClientIP None => Some RNone | _ => None end.
Definition r_sel_annot (k : nat) (o : ropt) : option (option nat) :=
  match o with OAnnot (KHash k') v => if Nat.eqb k' k then Some v else None | _ => None end.
Definition r_valid (o : ropt) : bool :=
  match o with
  | OMw ms => all_true ms
  | OAnnot (KHash _) _ => true
  | OAnnot _ _ => false
  | _ => true
  end.
Definition r_nmws (o : ropt) : nat := match o with OMw ms => List.length ms | _ => 0 end.

Definition sum_map {O} (f : O -> nat) (l : list O) : nat := fold_right (fun o n => f o + n) 0 l.

(* what the specification remembers of a registered route: its pattern, the options it was created with *)
Record sroute := mkSRoute { sr_pattern : bytes; sr_opts : list ropt }.

Definition eff_redirect (g : list gopt) (rt : sroute) : bool := last_sel r_sel_redirect (sr_opts rt) (last_sel g_sel_redirect g false).
Definition eff_ignore (g : list gopt) (rt : sroute) : bool := last_sel r_sel_ignore (sr_opts rt) (last_sel g_sel_ignore g false).
Definition eff_resolver (g : list gopt) (rt : sroute) : resolver := last_sel r_sel_resolver (sr_opts rt) (last_sel g_sel_resolver g RNone).
Definition res_opt (r : resolver) : option nat := match r with RNone => None | RSome i => Some i end.
Definition res_cip (r : resolver) : cip := match r with RNone => CIPNone | RSome i => CIP i end.

(* hostname = what precedes the first '/', path = the rest *)
Fixpoint before_slash (p : bytes) : bytes :=
  match p with [] => [] | c :: r => if Ascii.eqb c "/"%char then [] else c :: before_slash r end.
Fixpoint from_slash (p : bytes) : bytes :=
  match p with [] => [] | c :: r => if Ascii.eqb c "/"%char then p else from_slash r end.

Definition spec_snapshot (g : list gopt) (rt : sroute) : snapshot :=
  mkSnap (sr_pattern rt) (before_slash (sr_pattern rt)) (from_slash (sr_pattern rt)) (count_open (sr_pattern rt))
         (eff_redirect g rt) (eff_ignore g rt) (res_opt (eff_resolver g rt))
         (sum_map g_nmws g + sum_map r_nmws (sr_opts rt)).

Definition stab := list (nat * sroute).
Fixpoint slookup (key : nat) (t : stab) : option sroute :=
  match t with [] => None | (k, v) :: r => if Nat.eqb k key then Some v else slookup key r end.
Fixpoint sreplace (key : nat) (v : sroute) (t : stab) : stab :=
  match t with [] => [] | (k, w) :: r => if Nat.eqb k key then (k, v) :: r else (k, w) :: sreplace key v r end.

(* the limit on the number of wildcards: WithMaxRouteParams, math.MaxUint16 by default *)
Definition g_sel_maxparams (o : gopt) : option N := match o with GMaxParams n => Some n | _ => None end.
Definition max_params (g : list gopt) : N := last_sel g_sel_maxparams g 65535%N.

(* well-formed, and no more wildcards than the limit *)
Definition valid_pattern (g : list gopt) (p : bytes) : bool :=
  match parse_lite p with Some _ => N.leb (N.of_nat (count_open p)) (max_params g) | None => false end.

Definition spec_op (g : list gopt) (pats : list bytes) (t : stab) (o : op) : stab * obs :=
  match o with
  | OCreate v key handler opts =>
      let p := nth key pats [] in
      if negb handler then (t, ObsErr (Some ErrInvalidRoute) None)            (* nil handler *)
      else if negb (valid_pattern g p) then (t, ObsErr (Some ErrInvalidRoute) None)
      else if negb (forallb r_valid opts) then (t, ObsErr (Some ErrInvalidConfig) None)
      else let rt := mkSRoute p opts in
           match v, slookup key t with
           | VOnly, _ => (t, ObsErr None (Some (spec_snapshot g rt)))             (* built, not registered *)
           | VUpdate, None => (t, ObsErr (Some ErrRouteNotFound) None)
           | VUpdate, Some _ => (sreplace key rt t, ObsErr None (Some (spec_snapshot g rt)))
           | _, Some _ => (t, ObsErr (Some ErrRouteExist) None)
           | _, None => ((key, rt) :: t, ObsErr None (Some (spec_snapshot g rt)))
           end
  | OProbe key p =>
      (t, match slookup key t with
          | None => let v := (res_cip (last_sel g_sel_resolver g RNone), None) in ObsProbe KNoRoute v v v None
          | Some rt =>
              let k := dispatch_kind (eff_ignore g rt) (eff_redirect g rt)
                                     (last_sel g_sel_nomethod g false) (last_sel g_sel_autooptions g false) p in
              (* the matched route and its resolver inside route handlers, no route and the router-wide resolver in
                 every other handler - on the handler's context and on every copy made of it (Clone, CloneWith),
                 including a copy a middleware hands to the rest of the chain *)
              let v := match k with
                       | KRoute => (res_cip (eff_resolver g rt), Some (sr_pattern rt))
                       | _ => (res_cip (last_sel g_sel_resolver g RNone), None)
                       end in
              ObsProbe k v v v (match k with KRoute => Some v | _ => None end)
          end)
  | OAnnotGet key k =>
      (t, match slookup key t with
          | None => ObsSnap None
          | Some rt => ObsAnnot (last_sel (r_sel_annot k) (sr_opts rt) None)
          end)
  | OAccess key => (t, ObsSnap (option_map (spec_snapshot g) (slookup key t)))
  | OLookup _ key adj _ =>
      (* whichever entry point found the route and however (directly or by adjusting the trailing slash, whatever
         the trailing-slash modes are): a handler of that route run on the context handed out is a route handler -
         it sees the route and the route's resolver, and so do copies of that context *)
      (t, match slookup key t with
          | None => ObsLookupNone
          | Some rt => let v := (res_cip (eff_resolver g rt), Some (sr_pattern rt)) in ObsLookup adj v v v (Some v)
          end)
  end.

Fixpoint spec_ops (g : list gopt) (pats : list bytes) (t : stab) (ops : list op) : list obs :=
  match ops with
  | [] => []
  | o :: r => let '(t', b) := spec_op g pats t o in b :: spec_ops g pats t' r
  end.

Definition spec_info (g : list gopt) : bool * bool * bool * bool * bool :=
  (last_sel g_sel_redirect g false, last_sel g_sel_ignore g false,
   match last_sel g_sel_resolver g RNone with RNone => false | RSome _ => true end,
   last_sel g_sel_nomethod g false, last_sel g_sel_autooptions g false).

Definition spec_run (g : list gopt) (pats : list bytes) (ops : list op) : result :=
  if negb (forallb g_valid g) then RNewErr ErrInvalidConfig
  else RRun (spec_info g) (spec_ops g pats [] ops).
