(* C19, tie A: the model of the options is equal, for all inputs, to the functions regenerated from options.go / fox.go
   on this run (GenOpt.v, by harness/cmd/optgen).  Statements only, each closed by [exact]. *)
From FoxBase Require Import Bytes.
From FoxC19 Require Import GenC19 Types Pattern Spec Model Proofs OptSem GenOpt BridgeOpt.

(* every global option, on every router record: Model.apply_glob = the generated router-side closure *)
Theorem gen_apply_glob_eq : forall (r : router) (o : gopt), apply_glob r o = gen_apply_glob o r.
Proof. exact gen_apply_glob_eq_l. Qed.
Print Assumptions gen_apply_glob_eq.

Example gen_apply_glob_example :
  gen_apply_glob (GIgnoreTS true) (mkRouter true false (RSome 4) false true 3 65535%N)
    = Some (mkRouter false true (RSome 4) false true 3 65535%N) /\
  gen_apply_glob (GClientIP None) (mkRouter true false (RSome 4) false true 3 7%N)
    = Some (mkRouter true false (RSome 4) false true 3 7%N) /\
  gen_apply_glob (GMw [true; true]) (mkRouter true false RNone false true 3 7%N)
    = Some (mkRouter true false RNone false true 5 7%N) /\
  gen_apply_glob (GMwFor 16%N [true; false; true]) router0 = None /\
  gen_apply_glob GDefault router0 = Some (mkRouter false false RNone false true 2 65535%N) /\
  gen_apply_glob (GNoMethodH false) router0 = None.
Proof. vm_compute. repeat split. Qed.

(* every route option, on every route record *)
Theorem gen_apply_ropt_eq : forall (rt : route) (o : ropt), apply_ropt rt o = gen_apply_ropt o rt.
Proof. exact gen_apply_ropt_eq_l. Qed.
Print Assumptions gen_apply_ropt_eq.

Example gen_apply_ropt_example :
  let rt := mkRoute (S2B "/a") 0 0 false true (RSome 2) [(1, Some 5)] 1 true in
  gen_apply_ropt (ORedirectTS true) rt = Some (mkRoute (S2B "/a") 0 0 true false (RSome 2) [(1, Some 5)] 1 true) /\
  gen_apply_ropt (OClientIP None) rt = Some (mkRoute (S2B "/a") 0 0 false true RNone [(1, Some 5)] 1 true) /\
  gen_apply_ropt (OAnnot (KHash 1) None) rt = Some (mkRoute (S2B "/a") 0 0 false true (RSome 2) [(1, None)] 1 true) /\
  gen_apply_ropt (OAnnot KNil (Some 1)) rt = None /\
  gen_apply_ropt (OAnnot (KUnhashDyn 3) (Some 1)) rt = None /\
  gen_apply_ropt (OMw [true]) rt = Some (mkRoute (S2B "/a") 0 0 false true (RSome 2) [(1, Some 5)] 2 true).
Proof. vm_compute. repeat split. Qed.

(* scope and global flag of the middleware entries each option appends (invisible to the length-only model) *)
Theorem gen_mw_entries_expected :
  (forall ms, gen_WithMiddleware_router_mw ms = [(248%N, true)]) /\
  (forall ms, gen_WithMiddleware_route_mw ms = [(128%N, false)]) /\
  (forall scope ms, gen_WithMiddlewareFor_router_mw scope ms = [(scope, true)]) /\
  gen_DefaultOptions_router_mw = [(128%N, true); (248%N, true)].
Proof. exact gen_mw_entries_expected_l. Qed.
Print Assumptions gen_mw_entries_expected.

(* fox.New: defaults, then the option loop (generated) = Model.new *)
Theorem gen_new_eq : forall (opts : list gopt), gen_new opts = new opts.
Proof. exact gen_new_eq_l. Qed.
Print Assumptions gen_new_eq.

Example gen_new_example :
  gen_new [GRedirectTS true; GClientIP (Some 1); GIgnoreTS true; GClientIP None; GMw [true; true]; GNoMethod true]
    = Ok (mkRouter false true (RSome 1) true false 2 65535%N) /\
  gen_new [GIgnoreTS true; GMw [true; false]; GRedirectTS true] = Err ErrInvalidConfig.
Proof. vm_compute. split; reflexivity. Qed.

(* Router.NewRoute: nil-handler guard, parseRoute (as Model.v sees it), inheritance of the router-wide settings into the
   new route BEFORE the route options run, option loop (generated) = Model.new_route *)
Theorem gen_new_route_eq :
  forall (r : router) (p : bytes) (h : bool) (opts : list ropt),
    gen_new_route r p h opts = new_route newroute_checks_nil_handler r p h opts.
Proof. exact gen_new_route_eq_l. Qed.
Print Assumptions gen_new_route_eq.

Example gen_new_route_example :
  let r := mkRouter false true (RSome 1) true false 2 65535%N in
  gen_new_route r (S2B "a.{b}.com/x/*{y}") true [OIgnoreTS false; OAnnot (KHash 3) (Some 5); OMw [true]]
    = Ok (mkRoute (S2B "a.{b}.com/x/*{y}") 9 2 false false (RSome 1) [(3, Some 5)] 3 true) /\
  gen_new_route r (S2B "/x") true [ORedirectTS true; OClientIP None]
    = Ok (mkRoute (S2B "/x") 0 0 true false RNone [] 2 true) /\
  gen_new_route r (S2B "/x") true [OMw [false]] = Err ErrInvalidConfig /\
  gen_new_route r (S2B "/x{") true [] = Err ErrInvalidRoute.
Proof. vm_compute. repeat split. Qed.

(* the accessors of *Route (route.go), generated = Model.v's *)
Theorem gen_accessors_eq :
  forall (rt : route),
    gen_Route_Pattern rt = rt_pattern rt /\ gen_Route_Hostname rt = hostname rt /\ gen_Route_Path rt = path rt /\
    gen_Route_RedirectTrailingSlashEnabled rt = rt_redirect rt /\ gen_Route_IgnoreTrailingSlashEnabled rt = rt_ignore rt /\
    gen_Route_ClientIPResolver rt = client_ip_resolver rt /\ gen_Route_ParamsLen rt = rt_psLen rt /\
    (forall k, gen_Route_Annotation rt (KHash k) = Some (annot_get k (rt_annots rt))) /\
    gen_snapshot_of rt = snapshot_of rt.
Proof.
  exact (fun rt => conj (Route_Pattern_eq rt) (conj (Route_Hostname_eq rt) (conj (Route_Path_eq rt)
        (conj (Route_RedirectTrailingSlashEnabled_eq rt) (conj (Route_IgnoreTrailingSlashEnabled_eq rt)
        (conj (Route_ClientIPResolver_eq rt) (conj (Route_ParamsLen_eq rt) (conj (Route_Annotation_eq rt) (gen_snapshot_eq_l rt))))))))).
Qed.
Print Assumptions gen_accessors_eq.

Example gen_accessors_example :
  let rt := mkRoute (S2B "A.{b}.com/x") 9 1 true false RNone [(3, Some 5)] 2 true in
  gen_Route_Hostname rt = Some (S2B "A.{b}.com") /\ gen_Route_Path rt = Some (S2B "/x") /\
  gen_Route_ClientIPResolver rt = None /\ gen_Route_Annotation rt (KHash 3) = Some (Some 5) /\
  gen_Route_Annotation rt (KNonComp 0) = None /\
  gen_Route_Hostname (mkRoute (S2B "/x") 9 0 false false RNone [] 0 true) = None.
Proof. vm_compute. repeat split. Qed.

Theorem gen_hostname_path_pattern :
  forall (r : router) (p : bytes) (h : bool) (opts : list ropt) (rt : route),
    gen_new_route r p h opts = Ok rt ->
    exists hn pa, gen_Route_Hostname rt = Some hn /\ gen_Route_Path rt = Some pa /\ hn ++ pa = gen_Route_Pattern rt /\
                  hn = before_slash (gen_Route_Pattern rt) /\ pa = from_slash (gen_Route_Pattern rt).
Proof. exact gen_hostname_path_pattern_l. Qed.
Print Assumptions gen_hostname_path_pattern.

(* ---- C19's theorems over the generated functions (by rewriting with the equalities above) ---- *)
Theorem gen_last_option_wins_router :
  forall (l1 : list gopt) (o : gopt) (l2 : list gopt) (r : router),
    gen_new (l1 ++ o :: l2) = Ok r ->
    (forall v, g_sel_redirect o = Some v -> (forall o', In o' l2 -> g_sel_redirect o' = None) -> g_redirect r = v) /\
    (forall v, g_sel_ignore o = Some v -> (forall o', In o' l2 -> g_sel_ignore o' = None) -> g_ignore r = v) /\
    (forall v, g_sel_resolver o = Some v -> (forall o', In o' l2 -> g_sel_resolver o' = None) -> g_clientip r = v) /\
    (forall v, g_sel_nomethod o = Some v -> (forall o', In o' l2 -> g_sel_nomethod o' = None) -> g_noMethod r = v) /\
    (forall v, g_sel_autooptions o = Some v -> (forall o', In o' l2 -> g_sel_autooptions o' = None) -> g_autoOptions r = v).
Proof. exact gen_last_option_wins_router_l. Qed.
Print Assumptions gen_last_option_wins_router.

Theorem gen_last_option_wins_route :
  forall (r : router) (p : bytes) (h : bool) (l1 : list ropt) (o : ropt) (l2 : list ropt) (rt : route),
    gen_new_route r p h (l1 ++ o :: l2) = Ok rt ->
    (forall v, r_sel_redirect o = Some v -> (forall o', In o' l2 -> r_sel_redirect o' = None) -> rt_redirect rt = v) /\
    (forall v, r_sel_ignore o = Some v -> (forall o', In o' l2 -> r_sel_ignore o' = None) -> rt_ignore rt = v) /\
    (forall v, r_sel_resolver o = Some v -> (forall o', In o' l2 -> r_sel_resolver o' = None) -> rt_clientip rt = v) /\
    (forall k v, r_sel_annot k o = Some v -> (forall o', In o' l2 -> r_sel_annot k o' = None) -> annot_get k (rt_annots rt) = v).
Proof. exact gen_last_option_wins_route_l. Qed.
Print Assumptions gen_last_option_wins_route.

Theorem gen_ts_modes_exclusive :
  forall (g : list gopt) (r : router),
    gen_new g = Ok r ->
    g_redirect r && g_ignore r = false /\
    forall p h opts rt, gen_new_route r p h opts = Ok rt -> rt_redirect rt && rt_ignore rt = false.
Proof. exact gen_ts_modes_exclusive_l. Qed.
Print Assumptions gen_ts_modes_exclusive.

(* ... and step by step: each generated trailing-slash closure preserves the exclusion *)
Theorem gen_ts_step_exclusive :
  (forall b r r', g_redirect r && g_ignore r = false ->
     (gen_WithRedirectTrailingSlash_router b r = Some r' \/ gen_WithIgnoreTrailingSlash_router b r = Some r') ->
     g_redirect r' && g_ignore r' = false) /\
  (forall b rt rt', rt_redirect rt && rt_ignore rt = false ->
     (gen_WithRedirectTrailingSlash_route b rt = Some rt' \/ gen_WithIgnoreTrailingSlash_route b rt = Some rt') ->
     rt_redirect rt' && rt_ignore rt' = false).
Proof. exact gen_ts_step_exclusive_l. Qed.
Print Assumptions gen_ts_step_exclusive.

Theorem gen_nil_resolver_means_none :
  forall (r : router) (p : bytes) (h : bool) (l1 l2 : list ropt) (rt : route),
    gen_new_route r p h (l1 ++ OClientIP None :: l2) = Ok rt ->
    (forall o, In o l2 -> r_sel_resolver o = None) ->
    client_ip_resolver rt = None /\ client_ip r (Some rt) = CIPNone.
Proof. exact gen_nil_resolver_means_none_l. Qed.
Print Assumptions gen_nil_resolver_means_none.

Theorem gen_route_inherits_at_creation :
  forall (r : router) (p : bytes) (h : bool) (opts : list ropt) (rt : route),
    gen_new_route r p h opts = Ok rt ->
    ((forall o, In o opts -> r_sel_redirect o = None) -> rt_redirect rt = g_redirect r) /\
    ((forall o, In o opts -> r_sel_ignore o = None) -> rt_ignore rt = g_ignore r) /\
    ((forall o, In o opts -> r_sel_resolver o = None) -> rt_clientip rt = g_clientip r) /\
    ((forall o, In o opts -> r_nmws o = 0) -> rt_mws rt = g_mws r).
Proof. exact gen_route_inherits_l. Qed.
Print Assumptions gen_route_inherits_at_creation.

(* non-vacuity of the corollaries: a router built by the generated New from contradictory options, a route created on it *)
Example gen_corollaries_example :
  exists r rt,
    gen_new ([GRedirectTS true] ++ GIgnoreTS true :: [GMw [true]]) = Ok r /\ g_ignore r = true /\ g_redirect r = false /\
    gen_new_route r (S2B "/a") true ([ORedirectTS true] ++ OClientIP None :: [OMw [true]]) = Ok rt /\
    rt_redirect rt = true /\ rt_ignore rt = false /\ client_ip_resolver rt = None /\ rt_mws rt = 2.
Proof. eexists; eexists. vm_compute. repeat split. Qed.
