(* C19: vocabulary shared by specification, model and case files. *)
From FoxBase Require Import Bytes.

(* a ClientIPResolver: the noClientIPResolver sentinel, or user resolver number id *)
Inductive resolver := RNone | RSome (id : nat).

(* annotation keys by what Go can do with them as a map key:
   nil interface / hashable value number id / a value of comparable static type (array or struct of
   interfaces) holding an unhashable dynamic value / a value of non-comparable type (slice, map, func) *)
Inductive akey := KNil | KHash (id : nat) | KUnhashDyn (id : nat) | KNonComp (id : nat).

Inductive err := ErrInvalidConfig | ErrInvalidRoute | ErrRouteExist | ErrRouteNotFound
  | ErrOther.          (* any other class; never produced by specification or model *)

Inductive kind := KRoute | KNoRoute | KNoMethod | KRedirect | KOptions.

(* global options of fox.New; a bool says "the function value is non-nil", an option nat is a resolver (None = nil) *)
Inductive gopt :=
| GRedirectTS (b : bool) | GIgnoreTS (b : bool) | GClientIP (r : option nat)
| GMw (ms : list bool) | GMwFor (scope : N) (ms : list bool)   (* scope: any HandlerScope value 0..255 *)
| GNoRouteH (nonnil : bool) | GNoMethodH (nonnil : bool) | GOptionsH (nonnil : bool)
| GNoMethod (b : bool) | GAutoOptions (b : bool) | GDefault
| GMaxParams (n : N).                     (* WithMaxRouteParams(n), n a uint16 *)

(* route options of Handle / Update / NewRoute *)
Inductive ropt :=
| ORedirectTS (b : bool) | OIgnoreTS (b : bool) | OClientIP (r : option nat)
| OAnnot (k : akey) (v : option nat)       (* value None = nil *)
| OMw (ms : list bool).

(* request shapes sent for a registered route (registered under GET only) *)
Inductive probe :=
| PExact            (* GET, the path the pattern matches *)
| PTsr              (* GET, that path with the trailing slash toggled *)
| PNoRoute          (* GET, a path nothing matches *)
| PWrongMethod      (* POST, the matching path *)
| POptions.         (* OPTIONS, the matching path *)

Inductive via := VHandle | VUpdate | VNewRoute       (* Router.Handle / Router.Update / Router.NewRoute + HandleRoute *)
  | VOnly.                                           (* Router.NewRoute alone: the route is built but not registered *)

Inductive entry := ERouter | ETxnRead | ETxnWrite.

Inductive op :=
| OCreate (v : via) (key : nat) (handler : bool) (opts : list ropt)   (* handler: is the HandlerFunc non-nil *)
| OProbe (key : nat) (p : probe)
| OAnnotGet (key : nat) (k : nat)          (* Route.Annotation(hashable key k) of the registered route *)
| OAccess (key : nat)                      (* accessors of the registered route *)
| OLookup (e : entry) (key : nat) (adj : bool) (mw : bool).
    (* secondary entry point: Router.Lookup / Txn.Lookup (read-only or write transaction) with a GET request for
       the route's path (adj = false) or that path with the trailing slash toggled (adj = true), then the returned
       route is run on the returned context: route.Handle(cc) (mw = false) or route.HandleMiddleware(cc) *)

Record snapshot := mkSnap {
  sn_pattern : bytes; sn_hostname : bytes; sn_path : bytes; sn_params : nat;
  sn_redirect : bool; sn_ignore : bool; sn_resolver : option nat; sn_nmws : nat }.

(* result of Context.ClientIP: ErrNoClientIPResolver, or the address produced by resolver id *)
Inductive cip := CIPNone | CIP (id : nat).

(* what a context shows: ClientIP() and the pattern of Route() (None = no route) *)
Definition view := (cip * option bytes)%type.

Inductive obs :=
| ObsErr (e : option err) (s : option snapshot)   (* create: error class, accessors of the returned route *)
| ObsProbe (k : kind) (own clone clonewith : view) (down : option view)
    (* which handler kind ran; what ClientIP / Route().Pattern() give in the probing middleware on its own context,
       on c.Clone() and on c.CloneWith(c.Writer(), c.Request()); and in the route handler, which receives that
       CloneWith copy from the middleware (None when no recording handler ran) *)
| ObsAnnot (v : option nat)
| ObsSnap (s : option snapshot)                   (* None: nothing registered under the key *)
| ObsLookup (tsr : bool) (own clone clonewith : view) (down : option view)
    (* Lookup returned a route with this tsr flag; what the returned context, its Clone and its CloneWith copy show,
       and what the route handler saw when run on the returned context *)
| ObsLookupNone                                   (* Lookup returned no route *)
| ObsPanic.

Inductive result := RNewErr (e : err) | RRun (info : bool * bool * bool * bool * bool) (os : list obs) | RPanic.
(* info = RouterInfo: redirect, ignore, client-ip configured, method-not-allowed, auto-options *)

(* which handler kind ServeHTTP reaches for a probe of a registered route, given the flags in force
   (dispatch itself is the subject of C08 / C11; here it makes the effective flags observable) *)
Definition dispatch_kind (rt_ignore rt_redirect g_noMethod g_autoOptions : bool) (p : probe) : kind :=
  match p with
  | PExact => KRoute
  | PTsr => if rt_ignore then KRoute else if rt_redirect then KRedirect else KNoRoute
  | PNoRoute => KNoRoute
  | PWrongMethod => if g_noMethod then KNoMethod else KNoRoute
  | POptions => if g_autoOptions then KOptions else if g_noMethod then KNoMethod else KNoRoute
  end.

(* ---- boolean equalities for the case files ---- *)
Definition err_eqb (a b : err) : bool :=
  match a, b with
  | ErrInvalidConfig, ErrInvalidConfig | ErrInvalidRoute, ErrInvalidRoute | ErrRouteExist, ErrRouteExist
  | ErrRouteNotFound, ErrRouteNotFound | ErrOther, ErrOther => true
  | _, _ => false
  end.
Definition kind_eqb (a b : kind) : bool :=
  match a, b with
  | KRoute, KRoute | KNoRoute, KNoRoute | KNoMethod, KNoMethod | KRedirect, KRedirect | KOptions, KOptions => true
  | _, _ => false
  end.
Definition cip_eqb (a b : cip) : bool :=
  match a, b with CIPNone, CIPNone => true | CIP x, CIP y => Nat.eqb x y | _, _ => false end.
Definition snap_eqb (a b : snapshot) : bool :=
  bytes_eqb (sn_pattern a) (sn_pattern b) && bytes_eqb (sn_hostname a) (sn_hostname b) && bytes_eqb (sn_path a) (sn_path b)
  && Nat.eqb (sn_params a) (sn_params b) && Bool.eqb (sn_redirect a) (sn_redirect b) && Bool.eqb (sn_ignore a) (sn_ignore b)
  && opt_eqb Nat.eqb (sn_resolver a) (sn_resolver b) && Nat.eqb (sn_nmws a) (sn_nmws b).
Definition view_eqb (a b : view) : bool := cip_eqb (fst a) (fst b) && opt_eqb bytes_eqb (snd a) (snd b).
Definition obs_eqb (a b : obs) : bool :=
  match a, b with
  | ObsErr e s, ObsErr e' s' => opt_eqb err_eqb e e' && opt_eqb snap_eqb s s'
  | ObsProbe k a b c d, ObsProbe k' a' b' c' d' =>
      kind_eqb k k' && view_eqb a a' && view_eqb b b' && view_eqb c c' && opt_eqb view_eqb d d'
  | ObsAnnot v, ObsAnnot v' => opt_eqb Nat.eqb v v'
  | ObsSnap s, ObsSnap s' => opt_eqb snap_eqb s s'
  | ObsLookup t a b c d, ObsLookup t' a' b' c' d' =>
      Bool.eqb t t' && view_eqb a a' && view_eqb b b' && view_eqb c c' && opt_eqb view_eqb d d'
  | ObsLookupNone, ObsLookupNone => true
  | ObsPanic, ObsPanic => true
  | _, _ => false
  end.
Definition info_eqb (a b : bool * bool * bool * bool * bool) : bool :=
  let '(a1, a2, a3, a4, a5) := a in let '(b1, b2, b3, b4, b5) := b in
  Bool.eqb a1 b1 && Bool.eqb a2 b2 && Bool.eqb a3 b3 && Bool.eqb a4 b4 && Bool.eqb a5 b5.
Definition result_eqb (a b : result) : bool :=
  match a, b with
  | RNewErr e, RNewErr e' => err_eqb e e'
  | RRun i os, RRun i' os' => info_eqb i i' && list_eqb obs_eqb os os'
  | RPanic, RPanic => true
  | _, _ => false
  end.
