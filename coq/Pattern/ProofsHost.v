(* The list machine over the hostname part: one label at a time, the separating
   periods, the first slash; then the summary in terms of Grammar.label_ok_with. *)
From FoxBase Require Import Bytes.
Import List ListNotations.
From FoxPattern Require Import ParseRoute LMachine Token Grammar ProofsLRun ProofsPath.
Require Import Lia.
Open Scope char_scope.
Open Scope nat_scope.

(* the static hostname bytes the code accepts: letters, '_', digits, '-' *)
Definition ldh_us (c : ascii) : bool := is_alpha_us c || is_digit c || Ascii.eqb c "-".

Lemma alpha_not_digit c : is_alpha_us c = true -> is_digit c = false.
Proof.
  destruct c as [[] [] [] [] [] [] [] []]; cbv; intros H; try reflexivity; discriminate.
Qed.

Lemma ldh_us_not_dot c : ldh_us c = true -> Ascii.eqb c "." = false.
Proof. destruct (Ascii.eqb_spec c ".") as [->|]; [cbv; discriminate|reflexivity]. Qed.

Lemma last_cons {A} (c : A) l d : List.last (c :: l) d = List.last l c.
Proof.
  assert (Hd : forall (l : list A) x d d', List.last (x :: l) d = List.last (x :: l) d').
  { induction l0 as [|y l0 IH]; intros x d0 d'; [reflexivity|].
    change (List.last (y :: l0) d0 = List.last (y :: l0) d'). apply IH. }
  destruct l as [|x l]; [reflexivity|].
  change (List.last (x :: l) d = List.last (x :: l) c). apply Hd.
Qed.

Lemma unsnoc_spec s a z : unsnoc s = Some (a, z) -> s = a ++ [z].
Proof.
  revert a z; induction s as [|c s IH]; intros a z H; [discriminate|].
  simpl in H. destruct (unsnoc s) as [[a' z']|] eqn:E.
  - inversion H; subst. simpl. f_equal. apply IH. reflexivity.
  - inversion H; subst. destruct s; [reflexivity|]. destruct (unsnoc_nonempty a s) as (x & y & E'). congruence.
Qed.

Lemma parse_name_spec r n : parse_name r = Some n -> r = n ++ ["}"].
Proof.
  unfold parse_name. destruct (unsnoc r) as [[a z]|] eqn:E; [|discriminate].
  destruct (Ascii.eqb_spec z "}") as [->|]; [|discriminate]. intros H; inversion H; subst.
  now apply unsnoc_spec.
Qed.

Section Host.
Variables (mp mk : nat).

Definition hplain (c : ascii) : bool := plain c && nodelim "." c.

Definition hstat_ok (st : bytes) (la : ascii) : bool :=
  forallb ldh_us st && negb (first_is "-" st && Ascii.eqb la ".").

Definition hbump (st : bytes) (a : ast) : ast :=
  mkA StDefault (a_prevCatch a) (a_cnt a) (length st + a_cs a) (length st + a_klen a) (a_inParam a)
      (a_nonNum a || negb (forallb is_digit st)) (length st + a_partlen a) (a_totallen a)
      (List.last st (a_last a)) (a_hostlast a).

Lemma hplain_split c : hplain c = true ->
  Ascii.eqb c "{" = false /\ Ascii.eqb c "*" = false /\ Ascii.eqb c "." = false /\ Ascii.eqb c "/" = false.
Proof.
  unfold hplain, plain, nodelim. intros H.
  destruct (Ascii.eqb c "{"), (Ascii.eqb c "*"), (Ascii.eqb c "."), (Ascii.eqb c "/"); try discriminate; auto.
Qed.

Lemma lrun_hstatic st : forall p rest a,
  forallb hplain st = true -> a_state a = StDefault -> a_cnt a <= mp ->
  lrun mp mk true true p (st ++ rest) a =
  if hstat_ok st (a_last a) then lrun mp mk true true (List.last st p) rest (hbump st a) else None.
Proof.
  induction st as [|c st IH]; intros p rest a Hp Hs Hc.
  - simpl. unfold hstat_ok; simpl. destruct a as [s0 pc cnt cs kl ip nn pl tl la hl]. simpl in Hs; subst s0.
    unfold hbump; cbn. now rewrite orb_false_r.
  - simpl in Hp. apply andb_true_iff in Hp. destruct Hp as [Hpc Hp].
    destruct (hplain_split c Hpc) as (Hb1 & Hb2 & Hb3 & Hb4).
    simpl app. rewrite lrun_cons. unfold hbump at 1. rewrite !last_cons.
    destruct a as [s0 pc cnt cs kl ip nn pl tl la hl]. simpl in Hs, Hc; subst s0.
    unfold lstep; cbn -[Nat.ltb Nat.leb lrun is_alpha_us is_digit List.last].
    rewrite Hb1, Hb2, Hb3, Hb4. cbn -[Nat.ltb Nat.leb lrun is_alpha_us is_digit List.last].
    replace (mp <? cnt) with false by (symmetry; apply Nat.ltb_ge; exact Hc).
    unfold hstat_ok. simpl forallb. simpl first_is. unfold ldh_us at 1.
    destruct (is_alpha_us c) eqn:Ea.
    + (* letter or '_' *)
      cbn [orb andb]. rewrite IH by (auto; cbn; auto).
      unfold hstat_ok. cbn [a_last].
      assert (Hcd : Ascii.eqb c "." = false) by (apply ldh_us_not_dot; unfold ldh_us; now rewrite Ea).
      assert (Hcm : Ascii.eqb c "-" = false) by (destruct (Ascii.eqb_spec c "-") as [->|]; [discriminate Ea|reflexivity]).
      rewrite Hcd, Hcm, !andb_false_r. cbn [negb andb]. rewrite !andb_true_r.
      destruct (forallb ldh_us st); [|reflexivity].
      unfold hbump; cbn. rewrite (alpha_not_digit c Ea). cbn. rewrite orb_true_r. cbn.
      do 2 f_equal; lia.
    + destruct (is_digit c) eqn:Ed.
      * cbn [orb andb]. rewrite IH by (auto; cbn; auto).
        unfold hstat_ok. cbn [a_last].
        assert (Hcd : Ascii.eqb c "." = false) by (apply ldh_us_not_dot; unfold ldh_us; now rewrite Ed, orb_true_r).
        assert (Hcm : Ascii.eqb c "-" = false) by (destruct (Ascii.eqb_spec c "-") as [->|]; [discriminate Ed|reflexivity]).
        rewrite Hcd, Hcm, !andb_false_r. cbn [negb andb]. rewrite !andb_true_r.
        destruct (forallb ldh_us st); [|reflexivity].
        unfold hbump; cbn -[List.last].
        do 2 f_equal; lia.
      * destruct (Ascii.eqb_spec c "-") as [->|Hcm].
        -- cbn [orb andb]. destruct (Ascii.eqb la "."); cbn [negb andb]; [now rewrite andb_false_r|].
           rewrite IH by (auto; cbn; auto).
           unfold hstat_ok. cbn [a_last].
           change (Ascii.eqb "-" ".") with false. rewrite !andb_false_r. cbn [negb]. rewrite !andb_true_r.
           destruct (forallb ldh_us st); [|reflexivity].
           unfold hbump; cbn -[List.last]. rewrite orb_true_r. cbn -[List.last].
           do 2 f_equal; lia.
        -- cbn [orb andb]. reflexivity.
Qed.

(* effect of one hostname label (None = rejected); also yields the byte before the next one *)
Definition label_trans (p : ascii) (a : ast) (label : bytes) : option (ascii * ast) :=
  match parse_piece label with
  | None => None
  | Some pc =>
    let st := p_static pc in
    if hstat_ok st (a_last a) then
      match p_wild pc with
      | None => Some (List.last st p, hbump st a)
      | Some (WParam n) =>
        if name_ok true mk n && (S (a_cnt a) <=? mp)
        then Some ("}", closed false true (named (length n) (opened StParam (hbump st a)))) else None
      | Some (WCatch _) => None
      end
    else None
  end.

Lemma label_step p label rest a :
  forallb (nodelim ".") label = true -> next_ok "." rest = true -> inv mp a ->
  lrun mp mk true true p (label ++ rest) a =
  match label_trans p a label with Some (p', a') => lrun mp mk true true p' rest a' | None => None end.
Proof.
  intros Hlab Hrest (Hs & Hip & Hc).
  unfold label_trans, parse_piece.
  pose proof (span_static_spec label) as Hsp. destruct (span_static label) as [st r].
  destruct Hsp as (-> & Hpl & Hr).
  apply forallb_app_inv in Hlab. destruct Hlab as [Hst Hrr].
  assert (Hhp : forallb hplain st = true).
  { clear -Hpl Hst. induction st as [|c st IH]; [reflexivity|]. simpl in *.
    apply andb_true_iff in Hpl, Hst. destruct Hpl as [H1 H2], Hst as [H3 H4].
    rewrite IH by assumption. unfold hplain. now rewrite H1, H3. }
  rewrite <- app_assoc, lrun_hstatic by assumption.
  destruct r as [|c r1].
  - simpl. cbn [p_static p_wild]. destruct (hstat_ok st (a_last a)); reflexivity.
  - destruct Hr as [-> | ->].
    + (* '{' *)
      rewrite Ascii.eqb_refl. simpl in Hrr. simpl app.
      destruct (parse_name r1) as [n|] eqn:Epn; cbn [p_static p_wild].
      * destruct (hstat_ok st (a_last a)); [|reflexivity].
        rewrite lrun_open_param by reflexivity.
        assert (Hcnt1 : a_cnt (hbump st a) = a_cnt a) by reflexivity.
        rewrite Hcnt1.
        rewrite lrun_body_param; [| reflexivity | exact Hrr | exact Hrest].
        change (ldelim true true) with ".".
        rewrite scan_spec, Epn.
        assert (Hipo : a_inParam (opened StParam (hbump st a)) = false) by exact Hip.
        assert (Hko : a_klen (opened StParam (hbump st a)) = 1) by reflexivity.
        rewrite Hipo, Hko.
        rewrite <- (name_ok_len mk true false n eq_refl).
        assert (Hnn : forallb (nchar ".") n = forallb (name_byte true) n).
        { apply forallb_ext_in. intros x Hx. apply nchar_dot.
          apply parse_name_spec in Epn. subst r1.
          apply forallb_app_inv in Hrr. destruct Hrr as [Hn _].
          rewrite forallb_forall in Hn. specialize (Hn x Hx). unfold nodelim in Hn.
          apply andb_true_iff in Hn. destruct Hn as [_ Hn]. now apply negb_true_iff in Hn. }
        rewrite Hnn.
        destruct (forallb (name_byte true) n); [|rewrite andb_false_r; cbn [andb]; destruct (mp <? S (a_cnt a)); reflexivity].
        rewrite andb_true_r.
        destruct (Nat.ltb_spec mp (S (a_cnt a))), (Nat.leb_spec (S (a_cnt a)) mp); try lia;
          destruct (name_len_ok mk false 1 n); reflexivity.
      * destruct (hstat_ok st (a_last a)); [|reflexivity].
        rewrite lrun_open_param by reflexivity.
        rewrite lrun_body_param; [| reflexivity | exact Hrr | exact Hrest].
        change (ldelim true true) with ".". rewrite scan_spec, Epn.
        destruct (mp <? S (a_cnt (hbump st a))); reflexivity.
    + (* '*' : never in a hostname *)
      simpl app.
      assert (Hnone : (if hstat_ok st (a_last a) then lrun mp mk true true (List.last st p) ("*" :: r1 ++ rest) (hbump st a) else None) = None).
      { destruct (hstat_ok st (a_last a)); [|reflexivity]. apply lrun_star_host. reflexivity. }
      rewrite Hnone.
      change (Ascii.eqb "*" "{") with false. cbv iota.
      destruct r1 as [|c2 r2]; [reflexivity|].
      destruct (Ascii.eqb c2 "{"); [|reflexivity].
      destruct (parse_name r2); [|reflexivity].
      cbn [p_static p_wild]. destruct (hstat_ok st (a_last a)); reflexivity.
Qed.

Lemma label_trans_inv p a label p' a' :
  inv mp a -> label_trans p a label = Some (p', a') -> inv mp a' /\ a_prevCatch a' = a_prevCatch a \/ inv mp a' /\ a_prevCatch a' = false.
Proof.
  intros (Hs & Hip & Hc). unfold label_trans.
  destruct (parse_piece label) as [pc|]; [|discriminate].
  destruct (hstat_ok _ _); [|discriminate].
  destruct (p_wild pc) as [[n|n]|]; [| discriminate |].
  - destruct (name_ok true mk n); [|discriminate]. cbn [andb].
    destruct (Nat.leb_spec (S (a_cnt a)) mp); [|discriminate].
    intros E; inversion E; subst. right. repeat split; cbn; auto.
  - intros E; inversion E; subst. left. repeat split; cbn; auto.
Qed.

(* the period between two labels *)
Definition dot_ok (p : ascii) (a : ast) : bool :=
  negb (Ascii.eqb (a_last a) "." && negb (Ascii.eqb p "}")) && negb (Ascii.eqb (a_last a) "-") &&
  (a_partlen a <=? max_label).
Definition dotted (a : ast) : ast :=
  mkA StDefault (a_prevCatch a) (a_cnt a) (S (a_cs a)) (S (a_klen a)) (a_inParam a) (a_nonNum a)
      0 (a_totallen a + (a_partlen a + 1)) "." (a_hostlast a).

Lemma dot_step p rest a :
  a_state a = StDefault -> a_cnt a <= mp ->
  lrun mp mk true true p ("." :: rest) a =
  if dot_ok p a then lrun mp mk true true "." rest (dotted a) else None.
Proof.
  intros Hs Hc. rewrite lrun_cons.
  destruct a as [s0 pc cnt cs kl ip nn pl tl la hl]. simpl in Hs, Hc; subst s0.
  unfold lstep, dot_ok, dotted; cbn -[Nat.ltb Nat.leb lrun max_label].
  destruct (Ascii.eqb la "." && negb (Ascii.eqb p "}")); [reflexivity|]. cbn [negb andb].
  destruct (Ascii.eqb la "-"); [reflexivity|]. cbn [negb andb].
  destruct (Nat.ltb_spec max_label pl), (Nat.leb_spec pl max_label); try lia; [reflexivity|].
  replace (mp <? cnt) with false by (symmetry; apply Nat.ltb_ge; exact Hc). reflexivity.
Qed.

(* the first '/' *)
Definition slashed (p : ascii) (a : ast) : ast :=
  mkA StDefault (a_prevCatch a) (a_cnt a) (S (a_cs a)) (S (a_klen a)) (a_inParam a) (a_nonNum a)
      (a_partlen a) (a_totallen a) (a_last a) p.

Lemma first_slash hn p rest a :
  a_state a = StDefault -> a_cnt a <= mp ->
  lrun mp mk hn true p ("/" :: rest) a = lrun mp mk hn false "/" rest (slashed p a).
Proof.
  intros Hs Hc. rewrite lrun_cons.
  destruct a as [s0 pc cnt cs kl ip nn pl tl la hl]. simpl in Hs, Hc; subst s0.
  unfold lstep, slashed; cbn -[Nat.ltb Nat.leb lrun].
  replace (mp <? cnt) with false by (symmetry; apply Nat.ltb_ge; exact Hc). reflexivity.
Qed.

(* ---------- all labels ---------- *)
Fixpoint hfold (p : ascii) (a : ast) (labels : list bytes) : option (ascii * ast) :=
  match labels with
  | [] => None
  | l :: r =>
    match label_trans p a l with
    | None => None
    | Some (p1, a1) =>
      match r with
      | [] => Some (p1, a1)
      | _ => if dot_ok p1 a1 then hfold "." (dotted a1) r else None
      end
    end
  end.

Lemma inv_of_trans p a label p' a' : inv mp a -> label_trans p a label = Some (p', a') -> inv mp a'.
Proof. intros Hi Ht. destruct (label_trans_inv _ _ _ _ _ Hi Ht) as [[H _]|[H _]]; exact H. Qed.

Lemma host_run labels : forall p a t,
  labels <> [] -> Forall (fun l => forallb (nodelim ".") l = true) labels -> inv mp a ->
  lrun mp mk true true p (join "." labels ++ "/" :: t) a =
  match hfold p a labels with Some (p', a') => lrun mp mk true true p' ("/" :: t) a' | None => None end.
Proof.
  induction labels as [|l r IH]; intros p a t Hne Hall Hinv; [contradiction|].
  inversion Hall as [|? ? Hl Hall']; subst.
  simpl hfold. destruct r as [|l2 r'].
  - simpl join. rewrite label_step by (auto; reflexivity).
    destruct (label_trans p a l) as [[p1 a1]|]; reflexivity.
  - change (join "." (l :: l2 :: r')) with (l ++ "." :: join "." (l2 :: r')).
    rewrite <- app_assoc. simpl app.
    rewrite label_step by (auto; reflexivity).
    destruct (label_trans p a l) as [[p1 a1]|] eqn:Et; [|reflexivity].
    pose proof (inv_of_trans _ _ _ _ _ Hinv Et) as (Hs1 & Hip1 & Hc1).
    rewrite dot_step by assumption.
    destruct (dot_ok p1 a1); [|reflexivity].
    apply IH; [discriminate|exact Hall'|].
    repeat split; cbn; assumption.
Qed.

End Host.
