(* Grammar.v: the decision procedure grammarb_with agrees with the declarative
   in_grammar_with (parse_pat and render_pat are mutually inverse on well-formed trees). *)
From FoxBase Require Import Bytes.
Import List ListNotations.
From FoxPattern Require Import ParseRoute Token Grammar ProofsLRun ProofsPath ProofsHost.
Require Import Lia.
Open Scope char_scope.
Open Scope nat_scope.

(* ---------- split / join / cut_slash ---------- *)
Lemma split_nonempty d s : split d s <> [].
Proof. destruct s as [|c r]; simpl; [discriminate|]. destruct (Ascii.eqb c d); [discriminate|]. destruct (split d r); discriminate. Qed.

Lemma join_cons d x r : r <> [] -> join d (x :: r) = x ++ d :: join d r.
Proof. destruct r; [contradiction|reflexivity]. Qed.

Lemma split_join d s : join d (split d s) = s.
Proof.
  induction s as [|c r IH]; [reflexivity|]. simpl.
  destruct (Ascii.eqb_spec c d) as [->|Hne].
  - rewrite join_cons by apply split_nonempty. simpl. now rewrite IH.
  - pose proof (split_nonempty d r) as Hn. destruct (split d r) as [|h t]; [contradiction|].
    destruct t as [|h2 t'].
    + simpl in *. now rewrite IH.
    + change (join d ((c :: h) :: h2 :: t')) with ((c :: h) ++ d :: join d (h2 :: t')).
      change (join d (h :: h2 :: t')) with (h ++ d :: join d (h2 :: t')) in IH.
      rewrite <- IH. reflexivity.
Qed.

Lemma split_forall d (f : ascii -> bool) s :
  forallb f s = true ->
  Forall (fun l => forallb (fun c => negb (Ascii.eqb c d) && f c) l = true) (split d s).
Proof.
  induction s as [|c r IH]; intros Hf; simpl; [repeat constructor|].
  simpl in Hf. apply andb_true_iff in Hf. destruct Hf as [Hc Hf]. specialize (IH Hf).
  destruct (Ascii.eqb_spec c d) as [->|Hne].
  - constructor; [reflexivity|exact IH].
  - pose proof (split_nonempty d r) as Hn. destruct (split d r) as [|h t]; [contradiction|].
    inversion IH; subst. constructor; [|assumption].
    simpl. apply Ascii.eqb_neq in Hne. rewrite Hne, Hc. simpl. assumption.
Qed.

(* split is the only way to cut s at d into d-free parts *)
Lemma split_of_join d l :
  l <> [] -> Forall (fun x => forallb (fun c => negb (Ascii.eqb c d)) x = true) l ->
  split d (join d l) = l.
Proof.
  induction l as [|x r IH]; intros Hne Hall; [contradiction|].
  inversion Hall as [|? ? Hx Hr]; subst.
  destruct r as [|y r'].
  - simpl. clear IH Hall Hr Hne. induction x as [|c x IHx]; [reflexivity|].
    simpl in Hx. apply andb_true_iff in Hx. destruct Hx as [Hc Hx]. apply negb_true_iff in Hc.
    simpl. rewrite Hc, IHx by assumption. reflexivity.
  - change (join d (x :: y :: r')) with (x ++ d :: join d (y :: r')).
    specialize (IH ltac:(discriminate) Hr).
    clear Hall Hne. induction x as [|c x IHx].
    + cbn [app split]. rewrite Ascii.eqb_refl, IH. reflexivity.
    + simpl in Hx. apply andb_true_iff in Hx. destruct Hx as [Hc Hx]. apply negb_true_iff in Hc.
      cbn [app split]. rewrite Hc, IHx by assumption. reflexivity.
Qed.

Lemma cut_slash_spec s h t :
  cut_slash s = Some (h, t) -> s = h ++ "/" :: t /\ forallb (fun c => negb (Ascii.eqb c "/")) h = true.
Proof.
  revert h t; induction s as [|c r IH]; intros h t H; [discriminate|]. simpl in H.
  destruct (Ascii.eqb_spec c "/") as [->|Hne].
  - inversion H; subst. split; reflexivity.
  - destruct (cut_slash r) as [[h' t']|]; [|discriminate]. inversion H; subst.
    destruct (IH h' t eq_refl) as [-> Hh]. split; [reflexivity|].
    simpl. apply Ascii.eqb_neq in Hne. now rewrite Hne, Hh.
Qed.

Lemma cut_slash_app h t :
  forallb (fun c => negb (Ascii.eqb c "/")) h = true -> cut_slash (h ++ "/" :: t) = Some (h, t).
Proof.
  induction h as [|c h IH]; intros Hh; [reflexivity|].
  simpl in Hh. apply andb_true_iff in Hh. destruct Hh as [Hc Hh]. apply negb_true_iff in Hc.
  simpl. now rewrite Hc, IH.
Qed.

Lemma cut_slash_index s :
  index_byte "/" s = match cut_slash s with Some (h, _) => Some (length h) | None => None end.
Proof.
  induction s as [|c r IH]; [reflexivity|]. simpl.
  destruct (Ascii.eqb c "/"); [reflexivity|]. rewrite IH.
  destruct (cut_slash r) as [[h t]|]; reflexivity.
Qed.

Lemma slash_concat (segs : list bytes) :
  segs <> [] -> "/" :: join "/" segs = concat (map (cons "/") segs).
Proof.
  induction segs as [|x r IH]; intros Hne; [contradiction|].
  destruct r as [|y r']; [simpl; now rewrite app_nil_r|].
  change (join "/" (x :: y :: r')) with (x ++ "/" :: join "/" (y :: r')).
  simpl map. simpl concat. rewrite IH by discriminate. reflexivity.
Qed.

(* ---------- pieces ---------- *)
Lemma parse_piece_render s pc : parse_piece s = Some pc -> render_piece pc = s.
Proof.
  unfold parse_piece. pose proof (span_static_spec s) as Hsp.
  destruct (span_static s) as [st r]. destruct Hsp as (-> & _ & Hr).
  destruct r as [|c r1].
  - intros H; inversion H; subst. unfold render_piece; simpl. reflexivity.
  - destruct Hr as [-> | ->].
    + rewrite Ascii.eqb_refl. destruct (parse_name r1) as [n|] eqn:E; [|discriminate].
      intros H; inversion H; subst. apply parse_name_spec in E. subst r1.
      unfold render_piece; simpl. reflexivity.
    + change (Ascii.eqb "*" "{") with false. cbv iota.
      destruct r1 as [|c2 r2]; [discriminate|].
      destruct (Ascii.eqb_spec c2 "{") as [->|]; [|discriminate].
      destruct (parse_name r2) as [n|] eqn:E; [|discriminate].
      intros H; inversion H; subst. apply parse_name_spec in E. subst r2.
      unfold render_piece; simpl. reflexivity.
Qed.

Lemma map_opt_render ss ps :
  map_opt parse_piece ss = Some ps -> map render_piece ps = ss.
Proof.
  revert ps; induction ss as [|s r IH]; intros ps H; simpl in H.
  - inversion H; reflexivity.
  - destruct (parse_piece s) as [pc|] eqn:E; [|discriminate].
    destruct (map_opt parse_piece r) as [ps'|]; [|discriminate].
    inversion H; subst. simpl. rewrite (parse_piece_render _ _ E), (IH ps' eq_refl). reflexivity.
Qed.

Lemma map_opt_length {A B} (f : A -> option B) l l' : map_opt f l = Some l' -> length l' = length l.
Proof.
  revert l'; induction l as [|x r IH]; intros l' H; simpl in H.
  - inversion H; reflexivity.
  - destruct (f x); [|discriminate]. destruct (map_opt f r) as [r'|]; [|discriminate].
    inversion H; subst. simpl. f_equal. apply IH. reflexivity.
Qed.

Lemma span_static_app st r :
  forallb plain st = true -> match r with [] => True | c :: _ => plain c = false end ->
  span_static (st ++ r) = (st, r).
Proof.
  intros Hp Hr. induction st as [|c st IH].
  - simpl. destruct r as [|c r']; [reflexivity|]. simpl. unfold plain in Hr.
    destruct (Ascii.eqb c "{"); [reflexivity|]. destruct (Ascii.eqb c "*"); [reflexivity|discriminate].
  - simpl in Hp. apply andb_true_iff in Hp. destruct Hp as [Hc Hp]. simpl.
    unfold plain in Hc. apply andb_true_iff in Hc. destruct Hc as [H1 H2].
    apply negb_true_iff in H1, H2. rewrite H1, H2. simpl. now rewrite IH.
Qed.

Lemma unsnoc_snoc a z : unsnoc (a ++ [z]) = Some (a, z).
Proof.
  induction a as [|c a IH]; [reflexivity|]. simpl. rewrite IH. reflexivity.
Qed.

Lemma parse_name_snoc n : parse_name (n ++ ["}"]) = Some n.
Proof. unfold parse_name. rewrite unsnoc_snoc. reflexivity. Qed.

(* a piece whose static text has no '{' '*' reads back *)
Lemma parse_render_piece pc :
  forallb plain (p_static pc) = true -> parse_piece (render_piece pc) = Some pc.
Proof.
  intros Hp. destruct pc as [st w]. unfold render_piece, parse_piece; simpl in *.
  destruct w as [[n|n]|]; simpl.
  - rewrite span_static_app by (auto; reflexivity). rewrite Ascii.eqb_refl, parse_name_snoc. reflexivity.
  - rewrite span_static_app by (auto; reflexivity).
    change (Ascii.eqb "*" "{") with false. cbv iota. rewrite Ascii.eqb_refl, parse_name_snoc. reflexivity.
  - rewrite app_nil_r. rewrite <- (app_nil_r st) at 1. rewrite span_static_app by (auto; exact I). reflexivity.
Qed.

Lemma static_byte_plain c : static_byte c = true -> plain c = true /\ Ascii.eqb c "/" = false.
Proof.
  unfold static_byte, plain. destruct (Ascii.eqb c "/"), (Ascii.eqb c "{"), (Ascii.eqb c "*"); simpl; auto; discriminate.
Qed.

Lemma name_byte_no_slash host c : name_byte host c = true -> Ascii.eqb c "/" = false.
Proof. unfold name_byte. destruct (Ascii.eqb c "/"); [|reflexivity]. rewrite !andb_false_r. simpl. discriminate. Qed.

Lemma name_byte_no_dot c : name_byte true c = true -> Ascii.eqb c "." = false.
Proof. unfold name_byte. destruct (Ascii.eqb c "."); [|reflexivity]. simpl. rewrite !andb_false_r. discriminate. Qed.

Section WithHB.
Variable hb : ascii -> bool.
(* legal hostname bytes are never one of the structural bytes *)
Hypothesis hb_plain : forall c, hb c = true -> plain c = true /\ Ascii.eqb c "/" = false /\ Ascii.eqb c "." = false.

Lemma forallb_impl {A} (f g : A -> bool) l : (forall x, f x = true -> g x = true) -> forallb f l = true -> forallb g l = true.
Proof. intros H. induction l as [|x l IH]; [reflexivity|]. simpl. intros Hx. apply andb_true_iff in Hx. destruct Hx. rewrite H, IH; auto. Qed.

(* no occurrence of byte d in the rendering of a well-formed piece *)
Lemma seg_no_slash mk s : seg_ok mk s = true -> forallb (fun c => negb (Ascii.eqb c "/")) (render_piece s) = true.
Proof.
  unfold seg_ok, render_piece. intros H. apply andb_true_iff in H. destruct H as [Hst Hw].
  rewrite forallb_app. apply andb_true_iff. split.
  - eapply forallb_impl; [|exact Hst]. intros c Hc. destruct (static_byte_plain c Hc) as [_ ->]. reflexivity.
  - destruct (p_wild s) as [[n|n]|]; [| |reflexivity]; unfold name_ok in Hw;
      apply andb_true_iff in Hw; destruct Hw as [_ Hn]; simpl; rewrite ?forallb_app; simpl;
      rewrite andb_true_r; eapply forallb_impl; [|exact Hn| |exact Hn]; intros c Hc;
      rewrite (name_byte_no_slash _ c Hc); reflexivity.
Qed.

Lemma seg_plain mk s : seg_ok mk s = true -> forallb plain (p_static s) = true.
Proof.
  unfold seg_ok. intros H. apply andb_true_iff in H. destruct H as [Hst _].
  eapply forallb_impl; [|exact Hst]. intros c Hc. now destruct (static_byte_plain c Hc).
Qed.

Lemma label_plain mk l : label_ok_with hb mk l = true -> forallb plain (p_static l) = true.
Proof.
  unfold label_ok_with. intros H. repeat (apply andb_true_iff in H; destruct H as [H ?]).
  eapply forallb_impl; [|exact H]. intros c Hc. now destruct (hb_plain c Hc).
Qed.

Lemma label_no_delim mk l : label_ok_with hb mk l = true ->
  forallb (fun c => negb (Ascii.eqb c ".")) (render_piece l) = true /\
  forallb (fun c => negb (Ascii.eqb c "/")) (render_piece l) = true.
Proof.
  unfold label_ok_with, render_piece. intros H. repeat (apply andb_true_iff in H; destruct H as [H ?]).
  rewrite !forallb_app.
  assert (Hs1 : forallb (fun c => negb (Ascii.eqb c ".")) (p_static l) = true).
  { eapply forallb_impl; [|exact H]. intros c Hc. destruct (hb_plain c Hc) as (_ & _ & ->). reflexivity. }
  assert (Hs2 : forallb (fun c => negb (Ascii.eqb c "/")) (p_static l) = true).
  { eapply forallb_impl; [|exact H]. intros c Hc. destruct (hb_plain c Hc) as (_ & -> & _). reflexivity. }
  rewrite Hs1, Hs2. simpl.
  destruct (p_wild l) as [[n|n]|]; [| discriminate | split; reflexivity].
  unfold name_ok in H0. apply andb_true_iff in H0. destruct H0 as [_ Hn].
  simpl. rewrite !forallb_app. simpl. rewrite !andb_true_r. split.
  - eapply forallb_impl; [|exact Hn]. intros c Hc. rewrite (name_byte_no_dot c Hc). reflexivity.
  - eapply forallb_impl; [|exact Hn]. intros c Hc. rewrite (name_byte_no_slash _ c Hc). reflexivity.
Qed.

Lemma map_opt_parse_render (ok : piece -> bool) ps :
  (forall p, ok p = true -> forallb plain (p_static p) = true) ->
  forallb ok ps = true -> map_opt parse_piece (map render_piece ps) = Some ps.
Proof.
  intros Hok. induction ps as [|p r IH]; intros H; [reflexivity|].
  simpl in H. apply andb_true_iff in H. destruct H as [Hp Hr].
  simpl. rewrite parse_render_piece by auto. rewrite IH by assumption. reflexivity.
Qed.

Lemma forallb_join d (f : ascii -> bool) l :
  f d = true -> Forall (fun x => forallb f x = true) l -> forallb f (join d l) = true.
Proof.
  intros Hd. induction l as [|x r IH]; intros Hall; [reflexivity|].
  inversion Hall; subst. destruct r as [|y r']; [simpl; assumption|].
  change (join d (x :: y :: r')) with (x ++ d :: join d (y :: r')).
  rewrite forallb_app. cbn [forallb]. rewrite Hd. rewrite IH by assumption. cbn [andb]. rewrite andb_true_r. assumption.
Qed.

(* parse_pat inverts render_pat on well-formed trees *)
Lemma parse_render_pat mp mk p : wf_with hb mp mk p = true -> parse_pat (render_pat p) = Some p.
Proof.
  unfold wf_with. intros H. apply andb_true_iff in H. destruct H as [H _].
  apply andb_true_iff in H. destruct H as [Hh Hp].
  destruct p as [ls ss]. unfold render_pat, host_text, path_text, parse_pat; simpl in *.
  unfold path_ok in Hp. apply andb_true_iff in Hp. destruct Hp as [Hp Hnc].
  apply andb_true_iff in Hp. destruct Hp as [Hne Hsegs].
  assert (Hssne : ss <> []) by (destruct ss; [discriminate|discriminate]).
  assert (Hmapne : map render_piece ss <> []) by (destruct ss; [contradiction|discriminate]).
  replace (concat (map (fun s : piece => "/" :: render_piece s) ss)) with ("/" :: join "/" (map render_piece ss))
    by (rewrite (slash_concat _ Hmapne), map_map; reflexivity).
  assert (Hpath : map_opt parse_piece (split "/" (join "/" (map render_piece ss))) = Some ss).
  { rewrite split_of_join; [| exact Hmapne |].
    - apply (map_opt_parse_render (seg_ok mk)); [apply seg_plain|exact Hsegs].
    - apply Forall_forall. intros x Hx. apply in_map_iff in Hx. destruct Hx as (s & <- & Hs).
      rewrite forallb_forall in Hsegs. apply (seg_no_slash mk). apply Hsegs, Hs. }
  unfold host_ok_with in Hh.
  destruct ls as [|l0 ls'].
  - simpl. rewrite Hpath. reflexivity.
  - simpl is_nil in Hh. cbn [orb] in Hh.
    apply andb_true_iff in Hh. destruct Hh as [Hh _]. apply andb_true_iff in Hh. destruct Hh as [Hlabs _].
    assert (Hno : Forall (fun x => forallb (fun c => negb (Ascii.eqb c "/")) x = true) (map render_piece (l0 :: ls'))).
    { apply Forall_forall. intros x Hx. apply in_map_iff in Hx. destruct Hx as (s & <- & Hs).
      rewrite forallb_forall in Hlabs. apply (label_no_delim mk), Hlabs, Hs. }
    rewrite cut_slash_app by (apply forallb_join; [reflexivity|exact Hno]).
    assert (Hnn : is_nil (join "." (map render_piece (l0 :: ls'))) = false).
    { rewrite forallb_forall in Hlabs. specialize (Hlabs l0 (or_introl eq_refl)).
      unfold label_ok_with in Hlabs. repeat (apply andb_true_iff in Hlabs; destruct Hlabs as [Hlabs ?]).
      assert (Hr : render_piece l0 <> []).
      { unfold render_piece. destruct (p_wild l0) as [[n|n]|]; simpl.
        - destruct (p_static l0); discriminate.
        - discriminate.
        - rewrite app_nil_r. destruct (p_static l0); [discriminate|discriminate]. }
      simpl map. destruct (render_piece l0) eqn:E; [contradiction|].
      destruct (map render_piece ls'); reflexivity. }
    rewrite Hnn, Hpath.
    rewrite split_of_join; [| discriminate |].
    + rewrite (map_opt_parse_render (label_ok_with hb mk)); [reflexivity|apply label_plain|exact Hlabs].
    + apply Forall_forall. intros x Hx. apply in_map_iff in Hx. destruct Hx as (s & <- & Hs).
      rewrite forallb_forall in Hlabs. apply (label_no_delim mk), Hlabs, Hs.
Qed.

(* render_pat inverts parse_pat *)
Lemma render_parse_pat s p : parse_pat s = Some p -> render_pat p = s.
Proof.
  unfold parse_pat. destruct (cut_slash s) as [[h t]|] eqn:Ec; [|discriminate].
  destruct (cut_slash_spec _ _ _ Ec) as [-> _].
  destruct (if is_nil h then Some [] else map_opt parse_piece (split "." h)) as [ls|] eqn:El; [|discriminate].
  destruct (map_opt parse_piece (split "/" t)) as [ss|] eqn:Es; [|discriminate].
  intros H; inversion H; subst. unfold render_pat, host_text, path_text; simpl.
  assert (Hp : concat (map (fun s0 => "/" :: render_piece s0) ss) = "/" :: t).
  { pose proof (map_opt_render _ _ Es) as Hr.
    assert (Hne : map render_piece ss <> []) by (rewrite Hr; apply split_nonempty).
    rewrite <- (split_join "/" t) at 1. rewrite <- Hr.
    rewrite (slash_concat _ Hne). rewrite map_map. reflexivity. }
  rewrite Hp. f_equal.
  destruct h as [|c h']; cbn [is_nil] in El.
  - inversion El; reflexivity.
  - rewrite (map_opt_render _ _ El). apply split_join.
Qed.

Theorem grammarb_with_iff mp mk s n eh :
  grammarb_with hb mp mk s = Some (n, eh) <-> in_grammar_with hb mp mk s n eh.
Proof.
  unfold grammarb_with, in_grammar_with. split.
  - destruct (parse_pat s) as [p|] eqn:Ep; [|discriminate].
    destruct (wf_with hb mp mk p) eqn:Ew; [|discriminate].
    intros H; inversion H; subst. exists p. repeat split; auto using render_parse_pat.
  - intros (p & <- & Hw & -> & ->). rewrite (parse_render_pat mp mk p Hw), Hw. reflexivity.
Qed.

End WithHB.
