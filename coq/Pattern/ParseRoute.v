(* FoxPattern.ParseRoute — faithful model of /repo/fox.go Router.parseRoute.

   INTERFACE (stable; other areas import this file)
     pstate                      StDefault | StParam | StCatchAll   (Go: stateDefault...)
     rkind                       one constructor per distinct error message of parseRoute
     result                      Accept paramCnt endHost | Reject kind | Panic | OutOfFuel
     parseRoute mp mk url        mp = fox.maxParams, mk = fox.maxParamKeyBytes (nat; in Go uint16)
     index_byte c s              strings.IndexByte (None = -1)
     accepted mp mk url          parseRoute mp mk url = Accept _ _   (bool)

   The model keeps every local of the Go function (state, previous, paramCnt,
   countStatic, startParam, inParam, nonNumeric, partlen, totallen, last, delim; endHost is
   never reassigned so it is a parameter of the loop).  Every Go index expression
   url[k] is [nth_error url k]; out of range is the outcome [Panic].  The Go loop
   `for i < len(url)` is run with fuel [S (length url)]; [OutOfFuel] is a distinct
   outcome (never produced: FoxPattern.ProofsTotal).
   Integers: i, startParam, endHost, partlen, totallen, countStatic are Go ints and
   paramCnt a uint32; they are nats here.  The only subtraction is i-startParam
   (startParam <= i always holds, it is the index of an earlier byte) so truncated
   subtraction is exact; paramCnt cannot wrap because it is compared with
   maxParams <= 65535 right after each increment.
   NOTE for importers: the record projections of [st] (state, previous, paramCnt, countStatic,
   startParam, inParam, nonNumeric, partlen, totallen, last, delim) are top-level names; after
   `Import ParseRoute`, [last] is this projection, write [List.last] for the list function.
   Token.v and Grammar.v do not depend on this file.
   No proofs in this file. *)
From FoxBase Require Import Bytes.
Import List ListNotations.
Open Scope char_scope.
Open Scope nat_scope.

Inductive pstate := StDefault | StParam | StCatchAll.

Definition pstate_eqb (a b : pstate) : bool :=
  match a, b with
  | StDefault, StDefault | StParam, StParam | StCatchAll, StCatchAll => true
  | _, _ => false
  end.

(* one kind per distinct error text (fox.go:662-854), in source order *)
Inductive rkind :=
| EMissingSlash      (* missing trailing '/' after hostname *)
| ELeadingDot        (* illegal leading '.' in hostname label *)
| ELeadingDash       (* illegal leading '-' in hostname label *)
| EEmptyParam        (* missing parameter name between '{}' *)
| EAfterParam        (* illegal character '%s' after '{param}' *)
| EKeyTooLarge       (* ErrParamKeyTooLarge (both wildcard kinds) *)
| EInParam           (* illegal character '%s' in '{param}' *)
| EEmptyCatchAll     (* missing parameter name between '*{}' *)
| EAfterCatchAll     (* illegal character '%s' after '*{param}' *)
| EConsecutive       (* consecutive wildcard not allowed *)
| EInCatchAll        (* illegal character '%s' in '*{param}' *)
| ECatchAllInHost    (* catch-all wildcard not supported in hostname *)
| EMissingBrace      (* missing '{param}' after '*' catch-all delimiter (two sites) *)
| EDashAfterDot      (* illegal '-' after '.' in hostname label *)
| EConsecDot         (* unexpected consecutive '.' in hostname *)
| EDashBeforeDot     (* illegal '-' before '.' in hostname label *)
| ELabelTooLong      (* hostname label exceed 63 characters (two sites) *)
| EIllegalHostChar   (* illegal character '%s' in hostname label *)
| ETooManyParams     (* ErrTooManyParams *)
| ETrailingDash      (* illegal trailing '-' in hostname label *)
| ETrailingDot       (* illegal trailing '.' in hostname label *)
| EAllNumeric        (* invalid all numeric hostname *)
| EHostTooLong       (* hostname exceed 255 characters *)
| EUnclosedParam     (* unclosed '{param}' *)
| EUnclosedCatchAll. (* unclosed '*{param}' *)

(* numbering shared with the Go harness (harness/cmd/c10) *)
Definition rkind_code (k : rkind) : N :=
  match k with
  | EMissingSlash => 1 | ELeadingDot => 2 | ELeadingDash => 3 | EEmptyParam => 4
  | EAfterParam => 5 | EKeyTooLarge => 6 | EInParam => 7 | EEmptyCatchAll => 8
  | EAfterCatchAll => 9 | EConsecutive => 10 | EInCatchAll => 11 | ECatchAllInHost => 12
  | EMissingBrace => 13 | EDashAfterDot => 14 | EConsecDot => 15 | EDashBeforeDot => 16
  | ELabelTooLong => 17 | EIllegalHostChar => 18 | ETooManyParams => 19 | ETrailingDash => 20
  | ETrailingDot => 21 | EAllNumeric => 22 | EHostTooLong => 23 | EUnclosedParam => 24
  | EUnclosedCatchAll => 25
  end%N.

Inductive result :=
| Accept (paramCnt endHost : nat)
| Reject (k : rkind)
| Panic
| OutOfFuel.

Fixpoint index_byte (c : ascii) (s : bytes) : option nat :=
  match s with
  | [] => None
  | x :: r => if Ascii.eqb x c then Some 0 else option_map S (index_byte c r)
  end.

Definition has_prefix1 (c : ascii) (s : bytes) : bool :=
  match s with x :: _ => Ascii.eqb x c | [] => false end.

Definition byte_in (lo hi c : ascii) : bool :=
  (N_of_ascii lo <=? N_of_ascii c)%N && (N_of_ascii c <=? N_of_ascii hi)%N.
(* 'a' <= c && c <= 'z' || 'A' <= c && c <= 'Z' || c == '_' *)
Definition is_alpha_us (c : ascii) : bool :=
  byte_in "a" "z" c || byte_in "A" "Z" c || Ascii.eqb c "_".
Definition is_digit (c : ascii) : bool := byte_in "0" "9" c.

Definition max_label : nat := 63.
Definition max_host : nat := 255.

Record st := mkSt {
  state : pstate; previous : pstate; paramCnt : nat; countStatic : nat; startParam : nat;
  inParam : bool; nonNumeric : bool; partlen : nat; totallen : nat; last : ascii; delim : ascii }.

Definition set_state v s := mkSt v (previous s) (paramCnt s) (countStatic s) (startParam s) (inParam s) (nonNumeric s) (partlen s) (totallen s) (last s) (delim s).
Definition set_previous v s := mkSt (state s) v (paramCnt s) (countStatic s) (startParam s) (inParam s) (nonNumeric s) (partlen s) (totallen s) (last s) (delim s).
Definition set_paramCnt v s := mkSt (state s) (previous s) v (countStatic s) (startParam s) (inParam s) (nonNumeric s) (partlen s) (totallen s) (last s) (delim s).
Definition set_countStatic v s := mkSt (state s) (previous s) (paramCnt s) v (startParam s) (inParam s) (nonNumeric s) (partlen s) (totallen s) (last s) (delim s).
Definition set_startParam v s := mkSt (state s) (previous s) (paramCnt s) (countStatic s) v (inParam s) (nonNumeric s) (partlen s) (totallen s) (last s) (delim s).
Definition set_inParam v s := mkSt (state s) (previous s) (paramCnt s) (countStatic s) (startParam s) v (nonNumeric s) (partlen s) (totallen s) (last s) (delim s).
Definition set_nonNumeric v s := mkSt (state s) (previous s) (paramCnt s) (countStatic s) (startParam s) (inParam s) v (partlen s) (totallen s) (last s) (delim s).
Definition set_partlen v s := mkSt (state s) (previous s) (paramCnt s) (countStatic s) (startParam s) (inParam s) (nonNumeric s) v (totallen s) (last s) (delim s).
Definition set_totallen v s := mkSt (state s) (previous s) (paramCnt s) (countStatic s) (startParam s) (inParam s) (nonNumeric s) (partlen s) v (last s) (delim s).
Definition set_last v s := mkSt (state s) (previous s) (paramCnt s) (countStatic s) (startParam s) (inParam s) (nonNumeric s) (partlen s) (totallen s) v (delim s).
Definition set_delim v s := mkSt (state s) (previous s) (paramCnt s) (countStatic s) (startParam s) (inParam s) (nonNumeric s) (partlen s) (totallen s) (last s) v.

(* outcome of one loop iteration *)
Inductive sres :=
| Next (i : nat) (s : st)   (* go round the loop again with this i *)
| Stop (r : result).        (* return *)

(* url[i] *)
Definition at_ (url : bytes) (i : nat) (k : ascii -> sres) : sres :=
  match nth_error url i with Some c => k c | None => Stop Panic end.

(* case stateParam: *)
Definition step_param (mk : nat) (url : bytes) (endHost i : nat) (s : st) : sres :=
  at_ url i (fun c =>
  if Ascii.eqb c "}" then
    if negb (inParam s) then Stop (Reject EEmptyParam) else
    let s := set_inParam false s in
    let rest (_ : unit) :=
      let s := if i <? endHost then set_nonNumeric true s else s in
      let s := set_countStatic 0 s in
      let s := set_previous (state s) s in
      let s := set_state StDefault s in
      Next (S i) s in
    if S i <? length url then
      at_ url (S i) (fun n =>
        if negb (Ascii.eqb n (delim s)) && negb (Ascii.eqb n "/")
        then Stop (Reject EAfterParam) else rest tt)
    else rest tt
  else
    if mk <? i - startParam s then Stop (Reject EKeyTooLarge) else
    if Ascii.eqb c (delim s) || Ascii.eqb c "/" || Ascii.eqb c "*" || Ascii.eqb c "{"
    then Stop (Reject EInParam)
    else Next (S i) (set_inParam true s)).

(* case stateCatchAll: *)
Definition step_catchall (mk : nat) (url : bytes) (i : nat) (s : st) : sres :=
  at_ url i (fun c =>
  if Ascii.eqb c "}" then
    if negb (inParam s) then Stop (Reject EEmptyCatchAll) else
    let s := set_inParam false s in
    let rest (_ : unit) :=
      if pstate_eqb (previous s) StCatchAll && (countStatic s <=? 1)
      then Stop (Reject EConsecutive) else
      let s := set_countStatic 0 s in
      let s := set_previous (state s) s in
      let s := set_state StDefault s in
      Next (S i) s in
    if S i <? length url then
      at_ url (S i) (fun n =>
        if negb (Ascii.eqb n "/") then Stop (Reject EAfterCatchAll) else rest tt)
    else rest tt
  else
    if mk <? i - startParam s then Stop (Reject EKeyTooLarge) else
    if Ascii.eqb c "/" || Ascii.eqb c "*" || Ascii.eqb c "{"
    then Stop (Reject EInCatchAll)
    else Next (S i) (set_inParam true s)).

(* default: the part before `if paramCnt > maxParams`; yields the (possibly
   advanced) i and the new locals, or returns *)
Definition step_default_body (url : bytes) (endHost i : nat) (s : st) : sres :=
  let s := if i =? endHost then set_delim "/" s else s in
  at_ url i (fun c =>
  if Ascii.eqb c "{" then
    Next i (set_paramCnt (S (paramCnt s)) (set_startParam i (set_state StParam s)))
  else if Ascii.eqb c "*" then
    if i <? endHost then Stop (Reject ECatchAllInHost) else
    if length url <=? S i then Stop (Reject EMissingBrace) else
    at_ url (S i) (fun n =>
      if negb (Ascii.eqb n "{") then Stop (Reject EMissingBrace) else
      (* state = stateCatchAll; i++; startParam = i; paramCnt++ *)
      Next (S i) (set_paramCnt (S (paramCnt s)) (set_startParam (S i) (set_state StCatchAll s))))
  else
    let s := set_countStatic (S (countStatic s)) s in
    if i <? endHost then
      if is_alpha_us c then
        Next i (set_last c (set_partlen (S (partlen s)) (set_nonNumeric true s)))
      else if is_digit c then
        Next i (set_last c (set_partlen (S (partlen s)) s))
      else if Ascii.eqb c "-" then
        if Ascii.eqb (last s) "." then Stop (Reject EDashAfterDot) else
        Next i (set_last c (set_nonNumeric true (set_partlen (S (partlen s)) s)))
      else if Ascii.eqb c "." then
        let rest (_ : unit) :=
          if Ascii.eqb (last s) "-" then Stop (Reject EDashBeforeDot) else
          if max_label <? partlen s then Stop (Reject ELabelTooLong) else
          Next i (set_last c (set_partlen 0 (set_totallen (totallen s + (partlen s + 1)) s))) in
        (* last == '.' && url[i-1] != '}' : url[i-1] is only evaluated when last == '.' *)
        if Ascii.eqb (last s) "." then
          match i with
          | 0 => Stop Panic
          | S j => at_ url j (fun p => if negb (Ascii.eqb p "}") then Stop (Reject EConsecDot) else rest tt)
          end
        else rest tt
      else Stop (Reject EIllegalHostChar)
    else Next i s).

Definition step_default (mp : nat) (url : bytes) (endHost i : nat) (s : st) : sres :=
  match step_default_body url endHost i s with
  | Stop r => Stop r
  | Next i s => if mp <? paramCnt s then Stop (Reject ETooManyParams) else Next (S i) s
  end.

Definition step (mp mk : nat) (url : bytes) (endHost i : nat) (s : st) : sres :=
  match state s with
  | StParam => step_param mk url endHost i s
  | StCatchAll => step_catchall mk url i s
  | StDefault => step_default mp url endHost i s
  end.

(* after the loop *)
Definition finish (url : bytes) (endHost : nat) (s : st) : result :=
  let tail (s : st) :=
    match state s with
    | StParam => Reject EUnclosedParam
    | StCatchAll =>
        match nth_error url (length url - 1) with
        | None => Panic
        | Some c => if Ascii.eqb c "*" then Reject EMissingBrace else Reject EUnclosedCatchAll
        end
    | StDefault => Accept (paramCnt s) endHost
    end in
  if 0 <? endHost then
    let s := set_totallen (totallen s + partlen s) s in
    if Ascii.eqb (last s) "-" then Reject ETrailingDash else
    match nth_error url (endHost - 1) with
    | None => Panic
    | Some c =>
      if Ascii.eqb c "." then Reject ETrailingDot else
      if negb (nonNumeric s) then Reject EAllNumeric else
      if max_label <? partlen s then Reject ELabelTooLong else
      if max_host <? totallen s then Reject EHostTooLong else
      tail s
    end
  else tail s.

Fixpoint loop (fuel : nat) (mp mk : nat) (url : bytes) (endHost i : nat) (s : st) : result :=
  if i <? length url then
    match fuel with
    | 0 => OutOfFuel
    | S fuel =>
      match step mp mk url endHost i s with
      | Stop r => r
      | Next i s => loop fuel mp mk url endHost i s
      end
    end
  else finish url endHost s.

Definition init_st (d : ascii) : st :=
  mkSt StDefault StDefault 0 0 0 false false 0 0 "." d.

Definition parseRoute (mp mk : nat) (url : bytes) : result :=
  match index_byte "/" url with
  | None => Reject EMissingSlash
  | Some endHost =>
    if has_prefix1 "." url then Reject ELeadingDot else
    if has_prefix1 "-" url then Reject ELeadingDash else
    let d := if endHost =? 0 then "/" else "." in
    loop (S (length url)) mp mk url endHost 0 (init_st d)
  end.

Definition accepted (mp mk : nat) (url : bytes) : bool :=
  match parseRoute mp mk url with Accept _ _ => true | _ => false end.
