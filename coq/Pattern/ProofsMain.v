(* Assembly: parseRoute accepts exactly grammarb_with ldh_us (the documented grammar with
   '_' also allowed in hostname labels), with the grammar's count and host split. *)
From FoxBase Require Import Bytes.
Import List ListNotations.
From FoxPattern Require Import ParseRoute LMachine Token Grammar ProofsRefine ProofsLRun ProofsPath ProofsHost ProofsGrammar.
Require Import Lia.
Open Scope char_scope.
Open Scope nat_scope.

Lemma last_is_last c st d : st <> [] -> last_is c st = Ascii.eqb (List.last st d) c.
Proof.
  intros Hne. destruct (exists_last Hne) as (l & x & ->).
  unfold last_is. rewrite rev_app_distr, last_last. reflexivity.
Qed.

Lemma last_in {A} (l : list A) d : l <> [] -> In (List.last l d) l.
Proof.
  intros Hne. destruct (exists_last Hne) as (l' & x & ->). rewrite last_last. apply in_or_app. right. left. reflexivity.
Qed.

Lemma last_default {A} (l : list A) d d' : l <> [] -> List.last l d = List.last l d'.
Proof. intros Hne. destruct (exists_last Hne) as (l' & x & ->). now rewrite !last_last. Qed.

Lemma if_same {A} (b b' : bool) (x y : A) : b = b' -> (if b then x else y) = (if b' then x else y).
Proof. intros ->. reflexivity. Qed.

Lemma label_ok_eq hb mk l :
  label_ok_with hb mk l =
  forallb hb (p_static l) && (length (p_static l) <=? max_label) &&
  negb (first_is "-" (p_static l)) && negb (last_is "-" (p_static l)) &&
  match p_wild l with
  | None => negb (is_nil (p_static l))
  | Some (WParam n) => name_ok true mk n
  | Some (WCatch _) => false
  end.
Proof. reflexivity. Qed.

Lemma host_ok_eq hb mk ls :
  host_ok_with hb mk ls =
  is_nil ls || (forallb (label_ok_with hb mk) ls && (host_static_len ls <=? max_host) && negb (forallb label_numeric ls)).
Proof. reflexivity. Qed.

Global Opaque max_label max_host.

Section Main.
Variables (mp mk : nat).

Definition hostfinal (p : ascii) (a : ast) : bool :=
  negb (Ascii.eqb (a_last a) "-") && negb (Ascii.eqb p ".") && a_nonNum a &&
  (a_partlen a <=? max_label) && (a_totallen a + a_partlen a <=? max_host).

Lemma lfinish_host a :
  a_state a = StDefault ->
  lfinish true a = if hostfinal (a_hostlast a) a then Some (a_cnt a) else None.
Proof.
  intros Hs. unfold lfinish, hostfinal. rewrite Hs.
  destruct (Ascii.eqb (a_last a) "-"); [reflexivity|].
  destruct (Ascii.eqb (a_hostlast a) "."); [reflexivity|].
  destruct (a_nonNum a); [|reflexivity]. cbn [negb andb].
  destruct (Nat.ltb_spec max_label (a_partlen a)), (Nat.leb_spec (a_partlen a) max_label); try lia; [reflexivity|].
  cbn [andb].
  destruct (Nat.ltb_spec max_host (a_totallen a + a_partlen a)), (Nat.leb_spec (a_totallen a + a_partlen a) max_host); try lia; reflexivity.
Qed.

Definition w (pc : piece) : nat := if has_wild pc then 1 else 0.

Lemma count_cons pc ls : count (pc :: ls) = w pc + count ls.
Proof. unfold count, w. simpl. destruct (has_wild pc); reflexivity. Qed.

Definition hsum (x : option (ascii * ast)) : option nat :=
  match x with
  | Some (p', a') => if hostfinal p' a' then Some (a_cnt a') else None
  | None => None
  end.

(* what the hostname labels must satisfy, given the state at their start *)
Definition hspec (a : ast) (labels : list bytes) : option nat :=
  match map_opt parse_piece labels with
  | None => None
  | Some ls =>
    if forallb (label_ok_with ldh_us mk) ls && (a_totallen a + host_static_len ls <=? max_host) &&
       (a_nonNum a || negb (forallb label_numeric ls)) && (a_cnt a + count ls <=? mp)
    then Some (a_cnt a + count ls) else None
  end.

Definition hinv (a : ast) : Prop :=
  a_last a = "." /\ a_partlen a = 0 /\ inv mp a.

Lemma label_trans_dot p a l pc :
  parse_piece l = Some pc -> a_last a = "." ->
  label_trans mp mk p a l =
  if forallb ldh_us (p_static pc) && negb (first_is "-" (p_static pc)) then
    match p_wild pc with
    | None => Some (List.last (p_static pc) p, hbump (p_static pc) a)
    | Some (WParam n) =>
      if name_ok true mk n && (S (a_cnt a) <=? mp)
      then Some ("}", closed false true (named (length n) (opened StParam (hbump (p_static pc) a)))) else None
    | Some (WCatch _) => None
    end
  else None.
Proof.
  intros Hp Hl. unfold label_trans. rewrite Hp. unfold hstat_ok. rewrite Hl. simpl Ascii.eqb.
  now rewrite andb_true_r.
Qed.

Lemma empty_piece l pc : parse_piece l = Some pc -> p_static pc = [] -> p_wild pc = None -> l = [].
Proof.
  intros Hp Hs Hw. apply parse_piece_render in Hp. subst l. unfold render_piece. now rewrite Hs, Hw.
Qed.

Lemma ldh_last st d : st <> [] -> forallb ldh_us st = true -> Ascii.eqb (List.last st d) "." = false.
Proof.
  intros Hne Ha. apply ldh_us_not_dot. rewrite forallb_forall in Ha. apply Ha. now apply last_in.
Qed.

(* the last label, with the final hostname checks *)
Lemma last_label p a l pc :
  parse_piece l = Some pc -> hinv a -> (p = "." \/ l <> []) ->
  hsum (label_trans mp mk p a l) =
  if label_ok_with ldh_us mk pc && (a_totallen a + length (p_static pc) <=? max_host) &&
     (a_nonNum a || negb (label_numeric pc)) && (a_cnt a + w pc <=? mp)
  then Some (a_cnt a + w pc) else None.
Proof.
  intros Hp (Hl & Hpl & Hs & Hip & Hc) Hpe.
  rewrite (label_trans_dot p a l pc Hp Hl).
  rewrite label_ok_eq. unfold label_numeric, w, has_wild.
  set (st := p_static pc) in *.
  destruct (forallb ldh_us st) eqn:EA; [|reflexivity]. cbn [andb].
  destruct (first_is "-" st) eqn:EB; [cbn [negb andb]; now rewrite andb_false_r|]. cbn [negb andb]. rewrite andb_true_r.
  destruct (p_wild pc) as [[n|n]|] eqn:Ew.
  - (* parameter *)
    cbn [negb orb]. rewrite orb_true_r, andb_true_r.
    destruct (name_ok true mk n); [|now rewrite !andb_false_r]. cbn [andb]. rewrite !andb_true_r.
    replace (a_cnt a + 1) with (S (a_cnt a)) by lia.
    destruct (S (a_cnt a) <=? mp); [|now rewrite !andb_false_r]. rewrite !andb_true_r.
    unfold hsum, hostfinal. cbn [a_last a_nonNum a_partlen a_totallen a_cnt closed named opened hbump].
    change (Ascii.eqb "}" ".") with false. cbn [negb andb]. rewrite Hpl, !Nat.add_0_r, !andb_true_r.
    assert (HC : negb (Ascii.eqb (List.last st (a_last a)) "-") = negb (last_is "-" st)).
    { destruct st as [|x st0] eqn:Est; [rewrite Hl; reflexivity|].
      rewrite (last_is_last "-" (x :: st0) (a_last a)) by discriminate. reflexivity. }
    rewrite HC.
    destruct (negb (last_is "-" st)), (length st <=? max_label), (a_totallen a + length st <=? max_host); reflexivity.
  - now rewrite !andb_false_r.
  - (* static label *)
    rewrite Nat.add_0_r.
    replace (a_cnt a <=? mp) with true by (symmetry; apply Nat.leb_le; exact Hc). rewrite andb_true_r.
    unfold hsum, hostfinal. cbn [a_last a_nonNum a_partlen a_totallen a_cnt hbump].
    rewrite Hpl, !Nat.add_0_r.
    destruct st as [|x st0] eqn:Est.
    + (* empty label *)
      assert (Hle : l = []) by (apply (empty_piece l pc Hp); [exact Est|exact Ew]).
      destruct Hpe as [-> | Hne]; [|contradiction].
      cbn. now rewrite !andb_false_r.
    + assert (Hne : x :: st0 <> []) by discriminate.
      rewrite (last_default (x :: st0) p (a_last a) Hne).
      rewrite (ldh_last (x :: st0) (a_last a) Hne EA).
      rewrite <- (last_is_last "-" (x :: st0) (a_last a) Hne).
      cbn [is_nil negb andb]. rewrite !andb_true_r.
      change (forallb digit (x :: st0)) with (forallb is_digit (x :: st0)).
      destruct (negb (last_is "-" (x :: st0))), (length (x :: st0) <=? max_label),
               (a_totallen a + length (x :: st0) <=? max_host), (a_nonNum a || negb (forallb is_digit (x :: st0))); reflexivity.
Qed.

(* a label followed by a period *)
Lemma mid_label p a l pc :
  parse_piece l = Some pc -> hinv a -> (p = "." \/ l <> []) ->
  exists a2,
    match label_trans mp mk p a l with
    | Some (p1, a1) => if dot_ok p1 a1 then Some (dotted a1) else None
    | None => None
    end = (if label_ok_with ldh_us mk pc && (a_cnt a + w pc <=? mp) then Some a2 else None) /\
    (label_ok_with ldh_us mk pc && (a_cnt a + w pc <=? mp) = true ->
     hinv a2 /\ a_totallen a2 = a_totallen a + length (p_static pc) + 1 /\
     a_nonNum a2 = (a_nonNum a || negb (label_numeric pc)) /\ a_cnt a2 = a_cnt a + w pc /\
     (a_prevCatch a = false -> a_prevCatch a2 = false)).
Proof.
  intros Hp (Hl & Hpl & Hs & Hip & Hc) Hpe.
  rewrite (label_trans_dot p a l pc Hp Hl).
  rewrite label_ok_eq. unfold label_numeric, w, has_wild.
  set (st := p_static pc) in *.
  destruct (p_wild pc) as [[n|n]|] eqn:Ew.
  - (* parameter *)
    exists (dotted (closed false true (named (length n) (opened StParam (hbump st a))))).
    split.
    + destruct (forallb ldh_us st) eqn:EA; [|reflexivity]. cbn [andb].
      destruct (first_is "-" st) eqn:EB; [cbn [negb andb]; now rewrite !andb_false_r|]. cbn [negb andb]. rewrite andb_true_r.
      destruct (name_ok true mk n); [|now rewrite !andb_false_r]. cbn [andb]. rewrite !andb_true_r.
      replace (a_cnt a + 1) with (S (a_cnt a)) by lia.
      destruct (S (a_cnt a) <=? mp); [|now rewrite !andb_false_r]. rewrite !andb_true_r.
      unfold dot_ok. cbn [a_last a_partlen closed named opened hbump].
      change (Ascii.eqb "}" "}") with true. cbn [negb]. rewrite andb_false_r. cbn [negb andb].
      rewrite Hpl, Nat.add_0_r.
      assert (HC : negb (Ascii.eqb (List.last st (a_last a)) "-") = negb (last_is "-" st)).
      { destruct st as [|x st0] eqn:Est; [rewrite Hl; reflexivity|].
        rewrite (last_is_last "-" (x :: st0) (a_last a)) by discriminate. reflexivity. }
      rewrite HC.
      destruct (negb (last_is "-" st)), (length st <=? max_label); reflexivity.
    + intros Hok. repeat (apply andb_true_iff in Hok; destruct Hok as [Hok ?]).
      unfold hinv, inv. cbn. repeat split; auto; try lia.
      match goal with Hx : (_ <=? mp) = true |- _ => apply Nat.leb_le in Hx; lia end.
  - exists a. split; [|intros Hok; rewrite !andb_false_r in Hok; discriminate].
    destruct (forallb ldh_us st && negb (first_is "-" st)); now rewrite ?andb_false_r.
  - (* static label *)
    exists (dotted (hbump st a)).
    split.
    + destruct (forallb ldh_us st) eqn:EA; [|reflexivity]. cbn [andb].
      destruct (first_is "-" st) eqn:EB; [cbn [negb andb]; now rewrite !andb_false_r|]. cbn [negb andb]. rewrite andb_true_r.
      rewrite Nat.add_0_r.
      replace (a_cnt a <=? mp) with true by (symmetry; apply Nat.leb_le; exact Hc). rewrite andb_true_r.
      unfold dot_ok. cbn [a_last a_partlen hbump]. rewrite Hpl, Nat.add_0_r.
      destruct st as [|x st0] eqn:Est.
      * assert (Hle : l = []) by (apply (empty_piece l pc Hp); [exact Est|exact Ew]).
        destruct Hpe as [-> | Hne]; [|contradiction].
        rewrite Hl. cbn. reflexivity.
      * assert (Hne : x :: st0 <> []) by discriminate.
        rewrite (ldh_last (x :: st0) (a_last a) Hne EA). cbn [andb negb].
        rewrite <- (last_is_last "-" (x :: st0) (a_last a) Hne).
        cbn [is_nil negb]. rewrite andb_true_r.
        destruct (negb (last_is "-" (x :: st0))), (length (x :: st0) <=? max_label); reflexivity.
    + intros Hok. unfold hinv, inv. cbn. repeat split; auto; try lia.
Qed.

Lemma hsl_cons pc ls : ls <> [] ->
  host_static_len (pc :: ls) = length (p_static pc) + 1 + host_static_len ls.
Proof.
  intros Hne. unfold host_static_len. simpl. destruct ls; [contradiction|]. simpl. lia.
Qed.

Lemma hfold_sum labels : forall p a,
  labels <> [] -> hinv a -> (p = "." \/ hd [] labels <> []) ->
  hsum (hfold mp mk p a labels) = hspec a labels.
Proof.
  induction labels as [|l r IH]; intros p a Hne Hinv Hpe; [contradiction|].
  simpl hfold. unfold hspec. simpl map_opt. simpl hd in Hpe.
  destruct (parse_piece l) as [pc|] eqn:Ep.
  2:{ unfold label_trans. rewrite Ep. reflexivity. }
  destruct r as [|l2 r'].
  - (* last label *)
    simpl map_opt. destruct (label_trans mp mk p a l) as [[p1 a1]|] eqn:Et.
    + rewrite <- Et, (last_label p a l pc Ep Hinv Hpe).
      cbn [forallb]. rewrite !andb_true_r, count_cons. unfold count at 1 2. simpl filter. simpl length.
      rewrite !Nat.add_0_r. unfold host_static_len. simpl. rewrite !Nat.add_0_r. reflexivity.
    + rewrite <- Et, (last_label p a l pc Ep Hinv Hpe).
      cbn [forallb]. rewrite !andb_true_r, count_cons. unfold count at 1 2. simpl filter. simpl length.
      rewrite !Nat.add_0_r. unfold host_static_len. simpl. rewrite !Nat.add_0_r. reflexivity.
  - destruct (mid_label p a l pc Ep Hinv Hpe) as (a2 & Heq & Hprops).
    assert (Hstep : hsum (match label_trans mp mk p a l with
                          | Some (p1, a1) => if dot_ok p1 a1 then hfold mp mk "." (dotted a1) (l2 :: r') else None
                          | None => None end) =
                    match (match label_trans mp mk p a l with
                           | Some (p1, a1) => if dot_ok p1 a1 then Some (dotted a1) else None
                           | None => None end) with
                    | Some a2 => hsum (hfold mp mk "." a2 (l2 :: r'))
                    | None => None end).
    { destruct (label_trans mp mk p a l) as [[p1 a1]|]; [|reflexivity]. destruct (dot_ok p1 a1); reflexivity. }
    rewrite Hstep, Heq. clear Hstep Heq.
    destruct (label_ok_with ldh_us mk pc && (a_cnt a + w pc <=? mp)) eqn:Eok.
    + destruct (Hprops eq_refl) as (Hinv2 & Htl & Hnn & Hcnt & _).
      rewrite (IH "." a2) by (auto; discriminate).
      unfold hspec.
      destruct (map_opt parse_piece (l2 :: r')) as [ls|] eqn:Els; [|reflexivity].
      assert (Hlsne : ls <> []).
      { apply map_opt_length in Els. destruct ls; [discriminate|discriminate]. }
      apply andb_true_iff in Eok. destruct Eok as [Elab Ecnt].
      cbn [forallb]. rewrite Elab. cbn [andb].
      rewrite count_cons, (hsl_cons pc ls Hlsne), Htl, Hnn, Hcnt.
      replace (a_cnt a + w pc + count ls) with (a_cnt a + (w pc + count ls)) by lia.
      replace (a_totallen a + length (p_static pc) + 1 + host_static_len ls)
        with (a_totallen a + (length (p_static pc) + 1 + host_static_len ls)) by lia.
      apply if_same. f_equal. f_equal.
      destruct (a_nonNum a), (label_numeric pc), (forallb label_numeric ls); reflexivity.
    + destruct (map_opt parse_piece (l2 :: r')) as [ls|] eqn:Els; [|reflexivity].
      cbn [forallb]. rewrite count_cons.
      apply andb_false_iff in Eok. destruct Eok as [Eok|Eok].
      * rewrite Eok. reflexivity.
      * apply Nat.leb_gt in Eok.
        replace (a_cnt a + (w pc + count ls) <=? mp) with false by (symmetry; apply Nat.leb_gt; lia).
        now rewrite andb_false_r.
Qed.

Lemma hfold_inv labels : forall p a p' a',
  inv mp a -> a_prevCatch a = false -> hfold mp mk p a labels = Some (p', a') ->
  inv mp a' /\ a_prevCatch a' = false.
Proof.
  induction labels as [|l r IH]; intros p a p' a' Hinv Hpc H; [discriminate|].
  simpl in H. destruct (label_trans mp mk p a l) as [[p1 a1]|] eqn:Et; [|discriminate].
  assert (H1 : inv mp a1 /\ a_prevCatch a1 = false).
  { destruct (label_trans_inv mp mk _ _ _ _ _ Hinv Et) as [[Hi Hp]|[Hi Hp]]; split; auto; congruence. }
  destruct H1 as [Hi1 Hp1].
  destruct r as [|l2 r'].
  - inversion H; subst. auto.
  - destruct (dot_ok p1 a1); [|discriminate].
    apply (IH "." (dotted a1) p' a'); auto.
    destruct Hi1 as (Hs & Hip & Hc). repeat split; cbn; assumption.
Qed.


(* ---------- the path after the first '/' ---------- *)
Definition sethl (p : ascii) (a : ast) : ast :=
  mkA (a_state a) (a_prevCatch a) (a_cnt a) (a_cs a) (a_klen a) (a_inParam a) (a_nonNum a)
      (a_partlen a) (a_totallen a) (a_last a) p.

Lemma nodelim_slash c : nodelim "/" c = negb (Ascii.eqb c "/") && true.
Proof. unfold nodelim. destruct (Ascii.eqb c "/"); reflexivity. Qed.

Lemma split_slash_nodelim t : Forall (fun s => forallb (nodelim "/") s = true) (split "/" t).
Proof.
  assert (H : forallb (fun _ : ascii => true) t = true) by (induction t; auto).
  pose proof (split_forall "/" (fun _ => true) t H) as Hall.
  eapply Forall_impl; [|exact Hall]. intros l Hl. cbv beta in Hl.
  erewrite forallb_ext_in; [exact Hl|]. intros x _. apply nodelim_slash.
Qed.

Lemma path_part hn p t a :
  inv mp a -> a_prevCatch a = false ->
  lrun mp mk hn true p ("/" :: t) a =
  match map_opt parse_piece (split "/" t) with
  | None => None
  | Some ss =>
    if path_ok mk ss && (a_cnt a + count ss <=? mp)
    then lfinish hn (final (sethl p a) (count ss)) else None
  end.
Proof.
  intros (Hs & Hip & Hc) Hpc.
  rewrite first_slash by assumption.
  assert (Hsl : slashed p a = bump (length ["/"]) (sethl p a)) by (destruct a; simpl in Hs; subst; reflexivity).
  assert (Hinv' : inv mp (sethl p a)) by (destruct a; repeat split; cbn in *; assumption).
  rewrite Hsl. rewrite <- (lrun_static mp mk hn ["/"] "/" t (sethl p a)) by (try apply Hinv'; reflexivity).
  change (["/"] ++ t) with ("/" :: t).
  rewrite <- (split_join "/" t) at 1.
  rewrite (slash_concat _ (split_nonempty "/" t)).
  rewrite path_run by (auto using split_slash_nodelim).
  unfold path_fun.
  destruct (map_opt parse_piece (split "/" t)) as [ss|] eqn:Es; [|reflexivity].
  assert (Hne : is_nil ss = false).
  { apply map_opt_length in Es. pose proof (split_nonempty "/" t). destruct ss; [destruct (split "/" t); [contradiction|discriminate]|reflexivity]. }
  assert (Hpf : pcflag (sethl p a) = false) by (destruct a; unfold pcflag; cbn in *; now rewrite Hpc).
  assert (Hcn : a_cnt (sethl p a) = a_cnt a) by (destruct a; reflexivity).
  rewrite Hpf, no_consec_from_false, Hcn. unfold path_ok. rewrite Hne. reflexivity.
Qed.

Lemma hostfinal_final p a n : hostfinal p (final (sethl p a) n) = hostfinal p a.
Proof. destruct a; reflexivity. Qed.

Definition erase_full (r : result) : option (nat * nat) :=
  match r with Accept n e => Some (n, e) | _ => None end.

Lemma erase_full_good eh r : good eh r -> erase_full r = option_map (fun n => (n, eh)) (erase r).
Proof. destruct r; simpl; intros H; subst; auto; contradiction. Qed.

Lemma parse_piece_static_head c x pc :
  plain c = true -> parse_piece (c :: x) = Some pc -> exists st', p_static pc = c :: st'.
Proof.
  intros Hc. unfold parse_piece. simpl span_static. unfold plain in Hc.
  apply andb_true_iff in Hc. destruct Hc as [H1 H2]. apply negb_true_iff in H1, H2.
  rewrite H1, H2. simpl. destruct (span_static x) as [a b].
  destruct b as [|c1 r1]; [intros H; inversion H; simpl; eauto|].
  destruct (Ascii.eqb c1 "{").
  - destruct (parse_name r1); [|discriminate]. intros H; inversion H; simpl; eauto.
  - destruct r1 as [|c2 r2]; [discriminate|]. destruct (Ascii.eqb c2 "{"); [|discriminate].
    destruct (parse_name r2); [|discriminate]. intros H; inversion H; simpl; eauto.
Qed.

Lemma split_head d c r : Ascii.eqb c d = false -> exists x rest, split d (c :: r) = (c :: x) :: rest.
Proof.
  intros H. simpl. rewrite H. pose proof (split_nonempty d r). destruct (split d r); [contradiction|eauto].
Qed.

Lemma hinv_init : hinv a_init.
Proof. repeat split; cbn; lia. Qed.

(* parseRoute accepts exactly the grammar whose hostname bytes are ldh_us *)
Theorem parseRoute_grammarb url :
  erase_full (parseRoute mp mk url) = grammarb_with ldh_us mp mk url.
Proof.
  unfold grammarb_with, parse_pat.
  pose proof (cut_slash_index url) as Hidx.
  destruct (cut_slash url) as [[h t]|] eqn:Ecut.
  2:{ destruct (parseRoute_reject_early mp mk url) as [k ->]; [left; exact Hidx|reflexivity]. }
  destruct (cut_slash_spec _ _ _ Ecut) as [Hurl Hh].
  destruct (has_prefix1 "." url) eqn:Edot.
  { (* leading '.' : empty first label *)
    destruct (parseRoute_reject_early mp mk url) as [k ->]; [auto|]. simpl.
    destruct h as [|c h']; [subst url; discriminate|].
    subst url. simpl in Edot. apply Ascii.eqb_eq in Edot. subst c.
    cbn [is_nil]. change (split "." ("." :: h')) with ([] :: split "." h').
    simpl map_opt. change (parse_piece []) with (Some (mkPiece [] None)).
    destruct (map_opt parse_piece (split "." h')) as [ls|]; [|reflexivity].
    destruct (map_opt parse_piece (split "/" t)) as [ss|]; [|reflexivity].
    reflexivity. }
  destruct (has_prefix1 "-" url) eqn:Edash.
  { destruct (parseRoute_reject_early mp mk url) as [k ->]; [auto|]. simpl.
    destruct h as [|c h']; [subst url; discriminate|].
    subst url. simpl in Edash. apply Ascii.eqb_eq in Edash. subst c.
    cbn [is_nil]. destruct (split_head "." "-" h' eq_refl) as (x & rest & ->).
    simpl map_opt. destruct (parse_piece ("-" :: x)) as [pc|] eqn:Epc; [|reflexivity].
    destruct (parse_piece_static_head "-" x pc eq_refl Epc) as (st' & Hst).
    destruct (map_opt parse_piece rest) as [ls|]; [|reflexivity].
    destruct (map_opt parse_piece (split "/" t)) as [ss|]; [|reflexivity].
    unfold wf_with. rewrite host_ok_eq. cbn [is_nil orb forallb p_host].
    rewrite label_ok_eq, Hst. cbn [first_is]. rewrite Ascii.eqb_refl. cbn [negb].
    now rewrite !andb_false_r. }
  (* the state machine runs *)
  destruct (parseRoute_lrun mp mk url (length h) Hidx Edot Edash) as [Hgood Herase].
  rewrite (erase_full_good _ _ Hgood), Herase. clear Hgood Herase.
  destruct h as [|c h'].
  - (* no hostname *)
    subst url. simpl app. cbn [length Nat.ltb Nat.leb is_nil].
    rewrite path_part by (repeat split; cbn; lia).
    destruct (map_opt parse_piece (split "/" t)) as [ss|]; [|reflexivity].
    unfold wf_with, wild_count, host_text. cbn [p_host p_path host_ok_with is_nil orb map join filter length andb].
    fold (count ss). cbn [a_cnt a_init plus].
    destruct (path_ok mk ss && (count ss <=? mp)); [|reflexivity].
    reflexivity.
  - (* hostname *)
    cbn [is_nil]. replace (0 <? length (c :: h')) with true by reflexivity.
    subst url.
    assert (Hcd : Ascii.eqb c "." = false) by (simpl in Edot; exact Edot).
    set (labels := split "." (c :: h')).
    assert (Hjoin : join "." labels = c :: h') by apply split_join.
    assert (Hlne : labels <> []) by apply split_nonempty.
    assert (Hlall : Forall (fun l => forallb (nodelim ".") l = true) labels).
    { pose proof (split_forall "." _ (c :: h') Hh) as Hall.
      eapply Forall_impl; [|exact Hall]. intros l Hl. cbv beta in Hl.
      erewrite forallb_ext_in; [exact Hl|]. intros x _. reflexivity. }
    assert (Hhd : hd [] labels <> []).
    { subst labels. destruct (split_head "." c h' Hcd) as (x & rest & ->). discriminate. }
    rewrite <- Hjoin at 1.
    rewrite host_run by (auto; apply hinv_init).
    pose proof (hfold_sum labels "x" a_init Hlne hinv_init (or_intror Hhd)) as Hsum.
    unfold hspec in Hsum.
    destruct (hfold mp mk "x" a_init labels) as [[p' a']|] eqn:Ehf.
    + destruct (hfold_inv _ _ _ _ _ (proj2 (proj2 hinv_init)) eq_refl Ehf) as [Hinv' Hpc'].
      rewrite path_part by assumption.
      simpl hsum in Hsum.
      destruct (map_opt parse_piece labels) as [ls|] eqn:Els.
      * destruct (map_opt parse_piece (split "/" t)) as [ss|] eqn:Ess.
        2:{ reflexivity. }
        assert (Hlsne : is_nil ls = false).
        { apply map_opt_length in Els. destruct ls; [destruct labels; [contradiction|discriminate]|reflexivity]. }
        assert (Hht : length (host_text (mkPat ls ss)) = length (c :: h')).
        { unfold host_text. cbn [p_host]. rewrite (map_opt_render _ _ Els). now rewrite Hjoin. }
        rewrite Hht.
        unfold wf_with, wild_count. cbn [p_host p_path]. rewrite host_ok_eq, Hlsne. cbn [orb].
        fold (count ls). fold (count ss).
        rewrite lfinish_host by reflexivity.
        cbn [a_hostlast final sethl]. rewrite hostfinal_final.
        cbn [a_cnt final sethl].
        cbn [a_totallen a_nonNum a_cnt a_init plus orb] in Hsum.
        destruct (hostfinal p' a') eqn:Ehfin.
        -- (* hostname checks passed *)
           destruct (forallb (label_ok_with ldh_us mk) ls && (host_static_len ls <=? max_host) &&
                     negb (forallb label_numeric ls) && (count ls <=? mp)) eqn:Ehost; [|discriminate].
           inversion Hsum as [Hcnt]. rewrite Hcnt.
           apply andb_true_iff in Ehost. destruct Ehost as [Ehost _]. rewrite Ehost. cbn [andb option_map].
           destruct (path_ok mk ss); cbn [andb]; [destruct (count ls + count ss <=? mp)|]; reflexivity.
        -- destruct (forallb (label_ok_with ldh_us mk) ls && (host_static_len ls <=? max_host) &&
                     negb (forallb label_numeric ls) && (count ls <=? mp)) eqn:Ehost; [discriminate|].
           destruct (path_ok mk ss && (a_cnt a' + count ss <=? mp)); cbn [option_map].
           ++ apply andb_false_iff in Ehost. destruct Ehost as [Ehost|Ehost].
              ** rewrite Ehost. reflexivity.
              ** apply Nat.leb_gt in Ehost.
                 replace (count ls + count ss <=? mp) with false by (symmetry; apply Nat.leb_gt; lia).
                 now rewrite andb_false_r.
           ++ apply andb_false_iff in Ehost. destruct Ehost as [Ehost|Ehost].
              ** rewrite Ehost. reflexivity.
              ** apply Nat.leb_gt in Ehost.
                 replace (count ls + count ss <=? mp) with false by (symmetry; apply Nat.leb_gt; lia).
                 now rewrite andb_false_r.
      * (* some label does not parse: hfold cannot have succeeded with passing final checks *)
        destruct (hostfinal p' a') eqn:Ehfin; [discriminate|].
        destruct (map_opt parse_piece (split "/" t)) as [ss|]; [|reflexivity].
        rewrite lfinish_host by reflexivity. cbn [a_hostlast final sethl]. rewrite hostfinal_final, Ehfin.
        destruct (path_ok mk ss && (a_cnt a' + count ss <=? mp)); reflexivity.
    + simpl hsum in Hsum. cbn [option_map].
      destruct (map_opt parse_piece labels) as [ls|] eqn:Els; [|reflexivity].
      destruct (map_opt parse_piece (split "/" t)) as [ss|] eqn:Ess; [|reflexivity].
      assert (Hlsne : is_nil ls = false).
      { apply map_opt_length in Els. destruct ls; [destruct labels; [contradiction|discriminate]|reflexivity]. }
      unfold wf_with, wild_count. cbn [p_host p_path]. rewrite host_ok_eq, Hlsne. cbn [orb].
      fold (count ls). fold (count ss).
      cbn [a_totallen a_nonNum a_cnt a_init plus orb] in Hsum.
      destruct (forallb (label_ok_with ldh_us mk) ls && (host_static_len ls <=? max_host) &&
                negb (forallb label_numeric ls) && (count ls <=? mp)) eqn:Ehost; [discriminate|].
      apply andb_false_iff in Ehost. destruct Ehost as [Ehost|Ehost].
      * rewrite Ehost. reflexivity.
      * apply Nat.leb_gt in Ehost.
        replace (count ls + count ss <=? mp) with false by (symmetry; apply Nat.leb_gt; lia).
        now rewrite andb_false_r.
Qed.

End Main.
