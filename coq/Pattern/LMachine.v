(* FoxPattern.LMachine — proof artefact: the parseRoute state machine re-expressed over
   the remaining suffix of the pattern instead of indexes into it ("list machine").
   ProofsRefine.v shows that ParseRoute.loop refines to [lrun] (same verdict, never
   Panic / OutOfFuel); ProofsSeg/ProofsHost characterise [lrun] structurally.
   Error kinds are erased: the result is Some paramCnt (accepted) or None. *)
From FoxBase Require Import Bytes.
From FoxPattern Require Import ParseRoute.
Import List ListNotations.
Open Scope char_scope.
Open Scope nat_scope.

Record ast := mkA {
  a_state : pstate;
  a_prevCatch : bool;      (* previous == stateCatchAll *)
  a_cnt : nat;             (* paramCnt *)
  a_cs : nat;              (* countStatic *)
  a_klen : nat;            (* i - startParam (incremented on every byte) *)
  a_inParam : bool;
  a_nonNum : bool;
  a_partlen : nat;
  a_totallen : nat;
  a_last : ascii;
  a_hostlast : ascii }.    (* url[endHost-1], recorded when the first '/' is consumed *)

Inductive lsres :=
| LStop                           (* reject *)
| LNext (host : bool) (a : ast)   (* one byte consumed *)
| LSkip (a : ast).                (* '*' and the following '{' consumed *)

Definition ldelim (hostne host : bool) : ascii := if host && hostne then "." else "/".

(* hostne : endHost > 0 ; host : the first '/' has not been consumed yet (i <= endHost);
   prevc : url[i-1] ; c : url[i] ; next : url[i+1] if any *)
Definition lstep (mp mk : nat) (hostne host : bool) (prevc c : ascii) (next : option ascii) (a : ast) : lsres :=
  match a_state a with
  | StParam =>
    if Ascii.eqb c "}" then
      if negb (a_inParam a) then LStop else
      let ok := match next with
                | None => true
                | Some n => Ascii.eqb n (ldelim hostne host) || Ascii.eqb n "/"
                end in
      if negb ok then LStop else
      LNext host (mkA StDefault false (a_cnt a) 0 (S (a_klen a)) false (host || a_nonNum a)
                      (a_partlen a) (a_totallen a) (a_last a) (a_hostlast a))
    else if mk <? a_klen a then LStop
    else if Ascii.eqb c (ldelim hostne host) || Ascii.eqb c "/" || Ascii.eqb c "*" || Ascii.eqb c "{" then LStop
    else LNext host (mkA StParam (a_prevCatch a) (a_cnt a) (a_cs a) (S (a_klen a)) true (a_nonNum a)
                         (a_partlen a) (a_totallen a) (a_last a) (a_hostlast a))
  | StCatchAll =>
    if Ascii.eqb c "}" then
      if negb (a_inParam a) then LStop else
      let ok := match next with None => true | Some n => Ascii.eqb n "/" end in
      if negb ok then LStop else
      if a_prevCatch a && (a_cs a <=? 1) then LStop else
      LNext host (mkA StDefault true (a_cnt a) 0 (S (a_klen a)) false (a_nonNum a)
                      (a_partlen a) (a_totallen a) (a_last a) (a_hostlast a))
    else if mk <? a_klen a then LStop
    else if Ascii.eqb c "/" || Ascii.eqb c "*" || Ascii.eqb c "{" then LStop
    else LNext host (mkA StCatchAll (a_prevCatch a) (a_cnt a) (a_cs a) (S (a_klen a)) true (a_nonNum a)
                         (a_partlen a) (a_totallen a) (a_last a) (a_hostlast a))
  | StDefault =>
    let inhost := host && negb (Ascii.eqb c "/") in      (* i < endHost *)
    if Ascii.eqb c "{" then
      if mp <? S (a_cnt a) then LStop else
      LNext host (mkA StParam (a_prevCatch a) (S (a_cnt a)) (a_cs a) 1 (a_inParam a) (a_nonNum a)
                      (a_partlen a) (a_totallen a) (a_last a) (a_hostlast a))
    else if Ascii.eqb c "*" then
      if inhost then LStop else
      match next with
      | None => LStop
      | Some n =>
        if negb (Ascii.eqb n "{") then LStop else
        if mp <? S (a_cnt a) then LStop else
        LSkip (mkA StCatchAll (a_prevCatch a) (S (a_cnt a)) (a_cs a) 1 (a_inParam a) (a_nonNum a)
                   (a_partlen a) (a_totallen a) (a_last a) (a_hostlast a))
      end
    else
      let fin (a' : ast) := if mp <? a_cnt a then LStop else LNext inhost a' in
      if inhost then
        if is_alpha_us c then
          fin (mkA StDefault (a_prevCatch a) (a_cnt a) (S (a_cs a)) (S (a_klen a)) (a_inParam a) true
                   (S (a_partlen a)) (a_totallen a) c (a_hostlast a))
        else if is_digit c then
          fin (mkA StDefault (a_prevCatch a) (a_cnt a) (S (a_cs a)) (S (a_klen a)) (a_inParam a) (a_nonNum a)
                   (S (a_partlen a)) (a_totallen a) c (a_hostlast a))
        else if Ascii.eqb c "-" then
          if Ascii.eqb (a_last a) "." then LStop else
          fin (mkA StDefault (a_prevCatch a) (a_cnt a) (S (a_cs a)) (S (a_klen a)) (a_inParam a) true
                   (S (a_partlen a)) (a_totallen a) c (a_hostlast a))
        else if Ascii.eqb c "." then
          if Ascii.eqb (a_last a) "." && negb (Ascii.eqb prevc "}") then LStop else
          if Ascii.eqb (a_last a) "-" then LStop else
          if max_label <? a_partlen a then LStop else
          fin (mkA StDefault (a_prevCatch a) (a_cnt a) (S (a_cs a)) (S (a_klen a)) (a_inParam a) (a_nonNum a)
                   0 (a_totallen a + (a_partlen a + 1)) c (a_hostlast a))
        else LStop
      else
        (* past the hostname, or the first '/' itself: record url[endHost-1] *)
        fin (mkA StDefault (a_prevCatch a) (a_cnt a) (S (a_cs a)) (S (a_klen a)) (a_inParam a) (a_nonNum a)
                 (a_partlen a) (a_totallen a) (a_last a) (if host then prevc else a_hostlast a))
  end.

Definition lfinish (hostne : bool) (a : ast) : option nat :=
  let tail := match a_state a with StDefault => Some (a_cnt a) | _ => None end in
  if hostne then
    if Ascii.eqb (a_last a) "-" then None else
    if Ascii.eqb (a_hostlast a) "." then None else
    if negb (a_nonNum a) then None else
    if max_label <? a_partlen a then None else
    if max_host <? a_totallen a + a_partlen a then None else tail
  else tail.

Fixpoint lrun (mp mk : nat) (hostne host : bool) (prevc : ascii) (suf : bytes) (a : ast) {struct suf} : option nat :=
  match suf with
  | [] => lfinish hostne a
  | c :: r =>
    match lstep mp mk hostne host prevc c (hd_error r) a with
    | LStop => None
    | LNext host' a' => lrun mp mk hostne host' c r a'
    | LSkip a' =>
      match r with
      | c2 :: r' => lrun mp mk hostne false c2 r' a'
      | [] => None
      end
    end
  end.

Definition a_init : ast := mkA StDefault false 0 0 0 false false 0 0 "." ".".
