(* FoxPattern.Grammar — the documented pattern grammar, as a STRUCTURAL definition
   (syntax tree + well-formedness + rendering), written from the property text
   (properties.jsonl C10) and README "Named parameters", "Catch-all parameters",
   "Hostname validation & restrictions".  It does not look at parseRoute.

   INTERFACE (stable; other areas import this file)
     wild   WParam name | WCatch name
     piece  { p_static : bytes; p_wild : option wild }   a host label or a path segment:
                                                          static text, then at most one wildcard, at its end
     pat    { p_host : list piece; p_path : list piece }  labels (joined by '.'), segments (each preceded by '/')
     render_pat : pat -> bytes
     wf mp mk p : bool         well-formedness under maxParams = mp, maxParamKeyBytes = mk
     wild_count p, host_text p
     in_grammar mp mk s n eh   s is a pattern of the grammar with n wildcards and a hostname part of eh bytes
     parse_pat : bytes -> option pat,  grammarb mp mk s : option (nat * nat)
         decision procedure (split at the first '/', split the host at '.', the path at '/',
         read each piece); grammarb_iff (Props_C10): grammarb mp mk s = Some (n, eh) <-> in_grammar mp mk s n eh
     pat_tokens p              the token list of a syntax tree (FoxPattern.Token)

   Reading decisions (where the texts leave room):
   * LDH = ASCII letters, digits, hyphen (RFC 3696 §2, cited by the README).  '_' is NOT LDH.
   * "only at its end": nothing may follow a wildcard inside its segment/label; static text
     may precede it (README: /users/uuid:{id}, /src/file=*{path}, and de{f}.com in the tests).
   * a label's static text is what the LDH rules apply to (README: wildcards "are exempt
     from LDH validation ... do not count toward 63 / 255"); so the static text of a label
     may not start or end with '-', is at most 63 bytes, and the 255 limit counts static
     bytes and the separating periods.  A label is non-empty (static text or a wildcard).
   * "not all numeric": a hostname whose labels are all static digit strings is rejected
     (a label with a wildcard is not numeric).
   * static path bytes are any byte except '/', '{', '*' ('}' alone is ordinary text).
   * a name is non-empty, at most mk bytes, and contains none of '{' '}' '*' '/' (nor '.'
     in a hostname: the label separator).
   * "no two catch-alls separated only by a slash": *{a}/*{b} is illegal, *{a}/x*{b} is not.
   No proofs in this file. *)
From FoxBase Require Import Bytes.
From FoxPattern Require Import Token.
Import List ListNotations.
Open Scope char_scope.
Open Scope nat_scope.

Inductive wild := WParam (n : bytes) | WCatch (n : bytes).
Record piece := mkPiece { p_static : bytes; p_wild : option wild }.
Record pat := mkPat { p_host : list piece; p_path : list piece }.

(* ---- rendering ---- *)
Definition render_wild (w : wild) : bytes :=
  match w with
  | WParam n => "{" :: n ++ ["}"]
  | WCatch n => "*" :: "{" :: n ++ ["}"]
  end.
Definition render_piece (p : piece) : bytes :=
  p_static p ++ match p_wild p with None => [] | Some w => render_wild w end.
Fixpoint join (d : ascii) (l : list bytes) : bytes :=
  match l with
  | [] => []
  | x :: r => match r with [] => x | _ => x ++ d :: join d r end
  end.
Definition host_text (p : pat) : bytes := join "." (map render_piece (p_host p)).
Definition path_text (p : pat) : bytes := concat (map (fun s => "/" :: render_piece s) (p_path p)).
Definition render_pat (p : pat) : bytes := host_text p ++ path_text p.

(* ---- byte classes ---- *)
Definition between (lo hi c : ascii) : bool :=
  (N_of_ascii lo <=? N_of_ascii c)%N && (N_of_ascii c <=? N_of_ascii hi)%N.
Definition letter (c : ascii) : bool := between "a" "z" c || between "A" "Z" c.
Definition digit (c : ascii) : bool := between "0" "9" c.
Definition ldh (c : ascii) : bool := letter c || digit c || Ascii.eqb c "-".

Definition is_nil {A} (l : list A) : bool := match l with [] => true | _ => false end.
Definition first_is (c : ascii) (s : bytes) : bool :=
  match s with x :: _ => Ascii.eqb x c | [] => false end.
Definition last_is (c : ascii) (s : bytes) : bool := first_is c (rev s).

(* ---- well-formedness ---- *)
Definition name_byte (host : bool) (c : ascii) : bool :=
  negb (Ascii.eqb c "{") && negb (Ascii.eqb c "}") && negb (Ascii.eqb c "*") &&
  negb (Ascii.eqb c "/") && negb (host && Ascii.eqb c ".").
Definition name_ok (host : bool) (mk : nat) (n : bytes) : bool :=
  negb (is_nil n) && (length n <=? mk) && forallb (name_byte host) n.

(* hb = the legal static bytes of a hostname label; the grammar is the instance hb = ldh
   below (the _with forms exist so that theorems can also describe a validator with a
   different byte class, see Props_C10.parseRoute_accepts_exactly) *)
Definition label_ok_with (hb : ascii -> bool) (mk : nat) (l : piece) : bool :=
  forallb hb (p_static l) && (length (p_static l) <=? 63) &&
  negb (first_is "-" (p_static l)) && negb (last_is "-" (p_static l)) &&
  match p_wild l with
  | None => negb (is_nil (p_static l))
  | Some (WParam n) => name_ok true mk n
  | Some (WCatch _) => false
  end.
Definition label_numeric (l : piece) : bool :=
  match p_wild l with None => forallb digit (p_static l) | Some _ => false end.
(* static bytes and separating periods *)
Definition host_static_len (ls : list piece) : nat :=
  list_sum (map (fun l => length (p_static l)) ls) + (length ls - 1).
Definition host_ok_with (hb : ascii -> bool) (mk : nat) (ls : list piece) : bool :=
  is_nil ls ||
  (forallb (label_ok_with hb mk) ls && (host_static_len ls <=? 255) && negb (forallb label_numeric ls)).

Definition static_byte (c : ascii) : bool :=
  negb (Ascii.eqb c "/") && negb (Ascii.eqb c "{") && negb (Ascii.eqb c "*").
Definition seg_ok (mk : nat) (s : piece) : bool :=
  forallb static_byte (p_static s) &&
  match p_wild s with
  | None => true
  | Some (WParam n) | Some (WCatch n) => name_ok false mk n
  end.
Definition is_catchw (w : option wild) : bool :=
  match w with Some (WCatch _) => true | _ => false end.
(* no  *{a}/*{b} *)
Fixpoint no_consec (ss : list piece) : bool :=
  match ss with
  | [] => true
  | s1 :: r =>
    match r with
    | [] => true
    | s2 :: _ => negb (is_catchw (p_wild s1) && is_nil (p_static s2) && is_catchw (p_wild s2)) && no_consec r
    end
  end.
Definition path_ok (mk : nat) (ss : list piece) : bool :=
  negb (is_nil ss) && forallb (seg_ok mk) ss && no_consec ss.

Definition has_wild (p : piece) : bool := match p_wild p with Some _ => true | None => false end.
Definition wild_count (p : pat) : nat :=
  length (filter has_wild (p_host p)) + length (filter has_wild (p_path p)).

Definition wf_with (hb : ascii -> bool) (mp mk : nat) (p : pat) : bool :=
  host_ok_with hb mk (p_host p) && path_ok mk (p_path p) && (wild_count p <=? mp).

Definition in_grammar_with (hb : ascii -> bool) (mp mk : nat) (s : bytes) (n eh : nat) : Prop :=
  exists p, render_pat p = s /\ wf_with hb mp mk p = true /\ n = wild_count p /\ eh = length (host_text p).

(* the byte class the validator in /repo actually applies to hostname labels (finding
   c10_underscore_hostname): LDH plus '_' *)
Definition ldh_or_underscore (c : ascii) : bool := ldh c || Ascii.eqb c "_".

(* THE grammar: hostname labels are LDH *)
Definition label_ok := label_ok_with ldh.
Definition host_ok := host_ok_with ldh.
Definition wf := wf_with ldh.
Definition in_grammar := in_grammar_with ldh.

(* ---- decision procedure: read the syntax tree back from the text ---- *)
(* split at every d; never empty: split d "" = [""] *)
Fixpoint split (d : ascii) (s : bytes) : list bytes :=
  match s with
  | [] => [[]]
  | c :: r =>
    if Ascii.eqb c d then [] :: split d r
    else match split d r with
         | h :: t => (c :: h) :: t
         | [] => [[c]]
         end
  end.
(* (text before the first '/', text after it) *)
Fixpoint cut_slash (s : bytes) : option (bytes * bytes) :=
  match s with
  | [] => None
  | c :: r =>
    if Ascii.eqb c "/" then Some ([], r)
    else match cut_slash r with Some (h, t) => Some (c :: h, t) | None => None end
  end.
(* longest prefix without '{' and '*', and the rest *)
Fixpoint span_static (s : bytes) : bytes * bytes :=
  match s with
  | [] => ([], [])
  | c :: r =>
    if Ascii.eqb c "{" || Ascii.eqb c "*" then ([], s)
    else let (a, b) := span_static r in (c :: a, b)
  end.
Fixpoint unsnoc (s : bytes) : option (bytes * ascii) :=
  match s with
  | [] => None
  | c :: r => match unsnoc r with None => Some ([], c) | Some (a, z) => Some (c :: a, z) end
  end.
(* name '}' , the brace being the last byte of the piece *)
Definition parse_name (r : bytes) : option bytes :=
  match unsnoc r with
  | Some (n, c) => if Ascii.eqb c "}" then Some n else None
  | None => None
  end.
Definition parse_piece (s : bytes) : option piece :=
  let (st, r) := span_static s in
  match r with
  | [] => Some (mkPiece st None)
  | c :: r1 =>
    if Ascii.eqb c "{" then
      match parse_name r1 with Some n => Some (mkPiece st (Some (WParam n))) | None => None end
    else (* c = '*' *)
      match r1 with
      | c2 :: r2 =>
        if Ascii.eqb c2 "{" then
          match parse_name r2 with Some n => Some (mkPiece st (Some (WCatch n))) | None => None end
        else None
      | [] => None
      end
  end.
Fixpoint map_opt {A B} (f : A -> option B) (l : list A) : option (list B) :=
  match l with
  | [] => Some []
  | x :: r => match f x, map_opt f r with Some y, Some ys => Some (y :: ys) | _, _ => None end
  end.
Definition parse_pat (s : bytes) : option pat :=
  match cut_slash s with
  | None => None
  | Some (h, t) =>
    match (if is_nil h then Some [] else map_opt parse_piece (split "." h)),
          map_opt parse_piece (split "/" t) with
    | Some ls, Some ss => Some (mkPat ls ss)
    | _, _ => None
    end
  end.
Definition grammarb_with (hb : ascii -> bool) (mp mk : nat) (s : bytes) : option (nat * nat) :=
  match parse_pat s with
  | Some p => if wf_with hb mp mk p then Some (wild_count p, length (host_text p)) else None
  | None => None
  end.
Definition grammarb := grammarb_with ldh.

(* ---- tokens of a syntax tree ---- *)
Definition wild_token (w : wild) : token :=
  match w with WParam n => TParam n | WCatch n => TCatch n end.
Definition piece_tokens (p : piece) : list token :=
  map TStatic (p_static p) ++ match p_wild p with None => [] | Some w => [wild_token w] end.
Fixpoint join_tokens (l : list (list token)) : list token :=
  match l with
  | [] => []
  | x :: r => match r with [] => x | _ => x ++ TStatic "." :: join_tokens r end
  end.
Definition pat_tokens (p : pat) : list token :=
  join_tokens (map piece_tokens (p_host p)) ++
  concat (map (fun s => TStatic "/" :: piece_tokens s) (p_path p)).
