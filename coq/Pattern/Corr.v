(* C10 correspondence: functions evaluated by the case files harness/cmd/c10 writes.
   mismatches : implementation <> model (ParseRoute.v / ParseWildcard.v)
   spec_violations : implementation <> Grammar.v (accept/reject, count, host split),
                     parseWildcard <> token offsets, routable clause
   fuel_outs : model ran out of fuel.  No proofs in this file. *)
From FoxBase Require Import Bytes.
From FoxPattern Require Import ParseRoute ParseWildcard Token Grammar.
Import List ListNotations.
Open Scope char_scope.
Open Scope nat_scope.

(* observed result of parseRoute *)
Inductive obs :=
| OA (n eh : N)     (* accepted: param count, host split *)
| OR (k : N)        (* rejected, error text number (rkind_code) *)
| OP.               (* panicked *)

Definition obs_eqb (a b : obs) : bool :=
  match a, b with
  | OA n e, OA n' e' => N.eqb n n' && N.eqb e e'
  | OR k, OR k' => N.eqb k k'
  | OP, OP => true
  | _, _ => false
  end.

(* the 16 limit pairs (maxParams, maxParamKeyBytes), maxParams-major *)
Definition limits_N : list N := [0; 1; 2; 65535]%N.
Definition limits : list nat := map N.to_nat limits_N.
Definition limit_pairs : list (nat * nat) :=
  flat_map (fun a => map (fun b => (a, b)) limits) limits.

Inductive o16 := Same (o : obs) | Each (l : list obs).
Definition expand (o : o16) : list obs :=
  match o with Same x => map (fun _ => x) limit_pairs | Each l => l end.

Inductive case :=
(* parseRoute under the 16 limit pairs; agree = NewRoute / Handle / Delete gave the same verdict as parseRoute *)
| CPat (p : bytes) (o : o16) (agree : bool)
(* parseRoute under one limit pair *)
| CPat1 (mp mk : N) (p : bytes) (o : obs) (agree : bool)
(* parseWildcard on a key cut from an accepted pattern at token boundaries; None = panicked *)
| CWild (key : bytes) (o : option (list wtuple))
(* only route p (accepted, default limits); request req = host++path built from vals;
   found = ServeHTTP ran p's handler and Reverse returned p without tsr; params as reported *)
| CRoute (p : bytes) (vals : list bytes) (req : bytes) (found : bool) (params : list (bytes * bytes))
(* round 7: only route p on a router built with WithIgnoreTrailingSlash(true); req = the instantiation of p
   with vals with its trailing slash toggled, sent through ServeHTTP in the middle of a history of
   requests on the same router; served = p's handler ran exactly once; params as the handler saw them.
   (The direct instantiations of the same history are CRoute cases.) *)
| CRouteTs (p : bytes) (vals : list bytes) (req : bytes) (served : bool) (params : list (bytes * bytes))
(* all strings prefix ++ x, lo <= |x| <= hi over the alphabet, in enumeration order, under the
   16 limit pairs: digest of the observations (with error kinds / erased to accept-reject) *)
| CBlock (prefix : bytes) (lo hi : nat) (dfull derased : N)
(* a pattern too long to be sent or run through the model (unary indexes make the model quadratic):
   a well-formed unit such as "/{a}" repeated, containing `wilds` wildcards in all (counted by the
   harness), validated under maxParams = mp (key limit 65535).  The model's verdict is not computed
   but taken from Props_C10.accepted_within_limit (accepted -> n = number of wildcards <= mp). *)
| CCount (wilds mp : N) (o : obs) (agree : bool).

(* ---------- model side ---------- *)
Definition model_obs (mp mk : nat) (p : bytes) : option obs :=
  match parseRoute mp mk p with
  | Accept n e => Some (OA (N.of_nat n) (N.of_nat e))
  | Reject k => Some (OR (rkind_code k))
  | Panic => Some OP
  | OutOfFuel => None
  end.

Definition model_wild (key : bytes) : option (option (list wtuple)) :=
  match parseWildcard key with
  | WOk ps => Some (Some (map (fun p => (pkey p, pend p, pcatch p)) ps))
  | WPanic => Some None
  | WOutOfFuel => None
  end.

Definition wtuple_eqb (a b : wtuple) : bool :=
  match a, b with (k, e, c), (k', e', c') => bytes_eqb k k' && Z.eqb e e' && Bool.eqb c c' end.

(* ---------- spec side ---------- *)
Definition spec_obs_ok_with (hb : ascii -> bool) (mp mk : nat) (p : bytes) (o : obs) : bool :=
  match grammarb_with hb mp mk p, o with
  | Some (n, e), OA n' e' => N.eqb (N.of_nat n) n' && N.eqb (N.of_nat e) e'
  | None, OR _ => true
  | _, _ => false
  end.

Definition default_limit : nat := N.to_nat 65535.

Definition pair_eqb (a b : bytes * bytes) : bool :=
  bytes_eqb (fst a) (fst b) && bytes_eqb (snd a) (snd b).

Definition spec_obs_ok := spec_obs_ok_with ldh.

Definition route_ok_with (hb : ascii -> bool) (p : bytes) (vals : list bytes) (req : bytes) (found : bool) (params : list (bytes * bytes)) : bool :=
  let ts := tokenize p in
  match grammarb_with hb default_limit default_limit p with
  | None => false                                   (* harness only sends accepted patterns *)
  | Some _ =>
    bytes_eqb req (subst ts vals) && (length vals =? tok_wilds ts) &&
    forallb (fun v => negb (is_nil v)) vals &&
    found &&
    list_eqb bytes_eqb (map fst params) (tok_names ts) &&
    bytes_eqb (subst ts (map snd params)) req &&
    (catch_followed ts || list_eqb bytes_eqb (map snd params) vals)
  end.

(* the request with its trailing slash toggled *)
Definition toggle_slash (s : bytes) : bytes :=
  match rev s with
  | "/" :: r => rev r
  | _ => s ++ ["/"]
  end.
Definition has_catch (ts : list token) : bool :=
  existsb (fun t => match t with TCatch _ => true | _ => false end) ts.
(* Whether the toggled request is served at all is the trailing-slash option's business (C08), not
   stated here.  When p's handler does run for it, what it reports must be about THIS request: the
   pattern's names; values that reproduce the request up to the trailing slash the option ignores; and,
   when p has no catch-all (a parameter value cannot hold the toggled slash), exactly the substituted values. *)
Definition route_ts_ok_with (hb : ascii -> bool) (p : bytes) (vals : list bytes) (req : bytes) (served : bool) (params : list (bytes * bytes)) : bool :=
  let ts := tokenize p in
  match grammarb_with hb default_limit default_limit p with
  | None => false
  | Some _ =>
    bytes_eqb req (toggle_slash (subst ts vals)) && (length vals =? tok_wilds ts) &&
    forallb (fun v => negb (is_nil v)) vals &&
    (negb served ||
     (list_eqb bytes_eqb (map fst params) (tok_names ts) &&
      (let back := subst ts (map snd params) in bytes_eqb back req || bytes_eqb back (toggle_slash req)) &&
      (has_catch ts || list_eqb bytes_eqb (map snd params) vals)))
  end.

(* ---------- blocks ---------- *)
Definition alphabet : bytes := ["a"; "1"; "-"; "."; "/"; "{"; "}"; "*"].
Fixpoint exts (k : nat) : list bytes :=
  match k with
  | 0 => [[]]
  | S k => flat_map (fun c => map (cons c) (exts k)) alphabet
  end.
Fixpoint exts_range (lo n : nat) : list bytes :=   (* lengths lo .. lo+n-1 *)
  match n with 0 => [] | S n => exts lo ++ exts_range (S lo) n end.

Definition obs_code (o : option obs) : N :=
  match o with
  | Some (OA n e) => 32 + n * 8 + e
  | Some (OR k) => k
  | Some OP => 0
  | None => 31
  end%N.
Definition erase_code (c : N) : N := if (c <? 32)%N then (if N.eqb c 0 then 0 else 1)%N else c.
Definition spec_code (mp mk : nat) (p : bytes) : N :=
  match grammarb mp mk p with Some (n, e) => 32 + N.of_nat n * 8 + N.of_nat e | None => 1 end%N.

Definition P61 : N := 2305843009213693951%N.
Definition red (x : N) : N := (N.land x P61 + N.shiftr x 61)%N.
Definition mod61 (x : N) : N := let y := red (red (red x)) in if (P61 <=? y)%N then (y - P61)%N else y.
Definition pack (codes : list N) : N := fold_left (fun a c => N.shiftl a 7 + c)%N codes 0%N.
Definition hstep (h c : N) : N := mod61 (N.shiftl h 7 + h + c + 1)%N.

Definition block_digests (prefix : bytes) (lo hi : nat) : N * N * bool :=
  fold_left (fun (acc : N * N * bool) x =>
    let p := prefix ++ x in
    let '(hm, hs, oof) := acc in
    let ms := map (fun l => model_obs (fst l) (snd l) p) limit_pairs in
    let cm := pack (map obs_code ms) in
    let cs := pack (map (fun l => spec_code (fst l) (snd l) p) limit_pairs) in
    (hstep hm (mod61 cm), hstep hs (mod61 cs), oof || existsb (fun o => match o with None => true | _ => false end) ms))
  (exts_range lo (S hi - lo)) (0%N, 0%N, false).

(* ---------- verdicts ---------- *)
Definition model_agrees (c : case) : bool :=
  match c with
  | CPat p o agree =>
    agree && list_eqb (opt_eqb obs_eqb) (map (fun l => model_obs (fst l) (snd l) p) limit_pairs) (map Some (expand o))
  | CPat1 mp mk p o agree =>
    agree && opt_eqb obs_eqb (model_obs (N.to_nat mp) (N.to_nat mk) p) (Some o)
  | CWild key o =>
    opt_eqb (opt_eqb (list_eqb wtuple_eqb)) (model_wild key) (Some o)
  | CRoute _ _ _ _ _ => true
  | CRouteTs _ _ _ _ _ => true
  | CBlock prefix lo hi dfull _ => N.eqb (fst (fst (block_digests prefix lo hi))) dfull
  | CCount wilds mp o agree =>
    agree && match o with
             | OA n _ => N.eqb n wilds && (wilds <=? mp)%N
             | OR k => N.eqb k 19 && (mp <? wilds)%N       (* ETooManyParams *)
             | OP => false
             end
  end.

Definition spec_ok_with (hb : ascii -> bool) (c : case) : bool :=
  match c with
  | CPat p o _ =>
    (length (expand o) =? length limit_pairs) &&
    forallb (fun lo => spec_obs_ok_with hb (fst (fst lo)) (snd (fst lo)) p (snd lo)) (combine limit_pairs (expand o))
  | CPat1 mp mk p o _ => spec_obs_ok_with hb (N.to_nat mp) (N.to_nat mk) p o
  | CWild key o =>
    match o with
    | Some l => bytes_eqb (render (tokenize key)) key && list_eqb wtuple_eqb l (wild_spec 0 (tokenize key))
    | None => false
    end
  | CRoute p vals req found params => route_ok_with hb p vals req found params
  | CRouteTs p vals req served params => route_ts_ok_with hb p vals req served params
  | CBlock prefix lo hi _ derased => N.eqb (snd (fst (block_digests prefix lo hi))) derased
  | CCount wilds mp o _ =>
    match o with
    | OA n _ => N.eqb n wilds && (wilds <=? mp)%N     (* the configured limit on the parameter count *)
    | OR _ => (mp <? wilds)%N                         (* the unit is well formed: only the count can be wrong *)
    | OP => false
    end
  end.
(* the specification: hostname labels are LDH *)
Definition spec_ok := spec_ok_with ldh.
(* finding c10_underscore_hostname (fox.go:784, `|| c == '_'`): a case is attributed to it
   when it fails the specification but satisfies the same specification with '_' allowed
   in hostname labels (the language parseRoute is proved to accept, Props_C10.parseRoute_accepts_exactly) *)
Definition known_underscore (c : case) : bool :=
  match c with
  | CBlock _ _ _ _ _ => false
  | _ => negb (spec_ok c) && spec_ok_with ldh_or_underscore c
  end.

Definition out_of_fuel (c : case) : bool :=
  match c with
  | CPat p _ _ => existsb (fun l => match model_obs (fst l) (snd l) p with None => true | _ => false end) limit_pairs
  | CPat1 mp mk p _ _ => match model_obs (N.to_nat mp) (N.to_nat mk) p with None => true | _ => false end
  | CWild key _ => match model_wild key with None => true | _ => false end
  | CRoute _ _ _ _ _ => false
  | CRouteTs _ _ _ _ _ => false
  | CBlock prefix lo hi _ _ => snd (block_digests prefix lo hi)
  | CCount _ _ _ _ => false
  end.

(* evaluated once per case by the case files: the model is run once per (case, limit pair) *)
Definition has_none {A} (l : list (option A)) : bool := existsb (fun o => match o with None => true | _ => false end) l.
Definition model_res (c : case) : bool * bool :=      (* (agrees, out of fuel) *)
  match c with
  | CPat p o agree =>
    let ms := map (fun l => model_obs (fst l) (snd l) p) limit_pairs in
    (agree && list_eqb (opt_eqb obs_eqb) ms (map Some (expand o)), has_none ms)
  | CPat1 mp mk p o agree =>
    let m := model_obs (N.to_nat mp) (N.to_nat mk) p in
    (agree && opt_eqb obs_eqb m (Some o), match m with None => true | _ => false end)
  | _ => (model_agrees c, out_of_fuel c)
  end.
Definition verdict (c : case) : bool * bool * bool * bool :=   (* (mismatch, violation, out of fuel, known) *)
  match c with
  | CBlock prefix lo hi dfull derased =>
    let '(hm, hs, oof) := block_digests prefix lo hi in
    (negb (N.eqb hm dfull), negb (N.eqb hs derased), oof, false)
  | _ =>
    let '(agrees, oof) := model_res c in
    let v := negb (spec_ok c) in
    (negb agrees, v, oof, if v then spec_ok_with ldh_or_underscore c else false)
  end.
Definition verdicts (cs : list case) : list (bool * bool * bool * bool) := map verdict cs.
Definition mismatches (vs : list (bool * bool * bool * bool)) : list nat := true_idx (map (fun v => fst (fst (fst v))) vs).
Definition spec_violations (vs : list (bool * bool * bool * bool)) : list nat := true_idx (map (fun v => snd (fst (fst v))) vs).
Definition fuel_outs (vs : list (bool * bool * bool * bool)) : list nat := true_idx (map (fun v => snd (fst v)) vs).
Definition known_underscores (vs : list (bool * bool * bool * bool)) : list nat := true_idx (map (fun v => snd v) vs).
