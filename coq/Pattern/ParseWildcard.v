(* FoxPattern.ParseWildcard — faithful model of /repo/node.go parseWildcard.

   INTERFACE (stable; other areas import this file)
     param          { pkey : bytes; pend : Z; pcatch : bool }   (Go: param{key,end,catchAll};
                    pend = -1 when the wildcard closes the key, else offset of the next byte)
     wresult        WOk (list param) | WPanic | WOutOfFuel
     parseWildcard  : bytes -> wresult

   Same state machine as the Go code (state, start, i, params); note `i += 2`
   after '*' (the byte after '*' is skipped unchecked: parseRoute guarantees it is '{').
   Index and slice expressions are range checked: segment[i] / segment[a:b] out of
   range = WPanic.  Fuel S (length segment); WOutOfFuel is never produced.
   No proofs in this file. *)
From FoxBase Require Import Bytes.
From FoxPattern Require Import ParseRoute.
Import List ListNotations.
Open Scope char_scope.
Open Scope nat_scope.

Record param := mkParam { pkey : bytes; pend : Z; pcatch : bool }.

Inductive wresult := WOk (ps : list param) | WPanic | WOutOfFuel.

(* segment[lo:hi]; Go panics unless lo <= hi <= len *)
Definition slice (s : bytes) (lo hi : nat) : option bytes :=
  if (lo <=? hi) && (hi <=? length s) then Some (firstn (hi - lo) (skipn lo s)) else None.

Record wst := mkW { wstate : pstate; wstart : nat; wparams : list param }.

Inductive wsres := WNext (i : nat) (s : wst) | WStop (r : wresult).

(* the two wildcard states differ only in the catchAll flag *)
Definition wstep_close (seg : bytes) (i : nat) (s : wst) (catch : bool) : wsres :=
  match nth_error seg i with
  | None => WStop WPanic
  | Some c =>
    if Ascii.eqb c "}" then
      (* end := -1; if len(segment[i+1:]) > 0 { end = i + 1 } *)
      match slice seg (S i) (length seg) with
      | None => WStop WPanic
      | Some rest =>
        let e := if 0 <? length rest then Z.of_nat (S i) else (-1)%Z in
        match slice seg (wstart s) i with
        | None => WStop WPanic
        | Some key =>
          WNext (S i) (mkW StDefault 0 (wparams s ++ [mkParam key e catch]))
        end
      end
    else WNext (S i) s
  end.

Definition wstep (seg : bytes) (i : nat) (s : wst) : wsres :=
  match wstate s with
  | StParam => wstep_close seg i s false
  | StCatchAll => wstep_close seg i s true
  | StDefault =>
    match nth_error seg i with
    | None => WStop WPanic
    | Some c =>
      if Ascii.eqb c "*" then WNext (i + 2) (mkW StCatchAll (i + 2) (wparams s))
      else if Ascii.eqb c "{" then WNext (S i) (mkW StParam (S i) (wparams s))
      else WNext (S i) s
    end
  end.

Fixpoint wloop (fuel : nat) (seg : bytes) (i : nat) (s : wst) : wresult :=
  if i <? length seg then
    match fuel with
    | 0 => WOutOfFuel
    | S fuel =>
      match wstep seg i s with
      | WStop r => r
      | WNext i s => wloop fuel seg i s
      end
    end
  else WOk (wparams s).

Definition parseWildcard (seg : bytes) : wresult :=
  wloop (S (length seg)) seg 0 (mkW StDefault 0 []).
