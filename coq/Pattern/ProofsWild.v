(* parseWildcard never panics; on the rendering of a token list it returns exactly the
   wildcards with the offsets Token.wild_spec prescribes; tokenize inverts render_pat. *)
From FoxBase Require Import Bytes.
Import List ListNotations.
From FoxPattern Require Import ParseRoute ParseWildcard Token Grammar ProofsLRun ProofsPath ProofsGrammar.
Require Import Lia.
Open Scope char_scope.
Open Scope nat_scope.

(* ---------- totality ---------- *)
Lemma slice_some s lo hi : lo <= hi -> hi <= length s -> slice s lo hi = Some (firstn (hi - lo) (skipn lo s)).
Proof.
  intros H1 H2. unfold slice.
  replace (lo <=? hi) with true by (symmetry; apply Nat.leb_le; lia).
  replace (hi <=? length s) with true by (symmetry; apply Nat.leb_le; lia). reflexivity.
Qed.

Definition winv (i : nat) (s : wst) : Prop := wstate s <> StDefault -> wstart s <= i.

Lemma wstep_ok seg i s :
  i < length seg -> winv i s ->
  exists i' s', wstep seg i s = WNext i' s' /\ i < i' /\ winv i' s'.
Proof.
  intros Hi Hinv.
  destruct (nth_error seg i) as [c|] eqn:Ec; [|apply nth_error_None in Ec; lia].
  assert (Hclose : forall catch, wstate s <> StDefault ->
            exists i' s', wstep_close seg i s catch = WNext i' s' /\ i < i' /\ winv i' s').
  { intros catch Hs. unfold wstep_close. rewrite Ec.
    destruct (Ascii.eqb c "}").
    - rewrite (slice_some seg (S i) (length seg)) by lia.
      rewrite (slice_some seg (wstart s) i) by (specialize (Hinv Hs); lia).
      do 2 eexists; split; [reflexivity|]. split; [lia|]. intros H; simpl in H; congruence.
    - do 2 eexists; split; [reflexivity|]. split; [lia|]. intros H. specialize (Hinv H). lia. }
  unfold wstep. destruct (wstate s) eqn:Es.
  - rewrite Ec. destruct (Ascii.eqb c "*").
    + do 2 eexists; split; [reflexivity|]. split; [lia|]. intros _; simpl; lia.
    + destruct (Ascii.eqb c "{").
      * do 2 eexists; split; [reflexivity|]. split; [lia|]. intros _; simpl; lia.
      * do 2 eexists; split; [reflexivity|]. split; [lia|]. intros H; congruence.
  - apply Hclose. congruence.
  - apply Hclose. congruence.
Qed.

Lemma wloop_total seg : forall fuel i s,
  length seg - i < fuel -> winv i s -> exists ps, wloop fuel seg i s = WOk ps.
Proof.
  induction fuel as [|fuel IH]; intros i s Hf Hinv; [lia|].
  simpl. destruct (Nat.ltb_spec i (length seg)) as [Hlt|Hge]; [|eauto].
  destruct (wstep_ok seg i s Hlt Hinv) as (i' & s' & -> & Hi' & Hinv').
  apply IH; [lia|exact Hinv'].
Qed.

Lemma parseWildcard_never_panics seg : exists ps, parseWildcard seg = WOk ps.
Proof. apply wloop_total; [lia|]. intros H; simpl in H; congruence. Qed.

(* ---------- agreement with the token view ---------- *)
Definition tok_ok (t : token) : bool :=
  match t with
  | TStatic c => plain c
  | TParam n | TCatch n => forallb (fun c => negb (Ascii.eqb c "}")) n
  end.

Definition mkp (w : wtuple) : param := match w with (k, e, c) => mkParam k e c end.

Lemma wloop_step fuel seg i s i' s' :
  i < length seg -> wstep seg i s = WNext i' s' ->
  wloop (S fuel) seg i s = wloop fuel seg i' s'.
Proof.
  intros Hi Hs. simpl. replace (i <? length seg) with true by (symmetry; apply Nat.ltb_lt; exact Hi).
  now rewrite Hs.
Qed.

(* the bytes of a name, inside a wildcard *)
Lemma wloop_name n : forall pre rest wst st acc fuel,
  wst <> StDefault -> forallb (fun c => negb (Ascii.eqb c "}")) n = true ->
  wloop (length n + fuel) (pre ++ n ++ rest) (length pre) (mkW wst st acc) =
  wloop fuel (pre ++ n ++ rest) (length pre + length n) (mkW wst st acc).
Proof.
  induction n as [|c n IH]; intros pre rest wst st acc fuel Hw Hn.
  - simpl. now rewrite Nat.add_0_r.
  - simpl in Hn. apply andb_true_iff in Hn. destruct Hn as [Hc Hn]. apply negb_true_iff in Hc.
    simpl length. simpl plus.
    assert (Hnth : nth_error (pre ++ (c :: n) ++ rest) (length pre) = Some c).
    { rewrite nth_error_app2 by lia. now rewrite Nat.sub_diag. }
    rewrite (wloop_step _ _ _ _ (S (length pre)) (mkW wst st acc)).
    + replace (pre ++ (c :: n) ++ rest) with ((pre ++ [c]) ++ n ++ rest) by (rewrite <- app_assoc; reflexivity).
      replace (S (length pre)) with (length (pre ++ [c])) by (rewrite app_length; simpl; lia).
      rewrite IH by assumption. rewrite app_length. simpl. f_equal. lia.
    + rewrite !app_length. simpl. lia.
    + unfold wstep. simpl wstate. unfold wstep_close. rewrite Hnth, Hc.
      destruct wst; [congruence|reflexivity|reflexivity].
Qed.

Lemma render_token_nonempty t : render_token t <> [].
Proof. destruct t; discriminate. Qed.

Lemma render_nil_iff ts : render ts = [] <-> ts = [].
Proof.
  split; [|intros ->; reflexivity]. destruct ts as [|t r]; [reflexivity|].
  unfold render. simpl. intros H. apply app_eq_nil in H. destruct H as [H _].
  exfalso. exact (render_token_nonempty t H).
Qed.

Lemma match_render (r : list token) (x : Z) :
  match r with [] => (-1)%Z | _ :: _ => x end = match render r with [] => (-1)%Z | _ :: _ => x end.
Proof.
  destruct r as [|t2 r']; [reflexivity|]. destruct (render (t2 :: r')) eqn:E; [|reflexivity].
  apply render_nil_iff in E. discriminate.
Qed.

Lemma skipn_app_exact {A} (l1 l2 : list A) : skipn (length l1) (l1 ++ l2) = l2.
Proof. induction l1; simpl; auto. Qed.

Lemma firstn_app_exact {A} (l1 l2 : list A) : firstn (length l1) (l1 ++ l2) = l1.
Proof. induction l1; simpl; [reflexivity|]. now f_equal. Qed.

(* closing brace of a wildcard whose name started at |pre| *)
Lemma wloop_close fuel pre n rest wst catch acc :
  (wst = StParam /\ catch = false) \/ (wst = StCatchAll /\ catch = true) ->
  wloop (S fuel) (pre ++ n ++ "}" :: rest) (length pre + length n) (mkW wst (length pre) acc) =
  wloop fuel (pre ++ n ++ "}" :: rest) (S (length pre + length n))
        (mkW StDefault 0 (acc ++ [mkParam n (match rest with [] => (-1)%Z | _ => Z.of_nat (S (length pre + length n)) end) catch])).
Proof.
  intros Hw.
  set (seg := pre ++ n ++ "}" :: rest).
  assert (Hlen : length seg = length pre + length n + S (length rest)).
  { unfold seg. rewrite !app_length. simpl. lia. }
  assert (Hnth : nth_error seg (length pre + length n) = Some "}").
  { unfold seg. rewrite app_assoc. rewrite nth_error_app2 by (rewrite app_length; lia).
    rewrite app_length. now rewrite Nat.sub_diag. }
  apply wloop_step; [lia|].
  assert (Hclose : wstep_close seg (length pre + length n) (mkW wst (length pre) acc) catch =
     WNext (S (length pre + length n))
       (mkW StDefault 0 (acc ++ [mkParam n (match rest with [] => (-1)%Z | _ => Z.of_nat (S (length pre + length n)) end) catch]))).
  { unfold wstep_close. rewrite Hnth. simpl Ascii.eqb. cbv iota.
    rewrite (slice_some seg (S (length pre + length n)) (length seg)) by lia.
    simpl wstart. rewrite (slice_some seg (length pre) (length pre + length n)) by lia.
    replace (length pre + length n - length pre) with (length n) by lia.
    assert (Hk : firstn (length n) (skipn (length pre) seg) = n).
    { unfold seg. rewrite skipn_app_exact. apply firstn_app_exact. }
    rewrite Hk.
    assert (Hr : firstn (length seg - S (length pre + length n)) (skipn (S (length pre + length n)) seg) = rest).
    { unfold seg at 2. rewrite app_assoc.
      replace (S (length pre + length n)) with (length ((pre ++ n) ++ ["}"])) by (rewrite !app_length; simpl; lia).
      replace ((pre ++ n) ++ "}" :: rest) with (((pre ++ n) ++ ["}"]) ++ rest) by (rewrite <- !app_assoc; reflexivity).
      rewrite skipn_app_exact. apply firstn_all2. rewrite Hlen, !app_length. simpl. lia. }
    rewrite Hr. destruct rest; reflexivity. }
  unfold wstep. simpl wstate. destruct Hw as [[-> ->]|[-> ->]]; exact Hclose.
Qed.

Lemma wloop_tokens ts : forall pre acc st0 fuel,
  forallb tok_ok ts = true -> length (render ts) < fuel ->
  wloop fuel (pre ++ render ts) (length pre) (mkW StDefault st0 acc) =
  WOk (acc ++ map mkp (wild_spec (length pre) ts)).
Proof.
  induction ts as [|t r IH]; intros pre acc st0 fuel Hok Hf.
  - simpl. rewrite !app_nil_r. destruct fuel; simpl; rewrite Nat.ltb_irrefl; reflexivity.
  - simpl in Hok. apply andb_true_iff in Hok. destruct Hok as [Ht Hr].
    change (render (t :: r)) with (render_token t ++ render r) in *.
    rewrite app_length in Hf.
    destruct t as [c|n|n]; simpl render_token in *; simpl tok_ok in Ht.
    + (* static byte *)
      destruct fuel as [|fuel]; [simpl in Hf; lia|].
      unfold plain in Ht. apply andb_true_iff in Ht. destruct Ht as [H1 H2]. apply negb_true_iff in H1, H2.
      rewrite (wloop_step _ _ _ _ (S (length pre)) (mkW StDefault st0 acc)).
      * replace (pre ++ [c] ++ render r) with ((pre ++ [c]) ++ render r) by (rewrite <- app_assoc; reflexivity).
        replace (S (length pre)) with (length (pre ++ [c])) by (rewrite app_length; simpl; lia).
        rewrite IH by (auto; simpl in Hf; lia).
        simpl wild_spec. rewrite app_length. reflexivity.
      * rewrite !app_length. simpl. lia.
      * unfold wstep. simpl wstate.
        replace (nth_error (pre ++ [c] ++ render r) (length pre)) with (Some c)
          by (rewrite nth_error_app2 by lia; now rewrite Nat.sub_diag).
        now rewrite H2, H1.
    + (* {name} *)
      simpl length in Hf. rewrite app_length in Hf. simpl length in Hf.
      destruct fuel as [|fuel]; [lia|].
      rewrite (wloop_step _ _ _ _ (S (length pre)) (mkW StParam (S (length pre)) acc)).
      2:{ rewrite !app_length. simpl. lia. }
      2:{ unfold wstep. simpl wstate.
          replace (nth_error (pre ++ ("{" :: n ++ ["}"]) ++ render r) (length pre)) with (Some "{")
            by (rewrite nth_error_app2 by lia; now rewrite Nat.sub_diag).
          reflexivity. }
      replace (pre ++ ("{" :: n ++ ["}"]) ++ render r) with ((pre ++ ["{"]) ++ n ++ "}" :: render r)
        by (rewrite <- ?app_assoc; simpl; rewrite <- ?app_assoc; reflexivity).
      assert (Hl1 : S (length pre) = length (pre ++ ["{"])) by (rewrite app_length; simpl; lia).
      rewrite Hl1.
      replace fuel with (length n + (fuel - length n)) at 1 by lia.
      rewrite wloop_name by (auto; discriminate).
      destruct (fuel - length n) as [|fuel'] eqn:Efl; [lia|].
      rewrite (wloop_close fuel' (pre ++ ["{"]) n (render r) StParam false) by (left; auto).
      replace ((pre ++ ["{"]) ++ n ++ "}" :: render r) with (((pre ++ ["{"]) ++ n ++ ["}"]) ++ render r)
        by (rewrite <- ?app_assoc; simpl; rewrite <- ?app_assoc; reflexivity).
      replace (S (length (pre ++ ["{"]) + length n)) with (length ((pre ++ ["{"]) ++ n ++ ["}"]))
        by (rewrite !app_length; simpl; lia).
      rewrite IH by (auto; lia).
      rewrite <- app_assoc. f_equal. simpl wild_spec. simpl map.
      assert (Hlen : length ((pre ++ ["{"]) ++ n ++ ["}"]) = length pre + S (length (n ++ ["}"])))
        by (rewrite !app_length; simpl; lia).
      rewrite Hlen, <- match_render. reflexivity.
    + (* *{name} *)
      simpl length in Hf. rewrite app_length in Hf. simpl length in Hf.
      destruct fuel as [|fuel]; [lia|].
      rewrite (wloop_step _ _ _ _ (length pre + 2) (mkW StCatchAll (length pre + 2) acc)).
      2:{ rewrite !app_length. simpl. lia. }
      2:{ unfold wstep. simpl wstate.
          replace (nth_error (pre ++ ("*" :: "{" :: n ++ ["}"]) ++ render r) (length pre)) with (Some "*")
            by (rewrite nth_error_app2 by lia; now rewrite Nat.sub_diag).
          reflexivity. }
      replace (pre ++ ("*" :: "{" :: n ++ ["}"]) ++ render r) with ((pre ++ ["*"; "{"]) ++ n ++ "}" :: render r)
        by (rewrite <- ?app_assoc; simpl; rewrite <- ?app_assoc; reflexivity).
      assert (Hl1 : length pre + 2 = length (pre ++ ["*"; "{"])) by (rewrite app_length; simpl; lia).
      rewrite Hl1.
      replace fuel with (length n + (fuel - length n)) at 1 by lia.
      rewrite wloop_name by (auto; discriminate).
      destruct (fuel - length n) as [|fuel'] eqn:Efl; [lia|].
      rewrite (wloop_close fuel' (pre ++ ["*"; "{"]) n (render r) StCatchAll true) by (right; auto).
      replace ((pre ++ ["*"; "{"]) ++ n ++ "}" :: render r) with (((pre ++ ["*"; "{"]) ++ n ++ ["}"]) ++ render r)
        by (rewrite <- ?app_assoc; simpl; rewrite <- ?app_assoc; reflexivity).
      replace (S (length (pre ++ ["*"; "{"]) + length n)) with (length ((pre ++ ["*"; "{"]) ++ n ++ ["}"]))
        by (rewrite !app_length; simpl; lia).
      rewrite IH by (auto; lia).
      rewrite <- app_assoc. f_equal. simpl wild_spec. simpl map.
      assert (Hlen : length ((pre ++ ["*"; "{"]) ++ n ++ ["}"]) = length pre + S (S (length (n ++ ["}"]))))
        by (rewrite !app_length; simpl; lia).
      rewrite Hlen, <- match_render. reflexivity.
Qed.

Theorem parseWildcard_tokens ts :
  forallb tok_ok ts = true ->
  parseWildcard (render ts) = WOk (map mkp (wild_spec 0 ts)).
Proof.
  intros Hok. unfold parseWildcard.
  apply (wloop_tokens ts [] [] 0 (S (length (render ts))) Hok). lia.
Qed.

(* ---------- tokenize ---------- *)
Lemma tok_static st : forall rest,
  forallb plain st = true -> tok MDefault [] (st ++ rest) = map TStatic st ++ tok MDefault [] rest.
Proof.
  induction st as [|c st IH]; intros rest Hp; [reflexivity|].
  simpl in Hp. apply andb_true_iff in Hp. destruct Hp as [Hc Hp].
  unfold plain in Hc. apply andb_true_iff in Hc. destruct Hc as [H1 H2]. apply negb_true_iff in H1, H2.
  simpl. rewrite H1, H2. now rewrite IH.
Qed.

Lemma tok_name (m : tmode) n : forall acc rest,
  m <> MDefault -> forallb (fun c => negb (Ascii.eqb c "}")) n = true ->
  tok m acc (n ++ "}" :: rest) =
  (match m with MCatch => TCatch (rev acc ++ n) | _ => TParam (rev acc ++ n) end) :: tok MDefault [] rest.
Proof.
  induction n as [|c n IH]; intros acc rest Hm Hn.
  - simpl. rewrite app_nil_r. destruct m; [congruence|reflexivity|reflexivity].
  - simpl in Hn. apply andb_true_iff in Hn. destruct Hn as [Hc Hn]. apply negb_true_iff in Hc.
    simpl. destruct m; [congruence| |]; rewrite Hc, IH by assumption; simpl; rewrite <- app_assoc; reflexivity.
Qed.

Lemma name_ok_no_brace host mk n : name_ok host mk n = true -> forallb (fun c => negb (Ascii.eqb c "}")) n = true.
Proof.
  unfold name_ok. intros H. apply andb_true_iff in H. destruct H as [_ H].
  eapply forallb_impl; [|exact H]. intros c Hc. unfold name_byte in Hc.
  destruct (Ascii.eqb c "}"); [|reflexivity]. rewrite andb_false_r in Hc. simpl in Hc. discriminate.
Qed.

(* a piece with plain static text and a brace-free name *)
Definition piece_lex_ok (p : piece) : bool :=
  forallb plain (p_static p) &&
  match p_wild p with
  | None => true
  | Some (WParam n) | Some (WCatch n) => forallb (fun c => negb (Ascii.eqb c "}")) n
  end.

Lemma tok_piece p rest :
  piece_lex_ok p = true ->
  tok MDefault [] (render_piece p ++ rest) = piece_tokens p ++ tok MDefault [] rest.
Proof.
  unfold piece_lex_ok, render_piece, piece_tokens. intros H. apply andb_true_iff in H. destruct H as [Hs Hw].
  rewrite <- !app_assoc, tok_static by assumption. f_equal.
  destruct (p_wild p) as [[n|n]|]; simpl.
  - rewrite <- app_assoc. simpl. rewrite (tok_name MParam) by (auto; discriminate). reflexivity.
  - rewrite <- app_assoc. simpl.
    rewrite (tok_name MCatch) by (auto; discriminate). reflexivity.
  - reflexivity.
Qed.

Lemma piece_tokens_ok p : piece_lex_ok p = true -> forallb tok_ok (piece_tokens p) = true.
Proof.
  unfold piece_lex_ok, piece_tokens. intros H. apply andb_true_iff in H. destruct H as [Hs Hw].
  rewrite forallb_app. apply andb_true_iff. split.
  - clear Hw. induction (p_static p) as [|c st IH]; [reflexivity|]. simpl in *.
    apply andb_true_iff in Hs. destruct Hs as [-> Hs]. now rewrite IH.
  - destruct (p_wild p) as [[n|n]|]; simpl; rewrite ?Hw; reflexivity.
Qed.

Lemma render_piece_tokens p : render (piece_tokens p) = render_piece p.
Proof.
  unfold piece_tokens, render_piece, render. rewrite map_app, concat_app. f_equal.
  - induction (p_static p) as [|c st IH]; [reflexivity|]. simpl. now rewrite IH.
  - destruct (p_wild p) as [[n|n]|]; simpl; rewrite ?app_nil_r; reflexivity.
Qed.

Lemma tok_path ss :
  forallb piece_lex_ok ss = true ->
  tok MDefault [] (concat (map (fun s => "/" :: render_piece s) ss)) =
  concat (map (fun s => TStatic "/" :: piece_tokens s) ss).
Proof.
  induction ss as [|s r IH]; intros H; [reflexivity|].
  simpl in H. apply andb_true_iff in H. destruct H as [Hs Hr].
  simpl map. simpl concat.
  change (("/" :: render_piece s) ++ concat (map (fun s0 => "/" :: render_piece s0) r))
    with ("/" :: (render_piece s ++ concat (map (fun s0 => "/" :: render_piece s0) r))).
  change (tok MDefault [] ("/" :: ?x)) with (TStatic "/" :: tok MDefault [] x).
  simpl. rewrite tok_piece by assumption. rewrite IH by assumption. reflexivity.
Qed.

Lemma tok_host ls rest :
  forallb piece_lex_ok ls = true ->
  tok MDefault [] (join "." (map render_piece ls) ++ rest) =
  join_tokens (map piece_tokens ls) ++ tok MDefault [] rest.
Proof.
  induction ls as [|l r IH]; intros H; [reflexivity|].
  simpl in H. apply andb_true_iff in H. destruct H as [Hl Hr].
  destruct r as [|l2 r'].
  - simpl. now apply tok_piece.
  - change (join "." (map render_piece (l :: l2 :: r'))) with (render_piece l ++ "." :: join "." (map render_piece (l2 :: r'))).
    change (join_tokens (map piece_tokens (l :: l2 :: r'))) with (piece_tokens l ++ TStatic "." :: join_tokens (map piece_tokens (l2 :: r'))).
    rewrite <- !app_assoc. rewrite tok_piece by assumption. f_equal.
    simpl app. simpl tok. f_equal. apply IH. assumption.
Qed.

Section WithHB.
Variable hb : ascii -> bool.
Hypothesis hb_plain : forall c, hb c = true -> plain c = true /\ Ascii.eqb c "/" = false /\ Ascii.eqb c "." = false.

Lemma label_lex_ok mk l : label_ok_with hb mk l = true -> piece_lex_ok l = true.
Proof.
  intros H. unfold piece_lex_ok. rewrite (label_plain hb hb_plain mk l H). simpl.
  unfold label_ok_with in H. apply andb_true_iff in H. destruct H as [_ H].
  destruct (p_wild l) as [[n|n]|]; [|discriminate|reflexivity]. eapply name_ok_no_brace; eauto.
Qed.

Lemma seg_lex_ok mk s : seg_ok mk s = true -> piece_lex_ok s = true.
Proof.
  intros H. unfold piece_lex_ok. rewrite (seg_plain mk s H). simpl.
  unfold seg_ok in H. apply andb_true_iff in H. destruct H as [_ H].
  destruct (p_wild s) as [[n|n]|]; [| |reflexivity]; eapply name_ok_no_brace; eauto.
Qed.

Lemma wf_lex mp mk p : wf_with hb mp mk p = true ->
  forallb piece_lex_ok (p_host p) = true /\ forallb piece_lex_ok (p_path p) = true.
Proof.
  unfold wf_with. intros H. apply andb_true_iff in H. destruct H as [H _].
  apply andb_true_iff in H. destruct H as [Hh Hp]. split.
  - unfold host_ok_with in Hh. destruct (p_host p) as [|l0 ls]; [reflexivity|].
    simpl is_nil in Hh. cbn [orb] in Hh. apply andb_true_iff in Hh. destruct Hh as [Hh _].
    apply andb_true_iff in Hh. destruct Hh as [Hh _].
    eapply forallb_impl; [|exact Hh]. intros x. apply label_lex_ok.
  - unfold path_ok in Hp. apply andb_true_iff in Hp. destruct Hp as [Hp _].
    apply andb_true_iff in Hp. destruct Hp as [_ Hp].
    eapply forallb_impl; [|exact Hp]. intros x. apply seg_lex_ok.
Qed.

Theorem tokenize_render_pat mp mk p :
  wf_with hb mp mk p = true -> tokenize (render_pat p) = pat_tokens p.
Proof.
  intros H. destruct (wf_lex mp mk p H) as [Hh Hp].
  unfold tokenize, render_pat, pat_tokens, host_text, path_text.
  rewrite tok_host by assumption. rewrite tok_path by assumption. reflexivity.
Qed.

End WithHB.

Lemma render_app a b : render (a ++ b) = render a ++ render b.
Proof. unfold render. now rewrite map_app, concat_app. Qed.

Lemma render_join_tokens ls :
  render (join_tokens (map piece_tokens ls)) = join "." (map render_piece ls).
Proof.
  induction ls as [|l r IH]; [reflexivity|].
  destruct r as [|l2 r'].
  - simpl. apply render_piece_tokens.
  - change (join_tokens (map piece_tokens (l :: l2 :: r'))) with (piece_tokens l ++ TStatic "." :: join_tokens (map piece_tokens (l2 :: r'))).
    change (join "." (map render_piece (l :: l2 :: r'))) with (render_piece l ++ "." :: join "." (map render_piece (l2 :: r'))).
    rewrite render_app. change (render (TStatic "." :: ?x)) with ("." :: render x).
    rewrite IH, render_piece_tokens. reflexivity.
Qed.

Lemma render_pat_tokens p : render (pat_tokens p) = render_pat p.
Proof.
  unfold pat_tokens, render_pat, host_text, path_text.
  rewrite render_app, render_join_tokens. f_equal.
  induction (p_path p) as [|s r IH]; [reflexivity|].
  simpl map. simpl concat.
  change (render (TStatic "/" :: ?x)) with ("/" :: render x).
  rewrite render_app, IH, render_piece_tokens. reflexivity.
Qed.
