(* The list machine over the path part: one segment at a time, then the whole path,
   expressed with Grammar.parse_piece / seg_ok / no_consec. *)
From FoxBase Require Import Bytes.
Import List ListNotations.
From FoxPattern Require Import ParseRoute LMachine Token Grammar ProofsLRun.
Require Import Lia.
Open Scope char_scope.
Open Scope nat_scope.

(* ---------- list facts ---------- *)
Lemma span_static_spec s :
  let (st, r) := span_static s in
  s = st ++ r /\ forallb plain st = true /\
  match r with [] => True | c :: _ => c = "{" \/ c = "*" end.
Proof.
  induction s as [|c s IH]; simpl; [auto|].
  destruct (Ascii.eqb_spec c "{") as [->|H1]; simpl; [auto|].
  destruct (Ascii.eqb_spec c "*") as [->|H2]; simpl; [auto|].
  destruct (span_static s) as [st r]. destruct IH as (-> & Hp & Hr).
  split; [reflexivity|]. split; [|exact Hr].
  simpl. rewrite Hp. unfold plain.
  apply Ascii.eqb_neq in H1, H2. now rewrite H1, H2.
Qed.

Lemma unsnoc_nonempty c b : exists a z, unsnoc (c :: b) = Some (a, z).
Proof.
  revert c; induction b as [|x b IH]; intros c; simpl; [eauto|].
  destruct (IH x) as (a & z & E). simpl in E. rewrite E. eauto.
Qed.

Lemma scan_spec d body :
  scan d body =
  match parse_name body with
  | Some n => if forallb (nchar d) n then Some n else None
  | None => None
  end.
Proof.
  induction body as [|c b IH]; [reflexivity|].
  unfold parse_name in *. simpl scan. simpl unsnoc.
  destruct b as [|x b'].
  - simpl. destruct (Ascii.eqb c "}"); [reflexivity|]. destruct (nchar d c); reflexivity.
  - destruct (unsnoc_nonempty x b') as (a & z & E). rewrite E in *.
    destruct (Ascii.eqb_spec c "}") as [->|Hc].
    + destruct (Ascii.eqb z "}"); [|reflexivity]. simpl. reflexivity.
    + rewrite IH. destruct (Ascii.eqb z "}"); simpl.
      * destruct (nchar d c); simpl; [|reflexivity]. destruct (forallb (nchar d) a); reflexivity.
      * destruct (nchar d c); reflexivity.
Qed.

Lemma nchar_slash c : nchar "/" c = name_byte false c.
Proof.
  unfold nchar, name_byte. simpl.
  destruct (Ascii.eqb c "}"), (Ascii.eqb c "/"), (Ascii.eqb c "*"), (Ascii.eqb c "{"); reflexivity.
Qed.

Lemma nchar_dot c : Ascii.eqb c "/" = false -> nchar "." c = name_byte true c.
Proof.
  intros H. unfold nchar, name_byte. rewrite H. simpl.
  destruct (Ascii.eqb c "}"), (Ascii.eqb c "."), (Ascii.eqb c "*"), (Ascii.eqb c "{"); reflexivity.
Qed.

Lemma forallb_ext_in {A} (f g : A -> bool) l :
  (forall x, In x l -> f x = g x) -> forallb f l = forallb g l.
Proof.
  induction l as [|x l IH]; intros H; [reflexivity|]. simpl.
  rewrite (H x) by (left; reflexivity). rewrite IH; [reflexivity|]. intros y Hy. apply H. now right.
Qed.

Lemma is_nil_length {A} (l : list A) : is_nil l = (length l =? 0).
Proof. destruct l; reflexivity. Qed.

Section Path.
Variables (mp mk : nat).

Definition count (ss : list piece) : nat := length (filter has_wild ss).

(* effect of one path segment on the machine state (None = rejected) *)
Definition seg_trans (a : ast) (seg : bytes) : option ast :=
  match parse_piece seg with
  | None => None
  | Some pc =>
    if seg_ok mk pc then
      let a1 := bump (length (p_static pc)) a in
      match p_wild pc with
      | None => Some a1
      | Some (WParam n) =>
        if S (a_cnt a) <=? mp then Some (closed false false (named (length n) (opened StParam a1))) else None
      | Some (WCatch n) =>
        if (S (a_cnt a) <=? mp) && negb (a_prevCatch a && (length (p_static pc) + a_cs a <=? 1))
        then Some (closed true false (named (length n) (opened StCatchAll a1))) else None
      end
    else None
  end.

Definition inv (a : ast) : Prop :=
  a_state a = StDefault /\ a_inParam a = false /\ a_cnt a <= mp.

Lemma plain_static st :
  forallb plain st = true -> forallb (nodelim "/") st = true -> forallb static_byte st = true.
Proof.
  intros H1 H2. induction st as [|c st IH]; [reflexivity|].
  simpl in *. apply andb_true_iff in H1, H2. destruct H1 as [Hc H1], H2 as [Hd H2].
  rewrite IH by assumption. rewrite andb_true_r.
  unfold plain in Hc. unfold nodelim in Hd. unfold static_byte.
  apply andb_true_iff in Hc, Hd. destruct Hc as [Ha Hb], Hd as [He _].
  now rewrite He, Ha, Hb.
Qed.

Lemma forallb_app_inv {A} (f : A -> bool) l1 l2 :
  forallb f (l1 ++ l2) = true -> forallb f l1 = true /\ forallb f l2 = true.
Proof. rewrite forallb_app. apply andb_true_iff. Qed.

Lemma name_ok_len (host : bool) ip n :
  ip = false ->
  name_len_ok mk ip 1 n && forallb (name_byte host) n = name_ok host mk n.
Proof.
  intros ->. unfold name_len_ok, name_ok. rewrite is_nil_length. simpl.
  destruct (length n) as [|m] eqn:E; simpl; [reflexivity|].
  destruct m; reflexivity.
Qed.

Lemma seg_step hn p seg rest a :
  forallb (nodelim "/") seg = true -> next_ok "/" rest = true -> inv a ->
  lrun mp mk hn false p (seg ++ rest) a =
  match seg_trans a seg with Some a' => lrun mp mk hn false p rest a' | None => None end.
Proof.
  intros Hseg Hrest (Hs & Hip & Hc).
  unfold seg_trans, parse_piece.
  pose proof (span_static_spec seg) as Hsp. destruct (span_static seg) as [st r].
  destruct Hsp as (-> & Hpl & Hr).
  apply forallb_app_inv in Hseg. destruct Hseg as [Hst Hrr].
  rewrite <- app_assoc, lrun_static by assumption.
  assert (Hb : inv (bump (length st) a)) by (destruct a; exact (conj Hs (conj Hip Hc))).
  destruct Hb as (Hs1 & Hip1 & Hc1).
  assert (Hcnt1 : a_cnt (bump (length st) a) = a_cnt a) by (destruct a; reflexivity).
  destruct r as [|c r1].
  - (* no wildcard *)
    simpl. unfold seg_ok; cbn [p_static p_wild]. rewrite (plain_static st Hpl Hst). reflexivity.
  - destruct Hr as [-> | ->].
    + (* '{' *)
      simpl in Hrr. simpl app. rewrite lrun_open_param by exact Hs1.
      rewrite Hcnt1.
      rewrite lrun_body_param; [| destruct a; reflexivity | exact Hrr | exact Hrest].
      rewrite ldelim_false, scan_spec.
      rewrite Ascii.eqb_refl.
      destruct (parse_name r1) as [n|].
      * unfold seg_ok; cbn [p_static p_wild]. rewrite (plain_static st Hpl Hst). cbn [andb].
        assert (Hipo : a_inParam (opened StParam (bump (length st) a)) = false) by (destruct a; exact Hip).
        assert (Hko : a_klen (opened StParam (bump (length st) a)) = 1) by (destruct a; reflexivity).
        rewrite Hipo, Hko.
        rewrite <- (name_ok_len false false n eq_refl).
        rewrite (forallb_ext_in _ _ n (fun x _ => nchar_slash x)).
        destruct (forallb (name_byte false) n); [|rewrite andb_false_r; destruct (mp <? S (a_cnt a)); reflexivity].
        rewrite andb_true_r.
        destruct (Nat.ltb_spec mp (S (a_cnt a))), (Nat.leb_spec (S (a_cnt a)) mp); try lia;
          destruct (name_len_ok mk false 1 n); try reflexivity; apply lrun_prevc; right; reflexivity.
      * destruct (mp <? S (a_cnt a)); reflexivity.
    + (* '*' *)
      simpl in Hrr. simpl app. rewrite lrun_open_catch by exact Hs1.
      rewrite Hcnt1. change (Ascii.eqb "*" "{") with false. cbv iota.
      destruct r1 as [|c2 r2].
      { simpl app. destruct rest as [|x rest']; [reflexivity|]. simpl in Hrest. rewrite orb_diag in Hrest.
        apply Ascii.eqb_eq in Hrest. subst x. reflexivity. }
      change ((c2 :: r2) ++ rest) with (c2 :: (r2 ++ rest)). cbv iota.
      destruct (Ascii.eqb_spec c2 "{") as [->|Hc2]; [|reflexivity].
      simpl in Hrr.
      rewrite lrun_body_catch; [| destruct a; reflexivity | exact Hrr | exact Hrest].
      rewrite scan_spec.
      destruct (parse_name r2) as [n|].
      * unfold seg_ok; cbn [p_static p_wild]. rewrite (plain_static st Hpl Hst). cbn [andb].
        assert (Hipo : a_inParam (opened StCatchAll (bump (length st) a)) = false) by (destruct a; exact Hip).
        assert (Hko : a_klen (opened StCatchAll (bump (length st) a)) = 1) by (destruct a; reflexivity).
        assert (Hpco : a_prevCatch (opened StCatchAll (bump (length st) a)) = a_prevCatch a) by (destruct a; reflexivity).
        assert (Hcso : a_cs (opened StCatchAll (bump (length st) a)) = length st + a_cs a) by (destruct a; reflexivity).
        rewrite Hipo, Hko, Hpco, Hcso.
        rewrite <- (name_ok_len false false n eq_refl).
        rewrite (forallb_ext_in _ _ n (fun x _ => nchar_slash x)).
        destruct (forallb (name_byte false) n); [|rewrite andb_false_r; destruct (mp <? S (a_cnt a)); reflexivity].
        rewrite andb_true_r.
        destruct (Nat.ltb_spec mp (S (a_cnt a))), (Nat.leb_spec (S (a_cnt a)) mp); try lia;
          destruct (name_len_ok mk false 1 n); cbn [andb]; try reflexivity.
        destruct (negb (a_prevCatch a && (length st + a_cs a <=? 1))); try reflexivity; apply lrun_prevc; right; reflexivity.
      * destruct (mp <? S (a_cnt a)); reflexivity.
Qed.

Lemma seg_trans_inv a seg a' : inv a -> seg_trans a seg = Some a' -> inv a'.
Proof.
  intros (Hs & Hip & Hc). unfold seg_trans.
  destruct (parse_piece seg) as [pc|]; [|discriminate].
  destruct (seg_ok mk pc); [|discriminate].
  destruct (p_wild pc) as [[n|n]|].
  - destruct (Nat.leb_spec (S (a_cnt a)) mp); [|discriminate].
    intros E; inversion E; subst. destruct a; repeat split; cbn in *; lia.
  - destruct (Nat.leb_spec (S (a_cnt a)) mp); [|discriminate]. simpl.
    destruct (negb _); [|discriminate].
    intros E; inversion E; subst. destruct a; repeat split; cbn in *; lia.
  - intros E; inversion E; subst. destruct a; repeat split; cbn in *; auto.
Qed.

(* ---------- the whole path ---------- *)
(* previous segment ended with a catch-all *)
Definition pcflag (a : ast) : bool := a_prevCatch a && (a_cs a =? 0).

Fixpoint no_consec_from (b : bool) (ss : list piece) : bool :=
  match ss with
  | [] => true
  | s :: r => negb (b && is_nil (p_static s) && is_catchw (p_wild s)) && no_consec_from (is_catchw (p_wild s)) r
  end.

Lemma no_consec_from_false ss : no_consec_from false ss = no_consec ss.
Proof.
  destruct ss as [|s r]; [reflexivity|]. simpl.
  revert s. induction r as [|s2 r IH]; intros s; [reflexivity|].
  simpl. rewrite <- IH. simpl. reflexivity.
Qed.

(* state reached at the end, as far as lfinish can see *)
Definition final (a : ast) (n : nat) : ast :=
  mkA StDefault false (a_cnt a + n) 0 0 false (a_nonNum a) (a_partlen a) (a_totallen a) (a_last a) (a_hostlast a).

Definition path_fun (hn : bool) (segs : list bytes) (a : ast) : option nat :=
  match map_opt parse_piece segs with
  | None => None
  | Some ss =>
    if forallb (seg_ok mk) ss && no_consec_from (pcflag a) ss && (a_cnt a + count ss <=? mp)
    then lfinish hn (final a (count ss)) else None
  end.

Lemma lfinish_final hn a a' n m :
  a_cnt a + n = a_cnt a' + m -> a_nonNum a = a_nonNum a' -> a_partlen a = a_partlen a' ->
  a_totallen a = a_totallen a' -> a_last a = a_last a' -> a_hostlast a = a_hostlast a' ->
  lfinish hn (final a n) = lfinish hn (final a' m).
Proof.
  intros H1 H2 H3 H4 H5 H6. unfold lfinish, final; cbn -[Nat.ltb].
  rewrite H1, H2, H3, H4, H5, H6. reflexivity.
Qed.

Lemma slashes_next_ok (segs : list bytes) : next_ok "/" (concat (map (cons "/") segs)) = true.
Proof. destruct segs; reflexivity. Qed.

Lemma path_run hn segs : forall p a,
  Forall (fun s => forallb (nodelim "/") s = true) segs -> inv a ->
  lrun mp mk hn false p (concat (map (cons "/") segs)) a = path_fun hn segs a.
Proof.
  induction segs as [|seg segs IH]; intros p a Hall Hinv.
  - destruct Hinv as (Hs & Hip & Hc).
    destruct a as [s0 pc cnt cs kl ip nn pl tl la hl]. simpl in Hs, Hip, Hc; subst s0.
    unfold path_fun, count, final, lfinish. cbn -[Nat.ltb Nat.leb]. rewrite !Nat.add_0_r.
    replace (cnt <=? mp) with true by (symmetry; apply Nat.leb_le; lia). reflexivity.
  - inversion Hall as [|? ? Hseg Hall']; subst.
    simpl concat. simpl map.
    change ("/" :: seg ++ concat (map (cons "/") segs)) with (["/"] ++ (seg ++ concat (map (cons "/") segs))).
    destruct Hinv as (Hs & Hip & Hc).
    rewrite lrun_static by (auto; reflexivity).
    assert (Hinv1 : inv (bump (length ["/"]) a)) by (destruct a; exact (conj Hs (conj Hip Hc))).
    rewrite seg_step by (auto using slashes_next_ok).
    unfold path_fun. simpl map_opt.
    unfold seg_trans.
    destruct (parse_piece seg) as [pc|]; [|reflexivity].
    destruct (seg_ok mk pc) eqn:Eok; [|destruct (map_opt parse_piece segs); [simpl forallb; rewrite Eok|]; reflexivity].
    assert (Hcntb : a_cnt (bump (length ["/"]) a) = a_cnt a) by (destruct a; reflexivity).
    assert (Hpcb : a_prevCatch (bump (length ["/"]) a) = a_prevCatch a) by (destruct a; reflexivity).
    assert (Hcsb : a_cs (bump (length ["/"]) a) = S (a_cs a)) by (destruct a; reflexivity).
    rewrite Hcntb, Hpcb, Hcsb.
    assert (Hcount : forall ss0, count (pc :: ss0) = (if has_wild pc then 1 else 0) + count ss0).
    { intros ss0. unfold count. simpl. destruct (has_wild pc); reflexivity. }
    assert (Hfa : forall ss0, forallb (seg_ok mk) (pc :: ss0) = forallb (seg_ok mk) ss0)
      by (intros; simpl; now rewrite Eok).
    destruct (p_wild pc) as [[n|n]|] eqn:Ew.
    + (* param *)
      assert (Hhw : has_wild pc = true) by (unfold has_wild; now rewrite Ew).
      destruct (Nat.leb_spec (S (a_cnt a)) mp) as [Hle|Hgt].
      * match goal with |- lrun _ _ _ _ _ _ ?a1 = _ => set (a' := a1) end.
        assert (Hinv' : inv a') by (subst a'; destruct a; repeat split; cbn in *; lia).
        rewrite IH by assumption. unfold path_fun.
        destruct (map_opt parse_piece segs) as [ss|]; [|reflexivity].
        rewrite Hfa, Hcount, Hhw. simpl no_consec_from. rewrite Ew. simpl is_catchw.
        rewrite !andb_false_r. cbn [negb andb].
        assert (Hpf : pcflag a' = false) by (subst a'; destruct a; reflexivity).
        assert (Hcn : a_cnt a' = S (a_cnt a)) by (subst a'; destruct a; reflexivity).
        rewrite Hpf, Hcn.
        replace (a_cnt a + (1 + count ss)) with (S (a_cnt a) + count ss) by lia.
        destruct (forallb (seg_ok mk) ss && no_consec_from false ss && (S (a_cnt a) + count ss <=? mp)); [|reflexivity].
        apply lfinish_final; try (subst a'; destruct a; reflexivity). rewrite Hcn. lia.
      * destruct (map_opt parse_piece segs) as [ss|]; [|reflexivity].
        rewrite Hcount, Hhw.
        replace (a_cnt a + (1 + count ss) <=? mp) with false by (symmetry; apply Nat.leb_gt; lia).
        now rewrite andb_false_r.
    + (* catch-all *)
      assert (Hhw : has_wild pc = true) by (unfold has_wild; now rewrite Ew).
      destruct (Nat.leb_spec (S (a_cnt a)) mp) as [Hle|Hgt].
      * cbn [andb].
        assert (Hflag : (a_prevCatch a && (length (p_static pc) + S (a_cs a) <=? 1)) =
                        (pcflag a && is_nil (p_static pc) && true)).
        { unfold pcflag. rewrite is_nil_length, andb_true_r.
          destruct (a_prevCatch a); [|reflexivity]. simpl.
          destruct (Nat.leb_spec (length (p_static pc) + S (a_cs a)) 1), (Nat.eqb_spec (a_cs a) 0), (Nat.eqb_spec (length (p_static pc)) 0);
            simpl; try reflexivity; lia. }
        rewrite Hflag.
        destruct (negb (pcflag a && is_nil (p_static pc) && true)) eqn:Enc.
        -- match goal with |- lrun _ _ _ _ _ _ ?a1 = _ => set (a' := a1) end.
           assert (Hinv' : inv a') by (subst a'; destruct a; repeat split; cbn in *; lia).
           rewrite IH by assumption. unfold path_fun.
           destruct (map_opt parse_piece segs) as [ss|]; [|reflexivity].
           rewrite Hfa, Hcount, Hhw. simpl no_consec_from. rewrite Ew. simpl is_catchw.
           rewrite Enc. cbn [andb].
           assert (Hpf : pcflag a' = true) by (subst a'; destruct a; reflexivity).
           assert (Hcn : a_cnt a' = S (a_cnt a)) by (subst a'; destruct a; reflexivity).
           rewrite Hpf, Hcn.
           replace (a_cnt a + (1 + count ss)) with (S (a_cnt a) + count ss) by lia.
           destruct (forallb (seg_ok mk) ss && no_consec_from true ss && (S (a_cnt a) + count ss <=? mp)); [|reflexivity].
           apply lfinish_final; try (subst a'; destruct a; reflexivity). rewrite Hcn. lia.
        -- destruct (map_opt parse_piece segs) as [ss|]; [|reflexivity].
           rewrite Hfa. simpl no_consec_from. rewrite Ew. simpl is_catchw. rewrite Enc.
           now rewrite andb_false_r.
      * cbn [andb]. destruct (map_opt parse_piece segs) as [ss|]; [|reflexivity].
        rewrite Hcount, Hhw.
        replace (a_cnt a + (1 + count ss) <=? mp) with false by (symmetry; apply Nat.leb_gt; lia).
        now rewrite andb_false_r.
    + (* no wildcard *)
      assert (Hhw : has_wild pc = false) by (unfold has_wild; now rewrite Ew).
      match goal with |- lrun _ _ _ _ _ _ ?a1 = _ => set (a' := a1) end.
      assert (Hinv' : inv a') by (subst a'; destruct a; repeat split; cbn in *; auto).
      rewrite IH by assumption. unfold path_fun.
      destruct (map_opt parse_piece segs) as [ss|]; [|reflexivity].
      rewrite Hfa, Hcount, Hhw. simpl no_consec_from. rewrite Ew. simpl is_catchw.
      rewrite !andb_false_r. cbn [negb andb].
      assert (Hpf : pcflag a' = false).
      { unfold pcflag. assert (Hne : a_cs a' <> 0) by (subst a'; destruct a; cbn; lia).
        destruct (Nat.eqb_spec (a_cs a') 0); [contradiction|apply andb_false_r]. }
      assert (Hcn : a_cnt a' = a_cnt a) by (subst a'; destruct a; reflexivity).
      rewrite Hpf, Hcn. simpl plus.
      destruct (forallb (seg_ok mk) ss && no_consec_from false ss && (a_cnt a + count ss <=? mp)); [|reflexivity].
      apply lfinish_final; try (subst a'; destruct a; reflexivity); rewrite Hcn; lia.
Qed.

End Path.
