(* Property-level corollaries: the statements of Props_C10.v. *)
From FoxBase Require Import Bytes.
Import List ListNotations.
From FoxPattern Require Import ParseRoute ParseWildcard LMachine Token Grammar
  ProofsRefine ProofsLRun ProofsPath ProofsHost ProofsGrammar ProofsMain ProofsWild.
Require Import Lia.
Open Scope char_scope.
Open Scope nat_scope.

Lemma ldh_us_eq c : ldh_us c = ldh_or_underscore c.
Proof. destruct c as [[] [] [] [] [] [] [] []]; reflexivity. Qed.

Lemma ldh_or_us_plain c : ldh_or_underscore c = true ->
  plain c = true /\ Ascii.eqb c "/" = false /\ Ascii.eqb c "." = false.
Proof. destruct c as [[] [] [] [] [] [] [] []]; cbv; intros H; try discriminate; auto. Qed.

Lemma ldh_plain c : ldh c = true ->
  plain c = true /\ Ascii.eqb c "/" = false /\ Ascii.eqb c "." = false.
Proof. destruct c as [[] [] [] [] [] [] [] []]; cbv; intros H; try discriminate; auto. Qed.

Lemma ldh_us_plain c : ldh_us c = true ->
  plain c = true /\ Ascii.eqb c "/" = false /\ Ascii.eqb c "." = false.
Proof. rewrite ldh_us_eq. apply ldh_or_us_plain. Qed.

(* wf_with only looks at hb on the static bytes of the hostname labels *)
Lemma wf_with_ext_in hb hb' mp mk p :
  (forall l c, In l (p_host p) -> In c (p_static l) -> hb c = hb' c) ->
  wf_with hb mp mk p = wf_with hb' mp mk p.
Proof.
  intros H. unfold wf_with, host_ok_with. f_equal. f_equal. f_equal. f_equal. f_equal.
  apply forallb_ext_in. intros l Hl. unfold label_ok_with. f_equal. f_equal. f_equal. f_equal.
  apply forallb_ext_in. intros c Hc. eapply H; eauto.
Qed.

Lemma in_grammar_with_ext hb hb' mp mk s n eh :
  (forall c, hb c = hb' c) -> in_grammar_with hb mp mk s n eh <-> in_grammar_with hb' mp mk s n eh.
Proof.
  intros H. unfold in_grammar_with. split; intros (p & Hr & Hw & Hn & He); exists p; repeat split; auto.
  - rewrite <- Hw. symmetry. apply wf_with_ext_in. auto.
  - rewrite <- Hw. apply wf_with_ext_in. auto.
Qed.

Section Limits.
Variables (mp mk : nat).

Theorem accepts_exactly s n eh :
  parseRoute mp mk s = Accept n eh <-> in_grammar_with ldh_or_underscore mp mk s n eh.
Proof.
  rewrite <- (in_grammar_with_ext ldh_us ldh_or_underscore) by apply ldh_us_eq.
  rewrite <- (grammarb_with_iff ldh_us ldh_us_plain).
  rewrite <- (parseRoute_grammarb mp mk s).
  destruct (parseRoute mp mk s); simpl; split; intros H; try discriminate; inversion H; reflexivity.
Qed.

(* ---- the hostname part of a rendered tree ---- *)
Lemma host_len_app h t :
  forallb (fun c => negb (Ascii.eqb c "/")) h = true -> host_len (h ++ "/" :: t) = length h.
Proof.
  induction h as [|c h IH]; intros H; [reflexivity|].
  simpl in H. apply andb_true_iff in H. destruct H as [Hc H]. apply negb_true_iff in Hc.
  simpl. rewrite Hc. now rewrite IH.
Qed.

Lemma host_text_no_slash hb (hbp : forall c, hb c = true -> plain c = true /\ Ascii.eqb c "/" = false /\ Ascii.eqb c "." = false) p :
  wf_with hb mp mk p = true ->
  forallb (fun c => negb (Ascii.eqb c "/")) (host_text p) = true /\ exists t, path_text p = "/" :: t.
Proof.
  unfold wf_with. intros H. apply andb_true_iff in H. destruct H as [H _].
  apply andb_true_iff in H. destruct H as [Hh Hp]. split.
  - unfold host_text. apply forallb_join; [reflexivity|].
    apply Forall_forall. intros x Hx. apply in_map_iff in Hx. destruct Hx as (l & <- & Hl).
    unfold host_ok_with in Hh. destruct (p_host p) as [|l0 ls]; [contradiction|].
    simpl is_nil in Hh. cbn [orb] in Hh. apply andb_true_iff in Hh. destruct Hh as [Hh _].
    apply andb_true_iff in Hh. destruct Hh as [Hh _]. rewrite forallb_forall in Hh.
    apply (label_no_delim hb hbp mk). apply Hh, Hl.
  - unfold path_ok in Hp. apply andb_true_iff in Hp. destruct Hp as [Hp _].
    apply andb_true_iff in Hp. destruct Hp as [Hne _]. unfold path_text.
    destruct (p_path p) as [|s r]; [discriminate|]. simpl. eauto.
Qed.

Lemma host_part_render hb (hbp : forall c, hb c = true -> plain c = true /\ Ascii.eqb c "/" = false /\ Ascii.eqb c "." = false) p :
  wf_with hb mp mk p = true ->
  host_len (render_pat p) = length (host_text p) /\
  firstn (host_len (render_pat p)) (render_pat p) = host_text p.
Proof.
  intros H. destruct (host_text_no_slash hb hbp p H) as (Hns & t & Ht).
  unfold render_pat. rewrite Ht. rewrite host_len_app by assumption. split; [reflexivity|].
  apply firstn_app_exact.
Qed.

Lemma in_join d (x : bytes) l c : In x l -> In c x -> In c (join d l).
Proof.
  induction l as [|y r IH]; intros Hx Hc; [contradiction|].
  destruct r as [|z r'].
  - destruct Hx as [->|[]]. exact Hc.
  - change (join d (y :: z :: r')) with (y ++ d :: join d (z :: r')).
    apply in_or_app. destruct Hx as [->|Hx]; [left; exact Hc|right; right; apply IH; assumption].
Qed.

Definition host_part (s : bytes) : bytes := firstn (host_len s) s.

(* without '_' in the hostname part, the validator and the documented grammar coincide *)
Theorem grammar_partial s n eh :
  forallb (fun c => negb (Ascii.eqb c "_")) (host_part s) = true ->
  (parseRoute mp mk s = Accept n eh <-> in_grammar mp mk s n eh).
Proof.
  intros Hnu. rewrite accepts_exactly. unfold in_grammar, in_grammar_with.
  split; intros (p & Hr & Hw & Hn & He); exists p; repeat split; auto.
  - rewrite <- Hw. symmetry. apply wf_with_ext_in. intros l c Hl Hc.
    unfold ldh_or_underscore.
    assert (Hcu : Ascii.eqb c "_" = false).
    { destruct (host_part_render _ ldh_or_us_plain p Hw) as [_ Hhp].
      subst s. unfold host_part in Hnu. rewrite Hhp in Hnu.
      rewrite forallb_forall in Hnu. apply negb_true_iff. apply Hnu.
      unfold host_text. apply (in_join "." (render_piece l)); [apply in_map; exact Hl|].
      unfold render_piece. apply in_or_app. left. exact Hc. }
    rewrite Hcu. apply orb_false_r.
  - unfold wf in Hw. unfold wf_with in *.
    apply andb_true_iff in Hw. destruct Hw as [Hw Hc]. apply andb_true_iff in Hw. destruct Hw as [Hh Hp].
    rewrite Hp, Hc, !andb_true_r.
    unfold host_ok_with in *. destruct (is_nil (p_host p)); [reflexivity|]. cbn [orb] in *.
    apply andb_true_iff in Hh. destruct Hh as [Hh Hnum]. apply andb_true_iff in Hh. destruct Hh as [Hl Hlen].
    rewrite Hlen, Hnum, !andb_true_r.
    eapply forallb_impl; [|exact Hl]. intros l Hlab. unfold label_ok_with in *.
    repeat (apply andb_true_iff in Hlab; destruct Hlab as [Hlab ?]).
    repeat (apply andb_true_iff; split); auto.
    eapply forallb_impl; [|exact Hlab]. intros c Hc'. unfold ldh_or_underscore. now rewrite Hc'.
Qed.

(* ---- tokens of an accepted pattern ---- *)
Lemma pat_tokens_ok hb (hbp : forall c, hb c = true -> plain c = true /\ Ascii.eqb c "/" = false /\ Ascii.eqb c "." = false) p :
  wf_with hb mp mk p = true -> forallb tok_ok (pat_tokens p) = true.
Proof.
  intros H. destruct (wf_lex hb hbp mp mk p H) as [Hh Hp].
  unfold pat_tokens. rewrite forallb_app. apply andb_true_iff. split.
  - clear Hp. induction (p_host p) as [|l r IH]; [reflexivity|].
    simpl in Hh. apply andb_true_iff in Hh. destruct Hh as [Hl Hr].
    destruct r as [|l2 r']; [simpl; now apply piece_tokens_ok|].
    change (join_tokens (map piece_tokens (l :: l2 :: r'))) with (piece_tokens l ++ TStatic "." :: join_tokens (map piece_tokens (l2 :: r'))).
    rewrite forallb_app. rewrite piece_tokens_ok by assumption. simpl. apply IH. assumption.
  - clear Hh. induction (p_path p) as [|s r IH]; [reflexivity|].
    simpl in Hp. apply andb_true_iff in Hp. destruct Hp as [Hs Hr].
    simpl map. simpl concat. simpl forallb. rewrite forallb_app, piece_tokens_ok by assumption. simpl. apply IH. assumption.
Qed.

Theorem accepted_tokens s n eh :
  parseRoute mp mk s = Accept n eh ->
  exists p, render_pat p = s /\ wf_with ldh_or_underscore mp mk p = true /\
            tokenize s = pat_tokens p /\ n = wild_count p /\ eh = host_len s.
Proof.
  intros H. apply accepts_exactly in H. destruct H as (p & Hr & Hw & Hn & He).
  exists p. repeat split; auto.
  - subst s. apply (tokenize_render_pat _ ldh_or_us_plain mp mk p Hw).
  - subst s. destruct (host_part_render _ ldh_or_us_plain p Hw) as [-> _]. exact He.
Qed.

Theorem tokenize_round_trip s n eh :
  parseRoute mp mk s = Accept n eh -> render (tokenize s) = s.
Proof.
  intros H. destruct (accepted_tokens s n eh H) as (p & Hr & _ & Ht & _).
  rewrite Ht, render_pat_tokens. exact Hr.
Qed.

Lemma forallb_sub {A} (f : A -> bool) a b c : forallb f (a ++ b ++ c) = true -> forallb f b = true.
Proof. rewrite !forallb_app. intros H. apply andb_true_iff in H. destruct H as [_ H]. apply andb_true_iff in H. tauto. Qed.

Theorem wildcard_agrees s n eh a b c :
  parseRoute mp mk s = Accept n eh -> tokenize s = a ++ b ++ c ->
  parseWildcard (render b) = WOk (map mkp (wild_spec 0 b)).
Proof.
  intros H Ht. destruct (accepted_tokens s n eh H) as (p & Hr & Hw & Htok & _).
  apply parseWildcard_tokens. apply (forallb_sub tok_ok a b c). rewrite <- Ht, Htok.
  apply (pat_tokens_ok _ ldh_or_us_plain p Hw).
Qed.

Lemma filter_length_app {A} (f : A -> bool) a b : length (filter f (a ++ b)) = length (filter f a) + length (filter f b).
Proof. now rewrite filter_app, app_length. Qed.

Lemma piece_tokens_wilds p : tok_wilds (piece_tokens p) = if has_wild p then 1 else 0.
Proof.
  unfold tok_wilds, piece_tokens, has_wild. rewrite filter_length_app.
  assert (H : length (filter is_wild (map TStatic (p_static p))) = 0) by (induction (p_static p); auto).
  rewrite H. destruct (p_wild p) as [[n|n]|]; reflexivity.
Qed.

Lemma tok_wilds_app a b : tok_wilds (a ++ b) = tok_wilds a + tok_wilds b.
Proof. apply filter_length_app. Qed.

Lemma pat_tokens_wilds p : tok_wilds (pat_tokens p) = wild_count p.
Proof.
  unfold pat_tokens, wild_count. rewrite tok_wilds_app. f_equal.
  - induction (p_host p) as [|l r IH]; [reflexivity|].
    destruct r as [|l2 r'].
    + simpl. rewrite piece_tokens_wilds. destruct (has_wild l); reflexivity.
    + change (join_tokens (map piece_tokens (l :: l2 :: r'))) with (piece_tokens l ++ TStatic "." :: join_tokens (map piece_tokens (l2 :: r'))).
      rewrite tok_wilds_app.
      change (tok_wilds (TStatic "." :: ?x)) with (tok_wilds x).
      rewrite IH, piece_tokens_wilds. simpl. destruct (has_wild l); reflexivity.
  - induction (p_path p) as [|s r IH]; [reflexivity|].
    simpl map. simpl concat.
    change (tok_wilds (TStatic "/" :: ?x)) with (tok_wilds x).
    rewrite tok_wilds_app, IH, piece_tokens_wilds. simpl. destruct (has_wild s); reflexivity.
Qed.

Theorem accepted_count s n eh :
  parseRoute mp mk s = Accept n eh -> n = tok_wilds (tokenize s) /\ eh = host_len s.
Proof.
  intros H. destruct (accepted_tokens s n eh H) as (p & _ & _ & Ht & Hn & He).
  rewrite Ht, pat_tokens_wilds. auto.
Qed.

(* the configured limit on the parameter count, for every string *)
Theorem within_limit s n eh :
  parseRoute mp mk s = Accept n eh -> n <= mp /\ n = tok_wilds (tokenize s).
Proof.
  intros H. destruct (accepted_tokens s n eh H) as (p & _ & Hw & Ht & Hn & _).
  split; [|rewrite Ht, pat_tokens_wilds; exact Hn].
  unfold wf_with in Hw. apply andb_true_iff in Hw. destruct Hw as [_ Hc]. apply Nat.leb_le in Hc. lia.
Qed.

End Limits.

Theorem grammarb_iff mp mk s n eh : grammarb mp mk s = Some (n, eh) <-> in_grammar mp mk s n eh.
Proof. apply (grammarb_with_iff ldh ldh_plain). Qed.

(* the full equivalence is false of the present code: '_' in a hostname label *)
Theorem grammar_refuted :
  exists mp mk s n eh, parseRoute mp mk s = Accept n eh /\ ~ in_grammar mp mk s n eh.
Proof.
  exists 0, 0, (S2B "a_b/"), 0, 3. split; [vm_compute; reflexivity|].
  rewrite <- grammarb_iff. vm_compute. discriminate.
Qed.
